(** C15: case type and checker. *)
From GV Require Export Reconcile Verdict.

Inductive c15case :=
| C15 (pre ls rs : list lent)
      (rec_err : bool) (rec_log : list lent)
      (g : cgraph) (lrefs rrefs : list (bytes * N)) (overwrite : bool)
      (sync_res : nat) (diverged : list bytes) (llog_after : list lent) (lrefs_after : list (bytes * N))
      (rlog_after : list lent) (rrefs_after : list (bytes * N)).

Definition nat_list_eqb (a b : list nat) : bool :=
  Nat.eqb (List.length a) (List.length b) && forallb (fun xy => Nat.eqb (fst xy) (snd xy)) (combine a b).

Definition lent_eqb (a b : lent) : bool :=
  match a, b with
  | LRef r t, LRef r' t' => beq r r' && N.eqb t t'
  | LProp r t u e, LProp r' t' u' e' => beq r r' && N.eqb t t' && beq u u' && N.eqb e e'
  | LAnn ts s, LAnn ts' s' => nat_list_eqb ts ts' && Bool.eqb s s'
  | _, _ => false
  end.

Fixpoint log_eqb (a b : list lent) : bool :=
  match a, b with
  | [], [] => true
  | x :: a', y :: b' => lent_eqb x y && log_eqb a' b'
  | _, _ => false
  end.

(** what an entry means apart from the positions it names *)
Definition core_eqb (a b : lent) : bool :=
  match a, b with
  | LAnn ts s, LAnn ts' s' => Nat.eqb (List.length ts) (List.length ts') && Bool.eqb s s'
  | _, _ => lent_eqb a b
  end.
Fixpoint cores_eqb (a b : list lent) : bool :=
  match a, b with
  | [], [] => true
  | x :: a', y :: b' => core_eqb x y && cores_eqb a' b'
  | _, _ => false
  end.

Fixpoint refs_eqb (a b : list (bytes * N)) : bool :=
  match a, b with
  | [], [] => true
  | (r, v) :: a', (r', v') :: b' => beq r r' && N.eqb v v' && refs_eqb a' b'
  | _, _ => false
  end.

Definition refs_same (a b : list (bytes * N)) : bool :=
  forallb (fun rv => match rlookup b (fst rv) with Some v => N.eqb v (snd rv) | None => false end) a
  && forallb (fun rv => match rlookup a (fst rv) with Some v => N.eqb v (snd rv) | None => false end) b.

Definition bytes_list_same (a b : list bytes) : bool :=
  forallb (fun x => mem_ref x b) a && forallb (fun x => mem_ref x a) b.

(** the reconcile clauses on the implementation's answer *)
Definition reconcile_spec (pre ls rs : list lent) (err : bool) (ol : list lent) : nat :=
  let p := List.length pre in let nr := List.length rs in let nl := List.length ls in
  match reconcile pre ls rs with
  | RConflict => if negb err then 4 else if negb (log_eqb ol (pre ++ ls)) then 5 else 0
  | ROk _ =>
      if err then 0   (* a refusal changes nothing, checked below against the model *)
      else match ls, rs with
           | _ :: _, _ :: _ =>
               if negb (log_eqb (firstn (p + nr) ol) (pre ++ rs)) then 1
               else if negb (Nat.eqb (List.length ol) (p + nr + nl) && cores_eqb (skipn (p + nr) ol) ls) then 2
               else if negb (forallb (fun k => Bool.eqb (skipped ol (p + nr + k)) (skipped (pre ++ ls) (p + k))) (seq 0 nl)
                             && forallb (fun i => Bool.eqb (skipped ol i) (skipped (pre ++ ls) i || skipped (pre ++ rs) i)) (seq 0 p)) then 3
               else 0
           | _, _ => 0
           end
  end.

Definition sync_spec (g : cgraph) (pre ls rs : list lent) (lrefs rrefs : list (bytes * N)) (overwrite : bool)
  (res : nat) (llog_after : list lent) (lrefs_after : list (bytes * N)) (rlog_after : list lent) (rrefs_after : list (bytes * N)) : nat :=
  let tips := latest_tips (List.length pre) rs in
  (* a local reference only ever moves to what its latest unskipped remote-only entry records *)
  if negb (forallb (fun rv => match rlookup lrefs (fst rv) with
                              | Some v0 => N.eqb v0 (snd rv) || match rlookup tips (fst rv) with Some t => N.eqb t (snd rv) | None => false end
                              | None => false
                              end) lrefs_after) then 6
  (* never rewound or overwritten unless told to *)
  else if negb overwrite && negb (forallb (fun rv => match rlookup lrefs (fst rv) with
                                                      | Some v0 => descends g (snd rv) v0
                                                      | None => true end) lrefs_after) then 7
  (* no reference disappears *)
  else if negb (forallb (fun rv => match rlookup lrefs_after (fst rv) with Some _ => true | None => false end) lrefs) then 6
  (* local-only entries are published only together with the references their unskipped entries name *)
  else if negb (log_eqb rlog_after (pre ++ rs))
          && negb (forallb (fun rt => match rlookup rrefs_after (fst rt), rlookup lrefs_after (fst rt) with
                                      | Some a, Some b => N.eqb a b
                                      | _, _ => false end) (latest_tips (List.length pre) ls)) then 8
  else 0.

Definition c15_check (c : c15case) : verdict :=
  match c with
  | C15 pre ls rs rec_err rec_log g lrefs rrefs overwrite sres dv llog_after lrefs_after rlog_after rrefs_after =>
      match reconcile_spec pre ls rs rec_err rec_log with
      | 0 =>
          match sync_spec g pre ls rs lrefs rrefs overwrite sres llog_after lrefs_after rlog_after rrefs_after with
          | 0 =>
              let rec_ok := match reconcile pre ls rs with
                            | ROk l => negb rec_err && log_eqb rec_log l
                            | RConflict => rec_err && log_eqb rec_log (pre ++ ls)
                            end in
              let s0 := {| s_llog := pre ++ ls; s_lrefs := lrefs; s_rlog := pre ++ rs; s_rrefs := rrefs |} in
              let sync_ok := match sync g pre ls rs s0 overwrite with
                             | SOk s => Nat.eqb sres 0 && log_eqb llog_after (s_llog s) && refs_same lrefs_after (s_lrefs s)
                                        && log_eqb rlog_after (s_rlog s) && refs_same rrefs_after (s_rrefs s)
                             | SDiverged refs s => Nat.eqb sres 1 && bytes_list_same dv refs && log_eqb llog_after (s_llog s)
                                        && refs_same lrefs_after (s_lrefs s) && log_eqb rlog_after (s_rlog s) && refs_same rrefs_after (s_rrefs s)
                             end in
              if negb rec_ok then VMismatch 1 else if negb sync_ok then VMismatch 2 else VOk
          | n => VSpec n
          end
      | n => VSpec n
      end
  end.
