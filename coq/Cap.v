(** C20 model, abstract part: an object-capability machine.  A script holds a set of values; it
    can obtain a value a held value leads to (field read, method lookup through __index, function
    environment, call result - the edge relation), store a held value into a held object (a new
    edge between held values), or create a fresh object. *)
From Coq Require Import List.
Import ListNotations.

Section Cap.
Variable node : Type.

Record st := { edges : node -> node -> Prop; held : node -> Prop; fresh : node -> Prop }.

Inductive op := ORead (a b : node) | OWrite (a b : node) | OFresh (n : node).

Inductive step : st -> op -> st -> Prop :=
| SRead s a b : held s a -> edges s a b ->
    step s (ORead a b) {| edges := edges s; held := fun x => held s x \/ x = b; fresh := fresh s |}
| SWrite s a b : held s a -> held s b ->
    step s (OWrite a b) {| edges := fun x y => edges s x y \/ (x = a /\ y = b); held := held s; fresh := fresh s |}
| SFresh s n : (forall m, ~ edges s n m) ->
    step s (OFresh n) {| edges := edges s; held := fun x => held s x \/ x = n; fresh := fun x => fresh s x \/ x = n |}.

Inductive steps : st -> list op -> st -> Prop :=
| steps_nil s : steps s [] s
| steps_cons s o s1 os s2 : step s o s1 -> steps s1 os s2 -> steps s (o :: os) s2.

(** [C] is closed under the initial edges and contains what the script starts with *)
Variable C : node -> Prop.

Definition Inv (s : st) : Prop :=
  (forall x, held s x -> C x \/ fresh s x) /\
  (forall a b, (C a \/ fresh s a) -> edges s a b -> C b \/ fresh s b).

Lemma step_inv s o s' : step s o s' -> Inv s -> Inv s'.
Proof.
  intros Hs [Hh Hc]. destruct Hs as [s a b Ha Hab|s a b Ha Hb|s n Hn]; split; cbn.
  - intros x [Hx| ->]; [apply Hh, Hx|]. apply (Hc a b); [apply Hh, Ha|exact Hab].
  - exact Hc.
  - exact Hh.
  - intros x y Hx [Hxy|[-> ->]]; [apply (Hc x y); assumption|apply Hh, Hb].
  - intros x [Hx| ->]; [destruct (Hh x Hx); auto|auto].
  - intros x y [Hx|[Hx| ->]] Hxy.
    + destruct (Hc x y (or_introl Hx) Hxy); auto.
    + destruct (Hc x y (or_intror Hx) Hxy); auto.
    + destruct (Hn y Hxy).
Qed.

(** every program: whatever sequence of operations a script performs, every value it ever holds is
    in the closure it started from or an object it created itself *)
Theorem confinement s0 ops s :
  (forall x, held s0 x -> C x) -> (forall a b, C a -> edges s0 a b -> C b) -> (forall x, ~ fresh s0 x) ->
  steps s0 ops s -> forall x, held s x -> C x \/ fresh s x.
Proof.
  intros H0 Hc Hf Hsteps.
  assert (HI : Inv s0).
  { split; [intros x Hx; left; apply H0, Hx|]. intros a b [Ha|Ha] Hab; [left; apply (Hc a b); assumption|destruct (Hf a Ha)]. }
  clear H0 Hc Hf. induction Hsteps as [s|s o s1 os s2 Hstep _ IH]; [apply HI|]. apply IH, (step_inv _ _ _ Hstep HI).
Qed.

(** objects a script creates are created by OFresh steps of that very program *)
Lemma fresh_only_by_ops s0 ops s : steps s0 ops s -> forall x, fresh s x -> fresh s0 x \/ In (OFresh x) ops.
Proof.
  induction 1 as [s|s o s1 os s2 Hstep _ IH]; intros x Hx; [left; exact Hx|].
  destruct (IH x Hx) as [H1|H1]; [|right; right; exact H1].
  destruct Hstep; cbn in H1; try (left; exact H1).
  destruct H1 as [H1| ->]; [left; exact H1|right; left; reflexivity].
Qed.
End Cap.
