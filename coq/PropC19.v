(** Property C19 — mergeability predictions agree with verification of the predicted merge.
    Only statements here; proofs are in C19Proofs.v. *)
From GV Require Import Mergeable C19Check C19Proofs C19Exact WorldExamples.

(** What the delegation part of the prediction means: it names one verifier of the branch, says
    "no signature needed" only when that verifier's threshold is already met by the approvals, and
    "signature needed" only when it is short by exactly one (and the threshold is above one). *)
Theorem C19_prediction_meaning : forall vs env s need, first_mergeable vs env = Some (s, need) ->
  exists v, In v vs /\
    ((verify (vrec_verifier v) false 0%N env = VOkSet s /\ need = false) \/
     (verify (vrec_verifier v) false 0%N env = VErr EUnmet s /\
      (((vr_thr v <= Z.of_nat (List.length s))%Z /\ need = false) \/ (short_by_recorder v s /\ need = true)))).
Proof. exact first_mergeable_sound. Qed.
Print Assumptions C19_prediction_meaning.

(** A recorder that holds no key of the rule — unsigned, unknown key, unauthorised principal —
    leaves the verifier's answer exactly what the prediction computed: "no signature needed" still
    verifies, "signature needed" still fails. *)
Theorem C19_outsider_changes_nothing : forall v k env,
  git_phase (v_principals v) k = None -> verify v true k env = verify v false 0%N env.
Proof. exact outsider_changes_nothing. Qed.
Print Assumptions C19_outsider_changes_nothing.

Theorem C19_unsigned_is_outsider : forall ps, git_phase ps 0%N = None.
Proof. exact git_phase_unsigned. Qed.
Print Assumptions C19_unsigned_is_outsider.

Theorem C19_unauthorised_is_outsider : forall ps k,
  (forall p, In p ps -> mem k (p_keys p) = false) -> git_phase ps k = None.
Proof. exact git_phase_none. Qed.
Print Assumptions C19_unauthorised_is_outsider.

(** C19_refuted (finding K6), for every rule and not only a sample: with no approvals the check
    never answers "possible" for a protected branch, whatever the thresholds ... *)
Theorem C19_refuted_no_approvals_never_possible : forall vs, first_mergeable vs None = None.
Proof. exact no_approvals_never_mergeable. Qed.
Print Assumptions C19_refuted_no_approvals_never_possible.

(** ... although every threshold-1 verifier accepts the merge recorded by any of its key holders. *)
Theorem C19_refuted_threshold_one_verifies : forall v k env,
  v_threshold v = 1%Z -> v_exhaustive v = false -> k <> 0%N ->
  (exists p, In p (v_principals v) /\ mem k (p_keys p) = true) ->
  exists p, In p (v_principals v) /\ mem k (p_keys p) = true /\ verify v true k env = VOkSet [p_id p].
Proof. exact threshold_one_recorder_verifies. Qed.
Print Assumptions C19_refuted_threshold_one_verifies.

(** The same on whole histories: "not possible", then the recorded merge verifies. *)
Theorem C19_refuted_K6 :
  verify_mergeable w_k6 mainref 3%N = MNotPossible /\ verify_full (with_merge w_k6 mainref 3%N 4%N) mainref = VTip 3%N.
Proof. exact k6_refuted. Qed.
Print Assumptions C19_refuted_K6.

(** C19_refuted (finding K9): the rule is met by approvals and a global threshold is short by one
    principal; the global threshold is only relaxed when the rule itself needed the recorder. *)
Theorem C19_refuted_K9 :
  verify_mergeable w_k9 mainref 3%N = MNotPossible /\ verify_full (with_merge w_k9 mainref 3%N 4%N) mainref = VTip 3%N.
Proof. exact k9_refuted. Qed.
Print Assumptions C19_refuted_K9.

(** C19_refuted for principals that share keys: a recorder's signature can raise the count by more
    than one, so "not possible" (one of three) becomes three of three. *)
Theorem C19_refuted_shared_keys :
  verify v_shared false 0%N (env_of [12%N; 13%N]) = VErr EUnmet [1%N] /\
  verify v_shared true 11%N (env_of [12%N; 13%N]) = VOkSet [1%N; 2%N; 3%N].
Proof. exact shared_keys_refuted. Qed.
Print Assumptions C19_refuted_shared_keys.

(** Non-vacuity: histories on which the three-way statement holds as written. *)
Example C19_signature_needed_example :
  verify_mergeable (w_need [5%N]) mainref 3%N = MPossible true /\
  verify_full (with_merge (w_need [5%N]) mainref 3%N 4%N) mainref = VTip 3%N /\
  verify_full (with_merge (w_need [5%N]) mainref 3%N 5%N) mainref = VFail VEViolation /\
  verify_full (with_merge (w_need [5%N]) mainref 3%N 9%N) mainref = VFail VEViolation /\
  verify_full (with_merge (w_need [5%N]) mainref 3%N 0%N) mainref = VFail VEViolation /\
  verify_mergeable (w_need [5%N; 6%N]) mainref 3%N = MPossible false /\
  verify_full (with_merge (w_need [5%N; 6%N]) mainref 3%N 0%N) mainref = VTip 3%N.
Proof. exact need_example. Qed.

(** The "signature needed" clause at the verifier, for principals that each hold one key and share
    none ([simple]), a non-empty approval envelope and a threshold above one.  [cred] is what the
    approvals alone credit.  A recorder whose key belongs to a principal of the rule that is not
    yet credited makes the verifier accept whenever the approvals were short by one ... *)
Theorem C19_uncounted_authorised_recorder_verifies : forall v sigs,
  simple (v_principals v) -> sigs <> [] -> v_exhaustive v = false -> (1 < v_threshold v)%Z -> v_principals v <> [] ->
  forall g p, In p (v_principals v) -> key_of p = g -> ~ In (p_id p) (cred (v_principals v) sigs []) ->
  (v_threshold v - 1 <= Z.of_nat (List.length (cred (v_principals v) sigs [])))%Z ->
  exists s, verify v true g (Some sigs) = VOkSet s.
Proof. exact recorder_adds_one. Qed.
Print Assumptions C19_uncounted_authorised_recorder_verifies.

(** ... a recorder whose principal the approvals already credit gains nothing ... *)
Theorem C19_counted_recorder_gains_nothing : forall v sigs,
  simple (v_principals v) -> sigs <> [] -> v_exhaustive v = false -> (1 < v_threshold v)%Z -> v_principals v <> [] ->
  forall g p, In p (v_principals v) -> key_of p = g -> In (p_id p) (cred (v_principals v) sigs []) ->
  ~ (v_threshold v <= Z.of_nat (List.length (cred (v_principals v) sigs [])))%Z ->
  exists s, verify v true g (Some sigs) = VErr EUnmet s.
Proof. exact counted_recorder_adds_nothing. Qed.
Print Assumptions C19_counted_recorder_gains_nothing.

(** ... and what the approvals alone give is exactly [cred] (so "short by one" is a statement about
    [cred]); outsiders are covered by C19_outsider_changes_nothing. *)
Theorem C19_approvals_alone : forall v sigs,
  simple (v_principals v) -> sigs <> [] -> v_exhaustive v = false -> (1 < v_threshold v)%Z -> v_principals v <> [] ->
  verify v false 0%N (Some sigs) =
  if (v_threshold v <=? Z.of_nat (List.length (cred (v_principals v) sigs [])))%Z
  then VOkSet (cred (v_principals v) sigs []) else VErr EUnmet (cred (v_principals v) sigs []).
Proof. exact verify_without. Qed.
Print Assumptions C19_approvals_alone.

(** C19_partial.  Not proved: the lift of these verifier-level facts through the whole verification
    loop (the recorded merge is the only new entry, policy and approvals unchanged) and the global
    rule reduction.  Those are evaluated, for every generated policy, approval set and candidate
    recorder, on the implementation's answers by c19_check. *)
