(** C10 logic model: which commits and paths a reference entry's file-rule check covers
    (internal/policy/verify.go verifyEntry 883-908, getCommits; pkg/gitinterface/changes.go,
    log.go) and how each path is judged (verifyGitObjectAndAttestations with the trusted-verifier
    shortcut).  Policies without global rules. *)
From GV Require Export World.
From Coq Require Import Strings.String.

Definition FileScheme : bytes := Eval compute in bs "file:"%string.
Definition AllowRuleNameW : bytes := Eval compute in bs "gittuf-allow-rule"%string.

Definition ftree := list (bytes * N).            (* full path -> blob id, one entry per regular file *)
Record fcommit := { fc_tree : ftree; fc_parents : list N; fc_signer : key }.
Definition fgraph := list (N * fcommit).

Fixpoint glookup (g : fgraph) (c : N) : option fcommit :=
  match g with [] => None | (d, i) :: g' => if N.eqb c d then Some i else glookup g' c end.
Fixpoint tlookup (t : ftree) (p : bytes) : option N :=
  match t with [] => None | (q, b) :: t' => if beq p q then Some b else tlookup t' p end.

Definition opt_eqb (a b : option N) : bool :=
  match a, b with Some x, Some y => N.eqb x y | None, None => true | _, _ => false end.

(** byte-wise order of paths (Go's string order; the order of git's recursive listings) *)
Fixpoint ble (a b : bytes) : bool :=
  match a, b with
  | [], _ => true
  | _ :: _, [] => false
  | x :: a', y :: b' => if Byte.eqb x y then ble a' b' else (Byte.to_N x <? Byte.to_N y)%N
  end.
Fixpoint insert_path (p : bytes) (l : list bytes) : list bytes :=
  match l with
  | [] => [p]
  | q :: l' => if beq p q then l else if ble p q then p :: l else q :: insert_path p l'
  end.
Definition sort_paths (l : list bytes) : list bytes := fold_right insert_path [] l.

(** paths added, deleted or modified between two trees (diff-tree -r --name-only) *)
Definition diff_paths (a b : ftree) : list bytes :=
  sort_paths (filter (fun p => negb (opt_eqb (tlookup a p) (tlookup b p))) (map fst a ++ map fst b)).

Definition tree_of_commit (g : fgraph) (c : N) : ftree :=
  match glookup g c with Some i => fc_tree i | None => [] end.

(** GetFilePathsChangedByCommit *)
Definition changed_paths (g : fgraph) (c : N) : list bytes :=
  match glookup g c with
  | None => []
  | Some i =>
      match fc_parents i with
      | [] => sort_paths (map fst (fc_tree i))
      | [p] => diff_paths (tree_of_commit g p) (fc_tree i)
      | ps =>
          match diff_paths (tree_of_commit g (last ps 0%N)) (fc_tree i) with
          | [] => []
          | _ => sort_paths (flat_map (fun p => diff_paths (tree_of_commit g p) (fc_tree i)) ps)
          end
      end
  end.

(** commits reachable from [c] *)
Fixpoint reach (g : fgraph) (fuel : nat) (c : N) : list N :=
  match fuel with
  | 0 => [c]
  | S f => c :: match glookup g c with Some i => flat_map (reach g f) (fc_parents i) | None => [] end
  end.
Definition reachable (g : fgraph) (c : N) : list N := nodup N.eq_dec (reach g (List.length g) c).

(** GetCommitsBetweenRange new old (old = None: the ref's first entry) *)
Definition new_commits (g : fgraph) (new : N) (old : option N) : list N :=
  match old with
  | None => reachable g new
  | Some o => filter (fun c => negb (existsb (N.eqb c) (reachable g o))) (reachable g new)
  end.

(** the first verifier, in order, that the object's signature and the approvals satisfy *)
Fixpoint first_satisfied_name (vs : list vrec) (signer : key) (env : option (list sigrec)) : option bytes :=
  match vs with
  | [] => None
  | v :: vs' =>
      match verify (vrec_verifier v) true signer env with
      | VOkSet _ => Some (vr_name v)
      | VErr EUnmet _ => first_satisfied_name vs' signer env
      | VErr _ _ => None
      end
  end.

(** one path: [vu] is the verifier already used for this commit; result None = rejected *)
Definition verify_path (pol : policy) (path : bytes) (signer : key) (env : option (list sigrec)) (vu : option bytes)
  : option (option bytes) :=
  match find_verifiers pol (FileScheme ++ path) with
  | WOk [] => Some None
  | WOk vs =>
      let full := match first_satisfied_name vs signer env with Some n => Some (Some n) | None => None end in
      match vu with
      | Some n => if existsb (fun v => beq (vr_name v) n) vs then Some (Some n) else full
      | None => full
      end
  | _ => None
  end.

Fixpoint verify_paths (pol : policy) (paths : list bytes) (signer : key) (env : option (list sigrec)) (vu : option bytes) : bool :=
  match paths with
  | [] => true
  | p :: ps => match verify_path pol p signer env vu with
               | Some vu' => verify_paths pol ps signer env vu'
               | None => false
               end
  end.

Definition verify_commit_files (pol : policy) (g : fgraph) (env : option (list sigrec)) (c : N) : bool :=
  match glookup g c with
  | Some i => verify_paths pol (changed_paths g c) (fc_signer i) env None
  | None => false
  end.

(** the hasFileRule gate: some rule of some rule file (reachable or not) names a file: pattern *)
Definition has_file_rule (ps : pstate) : bool :=
  existsb (fun nf => existsb (fun r => negb (beq (r_name r) AllowRuleNameW) && existsb (has_prefix FileScheme) (r_patterns r))
                             (f_rules (sf_file (snd nf)))) (ps_files ps).

Definition entry_files_ok (ps : pstate) (g : fgraph) (env : option (list sigrec)) (new : N) (old : option N) : bool :=
  negb (has_file_rule ps) || forallb (verify_commit_files (policy_of ps) g env) (new_commits g new old).

(** ** whole verification of a reference, for histories of the shape the C10 harness builds: one
    policy entry first, then only reference and attestation entries, and no two entries of the
    reference carry the same tree (so a violation can never be "fixed" by a later entry) *)
Record fworld := { fw_world : world; fw_graph : fgraph }.

Definition entry_env (w : world) (i : nat) (ref : bytes) (commit : N) : option (option (list sigrec)) :=
  let az := match attest_before w i with
            | None => AzNone
            | Some auths =>
                let from := match latest_for w ref i false false with Some (_, e) => entry_target e | None => 0%N end in
                let to := match lookup_commit (w_commits w) commit with Some c => ci_tree c | None => 0%N end in
                find_authz auths ref from to
            end in
  match az with
  | AzInvalid => None
  | AzEnv s => Some (env_of s)
  | AzNone => Some None
  end.

Definition file_ok_entry (fw : fworld) (ps : pstate) (i : nat) (ref : bytes) (commit : N) : bool :=
  let w := fw_world fw in
  match entry_env w i ref commit with
  | None => false
  | Some env =>
      let old := match latest_for w ref i false false with Some (_, e) => Some (entry_target e) | None => None end in
      entry_files_ok ps (fw_graph fw) env commit old
  end.

Definition c10_shape (w : world) (ref : bytes) : bool :=
  match w_log w with
  | WEPolicy ps :: rest =>
      forallb (fun e => match e with WERef _ _ _ | WEAttest _ => true | _ => false end) rest
      && (match ps_globals ps with [] => true | _ => false end)
      && (let trees := flat_map (fun e => match e with
                                          | WERef r c _ => if beq r ref then match lookup_commit (w_commits w) c with Some i => [ci_tree i] | None => [0%N] end else []
                                          | _ => [] end) rest in
          Nat.eqb (List.length (nodup N.eq_dec trees)) (List.length trees))
  | _ => false
  end.

Definition verify_full_files (fw : fworld) (ref : bytes) : vout :=
  let w := fw_world fw in
  match verify_full w ref with
  | VTip c =>
      match load_state w 0 with
      | Some ps =>
          if forallb (fun ie => match snd ie with
                                | WERef r cm _ => negb (beq r ref) || file_ok_entry fw ps (fst ie) r cm
                                | _ => true
                                end) (indexed w)
          then VTip c else VFail VEViolation
      | None => VFail VEPolicy
      end
  | f => f
  end.
