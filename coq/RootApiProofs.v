(** C12 proofs, API level. *)
From GV Require Import World RootApi.

(** The guard: a mutator call that changes the root of trust was made by a root principal of the
    state being edited. *)
Theorem edit_needs_root_signer ps signer o ps' :
  is_edit o = true -> root_edit ps signer o = inr ps' -> kmem signer (ps_root_keys ps) = true.
Proof.
  intros He H. destruct o; try discriminate He; cbn [root_edit] in H;
    destruct (kmem signer (ps_root_keys ps)); try reflexivity; discriminate H.
Qed.

(** ... and a call by anybody else is refused and changes nothing. *)
Theorem outsider_refused s signer o :
  is_edit o = true -> kmem signer (ps_root_keys (ap_staged s)) = false -> api_step s signer o = (Some EUnauthorized, s).
Proof.
  intros He Hk. destruct o; try discriminate He; cbn [api_step root_edit]; rewrite Hk; reflexivity.
Qed.

(** InitializeRoot never replaces an existing root of trust. *)
Theorem reinit_refused s signer : api_step s signer RInit = (Some EReinit, s).
Proof. reflexivity. Qed.

(** Whatever the API does, the policy moves only through Apply, and then only to the staged state
    when it verifies and is a valid successor of the applied one. *)
Theorem applied_moves_only_by_apply s signer o e s' :
  api_step s signer o = (e, s') ->
  ap_applied s' = ap_applied s \/
  (o = RApply /\ e = None /\ ap_applied s' = ap_staged s /\ state_verify (ap_staged s) = true /\
   verify_new_state (ap_applied s) (ap_staged s) = true).
Proof.
  destruct o; cbn [api_step]; try (destruct (root_edit _ _ _); intros [= <- <-]; left; reflexivity).
  unfold apply_accepts. destruct (state_verify (ap_staged s)) eqn:E1; cbn [andb]; [|intros [= <- <-]; left; reflexivity].
  destruct (verify_new_state (ap_applied s) (ap_staged s)) eqn:E2; cbn [andb]; [|intros [= <- <-]; left; reflexivity].
  destruct (state_verify (ap_applied s)); intros [= <- <-]; [right; repeat split; reflexivity|left; reflexivity].
Qed.

Lemma chain_ok_snoc' : forall rest p0 last k ps, chain_ok p0 rest = Some last -> verify_new_state last ps = true ->
  chain_ok p0 (rest ++ [(k, ps)]) = Some ps.
Proof.
  induction rest as [|[j q] rest IH]; intros p0 last k ps; cbn [chain_ok app].
  - intros [= <-] H. now rewrite H.
  - destruct (verify_new_state p0 q); [|discriminate]. apply IH.
Qed.

(** invariant: the published states chain from the first one to the applied one, which verifies *)
Definition ApiInv (s : apistate) : Prop :=
  chain_ok (ap_first s) (ap_published s) = Some (ap_applied s) /\ state_verify (ap_applied s) = true.

Lemma api_step_inv s signer o e s' : ApiInv s -> api_step s signer o = (e, s') -> ApiInv s'.
Proof.
  intros [Hc Hv] H.
  assert (Hedit : forall o', o' = o -> is_edit o = true \/ o = RSign \/ o = RInit -> ApiInv s').
  { intros o' _ Ho. assert (Hs : api_step s signer o = match root_edit (ap_staged s) signer o with
       | inl e0 => (Some e0, s)
       | inr ps' => (None, {| ap_first := ap_first s; ap_applied := ap_applied s; ap_staged := ps'; ap_published := ap_published s |}) end).
    { destruct Ho as [Ho|[Ho|Ho]]; destruct o; try discriminate Ho; reflexivity. }
    rewrite Hs in H. destruct (root_edit (ap_staged s) signer o); injection H as _ <-; split; cbn [ap_first ap_published ap_applied]; assumption. }
  destruct o; try (apply (Hedit _ eq_refl); auto; fail).
  cbn [api_step] in H. unfold apply_accepts in H.
  destruct (state_verify (ap_staged s)) eqn:E1; cbn [andb] in H; [|injection H as _ <-; split; assumption].
  destruct (verify_new_state (ap_applied s) (ap_staged s)) eqn:E2; cbn [andb] in H; [|injection H as _ <-; split; assumption].
  rewrite Hv in H. injection H as _ <-.
  split; cbn [ap_first ap_published ap_applied]; [|exact E1]. exact (chain_ok_snoc' _ _ _ 0 _ Hc E2).
Qed.

(** For every sequence of mutator calls by any signers and Apply calls, starting from a state that
    verifies: every published state is a valid successor of the one before it and verifies - it is
    what LoadState demands of the chain of policy entries. *)
Theorem api_published_always_loadable : forall steps p0 es s,
  state_verify p0 = true -> api_run (api_init p0) steps = (es, s) ->
  chain_ok p0 (ap_published s) = Some (ap_applied s) /\ state_verify (ap_applied s) = true.
Proof.
  intros steps p0 es s Hv H.
  assert (G : forall steps s0 es s1, ApiInv s0 -> api_run s0 steps = (es, s1) -> ApiInv s1 /\ ap_first s1 = ap_first s0).
  { clear. induction steps as [|[k o] steps IH]; intros s0 es s1 Hi H; cbn [api_run] in H.
    - injection H as _ <-. split; [assumption|reflexivity].
    - destruct (api_step s0 k o) as [e sa] eqn:Es. destruct (api_run sa steps) as [es2 sb] eqn:Er. injection H as _ <-.
      destruct (IH sa es2 sb (api_step_inv _ _ _ _ _ Hi Es) Er) as [Hb Hf]. split; [assumption|].
      rewrite Hf. destruct o; cbn [api_step] in Es; try (destruct (root_edit _ _ _); injection Es as _ <-; reflexivity).
      destruct (apply_accepts s0); injection Es as _ <-; reflexivity. }
  destruct (G steps (api_init p0) es s) as [[Hc Hs] Hf]; [split; [reflexivity|exact Hv]|exact H|].
  cbn in Hf. rewrite Hf in Hc. split; assumption.
Qed.
