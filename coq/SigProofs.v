(** C05 proofs: every accepted set is justified by an injective assignment of own, validly signing
    keys (at most one via the Git signature); degenerate verifiers are never satisfied. *)
From GV Require Import Sig.

Lemma mem_In x l : mem x l = true <-> In x l.
Proof.
  unfold mem. rewrite existsb_exists. split.
  - intros (y & Hy & E). apply N.eqb_eq in E. now subst.
  - intros H. exists x. split; [assumption|apply N.eqb_refl].
Qed.

Lemma mem_false x l : mem x l = false <-> ~ In x l.
Proof. rewrite <- mem_In. destruct (mem x l); split; congruence. Qed.

Lemma NoDup_snoc {A} (l : list A) x : NoDup l -> ~ In x l -> NoDup (l ++ [x]).
Proof.
  induction l as [|y l IH]; cbn; intros H Hx; [repeat constructor; auto|].
  inversion H; subst. constructor.
  - rewrite in_app_iff. intros [Hy|[<-|[]]]; [contradiction|]. apply Hx. now left.
  - apply IH; [assumption|]. intros Hy. apply Hx. now right.
Qed.

(** *** the envelope verifier *)
Lemma take_provider_spec provs s k rest :
  take_provider provs s = Some (k, rest) -> In k provs /\ provider_accepts k s = true /\ incl rest provs.
Proof.
  revert k rest; induction provs as [|p provs IH]; intros k rest; cbn; [discriminate|].
  destruct (provider_accepts p s) eqn:E.
  - intros [= <- <-]. repeat split; [now left|assumption|]. intros x Hx. now right.
  - destruct (take_provider provs s) as [[k' rest']|]; [|discriminate]. intros [= <- <-].
    destruct (IH _ _ eq_refl) as (H1 & H2 & H3). repeat split; [now right|assumption|].
    intros x [<-|Hx]; [now left|right; now apply H3].
Qed.

Lemma dsse_accept_spec sigs : forall provs k, In k (dsse_accept provs sigs) ->
  In k provs /\ exists s, In s sigs /\ provider_accepts k s = true.
Proof.
  induction sigs as [|s sigs IH]; intros provs k; cbn; [contradiction|].
  destruct (take_provider provs s) as [[k' rest]|] eqn:E.
  - destruct (take_provider_spec _ _ _ _ E) as (H1 & H2 & H3). intros [<-|Hin].
    + split; [assumption|]. exists s. split; [now left|assumption].
    + destruct (IH _ _ Hin) as (Hr & s' & Hs' & Ha). split; [now apply H3|]. exists s'. split; [now right|assumption].
  - intros Hin. destruct (IH _ _ Hin) as (Hr & s' & Hs' & Ha). split; [assumption|]. exists s'. split; [now right|assumption].
Qed.

(** a valid signature by one of a verifier's own keys *)
Definition env_signed (sigs : list sigrec) (k : key) : Prop :=
  exists s, In s sigs /\ s_signer s = k /\ s_valid s = true /\ k <> 0%N /\ (s_hint s = 0%N \/ s_hint s = k).

Lemma provider_accepts_signed sigs k s : In s sigs -> provider_accepts k s = true -> env_signed sigs k.
Proof.
  unfold provider_accepts. intros Hin H. apply andb_true_iff in H as [H Hk]. apply andb_true_iff in H as [H Hv].
  apply andb_true_iff in H as [Hh Hs]. apply N.eqb_eq in Hs. apply negb_true_iff in Hk. apply N.eqb_neq in Hk.
  exists s. repeat split; try assumption. apply orb_true_iff in Hh as [Hh|Hh]; apply N.eqb_eq in Hh; auto.
Qed.

(** *** witness invariant of the envelope phase *)
Record winv (ps : list principal) (sigs : list sigrec) (used_p : list pid) (used_k : list key) (w : list (pid * key)) : Prop := {
  wi_fst : map fst w = used_p;
  wi_ndp : NoDup used_p;
  wi_ndk : NoDup (map snd w);
  wi_sub : incl (map snd w) used_k }.

Definition justified_env (ps : list principal) (sigs : list sigrec) (pk : pid * key) : Prop :=
  (exists pr, In pr ps /\ p_id pr = fst pk /\ In (snd pk) (p_keys pr)) /\ env_signed sigs (snd pk).

Lemma env_phase_spec all sigs : forall ps used_p used_k w used_p' used_k' w',
  incl ps all ->
  env_phase ps sigs used_p used_k w = Some (used_p', used_k', w') ->
  winv all sigs used_p used_k w ->
  winv all sigs used_p' used_k' w' /\ exists wn, w' = w ++ wn /\ Forall (justified_env all sigs) wn.
Proof.
  induction ps as [|p ps IH]; intros used_p used_k w used_p' used_k' w' Hincl; cbn [env_phase].
  - intros [= <- <- <-] Hi. split; [assumption|]. exists []. split; [now rewrite app_nil_r|constructor].
  - assert (Hincl' : incl ps all) by (intros x Hx; apply Hincl; now right).
    destruct (mem (p_id p) used_p) eqn:Em; [now apply IH|].
    destruct (filter (fun k => negb (mem k used_k)) (p_keys p)) as [|k0 provs] eqn:Ef; [now apply IH|].
    destruct sigs as [|s0 sigs']; [discriminate|].
    destruct (dsse_accept (k0 :: provs) (s0 :: sigs')) as [|k ks] eqn:Ed; [now apply IH|].
    intros H Hi.
    assert (Hk : In k (dsse_accept (k0 :: provs) (s0 :: sigs'))) by (rewrite Ed; now left).
    apply dsse_accept_spec in Hk as (Hkp & s & Hs & Ha). rewrite <- Ef in Hkp. apply filter_In in Hkp as [Hkeys Hnu].
    apply negb_true_iff, mem_false in Hnu. apply mem_false in Em.
    destruct Hi as [H1 H2 H3 H4].
    apply IH in H; [|assumption|].
    + destruct H as (Hi' & wn & -> & Hf). split; [assumption|]. exists ((p_id p, k) :: wn).
      split; [now rewrite <- app_assoc|]. constructor; [|assumption]. split.
      * exists p. repeat split; [apply Hincl; now left|assumption].
      * eapply provider_accepts_signed; eauto.
    + constructor.
      * rewrite map_app, H1. reflexivity.
      * apply NoDup_snoc; assumption.
      * rewrite map_app. cbn. apply NoDup_snoc; [assumption|]. intros Hx. apply Hnu. now apply H4.
      * rewrite map_app. cbn. intros x Hx. apply in_app_iff in Hx as [Hx|[<-|[]]]; apply in_app_iff; [left; now apply H4|right; now left].
Qed.

Lemma git_phase_spec ps g p k : git_phase ps g = Some (p, k) ->
  k = g /\ g <> 0%N /\ exists pr, In pr ps /\ p_id pr = p /\ In k (p_keys pr).
Proof.
  induction ps as [|pr ps IH]; cbn; [discriminate|].
  destruct (negb (N.eqb g 0) && mem g (p_keys pr)) eqn:E.
  - intros [= <- <-]. apply andb_true_iff in E as [E1 E2]. apply negb_true_iff, N.eqb_neq in E1. apply mem_In in E2.
    repeat split; try assumption. exists pr. repeat split; [now left|assumption].
  - intros H. destruct (IH H) as (H1 & H2 & pr' & H3 & H4 & H5). repeat split; try assumption.
    exists pr'. repeat split; [now right|assumption|assumption].
Qed.

(** the statement: an accepted set [S] comes with an assignment [W] of distinct own keys, the
    first of which (only) may be justified by the Git signature, all others by valid envelope
    signatures over this payload *)
Definition justified_git (v : verifier) (has_git : bool) (gitsig : key) (pk : pid * key) : Prop :=
  has_git = true /\ snd pk = gitsig /\ gitsig <> 0%N /\
  exists pr, In pr (v_principals v) /\ p_id pr = fst pk /\ In (snd pk) (p_keys pr).

Definition sigs_of (env : option (list sigrec)) : list sigrec := match env with Some s => s | None => [] end.

Theorem verify_sound v hg g env S W :
  verify_w v hg g env = (VOkSet S, W) ->
  S = map fst W /\ NoDup S /\ NoDup (map snd W) /\
  (exists wg we, W = wg ++ we /\ List.length wg <= 1 /\
     Forall (justified_git v hg g) wg /\ Forall (justified_env (v_principals v) (sigs_of env)) we) /\
  (v_exhaustive v = false -> (v_threshold v <= Z.of_nat (List.length S))%Z) /\
  (1 <= v_threshold v)%Z /\ v_principals v <> [].
Proof.
  unfold verify_w. destruct ((v_threshold v <? 1)%Z || Nat.eqb (List.length (v_principals v)) 0) eqn:Einv; [discriminate|].
  apply orb_false_iff in Einv as [Et Ep]. apply Z.ltb_ge in Et.
  assert (Hne : v_principals v <> []) by (destruct (v_principals v); [discriminate|discriminate]).
  set (gp := if hg then git_phase (v_principals v) g else None).
  assert (Hg : match gp with
               | Some (p, k) => justified_git v hg g (p, k)
               | None => True end).
  { unfold gp. destruct hg; [|exact I]. destruct (git_phase (v_principals v) g) as [[p k]|] eqn:E; [|exact I].
    apply git_phase_spec in E as (E1 & E2 & pr & E3 & E4 & E5). repeat split; try assumption. exists pr. auto. }
  assert (Hthr : forall n, v_exhaustive v || (v_threshold v <=? Z.of_nat n)%Z = true ->
                 v_exhaustive v = false -> (v_threshold v <= Z.of_nat n)%Z).
  { intros n H Hex. rewrite Hex in H. cbn in H. now apply Z.leb_le. }
  destruct gp as [[p k]|] eqn:Egp.
  - (* a principal was credited for the Git signature *)
    assert (Hi0 : winv (v_principals v) (sigs_of env) [p] [k] [(p, k)]).
    { constructor; cbn; [reflexivity|repeat constructor; auto|repeat constructor; auto|intros x Hx; exact Hx]. }
    destruct (negb (v_exhaustive v) && (v_threshold v =? 1)%Z && true) eqn:Eearly.
    + intros [= <- <-]. apply andb_true_iff in Eearly as [Eearly _]. apply andb_true_iff in Eearly as [_ E1]. apply Z.eqb_eq in E1.
      refine (conj eq_refl (conj _ (conj _ (conj (ex_intro _ [(p, k)] (ex_intro _ [] (conj eq_refl (conj _ (conj _ _))))) (conj _ (conj Et Hne)))))).
      all: try (cbn; lia); try (intros _; cbn; lia); try (cbn; repeat constructor; easy);
        try (constructor; [exact Hg|constructor]).
    + destruct env as [sigs|].
      * destruct (env_phase (v_principals v) sigs [p] [k] [(p, k)]) as [[[up' uk'] w']|] eqn:Ee; [|discriminate].
        apply (env_phase_spec (v_principals v) sigs) in Ee; [|apply incl_refl|exact Hi0].
        destruct Ee as ([H1 H2 H3 H4] & wn & -> & Hf).
        destruct (v_exhaustive v || (v_threshold v <=? Z.of_nat (List.length up'))%Z) eqn:Eok; [|discriminate].
        intros [= <- <-].
        refine (conj (eq_sym H1) (conj H2 (conj H3 (conj (ex_intro _ [(p, k)] (ex_intro _ wn (conj eq_refl (conj _ (conj _ Hf))))) (conj (Hthr _ Eok) (conj Et Hne)))))).
        all: try (cbn; lia); try (intros _; cbn; lia); try (cbn; repeat constructor; easy);
          try (constructor; [exact Hg|constructor]).
      * destruct (v_exhaustive v || (v_threshold v <=? Z.of_nat (List.length [p]))%Z) eqn:Eok; [|discriminate].
        intros [= <- <-].
        refine (conj eq_refl (conj _ (conj _ (conj (ex_intro _ [(p, k)] (ex_intro _ [] (conj eq_refl (conj _ (conj _ _))))) (conj (Hthr _ Eok) (conj Et Hne)))))).
        all: try (cbn; lia); try (intros _; cbn; lia); try (cbn; repeat constructor; easy);
          try (constructor; [exact Hg|constructor]).
  - (* nobody credited for the Git signature *)
    assert (Hi0 : winv (v_principals v) (sigs_of env) [] [] []).
    { constructor; cbn; [reflexivity|constructor|constructor|intros x []]. }
    rewrite andb_false_r. destruct env as [sigs|].
    + destruct (env_phase (v_principals v) sigs [] [] []) as [[[up' uk'] w']|] eqn:Ee; [|discriminate].
      apply (env_phase_spec (v_principals v) sigs) in Ee; [|apply incl_refl|exact Hi0].
      destruct Ee as ([H1 H2 H3 H4] & wn & -> & Hf).
      destruct (v_exhaustive v || (v_threshold v <=? Z.of_nat (List.length up'))%Z) eqn:Eok; [|discriminate].
      intros [= <- <-].
      refine (conj (eq_sym H1) (conj H2 (conj H3 (conj (ex_intro _ [] (ex_intro _ wn (conj eq_refl (conj _ (conj _ Hf))))) (conj (Hthr _ Eok) (conj Et Hne)))))).
      all: try (cbn; lia); try (intros _; cbn; lia); try (cbn; repeat constructor; easy);
        try (constructor; [exact Hg|constructor]).
    + destruct (v_exhaustive v || (v_threshold v <=? Z.of_nat (List.length (@nil pid)))%Z) eqn:Eok; [|discriminate].
      intros [= <- <-].
      refine (conj eq_refl (conj _ (conj _ (conj (ex_intro _ [] (ex_intro _ [] (conj eq_refl (conj _ (conj _ _))))) (conj (Hthr _ Eok) (conj Et Hne)))))).
      all: try (cbn; lia); try (intros _; cbn; lia); try (cbn; repeat constructor; easy);
        try (constructor; [exact Hg|constructor]).
Qed.

(** a rule with a threshold below one or with no principals is never satisfied *)
Theorem verify_degenerate v hg g env :
  (v_threshold v < 1)%Z \/ v_principals v = [] -> verify v hg g env = VErr EInvalidVerifier [].
Proof.
  intros H. unfold verify, verify_w.
  assert ((v_threshold v <? 1)%Z || Nat.eqb (List.length (v_principals v)) 0 = true) as ->; [|reflexivity].
  destruct H as [H| ->]; [apply Z.ltb_lt in H; now rewrite H|apply orb_true_r].
Qed.
