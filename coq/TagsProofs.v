(** C01, tag references: proofs. *)
From GV Require Import Tags WorldProofs.

Lemma indexed_nth w i e : nth_error (w_log w) i = Some e -> In (i, e) (indexed w).
Proof.
  unfold indexed. intros H.
  assert (G : forall (l : list wentry) s j x, nth_error l j = Some x -> In (s + j, x) (combine (seq s (List.length l)) l)).
  { induction l as [|y l IH]; intros s j x Hj; [destruct j; discriminate|].
    destruct j as [|j]; cbn in Hj.
    - injection Hj as <-. cbn. left. f_equal. lia.
    - cbn [List.length seq combine]. right. replace (s + S j) with (S s + j) by lia. apply IH, Hj. }
  apply (G (w_log w) 0 i e H).
Qed.

(** every entry of an accepted tag reference names a tag object the reference holds (or the tagged
    commit), is signed - with the approvals bound to exactly that tag - to the FULL threshold of a
    rule protecting the tag, whatever was verified before it, and its tag object is signed by a
    principal of such a rule *)
Theorem tag_entries_meet_full_threshold tw ref c :
  verify_full_tags tw ref = VTip c ->
  exists ps, load_state (tw_world tw) 0 = Some ps /\
  forall i r t s, nth_error (w_log (tw_world tw)) i = Some (WERef r t s) ->
    verify_tag_entry tw ps i r t s = true.
Proof.
  unfold verify_full_tags. destruct (load_state (tw_world tw) 0) as [ps|] eqn:Hl; [|discriminate].
  destruct (latest_for _ _ _ _ _) as [[l le]|]; [|discriminate].
  destruct (forallb _ (indexed (tw_world tw))) eqn:Hf; [|discriminate]. intros _.
  exists ps. split; [reflexivity|]. intros i r t s Hn.
  rewrite forallb_forall in Hf. exact (Hf (i, WERef r t s) (indexed_nth _ _ _ Hn)).
Qed.

Theorem tag_entry_meaning tw ps i ref target signer :
  verify_tag_entry tw ps i ref target signer = true ->
  exists tg, lookup_tag (tw_tags tw) target = Some tg /\
    (tw_ref_now tw = Some target \/ target = tg_target tg) /\
    (find_verifiers (policy_of ps) (GitScheme ++ ref) = WOk [] \/
     exists vs env accepted v, find_verifiers (policy_of ps) (GitScheme ++ ref) = WOk vs /\
       first_satisfied vs signer env = Some accepted /\
       In v vs /\ git_phase (v_principals (vrec_verifier v)) (tg_signer tg) <> None).
Proof.
  unfold verify_tag_entry. destruct (lookup_tag (tw_tags tw) target) as [tg|]; [|discriminate].
  intros H. apply andb_true_iff in H. destruct H as [Hc H]. exists tg. split; [reflexivity|]. split.
  - apply orb_true_iff in Hc. destruct Hc as [Hc|Hc].
    + left. unfold opt_N_eqb in Hc. destruct (tw_ref_now tw); [|discriminate]. apply N.eqb_eq in Hc. subst. reflexivity.
    + right. apply N.eqb_eq, Hc.
  - set (az := match attest_before (tw_world tw) i with None => AzNone | Some auths => _ end) in H.
    destruct az eqn:Haz; try discriminate;
      (destruct (find_verifiers (policy_of ps) (GitScheme ++ ref)) as [vs| |]; [|discriminate|discriminate];
       destruct vs as [|v0 vs0]; [left; reflexivity|]; right;
       apply andb_true_iff in H; destruct H as [H1 H2];
       match type of H1 with context [first_satisfied ?a ?b ?c] => destruct (first_satisfied a b c) as [acc|] eqn:Hfs; [|discriminate] end;
       apply existsb_exists in H2; destruct H2 as [v [Hv Hg]];
       eexists; eexists; exists acc, v; split; [reflexivity|]; split; [exact Hfs|]; split; [exact Hv|];
       destruct (git_phase _ _); [discriminate|discriminate]).
Qed.
