(** Property C20 — hook scripts stay inside the sandbox API and stop within their timeout.
    Only statements here; proofs are in Cap.v and SandboxProofs.v. *)
From GV Require Import Sandbox SandboxProofs.
From Coq Require Import Strings.String.

(** Every program.  In the capability machine - a script may read what a held value leads to, store
    held values into held objects, and create fresh objects, in any order and any number of times -
    every value ever held lies in any set that contains the start values and is closed under the
    initial edges, or is an object the script created. *)
Theorem C20_confinement : forall (node : Type) (C : node -> Prop) (s0 : st node) ops s,
  (forall x, held node s0 x -> C x) -> (forall a b, C a -> edges node s0 a b -> C b) -> (forall x, ~ fresh node s0 x) ->
  steps node s0 ops s -> forall x, held node s x -> C x \/ fresh node s x.
Proof. exact confinement. Qed.
Print Assumptions C20_confinement.

(** The closure computed from the walked graph contains everything obtainable by any path. *)
Theorem C20_closure_contains_every_path : forall g roots S,
  (forall r, In r roots -> In r S) -> closed g S = true -> forall n, reach g roots n -> In n S.
Proof. exact closed_contains_reach. Qed.
Print Assumptions C20_closure_contains_every_path.

(** If the check of the walked graph evaluates to true (it is evaluated on the live sandbox's graph
    on every run), then for every program every value held is an allow-listed node or script-made ... *)
Theorem C20_sandbox_confines_every_program : forall g roots,
  sandbox_ok g roots = true ->
  forall (s0 : st nat) ops s,
    (forall x, held nat s0 x -> In x roots) ->
    (forall a b, edges nat s0 a b -> In b (succs g a)) ->
    (forall x, ~ fresh nat s0 x) ->
    steps nat s0 ops s ->
    forall x, held nat s x -> (In x (closure g roots) /\ node_allowed g x = true) \/ fresh nat s x.
Proof. exact sandbox_confines_every_program. Qed.
Print Assumptions C20_sandbox_confines_every_program.

(** ... and no library table (a table holding Go functions, other than the script's own globals)
    can be obtained as a value, so none can be assigned to. *)
Theorem C20_library_tables_out_of_reach : forall g roots,
  sandbox_ok g roots = true ->
  forall i n, In i (closure g roots) -> i <> hd 0 roots -> find_node g i = Some n -> n_kind n = KTable -> holds_go g n = false.
Proof. exact sandbox_library_tables_out_of_reach. Qed.
Print Assumptions C20_library_tables_out_of_reach.

(** Timeouts, C20_partial: the VM consults the deadline between steps, so a run stops no later than
    the deadline plus its longest single step ... *)
Theorem C20_timeout_partial : forall deadline m steps elapsed,
  (forall d, In d steps -> d <= m) -> elapsed <= deadline + m -> run_until deadline elapsed steps <= deadline + m.
Proof. exact timeout_partial. Qed.
Print Assumptions C20_timeout_partial.

(** ... C20_refuted (finding K4): the unconditional bound is false, one step (a library call such as
    a back-tracking string.find, or the traceback of an error after millions of tail calls) takes as
    long as it takes. *)
Theorem C20_timeout_refuted : forall deadline d, run_until deadline 0 [d] = if Nat.leb deadline 0 then 0 else d.
Proof. exact timeout_refuted. Qed.
Print Assumptions C20_timeout_refuted.

Theorem C20_non_number_is_failure : forall r, (forall n, r <> RNumber n) -> exit_code r = 1%Z.
Proof. exact non_number_is_failure. Qed.
Print Assumptions C20_non_number_is_failure.

Theorem C20_selected_hooks_are_assigned : forall hooks p h,
  In h (select_hooks hooks p) <-> exists ps, In (h, ps) hooks /\ In p ps.
Proof. exact selected_hooks_are_assigned. Qed.
Print Assumptions C20_selected_hooks_are_assigned.

(** Non-vacuity: a two-table graph where a library table is obtainable is rejected, its proxied
    form accepted. *)
Example C20_example :
  let lib := {| n_id := 1; n_kind := KTable; n_sym := []; n_fields := [2]; n_index := None; n_index_fn := None; n_meta := None;
                n_newindex := false; n_own := 1; n_env := None; n_upvals := [] |} in
  let fn := {| n_id := 2; n_kind := KGo; n_sym := LuaPkg ++ bs "strLen"%string; n_fields := []; n_index := None; n_index_fn := None; n_meta := None;
               n_newindex := false; n_own := 0; n_env := None; n_upvals := [] |} in
  let root_direct := {| n_id := 0; n_kind := KTable; n_sym := []; n_fields := [1]; n_index := None; n_index_fn := None; n_meta := None;
                        n_newindex := false; n_own := 1; n_env := None; n_upvals := [] |} in
  let proxy := {| n_id := 3; n_kind := KTable; n_sym := []; n_fields := []; n_index := Some 1; n_index_fn := None; n_meta := None;
                  n_newindex := true; n_own := 0; n_env := None; n_upvals := [] |} in
  let root_proxied := {| n_id := 0; n_kind := KTable; n_sym := []; n_fields := [3]; n_index := None; n_index_fn := None; n_meta := None;
                         n_newindex := false; n_own := 1; n_env := None; n_upvals := [] |} in
  sandbox_ok [root_direct; lib; fn] [0] = false /\ sandbox_ok [root_proxied; proxy; lib; fn] [0] = true.
Proof. vm_compute. split; reflexivity. Qed.
