(** Property C07 — a violation is tolerated only if revoked and repaired as recovery requires.
    Only statements here; proofs are in WorldProofs.v. *)
From GV Require Import World WorldProofs WorldExamples.

(** Every violation that a successful run tolerated ([TRecover i g j] in its trace) satisfies all
    recovery conditions: the violating entry is marked skipped; [g] is the latest unskipped
    reference entry for the ref before it; a later entry for the same ref that is not itself skipped
    has a tree identical to that of [g]; every entry for that ref between the two is skipped; and it
    is the first such entry.  ([step_ok] / [recovery_ok] in WorldProofs.v.) *)
Theorem C07_tolerated_only_if_recovered : forall w ref first fuel cur q tr,
  genuine w q -> verify_loop_tr w ref first fuel cur q [] = (None, tr) -> Forall (step_ok w) tr.
Proof. intros w ref first fuel cur q tr Hg H. eapply loop_trace_ok; [exact Hg|constructor|exact H]. Qed.
Print Assumptions C07_tolerated_only_if_recovered.

(** The fix search itself: what [look_for_fix] returns. *)
Theorem C07_fix_search : forall w ref gt q newq bad nq bad',
  look_for_fix w ref gt q newq bad = (Some nq, bad') ->
  exists mid fx rest,
    q = mid ++ fx :: rest /\ is_fix w ref gt fx = true /\
    Forall (fun ie => is_fix w ref gt ie = false) mid /\
    nq = newq ++ filter (fun ie => negb (same_ref_entry ref ie)) mid ++ rest /\      (* other refs are processed afterwards, in order *)
    bad' = bad || existsb (fun ie => same_ref_entry ref ie && negb (skipped w (fst ie))) mid.
Proof. exact look_for_fix_spec. Qed.
Print Assumptions C07_fix_search.

(** Conversely (by computation on the model, also replayed against the implementation): an
    unrevoked violation fails; a revoked violation without a fix fails; a fix that is itself
    skipped does not count. *)
Example C07_unrevoked_fails : verify_full w_bad mainref = VFail VEViolation.
Proof. vm_compute. reflexivity. Qed.

Example C07_revoked_without_fix_fails :
  verify_full {| w_log := [WEPolicy pol1; WERef mainref 2%N 4%N; WERef mainref 3%N 8%N; WEAnn [2] true]; w_commits := commits4 |} mainref
  = VFail VEViolation.
Proof. vm_compute. reflexivity. Qed.

Example C07_skipped_fix_does_not_count :
  verify_full {| w_log := [WEPolicy pol1; WERef mainref 2%N 4%N; WERef mainref 3%N 8%N; WERef mainref 4%N 4%N; WEAnn [2; 3] true]; w_commits := commits4 |} mainref
  = VFail VEViolation.
Proof. vm_compute. reflexivity. Qed.

Example C07_recovered : verify_full w_k5 mainref = VTip 4%N.
Proof. vm_compute. reflexivity. Qed.
