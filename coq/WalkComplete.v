(** C06 proofs, completeness direction (reached => consulted): on every policy in which no rule is
    terminating, every matching non-trailing rule of every file the documented walk enters is
    consulted, with its own name, threshold and principal ids.  Cyclic and diamond-shaped
    delegation graphs and duplicate file names are included; a terminating rule cuts the walk of
    its group and is left to the per-case comparison of C06Check.v. *)
From GV Require Import BytesLemmas Walk WalkProofs.

Section Complete.
Variable pol : policy.
Variable path : bytes.
Hypothesis NoTerm : forall n file r, find_file pol n = Some file -> In r (f_rules file) -> r_term r = false.

Definition Handled (st : wstate) (r : rule) : Prop :=
  (exists v, In v (ws_out st) /\ vr_name v = r_name r /\ vr_thr v = r_thr r /\ map fst (vr_pr v) = r_pids r) /\
  (find_file pol (r_name r) <> None -> mem_name (r_name r) (ws_seen st) = true).

Definition DoneRules (st : wstate) (rs : list rule) : Prop :=
  forall r, In r rs -> rule_matches r path = true -> Handled st r.

(** [pre]/[g]: the group being processed, split at the loop position ([None]: between groups) *)
Definition FileOK (st : wstate) (cur : option (list rule * list rule)) (file : rfile) : Prop :=
  In (f_rules file) (ws_queue st) \/ DoneRules st (removelast (f_rules file)) \/
  match cur with Some (pre, g) => f_rules file = pre ++ g /\ DoneRules st pre | None => False end.

Definition FromFile (g : list rule) : Prop := exists n file, find_file pol n = Some file /\ f_rules file = g.

Definition Inv (st : wstate) (cur : option (list rule * list rule)) : Prop :=
  mem_name TargetsRole (ws_seen st) = true /\
  (forall g, In g (ws_queue st) -> FromFile g) /\
  (match cur with Some (pre, g) => FromFile (pre ++ g) | None => True end) /\
  (forall n, mem_name n (ws_seen st) = true -> exists file, find_file pol n = Some file /\ FileOK st cur file).

(** monotonicity of [Handled] *)
Definition st_le (a b : wstate) : Prop :=
  (forall v, In v (ws_out a) -> In v (ws_out b)) /\ (forall n, mem_name n (ws_seen a) = true -> mem_name n (ws_seen b) = true).

Lemma handled_mono a b r : st_le a b -> Handled a r -> Handled b r.
Proof.
  intros [Ho Hs] [(v & Hv & H1) H2]. split.
  - exists v. split; [now apply Ho|exact H1].
  - intros Hf. apply Hs. now apply H2.
Qed.

Lemma done_mono a b rs : st_le a b -> DoneRules a rs -> DoneRules b rs.
Proof. intros Hle Hd r Hin Hm. eapply handled_mono; [exact Hle|]. now apply Hd. Qed.

Lemma removelast_app_single {A} (l : list A) x : removelast (l ++ [x]) = l.
Proof. apply removelast_last. Qed.

Lemma in_removelast_in {A} (x : A) l : In x (removelast l) -> In x l.
Proof.
  induction l as [|y l IH]; [intros []|]. cbn [removelast]. destruct l as [|z l]; [intros []|].
  intros [<-|H]; [now left|right; now apply IH].
Qed.

Lemma group_loop_inv : forall g pre st,
  Inv st (Some (pre, g)) -> Inv (group_loop pol path g st) None.
Proof.
  induction g as [|r g IH]; intros pre st (Ht & Hq & Hc & Hs).
  - (* g = [] *)
    cbn [group_loop]. repeat split; try assumption. intros n Hn. destruct (Hs n Hn) as (file & Hf & Hok).
    exists file. split; [assumption|]. destruct Hok as [H|[H|[E Hd]]]; [now left|right; now left|].
    right; left. rewrite app_nil_r in E. rewrite E. intros r Hin Hm. apply Hd; [|assumption]. now apply in_removelast_in.
  - destruct g as [|r' g].
    + (* g = [x] *)
      cbn [group_loop]. repeat split; try assumption. intros n Hn. destruct (Hs n Hn) as (file & Hf & Hok).
      exists file. split; [assumption|]. destruct Hok as [H|[H|[E Hd]]]; [now left|right; now left|].
      right; left. rewrite E, removelast_app_single. exact Hd.
    + rewrite group_loop_cons2. cbv zeta.
      assert (Eapp : pre ++ r :: r' :: g = (pre ++ [r]) ++ r' :: g) by (rewrite <- app_assoc; reflexivity).
      destruct (rule_matches r path) eqn:Em.
      * set (v := {| vr_name := r_name r; vr_thr := r_thr r; vr_pr := map (fun i => (i, lookup_def (ws_defs st) i)) (r_pids r) |}).
        assert (Hv : vr_name v = r_name r /\ vr_thr v = r_thr r /\ map fst (vr_pr v) = r_pids r).
        { cbn. repeat split. apply map_fst_lookup. }
        destruct (mem_name (r_name r) (ws_seen st)) eqn:Eseen.
        -- (* already seen *)
           apply (IH (pre ++ [r])).
           set (st1 := {| ws_queue := ws_queue st; ws_seen := ws_seen st; ws_defs := ws_defs st; ws_out := ws_out st ++ [v] |}).
           assert (Hle : st_le st st1). { split; cbn; [intros x Hx; apply in_or_app; now left|auto]. }
           repeat split; cbn [ws_seen ws_queue]; try assumption.
           ++ rewrite <- Eapp. exact Hc.
           ++ intros n Hn. destruct (Hs n Hn) as (file & Hf & Hok). exists file. split; [assumption|].
              destruct Hok as [H|[H|[E Hd]]]; [now left|right; left; eapply done_mono; eauto|].
              right; right. split; [now rewrite <- Eapp|].
              intros r0 Hin Hm. apply in_app_or in Hin. destruct Hin as [Hin|[<-|[]]].
              ** eapply handled_mono; [exact Hle|]. now apply Hd.
              ** split; [exists v; split; [cbn; apply in_or_app; right; now left|exact Hv]|]. intros _. exact Eseen.
        -- destruct (find_file pol (r_name r)) as [f'|] eqn:Ef'.
           ++ (* enter the file *)
              assert (Hnt : r_term r = false).
              { destruct Hc as (n0 & file0 & Hf0 & E0). eapply NoTerm; [exact Hf0|]. rewrite E0. apply in_or_app. right. now left. }
              rewrite Hnt. apply (IH (pre ++ [r])).
              set (st2 := {| ws_queue := f_rules f' :: ws_queue st; ws_seen := r_name r :: ws_seen st;
                             ws_defs := f_defs f' ++ ws_defs st; ws_out := ws_out st ++ [v] |}).
              assert (Hle : st_le st st2).
              { split; cbn [ws_out ws_seen st2]; [intros x Hx; apply in_or_app; now left|].
                intros n Hn. rewrite mem_name_cons, Hn. apply Bool.orb_true_r. }
              repeat split; cbn [ws_seen ws_queue ws_out st2].
              ** rewrite mem_name_cons, Ht. apply Bool.orb_true_r.
              ** intros g0 [<-|Hg0]; [exists (r_name r), f'; now split|now apply Hq].
              ** rewrite <- Eapp. exact Hc.
              ** intros n Hn. rewrite mem_name_cons in Hn. destruct (beq n (r_name r)) eqn:Eb.
                 { apply beq_eq in Eb. subst n. exists f'. split; [assumption|]. left. now left. }
                 cbn [orb] in Hn. destruct (Hs n Hn) as (file & Hf & Hok). exists file. split; [assumption|].
                 destruct Hok as [H|[H|[E Hd]]]; [left; now right|right; left; eapply done_mono; eauto|].
                 right; right. split; [now rewrite <- Eapp|].
                 intros r0 Hin Hm. apply in_app_or in Hin. destruct Hin as [Hin|[<-|[]]].
                 --- eapply handled_mono; [exact Hle|]. now apply Hd.
                 --- split; [exists v; split; [cbn; apply in_or_app; right; now left|exact Hv]|].
                     intros _. cbn [ws_seen st2]. rewrite mem_name_cons, beq_refl. reflexivity.
           ++ (* no such file *)
              apply (IH (pre ++ [r])).
              set (st1 := {| ws_queue := ws_queue st; ws_seen := ws_seen st; ws_defs := ws_defs st; ws_out := ws_out st ++ [v] |}).
              assert (Hle : st_le st st1). { split; cbn; [intros x Hx; apply in_or_app; now left|auto]. }
              repeat split; cbn [ws_seen ws_queue]; try assumption.
              ** rewrite <- Eapp. exact Hc.
              ** intros n Hn. destruct (Hs n Hn) as (file & Hf & Hok). exists file. split; [assumption|].
                 destruct Hok as [H|[H|[E Hd]]]; [now left|right; left; eapply done_mono; eauto|].
                 right; right. split; [now rewrite <- Eapp|].
                 intros r0 Hin Hm. apply in_app_or in Hin. destruct Hin as [Hin|[<-|[]]].
                 --- eapply handled_mono; [exact Hle|]. now apply Hd.
                 --- split; [exists v; split; [cbn; apply in_or_app; right; now left|exact Hv]|]. intros Hne. now destruct Hne.
      * (* r does not match *)
        apply (IH (pre ++ [r])). repeat split; try assumption.
        -- rewrite <- Eapp. exact Hc.
        -- intros n Hn. destruct (Hs n Hn) as (file & Hf & Hok). exists file. split; [assumption|].
           destruct Hok as [H|[H|[E Hd]]]; [now left|right; now left|].
           right; right. split; [now rewrite <- Eapp|].
           intros r0 Hin Hm. apply in_app_or in Hin. destruct Hin as [Hin|[<-|[]]]; [now apply Hd|congruence].
Qed.

Lemma walk_loop_inv : forall fuel st vs,
  Inv st None -> walk_loop pol path fuel st = WOk vs ->
  exists stf, ws_queue stf = [] /\ ws_out stf = vs /\ Inv stf None.
Proof.
  induction fuel as [|fuel IH]; intros st vs HI; cbn [walk_loop]; destruct (ws_queue st) as [|g q] eqn:Eq;
    try discriminate; try (intros [= <-]; exists st; split; [assumption|split; [reflexivity|assumption]]).
  intros H. eapply IH; [|exact H].
  apply (group_loop_inv g []). destruct HI as (Ht & Hq & _ & Hs). rewrite Eq in Hq.
  repeat split; cbn [ws_seen ws_queue app].
  - exact Ht.
  - intros g0 Hg0. apply Hq. now right.
  - apply Hq. now left.
  - intros n Hn. destruct (Hs n Hn) as (file & Hf & Hok). exists file. split; [assumption|].
    unfold FileOK in Hok. rewrite Eq in Hok. destruct Hok as [[E|Hq1]|[Hd1|[]]].
    + right; right. split; [now rewrite E|]. intros r [].
    + now left.
    + right; now left.
Qed.

Theorem find_verifiers_complete_noterm vs :
  find_verifiers pol path = WOk vs ->
  forall f file r, Entered pol path f -> find_file pol f = Some file -> In r (removelast (f_rules file)) ->
    rule_matches r path = true ->
    exists v, In v vs /\ vr_name v = r_name r /\ vr_thr v = r_thr r /\ map fst (vr_pr v) = r_pids r.
Proof.
  unfold find_verifiers. destruct (find_file pol TargetsRole) as [f0|] eqn:Ef0; [|discriminate]. intros H.
  assert (HI0 : Inv {| ws_queue := [f_rules f0]; ws_seen := [TargetsRole]; ws_defs := f_defs f0; ws_out := [] |} None).
  { repeat split; cbn [ws_seen ws_queue].
    - intros g [<-|[]]. now exists TargetsRole, f0.
    - intros n Hn. cbn in Hn. rewrite Bool.orb_false_r in Hn. apply beq_eq in Hn. subst n.
      exists f0. split; [assumption|]. left. now left. }
  destruct (walk_loop_inv _ _ _ HI0 H) as (stf & Hq & Ho & HI).
  destruct HI as (Ht & _ & _ & Hs).
  assert (Hdone : forall n, mem_name n (ws_seen stf) = true -> forall file, find_file pol n = Some file ->
            DoneRules stf (removelast (f_rules file))).
  { intros n Hn file Hf. destruct (Hs n Hn) as (file' & Hf' & Hok). rewrite Hf in Hf'. injection Hf' as <-.
    destruct Hok as [Hin|[Hd|[]]]; [rewrite Hq in Hin; destruct Hin|exact Hd]. }
  assert (Hseen : forall f, Entered pol path f -> mem_name f (ws_seen stf) = true).
  { intros f He. induction He as [|f file r He IHe Hf Hin Hm Hne]; [exact Ht|].
    destruct (Hdone _ IHe _ Hf r Hin Hm) as [_ Hx]. now apply Hx. }
  intros f file r He Hf Hin Hm. destruct (Hdone _ (Hseen _ He) _ Hf r Hin Hm) as [(v & Hv & Hrest) _].
  exists v. rewrite <- Ho. now split.
Qed.
End Complete.
