(** C12 model, API level: the root-of-trust mutators of experimental/gittuf/root.go (AddRootKey,
    RemoveRootKey, UpdateRootThreshold, SignRoot) followed by Apply, over the policy-state model of
    World.v.  Every mutator loads the staged state, refuses signers that are not root principals of
    THAT state (loadRootMetadata), edits the root role, increments the version and replaces the
    envelope by one carrying the signer's signature alone; SignRoot adds a signature to the staged
    envelope as it is. *)
From GV Require Export World.

Inductive rootop := RAddKey (k : key) | RRemoveKey (k : key) | RSetThreshold (t : Z) | RSign | RApply | RInit.
Inductive apierr := EUnauthorized | ECannotMeet | EInvalidThreshold | EApplyRefused | EReinit.

Definition kmem (k : key) (l : list key) : bool := existsb (N.eqb k) l.
Definition kadd (k : key) (l : list key) : list key := if kmem k l then l else l ++ [k].
Definition kremove (k : key) (l : list key) : list key := filter (fun x => negb (N.eqb x k)) l.

Definition set_root (ps : pstate) (keys : list key) (thr : Z) (signers : list key) (bump : bool) : pstate :=
  {| ps_root_version := if bump then N.succ (ps_root_version ps) else ps_root_version ps;
     ps_root_keys := keys; ps_root_thr := thr;
     ps_targets_keys := ps_targets_keys ps; ps_targets_thr := ps_targets_thr ps; ps_has_targets_role := ps_has_targets_role ps;
     ps_root_signers := signers; ps_files := ps_files ps; ps_globals := ps_globals ps |}.

Definition is_edit (o : rootop) : bool :=
  match o with RAddKey _ | RRemoveKey _ | RSetThreshold _ => true | RSign | RApply | RInit => false end.

(** one mutator call on the staged state [ps] *)
Definition root_edit (ps : pstate) (signer : key) (o : rootop) : apierr + pstate :=
  match o with
  | RApply => inr ps
  | RInit => inl EReinit          (* InitializeRoot on a repository that has a root of trust, whoever calls it *)
  | RSign => inr (set_root ps (ps_root_keys ps) (ps_root_thr ps) (kadd signer (ps_root_signers ps)) false)
  | _ =>
      if negb (kmem signer (ps_root_keys ps)) then inl EUnauthorized
      else
        let keys := ps_root_keys ps in
        let thr := ps_root_thr ps in
        match o with
        | RAddKey k => inr (set_root ps (kadd k keys) thr [signer] true)
        | RRemoveKey k =>
            if (Z.of_nat (List.length keys) <=? thr)%Z then inl ECannotMeet
            else inr (set_root ps (kremove k keys) thr [signer] true)
        | RSetThreshold t =>
            if (t <=? 0)%Z then inl EInvalidThreshold
            else if (Z.of_nat (List.length keys) <? t)%Z then inl ECannotMeet
            else inr (set_root ps keys t [signer] true)
        | _ => inr ps
        end
  end.

(** the repository as the API sees it: the applied state, the staged state, and the states
    published after the first one (oldest first) *)
Record apistate := { ap_first : pstate; ap_applied : pstate; ap_staged : pstate; ap_published : list (nat * pstate) }.

Definition api_init (p0 : pstate) : apistate := {| ap_first := p0; ap_applied := p0; ap_staged := p0; ap_published := [] |}.

(** Apply on a staging line that descends from the applied policy and matches the log: the staged
    state must verify, be a valid successor of the applied one, and the applied one must load *)
Definition apply_accepts (s : apistate) : bool :=
  state_verify (ap_staged s) && verify_new_state (ap_applied s) (ap_staged s) && state_verify (ap_applied s).

Definition api_step (s : apistate) (signer : key) (o : rootop) : option apierr * apistate :=
  match o with
  | RApply =>
      if apply_accepts s
      then (None, {| ap_first := ap_first s; ap_applied := ap_staged s; ap_staged := ap_staged s;
                     ap_published := ap_published s ++ [(0, ap_staged s)] |})
      else (Some EApplyRefused, s)
  | _ =>
      match root_edit (ap_staged s) signer o with
      | inl e => (Some e, s)
      | inr ps' => (None, {| ap_first := ap_first s; ap_applied := ap_applied s; ap_staged := ps'; ap_published := ap_published s |})
      end
  end.

Fixpoint api_run (s : apistate) (steps : list (key * rootop)) : list (option apierr) * apistate :=
  match steps with
  | [] => ([], s)
  | (k, o) :: steps' => let '(e, s1) := api_step s k o in let '(es, s2) := api_run s1 steps' in (e :: es, s2)
  end.
