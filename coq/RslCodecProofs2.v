(** C14 proofs, part 2: every successfully parsed text yields a well-formed entry (hence
    idempotence) whose security-relevant keys occur exactly once and in canonical order. *)
From GV Require Import BytesLemmas RslCodec C14Check RslCodecProofs.

Lemma known_kvs_app keys a b : known_kvs keys (a ++ b) = known_kvs keys a ++ known_kvs keys b.
Proof. unfold known_kvs, scan_kvs. now rewrite flat_map_app, filter_app. Qed.

Lemma known_kvs_cons keys l b : known_kvs keys (l :: b) = known_kvs keys [l] ++ known_kvs keys b.
Proof. apply (known_kvs_app keys [l] b). Qed.

Lemma known_kvs_single keys l k v :
  parse_kv l = Some (k, v) -> known_kvs keys [l] = if existsb (beq k) keys then [(k, v)] else [].
Proof. intros H. unfold known_kvs, scan_kvs. cbn [flat_map]. rewrite H. cbn. now destruct (existsb _ _). Qed.

Lemma is_hash_of_ok v h : new_hash v = Ok h -> is_hash_of v h = true.
Proof. intros H. unfold is_hash_of. rewrite H. apply beq_refl. Qed.

Lemma is_num_of_ok v n : set_number v = Ok n -> is_num_of v n = true.
Proof. intros H. unfold is_num_of. rewrite H. apply N.eqb_refl. Qed.

Lemma entry_body_ok text hdr body :
  entry_body text hdr = Ok body ->
  body = skipn 2 (split_on LF text) /\ Forall (fun l => no_byte LF l = true) body.
Proof.
  unfold entry_body. pose proof (split_on_nosep_all LF text) as H.
  destruct (split_on LF text) as [|l0 [|l1 body']]; try discriminate.
  destruct (_ && _); [|discriminate]. intros [= <-]. split; [reflexivity|].
  inversion H as [|? ? _ H']. now inversion H'.
Qed.

Ltac beq_split k K :=
  let E := fresh "E" in destruct (beq k K) eqn:E; [apply beq_eq in E; subst k|].

(** *** reference entries *)
Definition ref_keys := [RefKey; TargetIDKey; NumberKey].

Inductive ref_inv : rstate -> list (bytes * bytes) -> Prop :=
| RI0 r t : ref_inv {| rs_st := 0; rs_ref := r; rs_tgt := t; rs_num := 0 |} []
| RI1 r t : wf_val r = true -> ref_inv {| rs_st := 1; rs_ref := r; rs_tgt := t; rs_num := 0 |} [(RefKey, r)]
| RI2 r t v2 : wf_val r = true -> new_hash v2 = Ok t ->
    ref_inv {| rs_st := 2; rs_ref := r; rs_tgt := t; rs_num := 0 |} [(RefKey, r); (TargetIDKey, v2)]
| RI3 r t n v2 v3 : wf_val r = true -> new_hash v2 = Ok t -> set_number v3 = Ok n ->
    ref_inv {| rs_st := 3; rs_ref := r; rs_tgt := t; rs_num := n |} [(RefKey, r); (TargetIDKey, v2); (NumberKey, v3)].

Lemma ref_step_inv s kvs l s' :
  ref_inv s kvs -> no_byte LF l = true -> ref_step s l = Ok s' -> ref_inv s' (kvs ++ known_kvs ref_keys [l]).
Proof.
  intros Hi Hl. unfold ref_step. destruct (parse_kv l) as [[k v]|] eqn:E; [|discriminate].
  destruct (parse_kv_wf _ _ _ Hl E) as [_ Hv]. rewrite (known_kvs_single _ _ _ _ E).
  beq_split k RefKey; [|beq_split k TargetIDKey; [|beq_split k NumberKey]].
  - change (existsb (beq RefKey) ref_keys) with true. cbn iota.
    inversion Hi; subst; cbn [rs_st Nat.eqb]; try discriminate. intros [= <-]. cbn. now constructor.
  - change (existsb (beq TargetIDKey) ref_keys) with true. cbn iota.
    inversion Hi; subst; cbn [rs_st Nat.eqb]; try discriminate.
    destruct (new_hash v) eqn:Eh; [|discriminate]. intros [= <-]. cbn. now constructor.
  - change (existsb (beq NumberKey) ref_keys) with true. cbn iota.
    inversion Hi; subst; cbn [rs_st Nat.eqb]; try discriminate.
    destruct (set_number v) eqn:En; [|discriminate]. intros [= <-]. cbn. now constructor.
  - intros [= <-]. unfold ref_keys. cbn [existsb]. rewrite E0, E1, E2. cbn. now rewrite app_nil_r.
Qed.

Lemma ref_loop_inv body : forall s kvs s',
  ref_inv s kvs -> Forall (fun l => no_byte LF l = true) body -> ref_loop s body = Ok s' ->
  ref_inv s' (kvs ++ known_kvs ref_keys body).
Proof.
  induction body as [|l body IH]; intros s kvs s' Hi Hf.
  - cbn. intros [= <-]. now rewrite app_nil_r.
  - inversion Hf; subst. cbn [ref_loop]. destruct (ref_step s l) as [s1|] eqn:E; [|discriminate].
    intros H. rewrite known_kvs_cons, app_assoc. eapply IH; eauto. eapply ref_step_inv; eauto.
Qed.

Definition ref_unamb (K : list (bytes * bytes)) (r t : bytes) (n : N) : bool :=
  match K with
  | (k1, v1) :: (k2, v2) :: tl =>
      beq k1 RefKey && beq v1 r && beq k2 TargetIDKey && is_hash_of v2 t && num_tail_ok tl n
  | _ => false
  end.

Lemma ref_final s K : ref_inv s K -> (rs_st s <? 2) = false ->
  wf_entry (ERef (rs_ref s) (rs_tgt s) (rs_num s)) = true /\ ref_unamb K (rs_ref s) (rs_tgt s) (rs_num s) = true.
Proof.
  intros Hi. destruct Hi as [r t|r t Hr|r t v2 Hr Hh|r t n v2 v3 Hr Hh Hn];
    cbn [rs_st rs_ref rs_tgt rs_num wf_entry ref_unamb]; intros Est; try discriminate.
  - rewrite Hr, (new_hash_wf _ _ Hh). change (beq RefKey RefKey) with true. change (beq TargetIDKey TargetIDKey) with true.
    rewrite beq_refl, (is_hash_of_ok _ _ Hh). auto.
  - rewrite Hr, (new_hash_wf _ _ Hh), (set_number_wf _ _ Hn).
    change (beq RefKey RefKey) with true. change (beq TargetIDKey TargetIDKey) with true.
    rewrite beq_refl, (is_hash_of_ok _ _ Hh). cbn [num_tail_ok andb].
    change (beq NumberKey NumberKey) with true. rewrite (is_num_of_ok _ _ Hn). auto.
Qed.

Lemma parse_ref_sound text e :
  parse_ref text = Ok e -> wf_entry e = true /\ unamb_b text e = true.
Proof.
  unfold parse_ref. destruct (entry_body text ReferenceEntryHeader) as [body|] eqn:Eb; [|discriminate].
  apply entry_body_ok in Eb as [Eb Hf].
  destruct (ref_loop _ body) as [s|] eqn:El; [|discriminate].
  eapply ref_loop_inv in El; [|apply RI0|assumption]. cbn [app] in El.
  destruct (rs_st s <? 2) eqn:Est; [discriminate|]. intros [= <-].
  unfold unamb_b. rewrite <- Eb. exact (ref_final _ _ El Est).
Qed.

(** *** propagation entries *)
Definition prop_keys := [RefKey; TargetIDKey; UpstreamRepositoryKey; UpstreamEntryIDKey; NumberKey].

Inductive prop_inv : pstate -> list (bytes * bytes) -> Prop :=
| PI0 r t ur ue : prop_inv {| ps_st := 0; ps_ref := r; ps_tgt := t; ps_ur := ur; ps_ue := ue; ps_num := 0 |} []
| PI1 r t ur ue : wf_val r = true ->
    prop_inv {| ps_st := 1; ps_ref := r; ps_tgt := t; ps_ur := ur; ps_ue := ue; ps_num := 0 |} [(RefKey, r)]
| PI2 r t ur ue v2 : wf_val r = true -> new_hash v2 = Ok t ->
    prop_inv {| ps_st := 2; ps_ref := r; ps_tgt := t; ps_ur := ur; ps_ue := ue; ps_num := 0 |}
             [(RefKey, r); (TargetIDKey, v2)]
| PI3 r t ur ue v2 : wf_val r = true -> new_hash v2 = Ok t -> wf_val ur = true ->
    prop_inv {| ps_st := 3; ps_ref := r; ps_tgt := t; ps_ur := ur; ps_ue := ue; ps_num := 0 |}
             [(RefKey, r); (TargetIDKey, v2); (UpstreamRepositoryKey, ur)]
| PI4 r t ur ue v2 v4 : wf_val r = true -> new_hash v2 = Ok t -> wf_val ur = true -> new_hash v4 = Ok ue ->
    prop_inv {| ps_st := 4; ps_ref := r; ps_tgt := t; ps_ur := ur; ps_ue := ue; ps_num := 0 |}
             [(RefKey, r); (TargetIDKey, v2); (UpstreamRepositoryKey, ur); (UpstreamEntryIDKey, v4)]
| PI5 r t ur ue n v2 v4 v5 : wf_val r = true -> new_hash v2 = Ok t -> wf_val ur = true -> new_hash v4 = Ok ue ->
    set_number v5 = Ok n ->
    prop_inv {| ps_st := 5; ps_ref := r; ps_tgt := t; ps_ur := ur; ps_ue := ue; ps_num := n |}
             [(RefKey, r); (TargetIDKey, v2); (UpstreamRepositoryKey, ur); (UpstreamEntryIDKey, v4); (NumberKey, v5)].

Lemma prop_step_inv s kvs l s' :
  prop_inv s kvs -> no_byte LF l = true -> prop_step s l = Ok s' -> prop_inv s' (kvs ++ known_kvs prop_keys [l]).
Proof.
  intros Hi Hl. unfold prop_step. destruct (parse_kv l) as [[k v]|] eqn:E; [|discriminate].
  destruct (parse_kv_wf _ _ _ Hl E) as [_ Hv]. rewrite (known_kvs_single _ _ _ _ E).
  beq_split k RefKey; [|beq_split k TargetIDKey; [|beq_split k UpstreamRepositoryKey;
    [|beq_split k UpstreamEntryIDKey; [|beq_split k NumberKey]]]].
  - change (existsb (beq RefKey) prop_keys) with true. cbn iota.
    inversion Hi; subst; cbn [ps_st Nat.eqb]; try discriminate. intros [= <-]. cbn. now constructor.
  - change (existsb (beq TargetIDKey) prop_keys) with true. cbn iota.
    inversion Hi; subst; cbn [ps_st Nat.eqb]; try discriminate.
    destruct (new_hash v) eqn:Eh; [|discriminate]. intros [= <-]. cbn. now constructor.
  - change (existsb (beq UpstreamRepositoryKey) prop_keys) with true. cbn iota.
    inversion Hi; subst; cbn [ps_st Nat.eqb]; try discriminate. intros [= <-]. cbn. now constructor.
  - change (existsb (beq UpstreamEntryIDKey) prop_keys) with true. cbn iota.
    inversion Hi; subst; cbn [ps_st Nat.eqb]; try discriminate.
    destruct (new_hash v) eqn:Eh; [|discriminate]. intros [= <-]. cbn. now constructor.
  - change (existsb (beq NumberKey) prop_keys) with true. cbn iota.
    inversion Hi; subst; cbn [ps_st Nat.eqb]; try discriminate.
    destruct (set_number v) eqn:En; [|discriminate]. intros [= <-]. cbn. now constructor.
  - intros [= <-]. unfold prop_keys. cbn [existsb]. rewrite E0, E1, E2, E3, E4. cbn. now rewrite app_nil_r.
Qed.

Lemma prop_loop_inv body : forall s kvs s',
  prop_inv s kvs -> Forall (fun l => no_byte LF l = true) body -> prop_loop s body = Ok s' ->
  prop_inv s' (kvs ++ known_kvs prop_keys body).
Proof.
  induction body as [|l body IH]; intros s kvs s' Hi Hf.
  - cbn. intros [= <-]. now rewrite app_nil_r.
  - inversion Hf; subst. cbn [prop_loop]. destruct (prop_step s l) as [s1|] eqn:E; [|discriminate].
    intros H. rewrite known_kvs_cons, app_assoc. eapply IH; eauto. eapply prop_step_inv; eauto.
Qed.

Definition prop_unamb (K : list (bytes * bytes)) (r t ur ue : bytes) (n : N) : bool :=
  match K with
  | (k1, v1) :: (k2, v2) :: (k3, v3) :: (k4, v4) :: tl =>
      beq k1 RefKey && beq v1 r && beq k2 TargetIDKey && is_hash_of v2 t
      && beq k3 UpstreamRepositoryKey && beq v3 ur && beq k4 UpstreamEntryIDKey && is_hash_of v4 ue
      && num_tail_ok tl n
  | _ => false
  end.

Lemma prop_final s K : prop_inv s K -> (ps_st s <? 4) = false ->
  wf_entry (EProp (ps_ref s) (ps_tgt s) (ps_ur s) (ps_ue s) (ps_num s)) = true /\
  prop_unamb K (ps_ref s) (ps_tgt s) (ps_ur s) (ps_ue s) (ps_num s) = true.
Proof.
  intros Hi.
  destruct Hi as [r t ur ue|r t ur ue Hr|r t ur ue v2 Hr Hh|r t ur ue v2 Hr Hh Hu|r t ur ue v2 v4 Hr Hh Hu Hh2
                 |r t ur ue n v2 v4 v5 Hr Hh Hu Hh2 Hn];
    cbn [ps_st ps_ref ps_tgt ps_ur ps_ue ps_num wf_entry prop_unamb]; intros Est; try discriminate.
  - rewrite Hr, (new_hash_wf _ _ Hh), Hu, (new_hash_wf _ _ Hh2).
    change (beq RefKey RefKey) with true. change (beq TargetIDKey TargetIDKey) with true.
    change (beq UpstreamRepositoryKey UpstreamRepositoryKey) with true.
    change (beq UpstreamEntryIDKey UpstreamEntryIDKey) with true.
    rewrite !beq_refl, (is_hash_of_ok _ _ Hh), (is_hash_of_ok _ _ Hh2). auto.
  - rewrite Hr, (new_hash_wf _ _ Hh), Hu, (new_hash_wf _ _ Hh2), (set_number_wf _ _ Hn).
    change (beq RefKey RefKey) with true. change (beq TargetIDKey TargetIDKey) with true.
    change (beq UpstreamRepositoryKey UpstreamRepositoryKey) with true.
    change (beq UpstreamEntryIDKey UpstreamEntryIDKey) with true.
    rewrite !beq_refl, (is_hash_of_ok _ _ Hh), (is_hash_of_ok _ _ Hh2). cbn [num_tail_ok andb].
    change (beq NumberKey NumberKey) with true. rewrite (is_num_of_ok _ _ Hn). auto.
Qed.

Lemma parse_prop_sound text e :
  parse_prop text = Ok e -> wf_entry e = true /\ unamb_b text e = true.
Proof.
  unfold parse_prop. destruct (entry_body text PropagationEntryHeader) as [body|] eqn:Eb; [|discriminate].
  apply entry_body_ok in Eb as [Eb Hf].
  destruct (prop_loop _ body) as [s|] eqn:El; [|discriminate].
  eapply prop_loop_inv in El; [|apply PI0|assumption]. cbn [app] in El.
  destruct (ps_st s <? 4) eqn:Est; [discriminate|]. intros [= <-].
  unfold unamb_b. rewrite <- Eb. exact (prop_final _ _ El Est).
Qed.

(** *** annotation entries *)
Definition ann_keys := [EntryIDKey; SkipKey; NumberKey].
Definition litb (b : bool) : bytes := if b then TrueLit else FalseLit.

Inductive ann_inv : astate -> list (bytes * bytes) -> Prop :=
| AI0 ids sk vs : Forall2 (fun v h => new_hash v = Ok h) vs ids ->
    ann_inv {| as_st := 0; as_ids := ids; as_skip := sk; as_num := 0 |} (map (pair EntryIDKey) vs)
| AI1 ids sk vs : ids <> [] -> Forall2 (fun v h => new_hash v = Ok h) vs ids ->
    ann_inv {| as_st := 1; as_ids := ids; as_skip := sk; as_num := 0 |}
            (map (pair EntryIDKey) vs ++ [(SkipKey, litb sk)])
| AI2 ids sk vs n v3 : ids <> [] -> Forall2 (fun v h => new_hash v = Ok h) vs ids -> set_number v3 = Ok n ->
    ann_inv {| as_st := 2; as_ids := ids; as_skip := sk; as_num := n |}
            (map (pair EntryIDKey) vs ++ [(SkipKey, litb sk); (NumberKey, v3)]).

Lemma ann_step_inv s kvs k v s' :
  ann_inv s kvs -> ann_step s k v = Ok s' ->
  ann_inv s' (kvs ++ (if existsb (beq k) ann_keys then [(k, v)] else [])).
Proof.
  intros Hi. unfold ann_step.
  beq_split k EntryIDKey; [|beq_split k SkipKey; [|beq_split k NumberKey]].
  - change (existsb (beq EntryIDKey) ann_keys) with true. cbn iota.
    inversion Hi; subst; cbn [as_st Nat.eqb]; try discriminate.
    destruct (new_hash v) eqn:Eh; [|discriminate]. intros [= <-]. cbn [as_ids as_skip as_num].
    change [(EntryIDKey, v)] with (map (pair EntryIDKey) [v]). rewrite <- (map_app (pair EntryIDKey) vs [v]). constructor.
    apply Forall2_app; [assumption|repeat constructor; assumption].
  - change (existsb (beq SkipKey) ann_keys) with true. cbn iota.
    inversion Hi; subst; cbn [as_st as_ids Nat.eqb andb]; try discriminate.
    destruct ids as [|i ids]; [discriminate|]. cbn [List.length Nat.eqb negb].
    destruct (beq v TrueLit) eqn:Et; [apply beq_eq in Et; subst v; intros [= <-]; now apply (AI1 _ true)|].
    destruct (beq v FalseLit) eqn:Ef; [apply beq_eq in Ef; subst v; intros [= <-]; now apply (AI1 _ false)|].
    discriminate.
  - change (existsb (beq NumberKey) ann_keys) with true. cbn iota.
    inversion Hi; subst; cbn [as_st Nat.eqb]; try discriminate.
    destruct (set_number v) eqn:En; [|discriminate]. intros [= <-]. cbn [as_ids as_skip].
    rewrite <- app_assoc. cbn [app]. now constructor.
  - intros [= <-]. unfold ann_keys. cbn [existsb]. rewrite E, E0, E1. cbn. now rewrite app_nil_r.
Qed.

Lemma ann_loop_inv body : forall s kvs s',
  ann_inv s kvs -> ann_loop s body = Ok s' -> ann_inv s' (kvs ++ known_kvs ann_keys (until_begin body)).
Proof.
  induction body as [|l body IH]; intros s kvs s' Hi.
  - cbn. intros [= <-]. now rewrite app_nil_r.
  - cbn [ann_loop until_begin]. destruct (beq (trim l) BeginMessage).
    + intros [= <-]. cbn. now rewrite app_nil_r.
    + destruct (parse_kv l) as [[k v]|] eqn:E; [|discriminate].
      destruct (ann_step s k v) as [s1|] eqn:Es; [|discriminate]. intros H.
      rewrite known_kvs_cons, app_assoc, (known_kvs_single _ _ _ _ E).
      apply (IH s1 _ s'); [|assumption]. now apply (ann_step_inv s).
Qed.

Lemma ann_ids_ok_app vs ids sk n tl :
  Forall2 (fun v h => new_hash v = Ok h) vs ids ->
  ann_ids_ok (map (pair EntryIDKey) vs ++ tl) ids sk n = ann_ids_ok tl [] sk n.
Proof.
  induction 1 as [|v h vs ids Hv _ IH]; [reflexivity|].
  cbn [map app ann_ids_ok]. change (beq EntryIDKey EntryIDKey) with true.
  now rewrite (is_hash_of_ok _ _ Hv), IH.
Qed.

Lemma forall2_wf_hash vs ids : Forall2 (fun v h => new_hash v = Ok h) vs ids -> forallb wf_hash ids = true.
Proof. induction 1 as [|v h vs ids Hv _ IH]; [reflexivity|]. cbn. now rewrite (new_hash_wf _ _ Hv), IH. Qed.

Lemma ann_final s K : ann_inv s K -> (as_st s <? 1) = false ->
  forall m, wf_entry (EAnn (as_ids s) (as_skip s) m (as_num s)) = true /\
  (negb (Nat.eqb (List.length (as_ids s)) 0) && ann_ids_ok K (as_ids s) (as_skip s) (as_num s)) = true.
Proof.
  intros Hi. destruct Hi as [ids sk vs Hf|ids sk vs Hne Hf|ids sk vs n v3 Hne Hf Hn];
    cbn [as_st as_ids as_skip as_num wf_entry]; intros Est m; try discriminate.
  - destruct ids as [|i ids]; [congruence|]. cbn [List.length Nat.eqb negb andb].
    rewrite (forall2_wf_hash _ _ Hf), (ann_ids_ok_app _ _ _ _ _ Hf). cbn [ann_ids_ok num_tail_ok andb].
    change (beq SkipKey SkipKey) with true. unfold litb. rewrite beq_refl. auto.
  - destruct ids as [|i ids]; [congruence|]. cbn [List.length Nat.eqb negb andb].
    rewrite (forall2_wf_hash _ _ Hf), (ann_ids_ok_app _ _ _ _ _ Hf), (set_number_wf _ _ Hn).
    cbn [ann_ids_ok num_tail_ok andb].
    change (beq SkipKey SkipKey) with true. change (beq NumberKey NumberKey) with true.
    unfold litb. rewrite beq_refl, (is_num_of_ok _ _ Hn). auto.
Qed.

Lemma parse_ann_sound pd text e :
  parse_ann pd text = Ok e -> wf_entry e = true /\ unamb_b text e = true.
Proof.
  unfold parse_ann. destruct (entry_body text AnnotationEntryHeader) as [body|] eqn:Eb; [|discriminate].
  apply entry_body_ok in Eb as [Eb Hf].
  destruct (ann_loop _ body) as [s|] eqn:El; [|discriminate].
  eapply (ann_loop_inv _ _ []) in El; [|apply (AI0 [] false []); constructor]. cbn [app] in El.
  destruct (as_st s <? 1) eqn:Est; [discriminate|]. intros [= <-].
  unfold unamb_b. rewrite <- Eb. exact (ann_final _ _ El Est _).
Qed.

(** *** all kinds *)
Theorem parse_sound pd text e :
  parse pd text = Ok e -> wf_entry e = true /\ unamb_b text e = true.
Proof.
  unfold parse. destruct (has_prefix ReferenceEntryHeader text); [apply parse_ref_sound|].
  destruct (has_prefix AnnotationEntryHeader text); [apply parse_ann_sound|].
  destruct (has_prefix PropagationEntryHeader text); [apply parse_prop_sound|discriminate].
Qed.
