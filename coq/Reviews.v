(** C09, code-review approvals: verification of the latest entry of a reference when the
    attestation state in force also holds pull-request approval attestations of code-review apps
    (internal/policy/verify.go getApproverAttestationAndKeyIDsForIndex, the approver loop of
    verifyGitObjectAndAttestationsUsingVerifiers).  Policies without global rules. *)
From GV Require Export World.

(** an approval attestation: which app's slot it is stored in, the change its signed statement
    names, the change whose path it is stored under, the identities it lists, the keys that validly
    signed it *)
Record review := {
  rv_app : N;
  rv_ref : bytes; rv_from : N; rv_to : N;
  rv_path_ref : bytes; rv_path_from : N; rv_path_to : N;
  rv_approvers : list N; rv_signers : list key }.

(** an app declared in the root of trust: name, trusted, its keys, threshold *)
Record app := { a_name : N; a_trusted : bool; a_keys : list key; a_thr : Z }.

(** principal [pid] registered identity [ident] for app [app] *)
Definition idents := list (pid * N * N).

Record rworld := { rw_world : world; rw_apps : list app; rw_idents : idents; rw_reviews : list review }.

Definition find_review (rs : list review) (a : N) (ref : bytes) (from to : N) : option review :=
  find (fun r => N.eqb (rv_app r) a && beq (rv_path_ref r) ref && N.eqb (rv_path_from r) from && N.eqb (rv_path_to r) to) rs.

Definition statement_matches (r : review) (ref : bytes) (from to : N) : bool :=
  beq (rv_ref r) ref && N.eqb (rv_from r) from && N.eqb (rv_to r) to.

(** the identities approved for this change by trusted apps; None: some trusted app's attestation
    for this change does not verify or is not about this change *)
Fixpoint collect_approvers (apps : list app) (rs : list review) (ref : bytes) (from to : N) : option (list N) :=
  match apps with
  | [] => Some []
  | a :: apps' =>
      if negb (a_trusted a) then collect_approvers apps' rs ref from to
      else
        match find_review rs (a_name a) ref from to with
        | None => collect_approvers apps' rs ref from to
        | Some r =>
            if accepts {| v_principals := key_principals (a_keys a); v_threshold := a_thr a; v_exhaustive := false |}
                       false 0%N (env_of (rv_signers r))
               && statement_matches r ref from to
            then match collect_approvers apps' rs ref from to with
                 | Some l => Some (rv_approvers r ++ l)
                 | None => None
                 end
            else None
        end
  end.

(** principals of a verifier, in order, that the signatures did not credit and that registered an
    approved identity under some trusted app *)
Definition review_credit (apps : list app) (ids : idents) (approved : list N) (v : vrec) (used : list pid) : list pid :=
  nodup N.eq_dec
    (filter (fun p => negb (mem p used) &&
                      existsb (fun t => N.eqb (fst (fst t)) p
                                        && existsb (fun a => a_trusted a && N.eqb (a_name a) (snd (fst t))) apps
                                        && mem (snd t) approved) ids)
            (map fst (vr_pr v))).

Fixpoint first_satisfied_r (apps : list app) (ids : idents) (approved : list N)
  (vs : list vrec) (signer : key) (env : option (list sigrec)) : option (list pid) :=
  match vs with
  | [] => None
  | v :: vs' =>
      match verify (vrec_verifier v) true signer env with
      | VOkSet s => Some s
      | VErr EUnmet s =>
          let s' := s ++ review_credit apps ids approved v s in
          if (vr_thr v <=? Z.of_nat (List.length s'))%Z then Some s'
          else first_satisfied_r apps ids approved vs' signer env
      | VErr _ _ => None
      end
  end.

Definition verify_entry_r (rw : rworld) (ps : pstate) (i : nat) (ref : bytes) (commit : N) (signer : key) : bool :=
  let w := rw_world rw in
  if beq ref PolicyRefB || beq ref AttestRefB then true
  else
    let from := match latest_for w ref i false false with Some (_, e) => entry_target e | None => 0%N end in
    let to := match lookup_commit (w_commits w) commit with Some c => ci_tree c | None => 0%N end in
    let att := attest_before w i in
    let az := match att with None => AzNone | Some auths => find_authz auths ref from to end in
    match az with
    | AzInvalid => false
    | _ =>
        let env := match az with AzEnv s => env_of s | _ => None end in
        match (match att with None => Some [] | Some _ => collect_approvers (rw_apps rw) (rw_reviews rw) ref from to end) with
        | None => false
        | Some approved =>
            match find_verifiers (policy_of ps) (GitScheme ++ ref) with
            | WOk [] => true
            | WOk vs => match first_satisfied_r (rw_apps rw) (rw_idents rw) approved vs signer env with Some _ => true | None => false end
            | _ => false
            end
        end
    end.

(** VerifyRef (latest entry only) for histories whose policy has no global rules *)
Definition verify_latest_r (rw : rworld) (ref : bytes) : vout :=
  let w := rw_world rw in
  match latest_for w ref (List.length (w_log w)) false false with
  | Some (l, WERef r c s) =>
      match initial_policy w l with
      | Some (Some ps) => if verify_entry_r rw ps l r c s then VTip c else VFail VEViolation
      | Some None => VTip c
      | None => VFail VEPolicy
      end
  | Some (_, e) => VTip (entry_target e)
  | None => VFail VENotFound
  end.

(** the declarative reading used on the implementation's answers: an attestation that is not signed
    by its app or is not about this change contributes nothing (instead of failing the entry) *)
Fixpoint exact_approvers (apps : list app) (rs : list review) (ref : bytes) (from to : N) : list N :=
  match apps with
  | [] => []
  | a :: apps' =>
      (if a_trusted a then
         match find_review rs (a_name a) ref from to with
         | Some r =>
             if accepts {| v_principals := key_principals (a_keys a); v_threshold := a_thr a; v_exhaustive := false |}
                        false 0%N (env_of (rv_signers r))
                && statement_matches r ref from to
             then rv_approvers r else []
         | None => []
         end
       else []) ++ exact_approvers apps' rs ref from to
  end.

Definition justified (rw : rworld) (ps : pstate) (i : nat) (ref : bytes) (commit : N) (signer : key) : bool :=
  let w := rw_world rw in
  if beq ref PolicyRefB || beq ref AttestRefB then true
  else
    let from := match latest_for w ref i false false with Some (_, e) => entry_target e | None => 0%N end in
    let to := match lookup_commit (w_commits w) commit with Some c => ci_tree c | None => 0%N end in
    let att := attest_before w i in
    let env := match att with
               | Some auths => match find_authz auths ref from to with AzEnv s => env_of s | _ => None end
               | None => None
               end in
    let approved := match att with None => [] | Some _ => exact_approvers (rw_apps rw) (rw_reviews rw) ref from to end in
    match find_verifiers (policy_of ps) (GitScheme ++ ref) with
    | WOk [] => true
    | WOk vs => match first_satisfied_r (rw_apps rw) (rw_idents rw) approved vs signer env with Some _ => true | None => false end
    | _ => false
    end.

Definition latest_justified (rw : rworld) (ref : bytes) : bool :=
  let w := rw_world rw in
  match latest_for w ref (List.length (w_log w)) false false with
  | Some (l, WERef r c s) =>
      match initial_policy w l with
      | Some (Some ps) => justified rw ps l r c s
      | Some None => true
      | None => false
      end
  | _ => true
  end.
