(** Property C08 — verdicts depend only on the log: never on cache, repetition or checkpoint.
    Only statements here; proofs are in CacheProofs.v. *)
From GV Require Import Cache CacheProofs.

(** The persistent index is an ordered list with ordered insertion: whatever order entries are
    inserted in (a scan from the tip, or incrementally during verifications) the index is the
    sorted set of the inserted numbers. *)
Theorem C08_index_is_sorted_set : forall ns,
  sorted (fold_right insert [] ns) /\ forall x, In x (fold_right insert [] ns) <-> In x ns.
Proof. exact populate_sorted. Qed.
Print Assumptions C08_index_is_sorted_set.

(** Cache-complete equivalence: when the index holds exactly the policy entries of the log, every
    searcher lookup computed from the index (policy entry in force for entry n = greatest number
    <= n; latest; first) equals the answer of the plain scan of the log. *)
Theorem C08_complete_cache_equiv : forall cachel pol n,
  sorted cachel -> cachel = pol -> find_le n cachel = scan_le n pol /\ latest cachel = latest pol /\ first cachel = first pol.
Proof. exact complete_cache_equiv. Qed.
Print Assumptions C08_complete_cache_equiv.

Theorem C08_lookup_is_scan : forall n l, sorted l -> find_le n l = scan_le n l.
Proof. exact find_le_scan. Qed.
Print Assumptions C08_lookup_is_scan.

(** C08_partial.  The statement for whole verifications (verify_m w (Some c) = verify_m w None for a
    complete cache c, repetition, checkpoints, frame) is not a theorem: the verification model of
    World.v is not parameterised by a cache.  It is evaluated as a metamorphic relation on the
    implementation: every generated history is verified under {no cache; freshly populated; repeated
    and reordered runs; cache populated at an earlier length} and all verdicts/tips must equal the
    no-cache ones; refs other than the cache ref must be untouched.  Two listed findings:
    K2 - a cache populated before the log grew makes latest-only verification use an outdated policy;
    K8 - a successful latest-only verification sets the ref's last-verified checkpoint, after which
    full verification starts there and no longer sees an earlier unrevoked violation.  The stale
    lookup itself, on the model: *)
Example C08_stale_index_answers_differently :
  find_le 9 [1; 4] = Some 4 /\ scan_le 9 [1; 4; 7] = Some 7.
Proof. vm_compute. auto. Qed.
