(** C20 proofs. *)
From GV Require Import Sandbox.

Lemma memn_In x l : memn x l = true <-> In x l.
Proof.
  unfold memn. rewrite existsb_exists. split.
  - intros [y [Hy He]]. apply Nat.eqb_eq in He. subst y. exact Hy.
  - intros H. exists x. split; [exact H|apply Nat.eqb_refl].
Qed.

(** what a script can obtain, step by step, from the walked graph *)
Inductive reach (g : list lnode) (roots : list nat) : nat -> Prop :=
| reach_root r : In r roots -> reach g roots r
| reach_step a b : reach g roots a -> In b (succs g a) -> reach g roots b.

(** a set that contains the roots and is closed under [succs] contains everything reachable, by
    whatever path *)
Theorem closed_contains_reach g roots S :
  (forall r, In r roots -> In r S) -> closed g S = true -> forall n, reach g roots n -> In n S.
Proof.
  intros Hr Hc n Hn. induction Hn as [r Hin|a b _ IH Hb]; [apply Hr, Hin|].
  unfold closed in Hc. rewrite forallb_forall in Hc. specialize (Hc a IH). rewrite forallb_forall in Hc.
  apply memn_In, Hc, Hb.
Qed.

Lemma add_all_incl xs : forall acc x, In x acc \/ In x xs -> In x (add_all xs acc).
Proof.
  induction xs as [|y xs IH]; intros acc x H; cbn [add_all]; [destruct H as [H|[]]; exact H|].
  destruct (memn y acc) eqn:E.
  - apply IH. destruct H as [H|[<-|H]]; [left; exact H|left; apply memn_In, E|right; exact H].
  - apply IH. destruct H as [H|[<-|H]]; [left; apply in_or_app; left; exact H|left; apply in_or_app; right; left; reflexivity|right; exact H].
Qed.

Lemma bfs_keeps g : forall fuel acc x, In x acc -> In x (bfs g fuel acc).
Proof.
  induction fuel as [|f IH]; intros acc x H; cbn [bfs]; [exact H|].
  destruct (Nat.eqb _ _); [exact H|]. apply IH.
  assert (Hk : forall l a, In x a -> In x (fold_left (fun a i => add_all (succs g i) a) l a)).
  { induction l as [|i l IHl]; intros a Ha; [exact Ha|]. cbn [fold_left]. apply IHl, add_all_incl. left. exact Ha. }
  apply Hk, H.
Qed.

Lemma closure_has_roots g roots r : In r roots -> In r (closure g roots).
Proof. intros H. unfold closure. apply bfs_keeps, add_all_incl. right. exact H. Qed.

(** the check of the walked graph, lifted to every program: if [sandbox_ok] evaluates to true, then
    in every run of the capability machine started from the sandbox globals (and a string), every
    value the script ever holds is an allow-listed node of the graph or an object it created *)
Theorem sandbox_confines_every_program g roots :
  sandbox_ok g roots = true ->
  forall (s0 : st nat) ops s,
    (forall x, held nat s0 x -> In x roots) ->
    (forall a b, edges nat s0 a b -> In b (succs g a)) ->
    (forall x, ~ fresh nat s0 x) ->
    steps nat s0 ops s ->
    forall x, held nat s x -> (In x (closure g roots) /\ node_allowed g x = true) \/ fresh nat s x.
Proof.
  intros Hok s0 ops s Hh He Hf Hsteps x Hx.
  unfold sandbox_ok in Hok. apply andb_true_iff in Hok. destruct Hok as [Hok _].
  apply andb_true_iff in Hok. destruct Hok as [Hc Ha].
  destruct (confinement nat (fun n => In n (closure g roots)) s0 ops s) with (x := x) as [H|H]; try assumption.
  - intros y Hy. apply closure_has_roots, Hh, Hy.
  - intros a b Ha' Hab. unfold closed in Hc. rewrite forallb_forall in Hc. specialize (Hc a Ha').
    rewrite forallb_forall in Hc. apply memn_In, Hc, He, Hab.
  - left. split; [exact H|]. rewrite forallb_forall in Ha. apply Ha, H.
  - right. exact H.
Qed.

(** no library table is ever held: a table of the closure other than the globals holds no Go function *)
Theorem sandbox_library_tables_out_of_reach g roots :
  sandbox_ok g roots = true ->
  forall i n, In i (closure g roots) -> i <> hd 0 roots -> find_node g i = Some n -> n_kind n = KTable -> holds_go g n = false.
Proof.
  intros Hok i n Hi Hne Hf Hk. unfold sandbox_ok in Hok. apply andb_true_iff in Hok. destruct Hok as [_ Hl].
  unfold library_tables_unobtainable in Hl. rewrite forallb_forall in Hl. specialize (Hl i Hi).
  apply orb_true_iff in Hl. destruct Hl as [Hl|Hl]; [apply Nat.eqb_eq in Hl; contradiction|].
  rewrite Hf, Hk in Hl. destruct (holds_go g n); [discriminate|reflexivity].
Qed.

(** timeouts: a run stops no later than the deadline plus the longest single step ... *)
Theorem timeout_partial deadline m : forall steps elapsed,
  (forall d, In d steps -> d <= m) -> elapsed <= deadline + m -> run_until deadline elapsed steps <= deadline + m.
Proof.
  induction steps as [|d rest IH]; intros elapsed Hm He; cbn [run_until]; [exact He|].
  destruct (Nat.leb_spec deadline elapsed); [exact He|].
  apply IH; [intros x Hx; apply Hm; right; exact Hx|]. specialize (Hm d (or_introl eq_refl)). lia.
Qed.

(** ... and no better: one step of unbounded length overruns any deadline (finding K4) *)
Theorem timeout_refuted : forall deadline d, run_until deadline 0 [d] = if Nat.leb deadline 0 then 0 else d.
Proof. intros deadline d. cbn. destruct (Nat.leb deadline 0); reflexivity. Qed.

Theorem non_number_is_failure r : (forall n, r <> RNumber n) -> exit_code r = 1%Z.
Proof. destruct r; [intros H; destruct (H n eq_refl)|reflexivity]. Qed.

Theorem selected_hooks_are_assigned hooks p h :
  In h (select_hooks hooks p) <-> exists ps, In (h, ps) hooks /\ In p ps.
Proof.
  unfold select_hooks. rewrite in_map_iff. split.
  - intros [[h' ps] [<- Hin]]. apply filter_In in Hin. destruct Hin as [Hin Hm]. exists ps. split; [exact Hin|apply memn_In, Hm].
  - intros [ps [Hin Hp]]. exists (h, ps). split; [reflexivity|]. apply filter_In. split; [exact Hin|apply memn_In, Hp].
Qed.
