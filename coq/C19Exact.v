(** C19, the "signature needed" clause at the verifier: for principals that each hold one key, all
    keys distinct, a recorder's signature raises the number of credited principals by exactly one
    when the recorder is a principal of the rule that the approvals have not credited yet, and by
    nothing otherwise. *)
From GV Require Import Sig SigProofs.

Definition key_of (p : principal) : key := match p_keys p with [k] => k | _ => 0%N end.

Record simple (ps : list principal) : Prop := {
  sp_one : forall p, In p ps -> p_keys p = [key_of p] /\ key_of p <> 0%N;
  sp_keys : NoDup (map key_of ps);
  sp_ids : NoDup (map p_id ps) }.

Definition signed (sigs : list sigrec) (k : key) : bool :=
  match dsse_accept [k] sigs with [] => false | _ => true end.

(** principals of [ps] not yet in [up] whose key signed the envelope *)
Definition cred (ps : list principal) (sigs : list sigrec) (up : list pid) : list pid :=
  map p_id (filter (fun p => negb (mem (p_id p) up) && signed sigs (key_of p)) ps).

Lemma dsse_accept_single k sigs x : In x (dsse_accept [k] sigs) -> x = k.
Proof. intros H. apply dsse_accept_spec in H. destruct H as [[<-|[]] _]. reflexivity. Qed.

Lemma cred_irrelevant ps sigs up x :
  ~ In x (map p_id ps) -> cred ps sigs (up ++ [x]) = cred ps sigs up.
Proof.
  intros Hx. unfold cred. f_equal. apply filter_ext_in. intros p Hp. f_equal. f_equal.
  unfold mem. rewrite existsb_app. cbn [existsb]. rewrite orb_false_r.
  destruct (N.eqb_spec (p_id p) x) as [E|E]; [|rewrite orb_false_r; reflexivity].
  exfalso. apply Hx. rewrite <- E. apply in_map, Hp.
Qed.

Lemma env_phase_simple : forall ps sigs up uk w,
  sigs <> [] -> simple ps ->
  (forall p, In p ps -> ~ In (p_id p) up -> ~ In (key_of p) uk) ->
  exists uk' w', env_phase ps sigs up uk w = Some (up ++ cred ps sigs up, uk', w').
Proof.
  induction ps as [|p ps IH]; intros sigs up uk w Hs Hsim H3.
  - exists uk, w. cbn. rewrite app_nil_r. reflexivity.
  - assert (Hsim' : simple ps).
    { destruct Hsim as [H1 H2 H4]. constructor.
      - intros q Hq. apply H1. right. exact Hq.
      - inversion H2; assumption.
      - inversion H4; assumption. }
    cbn [env_phase]. destruct (mem (p_id p) up) eqn:Hm.
    + destruct (IH sigs up uk w Hs Hsim') as [uk' [w' E]]; [intros q Hq; apply H3; right; exact Hq|].
      exists uk', w'. rewrite E. unfold cred. cbn [filter]. rewrite Hm. reflexivity.
    + destruct (sp_one _ Hsim p (or_introl eq_refl)) as [Hk Hk0]. rewrite Hk. cbn [filter].
      assert (Hnu : mem (key_of p) uk = false).
      { apply mem_false, H3; [left; reflexivity|]. apply mem_false, Hm. }
      rewrite Hnu. cbn [negb]. destruct sigs as [|s0 sigs0]; [contradiction|].
      assert (Hidp : ~ In (p_id p) (map p_id ps)). { destruct Hsim as [_ _ H4]. inversion H4; assumption. }
      assert (Hkp : ~ In (key_of p) (map key_of ps)). { destruct Hsim as [_ H2 _]. inversion H2; assumption. }
      match goal with |- context [match dsse_accept ?a ?b with _ => _ end] => change a with [key_of p]; destruct (dsse_accept [key_of p] b) as [|k0 ks] eqn:Hd end.
      * destruct (IH (s0 :: sigs0) up uk w Hs Hsim') as [uk' [w' E]]; [intros q Hq; apply H3; right; exact Hq|].
        exists uk', w'. rewrite E. unfold cred. cbn [filter]. rewrite Hm. unfold signed. rewrite Hd. reflexivity.
      * destruct (IH (s0 :: sigs0) (up ++ [p_id p]) (uk ++ k0 :: ks) (w ++ [(p_id p, k0)]) Hs Hsim') as [uk' [w' E]].
        { intros q Hq Hnq Hin. apply in_app_or in Hin. destruct Hin as [Hin|Hin].
          - apply (H3 q (or_intror Hq)); [|exact Hin]. intros Hu. apply Hnq, in_or_app. left. exact Hu.
          - assert (key_of q = key_of p).
            { apply (dsse_accept_single (key_of p) (s0 :: sigs0)). rewrite Hd. exact Hin. }
            apply Hkp. rewrite <- H. apply in_map, Hq. }
        exists uk', w'. rewrite E. rewrite (cred_irrelevant ps _ up (p_id p) Hidp).
        unfold cred at 2. cbn [filter]. rewrite Hm. unfold signed. rewrite Hd. cbn [negb andb map].
        rewrite <- app_assoc. reflexivity.
Qed.

Lemma git_phase_simple ps g : simple ps ->
  (git_phase ps g = None /\ (g = 0%N \/ forall p, In p ps -> key_of p <> g)) \/
  (exists p, In p ps /\ key_of p = g /\ g <> 0%N /\ git_phase ps g = Some (p_id p, g)).
Proof.
  intros Hsim. induction ps as [|p ps IH]; [left; split; [reflexivity|right; intros p []]|].
  assert (Hsim' : simple ps).
  { destruct Hsim as [H1 H2 H4]. constructor; [intros q Hq; apply H1; right; exact Hq|inversion H2; assumption|inversion H4; assumption]. }
  destruct (sp_one _ Hsim p (or_introl eq_refl)) as [Hk Hk0].
  cbn [git_phase]. rewrite Hk. cbn [mem existsb]. rewrite orb_false_r.
  destruct (N.eqb_spec g 0) as [->|Hg]; cbn [negb andb].
  - destruct (IH Hsim') as [[E _]|[q [Hq [Hkq [Hne _]]]]]; [left; split; [exact E|left; reflexivity]|contradiction].
  - destruct (N.eqb_spec g (key_of p)) as [->|Hne].
    + right. exists p. split; [left; reflexivity|]. split; [reflexivity|]. split; [exact Hk0|reflexivity].
    + destruct (IH Hsim') as [[E [H0|Hall]]|[q [Hq [Hkq [Hq0 E]]]]].
      * contradiction.
      * left. split; [exact E|]. right. intros q [<-|Hq]; [intros H; apply Hne; symmetry; exact H|apply Hall, Hq].
      * right. exists q. split; [right; exact Hq|]. split; [exact Hkq|]. split; [exact Hq0|exact E].
Qed.

Lemma cred_cons p ps sigs up :
  cred (p :: ps) sigs up = if negb (mem (p_id p) up) && signed sigs (key_of p) then p_id p :: cred ps sigs up else cred ps sigs up.
Proof. unfold cred. cbn [filter]. destruct (negb (mem (p_id p) up) && signed sigs (key_of p)); reflexivity. Qed.

Lemma cred_ids ps sigs up x : In x (cred ps sigs up) -> In x (map p_id ps).
Proof. unfold cred. intros H. apply in_map_iff in H. destruct H as [q [<- Hq]]. apply filter_In in Hq. apply in_map, Hq. Qed.

Lemma cred_without_add ps sigs x : NoDup (map p_id ps) ->
  List.length (cred ps sigs [x]) + (if mem x (cred ps sigs []) then 1 else 0) = List.length (cred ps sigs []).
Proof.
  induction ps as [|p ps IH]; intros Hnd; [reflexivity|]. inversion Hnd as [|a l Hnin Hnd']; subst.
  rewrite !cred_cons. cbn [mem existsb]. rewrite orb_false_r. cbn [negb andb].
  destruct (signed sigs (key_of p)) eqn:Hs.
  - destruct (N.eqb_spec (p_id p) x) as [E|E]; cbn [negb andb].
    + subst x. cbn [mem existsb List.length]. rewrite N.eqb_refl. cbn [orb].
      assert (Hm : mem (p_id p) (cred ps sigs []) = false).
      { apply mem_false. intros Hin. apply Hnin. eapply cred_ids, Hin. }
      specialize (IH Hnd'). rewrite Hm in IH. lia.
    + cbn [mem existsb List.length]. destruct (N.eqb_spec x (p_id p)) as [E'|E']; [symmetry in E'; contradiction|]. cbn [orb].
      specialize (IH Hnd'). unfold mem in IH. lia.
  - rewrite andb_false_r. apply IH, Hnd'.
Qed.

Lemma cred_without ps sigs x : NoDup (map p_id ps) ->
  List.length (cred ps sigs [x]) = List.length (cred ps sigs []) - (if mem x (cred ps sigs []) then 1 else 0).
Proof. intros H. pose proof (cred_without_add ps sigs x H). lia. Qed.

Lemma key_inj ps : NoDup (map key_of ps) -> forall q p, In q ps -> In p ps -> key_of q = key_of p -> q = p.
Proof.
  induction ps as [|a l IH]; intros Hk q p Hq Hp E; [destruct Hq|]. inversion Hk as [|x y Hn Hk']; subst.
  destruct Hq as [<-|Hq], Hp as [<-|Hp]; try reflexivity.
  - exfalso. apply Hn. rewrite E. apply in_map, Hp.
  - exfalso. apply Hn. rewrite <- E. apply in_map, Hq.
  - apply IH; assumption.
Qed.

Section Exact.
Variable v : verifier.
Variable sigs : list sigrec.
Hypothesis Hsim : simple (v_principals v).
Hypothesis Hne : sigs <> [].
Hypothesis Hex : v_exhaustive v = false.
Hypothesis Hthr : (1 < v_threshold v)%Z.
Hypothesis Hps : v_principals v <> [].

Let s0 := cred (v_principals v) sigs [].

Lemma verify_without : verify v false 0%N (Some sigs) =
  if (v_threshold v <=? Z.of_nat (List.length s0))%Z then VOkSet s0 else VErr EUnmet s0.
Proof.
  unfold verify, verify_w. destruct (Z.ltb_spec (v_threshold v) 1); [lia|].
  destruct (v_principals v) as [|p0 ps0] eqn:Eps; [contradiction|]. cbn [List.length Nat.eqb orb].
  rewrite Hex. cbn [negb andb].
  destruct (env_phase_simple (p0 :: ps0) sigs [] [] [] Hne) as [uk' [w' E]]; [exact Hsim|intros p _ _ []|].
  rewrite E. cbn [app orb]. fold s0. rewrite andb_false_r.
  destruct (v_threshold v <=? _)%Z; reflexivity.
Qed.

(** the recorder's key belongs to a principal of the rule that is not yet credited: one more *)
Theorem recorder_adds_one g p : In p (v_principals v) -> key_of p = g -> ~ In (p_id p) s0 ->
  (v_threshold v - 1 <= Z.of_nat (List.length s0))%Z ->
  exists s, verify v true g (Some sigs) = VOkSet s.
Proof.
  intros Hp Hg Hnc Hshort.
  destruct (git_phase_simple (v_principals v) g Hsim) as [[_ [H0|Hall]]|[q [Hq [Hkq [Hg0 Egit]]]]].
  - exfalso. destruct (sp_one _ Hsim p Hp) as [_ Hk0]. congruence.
  - exfalso. apply (Hall p Hp Hg).
  - assert (q = p) by (apply (key_inj _ (sp_keys _ Hsim)); [exact Hq|exact Hp|congruence]).
    subst q. unfold verify, verify_w. destruct (Z.ltb_spec (v_threshold v) 1); [lia|].
    destruct (v_principals v) as [|p0 ps0] eqn:Eps; [contradiction|]. cbn [List.length Nat.eqb orb].
    rewrite Egit, Hex. cbn [negb andb]. destruct (Z.eqb_spec (v_threshold v) 1); [lia|]. cbn [andb].
    destruct (env_phase_simple (p0 :: ps0) sigs [p_id p] [g] [(p_id p, g)] Hne) as [uk' [w' E]].
    + exact Hsim.
    + intros r Hr Hnr [Hin|[]]. apply Hnr. left.
      assert (r = p) by (apply (key_inj _ (sp_keys _ Hsim)); [exact Hr|exact Hp|congruence]).
      subst r. reflexivity.
    + rewrite E. cbn [orb].
      assert (Hlen : List.length ([p_id p] ++ cred (p0 :: ps0) sigs [p_id p]) = S (List.length s0)).
      { cbn [app List.length]. f_equal. rewrite cred_without; [|apply (sp_ids _ Hsim)].
        unfold s0 in Hnc. apply mem_false in Hnc. rewrite Hnc. unfold s0. lia. }
      rewrite Hlen. destruct (Z.leb_spec (v_threshold v) (Z.of_nat (S (List.length s0)))); [eexists; reflexivity|lia].
Qed.

(** the recorder's principal is already credited by the approvals: nothing is gained *)
Theorem counted_recorder_adds_nothing g p : In p (v_principals v) -> key_of p = g -> In (p_id p) s0 ->
  ~ (v_threshold v <= Z.of_nat (List.length s0))%Z ->
  exists s, verify v true g (Some sigs) = VErr EUnmet s.
Proof.
  intros Hp Hg Hc Hun.
  destruct (git_phase_simple (v_principals v) g Hsim) as [[_ [H0|Hall]]|[q [Hq [Hkq [Hg0 Egit]]]]].
  - exfalso. destruct (sp_one _ Hsim p Hp) as [_ Hk0]. congruence.
  - exfalso. apply (Hall p Hp Hg).
  - assert (p_id q = p_id p) by (f_equal; apply (key_inj _ (sp_keys _ Hsim)); [exact Hq|exact Hp|congruence]).
    unfold verify, verify_w. destruct (Z.ltb_spec (v_threshold v) 1); [lia|].
    destruct (v_principals v) as [|p0 ps0] eqn:Eps; [contradiction|]. cbn [List.length Nat.eqb orb].
    rewrite Egit, Hex. cbn [negb andb]. destruct (Z.eqb_spec (v_threshold v) 1); [lia|]. cbn [andb].
    destruct (env_phase_simple (p0 :: ps0) sigs [p_id q] [g] [(p_id q, g)] Hne) as [uk' [w' E]].
    + exact Hsim.
    + intros r Hr Hnr [Hin|[]]. apply Hnr. left.
      f_equal. apply (key_inj _ (sp_keys _ Hsim)); [exact Hq|exact Hr|congruence].
    + rewrite E. cbn [orb].
      assert (Hlen : List.length ([p_id q] ++ cred (p0 :: ps0) sigs [p_id q]) = List.length s0).
      { cbn [app List.length]. rewrite cred_without; [|apply (sp_ids _ Hsim)].
        rewrite H. unfold s0 in Hc. apply mem_In in Hc. rewrite Hc.
        unfold s0. apply mem_In in Hc. destruct (cred (p0 :: ps0) sigs []); [destruct Hc|cbn [List.length]; lia]. }
      rewrite Hlen. destruct (Z.leb_spec (v_threshold v) (Z.of_nat (List.length s0))); [contradiction|eexists; reflexivity].
Qed.
End Exact.
