(** C08 model: the persistent cache index (internal/cache/policy.go) — an ordered list of entry
    numbers with ordered insertion — and the searcher answers computed from it
    (internal/policy/searcher.go), against the plain scans of the regular searcher. *)
From Coq Require Export List Arith Bool Lia.
Export ListNotations.

(** the index: entry numbers of policy entries, ascending *)
Definition index := list nat.

Fixpoint insert (n : nat) (l : index) : index :=
  match l with
  | [] => [n]
  | x :: l' => if Nat.eqb n x then l else if Nat.ltb n x then n :: l else x :: insert n l'
  end.

(** FindPolicyEntryNumberForEntry: greatest cached number <= n (None: the special 0 answer) *)
Fixpoint find_le (n : nat) (l : index) : option nat :=
  match l with
  | [] => None
  | x :: l' => if Nat.leb x n then (match find_le n l' with Some y => Some y | None => Some x end) else None
  end.

Definition latest (l : index) : option nat := match rev l with [] => None | x :: _ => Some x end.
Definition first (l : index) : option nat := match l with [] => None | x :: _ => Some x end.

(** FindPolicyEntriesInRange over the index *)
Definition in_range (a b : nat) (l : index) : index := filter (fun x => Nat.leb a x && Nat.leb x b) l.

(** the regular searcher's answers over the log: [pol] lists the numbers of all policy entries,
    ascending (what a scan of the chain finds) *)
Definition scan_le (n : nat) (pol : list nat) : option nat :=
  match rev (filter (fun x => Nat.leb x n) pol) with [] => None | x :: _ => Some x end.

Fixpoint sorted (l : list nat) : Prop :=
  match l with
  | [] => True
  | x :: l' => (match l' with [] => True | y :: _ => x < y end) /\ sorted l'
  end.
