(** Property C06 — rules consulted for a path are exactly those of the documented delegation walk.
    Only statements here; proofs are in WalkProofs.v. *)
From GV Require Import Walk WalkProofs WalkComplete C06Check.

(** Termination: for EVERY policy — cyclic and diamond-shaped delegation graphs, duplicate names,
    files without an allow rule included — and every path, the walk finishes within the fuel the
    model gives it (number of rule files + 1). *)
Theorem C06_terminates : forall pol path, find_verifiers pol path <> WFuel.
Proof. exact find_verifiers_terminates. Qed.
Print Assumptions C06_terminates.

(** Soundness (consulted ⊆ reached): every verifier returned comes from a rule that matches the
    path, is not the trailing (allow) rule of its file, and sits in the top-level file or in a file
    entered through a chain of matching rules; it carries that rule's own threshold and principal
    ids. *)
Theorem C06_sound : forall pol path vs,
  find_verifiers pol path = WOk vs -> Forall (Consulted pol path) vs.
Proof. exact find_verifiers_sound. Qed.
Print Assumptions C06_sound.

(** Never "unprotected" when a rule of the top-level file (other than its trailing allow rule)
    matches the path: the answer then contains at least one verifier. *)
Theorem C06_top_level_match_is_protected : forall pol path f vs,
  find_file pol TargetsRole = Some f ->
  (exists r, In r (removelast (f_rules f)) /\ rule_matches r path = true) ->
  find_verifiers pol path = WOk vs -> vs <> [].
Proof. exact top_level_match_is_protected. Qed.
Print Assumptions C06_top_level_match_is_protected.

(** Completeness (reached ⊆ consulted) for every policy without terminating rules — cyclic and
    diamond-shaped graphs, duplicate file names and files at any delegation depth included: every
    matching non-trailing rule of every file the documented walk enters is consulted, with its own
    name, threshold and principal ids; with C06_sound the consulted set then equals the reached
    set.  Hence a path matched by a reachable rule is never reported unprotected.  A terminating
    rule cuts the walk of its group; that case stays with the per-case comparison of C06Check.v. *)
Theorem C06_complete_without_terminating_rules : forall pol path vs,
  (forall n file r, find_file pol n = Some file -> In r (f_rules file) -> r_term r = false) ->
  find_verifiers pol path = WOk vs ->
  forall f file r, Entered pol path f -> find_file pol f = Some file -> In r (removelast (f_rules file)) ->
    rule_matches r path = true ->
    exists v, In v vs /\ vr_name v = r_name r /\ vr_thr v = r_thr r /\ map fst (vr_pr v) = r_pids r.
Proof. intros pol path vs Hnt. exact (find_verifiers_complete_noterm pol path Hnt vs). Qed.
Print Assumptions C06_complete_without_terminating_rules.

(** Corollary, the property's own wording at every delegation depth: a path matched by a
    non-trailing rule of any file the walk enters is never reported unprotected. *)
Theorem C06_reachable_match_is_protected : forall pol path vs,
  (forall n file r, find_file pol n = Some file -> In r (f_rules file) -> r_term r = false) ->
  find_verifiers pol path = WOk vs ->
  (exists f file r, Entered pol path f /\ find_file pol f = Some file /\ In r (removelast (f_rules file)) /\
     rule_matches r path = true) ->
  vs <> [].
Proof.
  intros pol path vs Hnt H (f & file & r & He & Hf & Hin & Hm).
  destruct (C06_complete_without_terminating_rules pol path vs Hnt H f file r He Hf Hin Hm) as (v & Hv & _).
  intros ->. exact Hv.
Qed.
Print Assumptions C06_reachable_match_is_protected.

(** non-vacuity: a two-level policy without terminating rules whose delegated file is entered *)
Definition c06_deleg_policy : policy :=
  [ (TargetsRole, {| f_defs := [(1%N, [1%N])];
       f_rules := [ {| r_name := [x72;x31]; r_patterns := [[x2a]]; r_term := false; r_pids := [1%N]; r_thr := 1 |};
                    {| r_name := [x61]; r_patterns := [[x2a]]; r_term := false; r_pids := []; r_thr := 1 |} ] |});
    ([x72;x31], {| f_defs := [(2%N, [2%N])];
       f_rules := [ {| r_name := [x72;x32]; r_patterns := [[x78]]; r_term := false; r_pids := [2%N]; r_thr := 1 |};
                    {| r_name := [x61]; r_patterns := [[x2a]]; r_term := false; r_pids := []; r_thr := 1 |} ] |}) ].
Example C06_complete_example :
  Entered c06_deleg_policy [x78] [x72;x31] /\
  exists vs, find_verifiers c06_deleg_policy [x78] = WOk vs /\ map vr_name vs = [[x72;x31]; [x72;x32]].
Proof.
  split.
  - eapply (En_step c06_deleg_policy [x78] TargetsRole _ {| r_name := [x72;x31]; r_patterns := [[x2a]]; r_term := false; r_pids := [1%N]; r_thr := 1 |});
      [constructor|reflexivity|left; reflexivity|reflexivity|discriminate].
  - eexists. split; vm_compute; reflexivity.
Qed.

(** C06_exact_partial.  The full statement — the consulted set EQUALS the reached set under unique
    rule names, hence "matched by a reachable rule => never reported unprotected" — is stated as
    the executable [reached] / [same_names] comparison in C06Check.v and evaluated against the
    implementation's answer on every generated case; the (⊇) direction is a theorem for policies without terminating rules (above) and evaluated per case otherwise.
    That each rule contributes the principal *definitions* of its own file is refuted for the
    faithful model (known finding K7): *)
Definition k7_policy : policy :=
  [ (TargetsRole, {| f_defs := [(1%N, [1%N]); (2%N, [2%N])];
       f_rules := [ {| r_name := [x72;x31]; r_patterns := [[x2a]]; r_term := false; r_pids := [2%N]; r_thr := 1 |};
                    {| r_name := [x72;x32]; r_patterns := [[x2a]]; r_term := false; r_pids := [1%N]; r_thr := 1 |};
                    {| r_name := [x61]; r_patterns := [[x2a]]; r_term := true; r_pids := []; r_thr := 1 |} ] |});
    ([x72;x31], {| f_defs := [(1%N, [3%N])];
       f_rules := [ {| r_name := [x61]; r_patterns := [[x2a]]; r_term := true; r_pids := []; r_thr := 1 |} ] |}) ].

Theorem C06_own_principals_refuted :
  exists pol path vs v, find_verifiers pol path = WOk vs /\ In v vs /\ vr_name v = [x72;x32] /\
    vr_pr v = [(1%N, Some [3%N])]       (* rule r2 of the top-level file gets file r1's key for principal 1 *)
    /\ lookup_def (f_defs (snd (hd (TargetsRole, {| f_defs := []; f_rules := [] |}) pol))) 1%N = Some [1%N].
Proof.
  exists k7_policy, [x78].
  eexists. eexists. split; [vm_compute; reflexivity|]. split; [right; left; reflexivity|]. vm_compute. auto.
Qed.
Print Assumptions C06_own_principals_refuted.

Example C06_unprotected_example :
  find_verifiers [(TargetsRole, {| f_defs := []; f_rules :=
     [ {| r_name := [x72]; r_patterns := [[x67;x2a]]; r_term := false; r_pids := []; r_thr := 1 |};
       {| r_name := [x61]; r_patterns := [[x2a]]; r_term := true; r_pids := []; r_thr := 1 |} ] |})] [x66;x6f;x6f]
  = WOk [].
Proof. vm_compute. reflexivity. Qed.
