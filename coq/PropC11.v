(** Property C11 — global rules add constraints; they never replace or weaken delegation rules.
    Only statements here; proofs are in WorldProofs.v. *)
From GV Require Import World WorldProofs WorldExamples.

(** Monotonicity, for every world, policy state, entry and set of global rules: whatever
    [verify_entry] accepts under a policy with global rules it also accepts under the same policy
    without them — declaring, changing or removing a global rule never makes verification accept a
    change that the delegation rules alone reject.  (This is false for the code before the F10
    repair: the exhaustive verifier satisfied every rule.) *)
Theorem C11_globals_only_restrict : forall w ps i ref commit signer,
  verify_entry w ps i ref commit signer = true -> verify_entry w (without_globals ps) i ref commit signer = true.
Proof. exact globals_only_restrict. Qed.
Print Assumptions C11_globals_only_restrict.

(** The same for global rules inherited from controller repositories (the policy tree's
    gittuf-controller/<name>/ copies, which State.preprocess adds to the repository's own): they
    are checked together with the repository's own rules and never make verification accept more. *)
Theorem C11_inherited_globals_only_restrict : forall w ps ctl i ref commit signer,
  verify_entry w (with_controllers ps ctl) i ref commit signer = true -> verify_entry w ps i ref commit signer = true.
Proof. exact inherited_globals_only_restrict. Qed.
Print Assumptions C11_inherited_globals_only_restrict.

(** The constraints themselves, by computation on the model and replayed against the
    implementation: a matching threshold rule needs that many distinct authenticated principals even
    where no delegation rule protects the namespace; a block-force-push rule needs descent from the
    previous unskipped state. *)
Definition pol_g (gs : list grule) : pstate :=
  {| ps_root_version := ps_root_version pol1; ps_root_keys := ps_root_keys pol1; ps_root_thr := ps_root_thr pol1;
     ps_targets_keys := ps_targets_keys pol1; ps_targets_thr := ps_targets_thr pol1; ps_has_targets_role := true;
     ps_root_signers := ps_root_signers pol1; ps_files := ps_files pol1; ps_globals := gs |}.

Definition other : bytes := [x72;x65;x66;x73;x2f;x68;x65;x61;x64;x73;x2f;x6f].   (* refs/heads/o *)

Example C11_threshold_applies_without_delegation_rule :
  let w := {| w_log := [WEPolicy (pol_g [GThreshold [x67] [[x2a]] 1]); WERef other 2%N 0%N]; w_commits := commits4 |} in
  verify_full w other = VFail VEViolation.          (* unsigned push to an otherwise unprotected branch *)
Proof. vm_compute. reflexivity. Qed.

Example C11_block_force_push :
  let w := {| w_log := [WEPolicy (pol_g [GBlockForce [x67] [[x2a]]]); WERef mainref 3%N 4%N; WERef mainref 2%N 4%N]; w_commits := commits4 |} in
  verify_full w mainref = VFail VEViolation.        (* 2 is not a descendant of 3 *)
Proof. vm_compute. reflexivity. Qed.

(** a controller's threshold rule applies although the repository declares a rule of its own that
    does not match the branch (both sets are in force) *)
Example C11_controller_rule_applies_beside_own_rules :
  let tags := [x67;x69;x74;x3a;x72;x65;x66;x73;x2f;x74;x61;x67;x73;x2f;x2a] in      (* git:refs/tags/* *)
  let ps := with_controllers (pol_g [GBlockForce [x67] [tags]]) [([x63], [GThreshold [x68] [[x2a]] 1])] in
  let w := {| w_log := [WEPolicy ps; WERef other 2%N 0%N]; w_commits := commits4 |} in
  verify_full w other = VFail VEViolation /\
  verify_full {| w_log := [WEPolicy (pol_g [GBlockForce [x67] [tags]]); WERef other 2%N 0%N]; w_commits := commits4 |} other = VTip 2%N.
Proof. vm_compute. split; reflexivity. Qed.

(** C11_refuted at the level of whole histories (finding K14).  The entry-level theorem above does
    not lift: with a global rule declared (here one that does not even match the branch) an
    authorization envelope without signatures makes entry 3 a violation; revoked and followed by a
    tree-same "fix" that nobody authorised (K5), the history verifies - while the delegation rules
    alone accept entry 3, so its revocation leaves the unauthorised entry 4 to be rejected. *)
Definition commits_k14 : list (N * cinfo) :=
  [ (1%N, {| ci_tree := 1%N; ci_parents := [] |}); (2%N, {| ci_tree := 2%N; ci_parents := [1%N] |});
    (3%N, {| ci_tree := 3%N; ci_parents := [2%N] |}); (4%N, {| ci_tree := 2%N; ci_parents := [3%N] |}) ].
Definition log_k14 (ps : pstate) : list wentry :=
  [ WEPolicy ps; WERef mainref 2%N 4%N;
    WEAttest [ {| az_ref := mainref; az_from := 2%N; az_to := 3%N; az_path_ref := mainref; az_path_from := 2%N; az_path_to := 3%N; az_signers := [] |} ];
    WERef mainref 3%N 4%N; WERef mainref 4%N 3%N; WEAnn [3] true ].
Theorem C11_history_level_refuted_K14 :
  let tags := [x67;x69;x74;x3a;x72;x65;x66;x73;x2f;x74;x61;x67;x73;x2f;x2a] in      (* git:refs/tags/* *)
  verify_full {| w_log := log_k14 (pol_g [GThreshold [x67] [tags] 3]); w_commits := commits_k14 |} mainref = VTip 4%N /\
  verify_full {| w_log := log_k14 (pol_g []); w_commits := commits_k14 |} mainref = VFail VEViolation.
Proof. vm_compute. split; reflexivity. Qed.
Print Assumptions C11_history_level_refuted_K14.
