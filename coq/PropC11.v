(** Property C11 — global rules add constraints; they never replace or weaken delegation rules.
    Only statements here; proofs are in WorldProofs.v. *)
From GV Require Import World WorldProofs WorldExamples.

(** Monotonicity, for every world, policy state, entry and set of global rules: whatever
    [verify_entry] accepts under a policy with global rules it also accepts under the same policy
    without them — declaring, changing or removing a global rule never makes verification accept a
    change that the delegation rules alone reject.  (This is false for the code before the F10
    repair: the exhaustive verifier satisfied every rule.) *)
Theorem C11_globals_only_restrict : forall w ps i ref commit signer,
  verify_entry w ps i ref commit signer = true -> verify_entry w (without_globals ps) i ref commit signer = true.
Proof. exact globals_only_restrict. Qed.
Print Assumptions C11_globals_only_restrict.

(** The constraints themselves, by computation on the model and replayed against the
    implementation: a matching threshold rule needs that many distinct authenticated principals even
    where no delegation rule protects the namespace; a block-force-push rule needs descent from the
    previous unskipped state. *)
Definition pol_g (gs : list grule) : pstate :=
  {| ps_root_version := ps_root_version pol1; ps_root_keys := ps_root_keys pol1; ps_root_thr := ps_root_thr pol1;
     ps_targets_keys := ps_targets_keys pol1; ps_targets_thr := ps_targets_thr pol1; ps_has_targets_role := true;
     ps_root_signers := ps_root_signers pol1; ps_files := ps_files pol1; ps_globals := gs |}.

Definition other : bytes := [x72;x65;x66;x73;x2f;x68;x65;x61;x64;x73;x2f;x6f].   (* refs/heads/o *)

Example C11_threshold_applies_without_delegation_rule :
  let w := {| w_log := [WEPolicy (pol_g [GThreshold [x67] [[x2a]] 1]); WERef other 2%N 0%N]; w_commits := commits4 |} in
  verify_full w other = VFail VEViolation.          (* unsigned push to an otherwise unprotected branch *)
Proof. vm_compute. reflexivity. Qed.

Example C11_block_force_push :
  let w := {| w_log := [WEPolicy (pol_g [GBlockForce [x67] [[x2a]]]); WERef mainref 3%N 4%N; WERef mainref 2%N 4%N]; w_commits := commits4 |} in
  verify_full w mainref = VFail VEViolation.        (* 2 is not a descendant of 3 *)
Proof. vm_compute. reflexivity. Qed.
