(** Property C17 — concurrent writers cannot corrupt the log.
    Only statements here; proofs are in SchedProofs.v. *)
From GV Require Import RslStore LogOps LogOpsProofs SchedProofs.

(** Chain safety, for every number of writers, every operation mix and EVERY schedule of their
    semantic storage steps (numbering read; inside Commit: tip read, object creation,
    compare-and-set): the final log is a single-parent chain with distinct entries; every writer
    that reported success has its entry on it exactly once; every writer that reported failure left
    no entry on it; nobody reports success without an entry. *)
Theorem C17_chain_safe : forall ops sched s0 L0,
  fresh s0 -> lchain (ls_store s0) (ls_tip s0) L0 -> NoDup (map fst L0) ->
  let '(s, ws) := exec s0 ops sched in
  exists L, lchain (ls_store s) (ls_tip s) L /\ NoDup (map fst L) /\
    forall i w, nth_error ws i = Some w ->
      match w with
      | WDone true (Some c) => In c (map fst L)
      | WDone true None => False
      | WDone false (Some c) => ~ In c (map fst L)
      | WCreated _ _ c => ~ In c (map fst L)
      | _ => True
      end.
Proof. exact exec_chain_safe. Qed.
Print Assumptions C17_chain_safe.

(** The start-state hypotheses hold for every state reached by sequential recording. *)
Theorem C17_start_states : forall ops s L,
  fresh s -> lchain (ls_store s) (ls_tip s) L -> numbering_ok L = true -> ops_ok s ops = true -> NoDup (map fst L) ->
  let '(s', ws) := run_ops s ops in
  exists L', fresh s' /\ lchain (ls_store s') (ls_tip s') (L' ++ L) /\ NoDup (map fst (L' ++ L)) /\ numbering_ok (L' ++ L) = true.
Proof. exact run_ops_nodup. Qed.
Print Assumptions C17_start_states.

(** Consecutive numbering under concurrency is REFUTED for the faithful model (known finding K3):
    two writers that both read the tip before either commits both succeed with the same number,
    and the log can no longer be walked by the readers (GetParentForEntry rejects the step). The
    same schedule is replayed against the implementation on every run of the check. *)
Definition k3_ops : list wop := [WRef [x61] 1000%N true; WRef [x62] 1001%N true].
Definition k3_sched : list nat := [0; 1; 0; 0; 0; 1; 1; 1].

Theorem C17_numbering_refuted :
  exists ops sched, let '(s, ws) := exec init_state ops sched in
    forallb succeeded ws = true /\ log_ok (ls_store s) (ls_tip s) = false.
Proof. exists k3_ops, k3_sched. vm_compute. auto. Qed.
Print Assumptions C17_numbering_refuted.

(** ... while without an intervening compare-and-set the numbering is fine (sequential schedule). *)
Example C17_sequential_ok :
  let '(s, ws) := exec init_state k3_ops [0; 0; 0; 0; 1; 1; 1; 1] in
  forallb succeeded ws = true /\ log_ok (ls_store s) (ls_tip s) = true.
Proof. vm_compute. auto. Qed.

Example C17_init : fresh init_state /\ lchain (ls_store init_state) (ls_tip init_state) [] /\ NoDup (map fst (@nil ent)).
Proof. repeat split; [intros i c H; discriminate|constructor|constructor]. Qed.
