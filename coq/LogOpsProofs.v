(** C03 proofs: recording keeps the log an append-only, consecutively numbered single chain. *)
From GV Require Import RslStore LogOps.

Inductive lchain (st : store) : option id -> list ent -> Prop :=
| LC_none : lchain st None []
| LC_first i e : lookup st i = Some {| c_parents := []; c_entry := Some e |} -> lchain st (Some i) [(i, e)]
| LC_next i e p pe L :
    lookup st i = Some {| c_parents := [p]; c_entry := Some e |} ->
    lchain st (Some p) ((p, pe) :: L) -> lchain st (Some i) ((i, e) :: (p, pe) :: L).

Definition fresh (s : lstate) : Prop := forall i c, lookup (ls_store s) i = Some c -> (i < ls_next s)%N.

Definition Inv (s : lstate) : Prop :=
  fresh s /\ exists L, lchain (ls_store s) (ls_tip s) L /\ numbering_ok L = true.

Lemma lookup_cons_other st c obj i : i <> c -> lookup ((c, obj) :: st) i = lookup st i.
Proof. intros H. cbn. destruct (N.eqb_spec i c); [contradiction|reflexivity]. Qed.

Lemma lookup_cons_same st c obj : lookup ((c, obj) :: st) c = Some obj.
Proof. cbn. now rewrite N.eqb_refl. Qed.

Lemma lchain_head st t L : lchain st t L ->
  match t, L with
  | None, [] => True
  | Some i, (j, _) :: _ => i = j
  | _, _ => False
  end.
Proof. destruct 1; auto. Qed.

Lemma lchain_extend st t L c obj :
  (forall i o, lookup st i = Some o -> i <> c) -> lchain st t L -> lchain ((c, obj) :: st) t L.
Proof.
  intros Hf. induction 1 as [|i e Hl|i e p pe L Hl Hc IH].
  - constructor.
  - apply LC_first. rewrite lookup_cons_other; eauto.
  - eapply LC_next; [rewrite lookup_cons_other; eauto|assumption].
Qed.

Lemma lchain_change_tip st t L : lchain st t L -> forall t', t' = t -> lchain st t' L.
Proof. intros H t' ->. exact H. Qed.

Lemma latest_of_chain st t L : lchain st t L ->
  match L with
  | [] => t = None
  | (i, e) :: _ => t = Some i /\ latest_entry st t = ROk (i, e)
  end.
Proof.
  destruct 1 as [|i e Hl|i e p pe L Hl Hc]; [reflexivity| |]; split; try reflexivity;
    unfold latest_entry, get_entry; now rewrite Hl.
Qed.

Lemma opt_id_eqb_refl t : opt_id_eqb t t = true.
Proof. destruct t; cbn; [apply N.eqb_refl|reflexivity]. Qed.

Lemma numbering_ok_cons x y l :
  numbering_ok (x :: y :: l) =
  (if (enum (snd x) <=? 1)%N then N.eqb (enum (snd y)) 0 else N.eqb (enum (snd y)) (enum (snd x) - 1))
  && numbering_ok (y :: l).
Proof. reflexivity. Qed.

(** an unnumbered (legacy) operation is only meaningful while the log is still unnumbered *)
Definition op_ok (L : list ent) (o : wop) : Prop :=
  op_numbered o = false -> match L with [] => True | (_, e) :: _ => enum e = 0%N end.

(** what one operation does, in full *)
Theorem run_op_spec s o L :
  fresh s -> lchain (ls_store s) (ls_tip s) L -> numbering_ok L = true -> op_ok L o ->
  let '(s', w) := run_op s o in
  if op_valid (ls_store s) o then
    (* success: exactly one new entry, on top of the old chain, correctly numbered *)
    exists n, let c := ls_next s in
      w = WDone true (Some c) /\
      ls_tip s' = Some c /\ ls_next s' = N.succ c /\
      ls_store s' = (c, {| c_parents := opt_list (ls_tip s); c_entry := Some (op_entry o n) |}) :: ls_store s /\
      fresh s' /\ lchain (ls_store s') (ls_tip s') ((c, op_entry o n) :: L) /\
      numbering_ok ((c, op_entry o n) :: L) = true
  else
    (* refusal: nothing changes *)
    w = WDone false None /\ s' = s.
Proof.
  intros Hf Hc Hn Hok. unfold run_op. cbn [wstep].
  destruct (op_valid (ls_store s) o) eqn:Ev; cbn [negb]; [|cbn; auto].
  pose proof (latest_of_chain _ _ _ Hc) as Hl.
  (* the number chosen *)
  assert (exists n,
    (let '(s1, w1) := (if negb (op_numbered o) then (s, WRead 0%N (ls_tip s))
                       else match latest_entry (ls_store s) (ls_tip s) with
                            | ROk it => (s, WNumbered (enum (snd it) + 1)%N)
                            | RErr RNotFound => (s, WNumbered 1%N)
                            | RErr _ => (s, WDone false None) end) in
     let '(s2, w2) := wstep s1 o w1 in let '(s3, w3) := wstep s2 o w2 in wstep s3 o w3)
    = (let c := ls_next s in
       ({| ls_store := (c, {| c_parents := opt_list (ls_tip s); c_entry := Some (op_entry o n) |}) :: ls_store s;
           ls_tip := Some c; ls_next := N.succ c |}, WDone true (Some c)))
    /\ numbering_ok ((ls_next s, op_entry o n) :: L) = true) as (n & -> & Hnum).
  { destruct (op_numbered o) eqn:En; cbn [negb].
    - destruct L as [|[i e] L].
      + exists 1%N. rewrite !Hl. cbn [latest_entry]. cbn [wstep ls_tip ls_store ls_next].
        rewrite opt_id_eqb_refl. split; [cbn zeta; now rewrite ?Hl|]. cbn. now destruct o.
      + destruct Hl as [Ht Hl]. rewrite Hl. cbn [snd]. exists (enum e + 1)%N. cbn [wstep ls_tip ls_store ls_next].
        rewrite opt_id_eqb_refl. split; [reflexivity|].
        rewrite numbering_ok_cons, Hn, andb_true_r. cbn [snd].
        assert (enum (op_entry o (enum e + 1)) = enum e + 1)%N as -> by now destruct o.
        destruct (N.leb_spec (enum e + 1) 1); apply N.eqb_eq; lia.
    - exists 0%N. cbn [wstep ls_tip ls_store ls_next]. rewrite opt_id_eqb_refl. split; [reflexivity|].
      specialize (Hok En). destruct L as [|[i e] L].
      + cbn. now destruct o.
      + rewrite numbering_ok_cons, Hn, andb_true_r. cbn [snd].
        assert (enum (op_entry o 0) = 0)%N as -> by now destruct o. cbn. now apply N.eqb_eq. }
  exists n. cbn [ls_tip ls_next ls_store]. repeat split; try assumption.
  - intros i c. cbn [ls_store ls_next]. cbn [lookup]. destruct (N.eqb_spec i (ls_next s)) as [->|Hne]; [lia|].
    intros H. specialize (Hf _ _ H). lia.
  - assert (Hfr : forall i o0, lookup (ls_store s) i = Some o0 -> i <> ls_next s).
    { intros i o0 H. specialize (Hf _ _ H). lia. }
    destruct L as [|[i e] L].
    + rewrite Hl. cbn [opt_list]. apply LC_first. apply lookup_cons_same.
    + destruct Hl as [Ht _]. rewrite Ht. cbn [opt_list]. eapply LC_next; [apply lookup_cons_same|].
      apply lchain_extend; [assumption|]. rewrite <- Ht. exact Hc.
Qed.

Lemma legacy_ok_op_ok s o L : lchain (ls_store s) (ls_tip s) L -> legacy_ok s o = true -> op_ok L o.
Proof.
  intros Hc Hl Hn. unfold legacy_ok in Hl. rewrite Hn in Hl. cbn [orb] in Hl.
  pose proof (latest_of_chain _ _ _ Hc) as H. destruct L as [|[i e] L]; [exact I|].
  destruct H as [_ H]. rewrite H in Hl. cbn [snd] in Hl. now apply N.eqb_eq.
Qed.

Definition succeeded (w : wstatus) : bool := match w with WDone true (Some _) => true | _ => false end.
Definition refused (w : wstatus) : bool := match w with WDone false None => true | _ => false end.

(** every operation sequence: the invariant holds at the end, the log only grew at the top
    (every earlier tip is still an ancestor), by exactly one entry per successful operation, and a
    refused operation appended nothing *)
Theorem run_ops_spec : forall ops s L,
  fresh s -> lchain (ls_store s) (ls_tip s) L -> numbering_ok L = true -> ops_ok s ops = true ->
  let '(s', ws) := run_ops s ops in
  exists L', fresh s' /\ lchain (ls_store s') (ls_tip s') (L' ++ L) /\ numbering_ok (L' ++ L) = true /\
             List.length L' = List.length (filter succeeded ws) /\
             forallb (fun w => succeeded w || refused w) ws = true /\ List.length ws = List.length ops.
Proof.
  induction ops as [|o ops IH]; intros s L Hf Hc Hn Hok; cbn [run_ops].
  - exists []. cbn [app List.length filter forallb]. repeat split; assumption.
  - cbn [ops_ok] in Hok. apply andb_true_iff in Hok as [Hl Hok].
    pose proof (run_op_spec s o L Hf Hc Hn (legacy_ok_op_ok _ _ _ Hc Hl)) as Hs.
    destruct (run_op s o) as [s1 w] eqn:Er. cbn [fst] in Hok.
    destruct (op_valid (ls_store s) o).
    + destruct Hs as (n & Hw & Ht & Hnx & Hst & Hf1 & Hc1 & Hn1).
      specialize (IH s1 _ Hf1 Hc1 Hn1 Hok). destruct (run_ops s1 ops) as [s2 ws].
      destruct IH as (L' & Hf2 & Hc2 & Hn2 & Hlen & Hall & Hlw).
      exists (L' ++ [(ls_next s, op_entry o n)]). rewrite <- !app_assoc. cbn [app].
      repeat split; try assumption.
      * rewrite app_length, Hlen, Hw. cbn. lia.
      * rewrite Hw. cbn. assumption.
      * cbn. now rewrite Hlw.
    + destruct Hs as [Hw ->]. specialize (IH s _ Hf Hc Hn Hok). destruct (run_ops s ops) as [s2 ws].
      destruct IH as (L' & Hf2 & Hc2 & Hn2 & Hlen & Hall & Hlw).
      exists L'. repeat split; try assumption.
      * rewrite Hw. cbn. assumption.
      * rewrite Hw. cbn. assumption.
      * cbn. now rewrite Hlw.
Qed.

(** the boolean [log_ok], which the check evaluates on the implementation's commit graph, is
    implied by the invariant *)
Lemma chain_ids_of_lchain st : forall L t, lchain st t L -> forall f, List.length L <= f -> chain_ids st f t = Some L.
Proof.
  intros L t Hc. induction Hc as [|i e Hl|i e p pe L Hl Hc IH]; intros f Hf.
  - destruct f; reflexivity.
  - destruct f; [cbn in Hf; lia|]. cbn. now rewrite Hl.
  - destruct f; [cbn in Hf; lia|]. cbn [chain_ids]. rewrite Hl.
    rewrite IH by (cbn in *; lia). reflexivity.
Qed.
