(** C15 proofs. *)
From GV Require Import Reconcile BytesLemmas.

(** annotations name only positions below [bound] *)
Definition targets_below (bound : nat) (l : list lent) : Prop :=
  forall ts s, In (LAnn ts s) l -> forall t, In t ts -> t < bound.

Definition core (e : lent) : lent := match e with LAnn ts s => LAnn (map (fun _ => 0) ts) s | _ => e end.

Lemma core_shift p k e : core (shift p k e) = core e.
Proof. destruct e; cbn; [reflexivity|reflexivity|]. rewrite map_map. reflexivity. Qed.

(** diverged, no conflict: the result extends the remote log by the local-only entries, each once,
    in order, meaning the same apart from the positions annotations name *)
Theorem reconcile_diverged pre ls rs l :
  ls <> [] -> rs <> [] -> reconcile pre ls rs = ROk l ->
  exists tail, l = (pre ++ rs) ++ tail /\ List.length tail = List.length ls /\ map core tail = map core ls.
Proof.
  intros Hl Hr H. unfold reconcile in H. destruct ls as [|e ls']; [contradiction|]. destruct rs as [|f rs']; [contradiction|].
  destruct (existsb _ _); [discriminate|]. injection H as <-.
  exists (map (shift (List.length pre) (List.length (f :: rs'))) (e :: ls')).
  split; [rewrite <- app_assoc; reflexivity|]. split; [apply map_length|].
  rewrite map_map. apply map_ext. intros a. apply core_shift.
Qed.

Theorem reconcile_conflict_iff pre ls rs :
  reconcile pre ls rs = RConflict <->
  ls <> [] /\ rs <> [] /\ exists r, In r (updated_refs ls) /\ In r (updated_refs rs).
Proof.
  unfold reconcile. destruct ls as [|e ls']; [split; [discriminate|intros [H _]; contradiction]|].
  destruct rs as [|f rs']; [split; [discriminate|intros [_ [H _]]; contradiction]|].
  destruct (existsb (fun r => mem_ref r (updated_refs (f :: rs'))) (updated_refs (e :: ls'))) eqn:E.
  - split; [|reflexivity]. intros _. split; [discriminate|]. split; [discriminate|].
    apply existsb_exists in E. destruct E as [r [Hin Hm]]. exists r. split; [exact Hin|].
    unfold mem_ref in Hm. apply existsb_exists in Hm. destruct Hm as [r' [Hin' Hb]]. apply beq_eq in Hb. subst r'. exact Hin'.
  - split; [discriminate|]. intros [_ [_ [r [H1 H2]]]]. exfalso.
    assert (existsb (fun r => mem_ref r (updated_refs (f :: rs'))) (updated_refs (e :: ls')) = true).
    { apply existsb_exists. exists r. split; [exact H1|]. unfold mem_ref. apply existsb_exists. exists r. split; [exact H2|apply beq_refl]. }
    congruence.
Qed.

Lemma skipped_app a b i : skipped (a ++ b) i = skipped a i || skipped b i.
Proof. unfold skipped. apply existsb_app. Qed.

Lemma skipped_below bound l i : targets_below bound l -> bound <= i -> skipped l i = false.
Proof.
  intros Hw Hi. unfold skipped. destruct (existsb _ l) eqn:E; [|reflexivity]. exfalso.
  apply existsb_exists in E. destruct E as [e [Hin He]]. destruct e as [| |ts s]; try discriminate.
  destruct s; [|discriminate]. apply existsb_exists in He. destruct He as [t [Ht Hb]].
  apply Nat.eqb_eq in Hb. subst t. specialize (Hw ts true Hin i Ht). lia.
Qed.

Lemma skipped_shift p k ls j : skipped (map (shift p k) ls) (p + k + j) = skipped ls (p + j).
Proof.
  unfold skipped. induction ls as [|e ls IH]; [reflexivity|]. cbn [map existsb]. rewrite IH. f_equal.
  destruct e as [| |ts s]; cbn [shift]; try reflexivity. destruct s; [|reflexivity].
  induction ts as [|t ts IHt]; [reflexivity|]. cbn [map existsb]. rewrite IHt. f_equal.
  destruct (Nat.ltb_spec t p).
  - destruct (Nat.eqb_spec (p + k + j) t); destruct (Nat.eqb_spec (p + j) t); try reflexivity; lia.
  - destruct (Nat.eqb_spec (p + k + j) (t + k)); destruct (Nat.eqb_spec (p + j) t); try reflexivity; lia.
Qed.

(** a local-only entry is revoked after reconciliation exactly when it was revoked before *)
Theorem revocation_preserved pre ls rs j :
  targets_below (List.length pre) pre -> targets_below (List.length pre + List.length rs) rs ->
  j < List.length ls ->
  skipped (pre ++ rs ++ map (shift (List.length pre) (List.length rs)) ls) (List.length pre + List.length rs + j)
  = skipped (pre ++ ls) (List.length pre + j).
Proof.
  intros Hp Hr Hj. rewrite !skipped_app, skipped_shift.
  rewrite (skipped_below _ pre _ Hp) by lia. rewrite (skipped_below _ rs _ Hr) by lia.
  rewrite (skipped_below _ pre _ Hp) by lia. reflexivity.
Qed.

Lemma skipped_shift_low p k ls i : i < p -> skipped (map (shift p k) ls) i = skipped ls i.
Proof.
  intros Hi. unfold skipped. induction ls as [|e ls IH]; [reflexivity|]. cbn [map existsb]. rewrite IH. f_equal.
  destruct e as [| |ts s]; cbn [shift]; try reflexivity. destruct s; [|reflexivity].
  induction ts as [|t ts IHt]; [reflexivity|]. cbn [map existsb]. rewrite IHt. f_equal.
  destruct (Nat.ltb_spec t p); [reflexivity|].
  destruct (Nat.eqb_spec i (t + k)); destruct (Nat.eqb_spec i t); try reflexivity; lia.
Qed.

(** a shared entry is revoked afterwards exactly when either side revoked it *)
Theorem shared_revocations_merged pre ls rs i : i < List.length pre ->
  skipped (pre ++ rs ++ map (shift (List.length pre) (List.length rs)) ls) i
  = skipped (pre ++ ls) i || skipped (pre ++ rs) i.
Proof.
  intros Hi. rewrite !skipped_app, (skipped_shift_low _ _ _ _ Hi).
  destruct (skipped pre i), (skipped rs i), (skipped ls i); reflexivity.
Qed.

(** ** sync *)
Lemma rlookup_rset refs r v r' : rlookup (rset refs r v) r' = if beq r' r then Some v else rlookup refs r'.
Proof.
  induction refs as [|[q x] refs IH]; cbn [rset rlookup]; [destruct (beq r' r); reflexivity|].
  destruct (beq r q) eqn:E.
  - apply beq_eq in E. subst q. cbn [rlookup]. destruct (beq r' r); reflexivity.
  - cbn [rlookup]. destruct (beq r' q) eqn:F.
    + apply beq_eq in F. subst q. destruct (beq r' r) eqn:G; [|reflexivity].
      apply beq_eq in G. subst r'. rewrite beq_refl in E. discriminate.
    + exact IH.
Qed.

Lemma rlookup_apply_sets sets : forall refs r v, rlookup (apply_sets refs sets) r = Some v ->
  rlookup refs r = Some v \/ In (r, v) sets.
Proof.
  unfold apply_sets. induction sets as [|[q x] sets IH]; intros refs r v H; cbn [fold_left] in H; [left; exact H|].
  destruct (IH _ _ _ H) as [H1|H1]; [|right; right; exact H1].
  cbn [fst snd] in H1. rewrite rlookup_rset in H1. destruct (beq r q) eqn:E.
  - apply beq_eq in E. subst q. injection H1 as <-. right. left. reflexivity.
  - left. exact H1.
Qed.

Lemma plan_inv g p rs lrefs : forall tips acc,
  (forall rt, In rt (fst acc) -> In rt (latest_tips p rs) /\ exists lt, rlookup lrefs (fst rt) = Some lt /\ descends g (snd rt) lt = true) ->
  (forall rt, In rt (snd acc) -> In rt (latest_tips p rs)) ->
  (forall rt, In rt tips -> In rt (latest_tips p rs)) ->
  let res := fold_left (fun acc rt =>
               match rlookup lrefs (fst rt) with
               | None => acc
               | Some lt => if descends g (snd rt) lt then (fst acc ++ [rt], snd acc) else (fst acc, snd acc ++ [rt])
               end) tips acc in
  (forall rt, In rt (fst res) -> In rt (latest_tips p rs) /\ exists lt, rlookup lrefs (fst rt) = Some lt /\ descends g (snd rt) lt = true) /\
  (forall rt, In rt (snd res) -> In rt (latest_tips p rs)).
Proof.
  induction tips as [|rt tips IH]; intros acc H1 H2 H3; cbn [fold_left]; [split; assumption|].
  apply IH; [| |intros x Hx; apply H3; right; exact Hx];
    destruct (rlookup lrefs (fst rt)) as [lt|] eqn:El; try assumption;
    destruct (descends g (snd rt) lt) eqn:Ed; cbn [fst snd]; try assumption.
  - intros x Hx. apply in_app_or in Hx. destruct Hx as [Hx|[<-|[]]]; [apply H1, Hx|].
    split; [apply H3; left; reflexivity|]. exists lt. split; assumption.
  - intros x Hx. apply in_app_or in Hx. destruct Hx as [Hx|[<-|[]]]; [apply H2, Hx|apply H3; left; reflexivity].
Qed.

(** after a sync that reports success, every local reference holds either what it held or what the
    latest unskipped remote-only entry for it records; unless told to overwrite, a reference that
    moved moved forward (its new state descends from the old one); and nothing else changed locally
    when sync reported divergence *)
Theorem sync_moves_only_to_recorded_state g pre ls rs s overwrite s' r v :
  sync g pre ls rs s overwrite = SOk s' -> rlookup (s_lrefs s') r = Some v ->
  rlookup (s_lrefs s) r = Some v \/
  (In (r, v) (latest_tips (List.length pre) rs) /\
   (overwrite = false -> exists v0, rlookup (s_lrefs s) r = Some v0 /\ descends g v v0 = true)).
Proof.
  intros H Hv. unfold sync in H.
  destruct ls as [|e ls'], rs as [|f rs'].
  - injection H as <-. left. exact Hv.
  - cbn [andb] in H. destruct (plan g (List.length pre) (f :: rs') (s_lrefs s)) as [ff dv] eqn:Hp.
    destruct (negb (Nat.eqb (List.length dv) 0) && negb overwrite) eqn:Hd; [discriminate|]. injection H as <-.
    cbn [s_lrefs] in Hv. apply rlookup_apply_sets in Hv. destruct Hv as [Hv|Hv]; [left; exact Hv|]. right.
    destruct (plan_inv g (List.length pre) (f :: rs') (s_lrefs s) (latest_tips (List.length pre) (f :: rs')) ([], [])
                (fun rt (H : In rt []) => match H with end) (fun rt (H : In rt []) => match H with end) (fun rt H => H)) as [P1 P2].
    unfold plan in Hp. rewrite Hp in P1, P2. cbn [fst snd] in P1, P2.
    apply in_app_or in Hv. destruct Hv as [Hv|Hv].
    + destruct (P1 _ Hv) as [Hin [lt [Hl Hdsc]]]. split; [exact Hin|]. intros _. exists lt. split; assumption.
    + split; [apply P2, Hv|]. intros Ho. subst overwrite. destruct dv; [destruct Hv|discriminate].
  - injection H as <-. left. exact Hv.
  - destruct overwrite; cbn [negb andb] in H; [|discriminate].
    destruct (plan g (List.length pre) (f :: rs') (s_lrefs s)) as [ff dv] eqn:Hp.
    rewrite andb_false_r in H. injection H as <-.
    cbn [s_lrefs] in Hv. apply rlookup_apply_sets in Hv. destruct Hv as [Hv|Hv]; [left; exact Hv|]. right.
    destruct (plan_inv g (List.length pre) (f :: rs') (s_lrefs s) (latest_tips (List.length pre) (f :: rs')) ([], [])
                (fun rt (H : In rt []) => match H with end) (fun rt (H : In rt []) => match H with end) (fun rt H => H)) as [P1 P2].
    unfold plan in Hp. rewrite Hp in P1, P2. cbn [fst snd] in P1, P2.
    split; [|discriminate]. apply in_app_or in Hv. destruct Hv as [Hv|Hv]; [apply P1, Hv|apply P2, Hv].
Qed.

Theorem sync_divergence_changes_nothing g pre ls rs s overwrite refs s' :
  sync g pre ls rs s overwrite = SDiverged refs s' -> s' = s /\ overwrite = false.
Proof.
  unfold sync. destruct ls as [|e ls'], rs as [|f rs']; try discriminate.
  - cbn [andb]. destruct (plan _ _ _ _) as [ff dv]. destruct (negb (Nat.eqb (List.length dv) 0) && negb overwrite) eqn:E; [|discriminate].
    intros H. injection H as _ <-. apply andb_true_iff in E. destruct E as [_ E]. destruct overwrite; [discriminate|]. auto.
  - destruct overwrite; cbn [negb andb]; [|intros H; injection H as _ <-; auto].
    destruct (plan _ _ _ _) as [ff dv]. rewrite andb_false_r. discriminate.
Qed.

(** publishing: the remote log changes only in the local-ahead case, and then every reference
    named by an unskipped local-only reference entry is published with it *)
Theorem sync_publishes_refs_with_entries g pre ls rs s overwrite s' :
  sync g pre ls rs s overwrite = SOk s' -> s_rlog s' <> s_rlog s ->
  s_rlog s' = pre ++ ls /\
  forall r t, In (r, t) (latest_tips (List.length pre) ls) ->
    exists v, rlookup (s_rrefs s') r = Some v.
Proof.
  intros H Hne. unfold sync in H. destruct ls as [|e ls'], rs as [|f rs'].
  - injection H as <-. contradiction.
  - cbn [andb] in H. destruct (plan _ _ _ _) as [ff dv]. destruct (negb (Nat.eqb (List.length dv) 0) && negb overwrite); [discriminate|].
    injection H as <-. cbn in Hne. contradiction.
  - injection H as <-. cbn [s_rlog s_rrefs]. split; [reflexivity|]. intros r t Hin.
    set (pushed := map _ _).
    assert (Hp : exists v, In (r, v) pushed).
    { unfold pushed. exists (match rlookup (s_lrefs s) r with Some v => v | None => t end).
      apply in_map_iff. exists (r, t). split; [reflexivity|exact Hin]. }
    destruct Hp as [v Hv]. clear - Hv. revert Hv. generalize (s_rrefs s). unfold apply_sets.
    induction pushed as [|[q x] pushed IH]; intros refs Hv; [destruct Hv|]. cbn [fold_left fst snd].
    destruct Hv as [Hv|Hv].
    + injection Hv as -> ->.
      assert (Hkeep : forall sets refs0, (exists v, rlookup refs0 r = Some v) ->
                exists v, rlookup (fold_left (fun acc rt => rset acc (fst rt) (snd rt)) sets refs0) r = Some v).
      { induction sets as [|[q' x'] sets IHs]; intros refs0 Hex; [exact Hex|]. cbn [fold_left fst snd]. apply IHs.
        rewrite rlookup_rset. destruct (beq r q'); [eexists; reflexivity|exact Hex]. }
      apply Hkeep. rewrite rlookup_rset, beq_refl. eexists; reflexivity.
    + apply IH, Hv.
  - destruct overwrite; cbn [negb andb] in H; [|discriminate].
    destruct (plan _ _ _ _) as [ff dv]. rewrite andb_false_r in H. injection H as <-. cbn in Hne. contradiction.
Qed.
