(** Property C01 — verification accepts only histories authorized by the policy in force.
    Only statements here; proofs are in WorldProofs.v. *)
From GV Require Import World WorldProofs WorldExamples Tags TagsProofs.

(** Soundness of full verification.  If it succeeds: the tip reported is the target of the latest
    entry for the reference; the policy it starts from heads a verified chain (C02); and the run is
    a sequence of steps each of which is justified: [TOk i ps] — reference entry [i] passed
    [verify_entry] under the policy state [ps] in force at that point (own signature plus approvals
    bound to exactly that change, counted as C05/C09 state, global rules as C11); [TRecover] — a
    violation that was revoked and repaired exactly as recovery requires (C07); [TPol] — a policy
    switch to a state that chains from the previous one and verifies internally. *)
Theorem C01_sound : forall w ref c, verify_full w ref = VTip c ->
  exists f fe l le, first_for w ref = Some (f, fe) /\
    latest_for w ref (List.length (w_log w)) false false = Some (l, le) /\ c = entry_target le /\
    exists cur tr, initial_policy w f = Some cur /\
      verify_loop_tr w ref f (S (List.length (w_log w)) * 2) cur (range_entries w ref f l) [] = (None, tr) /\
      Forall (step_ok w) tr.
Proof.
  intros w ref c H. destruct (verify_full_sound _ _ _ H) as (f & fe & l & le & H1 & H2 & H3 & H4).
  exists f, fe, l, le. repeat split; try assumption.
  destruct (verify_relative_sound _ _ _ _ H4) as (cur & tr & K1 & K2 & K3). eauto.
Qed.
Print Assumptions C01_sound.

(** C01_cover_partial.  Not proved: that every unrevoked reference entry of the range occurs as a
    [TOk] step (the queue is permuted by recoveries).  It is FALSE for the faithful model for two
    kinds of entries, which are the listed findings K1 and K5: *)
Theorem C01_K1_propagation_entries_unverified :
  verify_full w_k1 mainref = VTip 3%N.       (* commit 3 was never signed off by anyone the policy trusts *)
Proof. vm_compute. reflexivity. Qed.

Theorem C01_K5_fix_entry_unverified :
  verify_full w_k5 mainref = VTip 4%N /\ verify_entry w_k5 pol1 4 mainref 4%N 8%N = false.
Proof. vm_compute. auto. Qed.

(** Non-vacuity and the basic completeness/rejection pair. *)
Example C01_authorized_history_verifies : verify_full w_good mainref = VTip 3%N.
Proof. vm_compute. reflexivity. Qed.

Example C01_unauthorized_push_rejected : verify_full w_bad mainref = VFail VEViolation.
Proof. vm_compute. reflexivity. Qed.
Print Assumptions C01_K5_fix_entry_unverified.

(** Tag references (histories of one policy state).  Every entry of an accepted tag reference passes
    [verify_tag_entry] under that state, whatever was verified before it ... *)
Theorem C01_tag_entries_all_verified : forall tw ref c,
  verify_full_tags tw ref = VTip c ->
  exists ps, load_state (tw_world tw) 0 = Some ps /\
  forall i r t s, nth_error (w_log (tw_world tw)) i = Some (WERef r t s) ->
    verify_tag_entry tw ps i r t s = true.
Proof. exact tag_entries_meet_full_threshold. Qed.
Print Assumptions C01_tag_entries_all_verified.

(** ... which means: it names the tag object the reference holds (or the tagged commit), its log
    entry is signed - with approvals bound to exactly that tag - to the full threshold of a rule
    protecting the tag, and the tag object is signed by a principal of such a rule. *)
Theorem C01_tag_entry_meaning : forall tw ps i ref target signer,
  verify_tag_entry tw ps i ref target signer = true ->
  exists tg, lookup_tag (tw_tags tw) target = Some tg /\
    (tw_ref_now tw = Some target \/ target = tg_target tg) /\
    (find_verifiers (policy_of ps) (GitScheme ++ ref) = WOk [] \/
     exists vs env accepted v, find_verifiers (policy_of ps) (GitScheme ++ ref) = WOk vs /\
       first_satisfied vs signer env = Some accepted /\
       In v vs /\ git_phase (v_principals (vrec_verifier v)) (tg_signer tg) <> None).
Proof. exact tag_entry_meaning. Qed.
Print Assumptions C01_tag_entry_meaning.
