(** Property C03 — recording keeps the RSL an append-only, consecutively numbered single chain.
    Only statements here; proofs are in LogOpsProofs.v / SchedProofs.v. *)
From GV Require Import RslStore LogOps LogOpsProofs SchedProofs.

(** One operation (the steps of the recording code run back to back: single writer, no faults —
    those are C17 and C16).  On a log that is a single-parent chain [L] with the numbering rule of
    GetParentForEntry: an operation either is refused (an annotation naming an id that is not a
    well-formed entry) and changes nothing, or appends exactly one entry — the one it reports — on
    top of the old chain, numbered parent+1 (1 after legacy unnumbered entries or on an empty log). *)
Theorem C03_step : forall s o L,
  fresh s -> lchain (ls_store s) (ls_tip s) L -> numbering_ok L = true -> op_ok L o ->
  let '(s', w) := run_op s o in
  if op_valid (ls_store s) o then
    exists n, let c := ls_next s in
      w = WDone true (Some c) /\ ls_tip s' = Some c /\ ls_next s' = N.succ c /\
      ls_store s' = (c, {| c_parents := opt_list (ls_tip s); c_entry := Some (op_entry o n) |}) :: ls_store s /\
      fresh s' /\ lchain (ls_store s') (ls_tip s') ((c, op_entry o n) :: L) /\
      numbering_ok ((c, op_entry o n) :: L) = true
  else w = WDone false None /\ s' = s.
Proof. exact run_op_spec. Qed.
Print Assumptions C03_step.

(** Every finite sequence of operations, from any state satisfying the invariant (the empty log,
    a numbered log, a legacy unnumbered log): the result is again one chain with the numbering
    rule; the old chain is a suffix of the new one (every earlier tip is still an ancestor); the
    chain grew by exactly one entry per successful operation; every operation either succeeded or
    was refused without effect. *)
Theorem C03_sequences : forall ops s L,
  fresh s -> lchain (ls_store s) (ls_tip s) L -> numbering_ok L = true -> ops_ok s ops = true ->
  let '(s', ws) := run_ops s ops in
  exists L', fresh s' /\ lchain (ls_store s') (ls_tip s') (L' ++ L) /\ numbering_ok (L' ++ L) = true /\
             List.length L' = List.length (filter succeeded ws) /\
             forallb (fun w => succeeded w || refused w) ws = true /\ List.length ws = List.length ops.
Proof. exact run_ops_spec. Qed.
Print Assumptions C03_sequences.

(** The invariant implies the boolean that the check evaluates on the implementation's graph. *)
Theorem C03_log_ok : forall st t L, lchain st t L -> List.length L <= List.length st -> numbering_ok L = true ->
  log_ok st t = true.
Proof.
  intros st t L Hc Hl Hn. unfold log_ok. rewrite (chain_ids_of_lchain st L t Hc) by lia. exact Hn.
Qed.
Print Assumptions C03_log_ok.

(** Non-vacuity: the empty log satisfies the hypotheses, and a legacy-to-numbered sequence computes. *)
Example C03_init : fresh init_state /\ lchain (ls_store init_state) (ls_tip init_state) [] /\ numbering_ok [] = true.
Proof. repeat split; [intros i c H; discriminate|constructor]. Qed.

Example C03_example :
  let ops := [WRef [x61] 1000%N false; WRef [x61] 1001%N false; WRef [x62] 1002%N true; WAnn [2%N; 77%N] true true;
              WAnn [2%N] true true] in
  ops_ok init_state ops = true /\
  map succeeded (snd (run_ops init_state ops)) = [true; true; true; false; true] /\
  log_ok (ls_store (fst (run_ops init_state ops))) (ls_tip (fst (run_ops init_state ops))) = true.
Proof. vm_compute. auto. Qed.
