(** Verifier family proofs (C01, C02, C07, C11) over the model of World.v. *)
From GV Require Import BytesLemmas World.

(** *** the fix search (C07) *)
Definition same_ref_entry (ref : bytes) (ie : nat * wentry) : bool :=
  match snd ie with WERef r _ _ => beq r ref | _ => false end.

Definition is_fix (w : world) (ref : bytes) (gt : N) (ie : nat * wentry) : bool :=
  match snd ie with
  | WERef r c _ => beq r ref && (match tree_of w c with Some t => N.eqb t gt | None => false end) && negb (skipped w (fst ie))
  | _ => false
  end.

Lemma look_for_fix_spec w ref gt : forall q newq bad nq bad',
  look_for_fix w ref gt q newq bad = (Some nq, bad') ->
  exists mid fx rest,
    q = mid ++ fx :: rest /\ is_fix w ref gt fx = true /\
    Forall (fun ie => is_fix w ref gt ie = false) mid /\
    nq = newq ++ filter (fun ie => negb (same_ref_entry ref ie)) mid ++ rest /\
    bad' = bad || existsb (fun ie => same_ref_entry ref ie && negb (skipped w (fst ie))) mid.
Proof.
  induction q as [|[j e] q IH]; intros newq bad nq bad'; cbn [look_for_fix]; [discriminate|].
  assert (Hother : same_ref_entry ref (j, e) = false -> is_fix w ref gt (j, e) = false ->
            look_for_fix w ref gt q (newq ++ [(j, e)]) bad = (Some nq, bad') ->
            exists mid fx rest,
              (j, e) :: q = mid ++ fx :: rest /\ is_fix w ref gt fx = true /\
              Forall (fun ie => is_fix w ref gt ie = false) mid /\
              nq = newq ++ filter (fun ie => negb (same_ref_entry ref ie)) mid ++ rest /\
              bad' = bad || existsb (fun ie => same_ref_entry ref ie && negb (skipped w (fst ie))) mid).
  { intros Hs Hnf H. destruct (IH _ _ _ _ H) as (mid & fx & rest & -> & Hf & Hm & -> & ->).
    exists ((j, e) :: mid), fx, rest. cbn [app filter existsb]. rewrite Hs. cbn [negb andb orb].
    repeat split; try assumption; [constructor; assumption|now rewrite <- app_assoc]. }
  destruct e as [ps| |auths|r c s|ts sk|r c]; try (apply Hother; reflexivity).
  destruct (beq r ref) eqn:Er; cbn [negb].
  - destruct ((match tree_of w c with Some t => N.eqb t gt | None => false end) && negb (skipped w j)) eqn:Ef.
    + intros [= <- <-]. exists [], (j, WERef r c s), q.
      split; [reflexivity|]. split; [unfold is_fix; cbn [snd fst]; rewrite Er; cbn [andb]; exact Ef|].
      split; [constructor|]. split; [reflexivity|cbn; now rewrite orb_false_r].
    + intros H. destruct (IH _ _ _ _ H) as (mid & fx & rest & -> & Hf & Hm & -> & ->).
      exists ((j, WERef r c s) :: mid), fx, rest. cbn [app filter same_ref_entry snd fst existsb]. rewrite Er. cbn [negb andb].
      repeat split; try assumption.
      * constructor; [|assumption]. unfold is_fix. cbn [snd fst]. rewrite Er. cbn [andb]. exact Ef.
      * now rewrite orb_assoc.
  - apply Hother; unfold same_ref_entry, is_fix; cbn [snd]; now rewrite Er.
Qed.

(** the recovery conditions of the property, for one tolerated violation *)
Definition recovery_ok (w : world) (q' : list (nat * wentry)) (r : bytes) (i g : nat) : Prop :=
  skipped w i = true /\
  exists good gt mid fx rest,
    latest_for w r i true true = Some (g, good) /\            (* last valid unskipped reference entry before the violation *)
    tree_of w (entry_target good) = Some gt /\
    q' = mid ++ fx :: rest /\
    is_fix w r gt fx = true /\                                  (* same ref, tree-identical, not itself skipped *)
    Forall (fun ie => same_ref_entry r ie = true -> skipped w (fst ie) = true) mid /\   (* everything for the ref in between is skipped *)
    Forall (fun ie => is_fix w r gt ie = false) mid.           (* and it is the first such entry *)

(** every tolerated violation in a successful run satisfies them; every [TOk] really verified *)
Inductive step_ok (w : world) : tev -> Prop :=
| SOk i ps r c s : nth_error (w_log w) i = Some (WERef r c s) -> verify_entry w ps i r c s = true -> step_ok w (TOk i ps)
| SRec i g j r : (exists q', recovery_ok w q' r i g) -> step_ok w (TRecover i g j)
| SPol i ps : state_verify ps = true -> step_ok w (TPol i ps).

Definition genuine (w : world) (q : list (nat * wentry)) : Prop :=
  Forall (fun ie => nth_error (w_log w) (fst ie) = Some (snd ie)) q.

Lemma genuine_filter_app w mid rest f : genuine w (mid ++ rest) -> genuine w (filter f mid ++ rest).
Proof.
  unfold genuine. rewrite !Forall_app. intros [H1 H2]. split; [|assumption].
  rewrite Forall_forall in *. intros x Hx. apply filter_In in Hx as [Hx _]. auto.
Qed.

Theorem loop_trace_ok w ref first : forall fuel cur q tr tr',
  genuine w q -> Forall (step_ok w) tr ->
  verify_loop_tr w ref first fuel cur q tr = (None, tr') -> Forall (step_ok w) tr'.
Proof.
  induction fuel as [|fuel IH]; intros cur q tr tr' Hg Htr; cbn [verify_loop_tr]; [discriminate|].
  destruct q as [|[i e] q']; [intros [= <-]; assumption|].
  assert (Hg' : genuine w q') by (inversion Hg; assumption).
  assert (Hi : nth_error (w_log w) i = Some e) by (inversion Hg; assumption).
  destruct e as [ps| |auths|r c s|ts sk|r c]; try (apply IH; assumption).
  - destruct (Nat.eqb i first); [apply IH; assumption|].
    destruct cur as [cp|].
    + destruct (verify_new_state cp ps && state_verify ps) eqn:E; [|discriminate].
      apply IH; [assumption|]. apply Forall_app; split; [assumption|]. repeat constructor.
      now apply andb_true_iff in E as [_ E].
    + destruct (state_verify ps) eqn:E; [|discriminate].
      apply IH; [assumption|]. apply Forall_app; split; [assumption|]. repeat constructor. assumption.
  - destruct cur as [ps|]; [|discriminate].
    destruct (verify_entry w ps i r c s) eqn:Ev.
    + apply IH; [assumption|]. apply Forall_app; split; [assumption|]. repeat constructor. econstructor; eauto.
    + destruct (negb (skipped w i)) eqn:Es; [discriminate|]. apply negb_false_iff in Es.
      destruct q' as [|x q'']; [discriminate|].
      destruct (latest_for w r i true true) as [[g good]|] eqn:El; [|discriminate].
      destruct (tree_of w (entry_target good)) as [gt|] eqn:Et; [|discriminate].
      destruct (look_for_fix w r gt (x :: q'') [] false) as [[nq|] bad] eqn:Ef; [|discriminate].
      destruct bad; [discriminate|].
      destruct (look_for_fix_spec _ _ _ _ _ _ _ _ Ef) as (mid & fx & rest & Eq & Hfx & Hmid & Enq & Ebad).
      cbn [app orb] in Enq, Ebad. subst nq.
      apply IH.
      * rewrite Eq in Hg'. apply genuine_filter_app. unfold genuine in *. rewrite Forall_app in *. destruct Hg' as [H1 H2].
        split; [assumption|]. now inversion H2.
      * apply Forall_app; split; [assumption|]. repeat constructor. apply (SRec w i g _ r).
        exists (x :: q''). split; [assumption|]. exists good, gt, mid, fx, rest. repeat split; try assumption.
        symmetry in Ebad. rewrite Forall_forall. intros ie Hin Hsame.
        destruct (skipped w (fst ie)) eqn:Esk; [reflexivity|].
        assert (existsb (fun ie => same_ref_entry r ie && negb (skipped w (fst ie))) mid = true); [|congruence].
        apply existsb_exists. exists ie. split; [assumption|]. now rewrite Hsame, Esk.
Qed.

(** *** the policy chain (C02) *)
Inductive Chain : pstate -> list (nat * pstate) -> pstate -> Prop :=
| Chain_nil p : Chain p [] p
| Chain_cons p k p' rest last : verify_new_state p p' = true -> Chain p' rest last -> Chain p ((k, p') :: rest) last.

Lemma chain_ok_Chain : forall rest cur last, chain_ok cur rest = Some last -> Chain cur rest last.
Proof.
  induction rest as [|[k p] rest IH]; intros cur last; cbn [chain_ok].
  - intros [= <-]. constructor.
  - destruct (verify_new_state cur p) eqn:E; [|discriminate]. intros H. constructor; [assumption|now apply IH].
Qed.

Theorem load_state_chain w i ps : load_state w i = Some ps ->
  exists k0 p0 rest, policy_entries_upto w i = (k0, p0) :: rest /\ Chain p0 rest ps /\ state_verify ps = true.
Proof.
  unfold load_state. destruct (policy_entries_upto w i) as [|[k0 p0] rest] eqn:E; [discriminate|].
  destruct (chain_ok p0 rest) as [last|] eqn:Ec; [|discriminate].
  destruct (state_verify last) eqn:Ev; [|discriminate]. intros [= <-].
  exists k0, p0, rest. repeat split; [now apply chain_ok_Chain|assumption].
Qed.

(** what one link of the chain means *)
Lemma verify_new_state_spec cur new : verify_new_state cur new = true ->
  accepts (root_verifier cur) false 0%N (env_of (ps_root_signers new)) = true /\      (* root signed by the predecessor's root threshold *)
  (ps_root_version cur <= ps_root_version new)%N /\                                   (* no root rollback *)
  (forall ct, find_sfile cur TargetsRole = Some ct ->
     exists nt, find_sfile new TargetsRole = Some nt /\ (sf_version ct <= sf_version nt)%N /\   (* primary rule file neither disappears nor rolls back *)
       forall n f, In (n, f) (ps_files cur) -> beq n TargetsRole = false ->
         exists f', find_sfile new n = Some f' /\ (sf_version f <= sf_version f')%N).           (* nor does any delegated rule file *)
Proof.
  unfold verify_new_state. intros H. apply andb_true_iff in H as [H Hf]. apply andb_true_iff in H as [Ha Hv].
  repeat split; [assumption|now apply N.leb_le|]. intros ct Ect. rewrite Ect in Hf.
  destruct (find_sfile new TargetsRole) as [nt|]; [|discriminate]. apply andb_true_iff in Hf as [Hv2 Hall].
  exists nt. repeat split; [now apply N.leb_le|]. intros n f Hin Hn.
  rewrite forallb_forall in Hall. specialize (Hall _ Hin). cbn [fst snd] in Hall. rewrite Hn in Hall. cbn [orb] in Hall.
  destruct (find_sfile new n) as [f'|]; [|discriminate]. exists f'. split; [reflexivity|now apply N.leb_le].
Qed.

(** *** monotonicity of global rules at the level of one entry (C11) *)
Definition without_globals (ps : pstate) : pstate :=
  {| ps_root_version := ps_root_version ps; ps_root_keys := ps_root_keys ps; ps_root_thr := ps_root_thr ps;
     ps_targets_keys := ps_targets_keys ps; ps_targets_thr := ps_targets_thr ps; ps_has_targets_role := ps_has_targets_role ps;
     ps_root_signers := ps_root_signers ps; ps_files := ps_files ps; ps_globals := [] |}.

Theorem globals_only_restrict w ps i ref commit signer :
  verify_entry w ps i ref commit signer = true -> verify_entry w (without_globals ps) i ref commit signer = true.
Proof.
  unfold verify_entry. cbn [ps_globals without_globals ps_files policy_of].
  destruct (beq ref PolicyRefB || beq ref AttestRefB); [auto|].
  change (policy_of (without_globals ps)) with (policy_of ps).
  destruct (match attest_before w i with None => AzNone | Some auths => _ end) as [| |sg]; try discriminate;
  destruct (find_verifiers (policy_of ps) (GitScheme ++ ref)) as [vs| |]; try discriminate;
  destruct vs as [|v vs]; destruct (ps_globals ps) as [|g gs]; try reflexivity; try discriminate;
  try (destruct (first_satisfied _ _ _); [reflexivity|discriminate]).
Qed.

(** inherited global rules (controller repositories) only restrict, too *)
Theorem inherited_globals_only_restrict w ps ctl i ref commit signer :
  verify_entry w (with_controllers ps ctl) i ref commit signer = true -> verify_entry w ps i ref commit signer = true.
Proof.
  unfold verify_entry. cbn [ps_globals with_controllers ps_files policy_of].
  destruct (beq ref PolicyRefB || beq ref AttestRefB); [auto|].
  change (policy_of (with_controllers ps ctl)) with (policy_of ps).
  change (all_principals (with_controllers ps ctl)) with (all_principals ps).
  generalize (flat_map snd ctl). intros X.
  destruct (match attest_before w i with None => AzNone | Some auths => _ end) as [| |sg]; try discriminate;
  destruct (find_verifiers (policy_of ps) (GitScheme ++ ref)) as [vs| |]; try discriminate.
  all: destruct (ps_globals ps) as [|g gs]; [destruct vs as [|v vs]; [reflexivity|]|].
  all: cbn [app].
  all: try (destruct vs as [|v' vs']); cbn iota beta.
  all: try (destruct (first_satisfied _ _ _) as [acc|]; [|auto; fail]).
  all: try (destruct X as [|x X]; [auto; fail|]).
  all: try (destruct (verify _ true signer _) as [s|e1 e2]; [|auto; fail]).
  all: try (intros _; reflexivity).
  all: change (g :: gs ++ X) with ((g :: gs) ++ X); rewrite forallb_app; intros H; apply andb_true_iff in H; exact (proj1 H).
Qed.

(** *** top level *)
Lemma combine_seq_nth {A} (l : list A) : forall s i e,
  In (i, e) (combine (seq s (List.length l)) l) -> s <= i /\ nth_error l (i - s) = Some e.
Proof.
  induction l as [|x l IH]; intros s i e; cbn; [contradiction|]. intros [H|H].
  - inversion H; subst. split; [lia|]. now rewrite Nat.sub_diag.
  - destruct (IH _ _ _ H) as [H1 H2]. split; [lia|].
    replace (i - s) with (S (i - S s)) by lia. exact H2.
Qed.

Lemma range_genuine w ref first last : genuine w (range_entries w ref first last).
Proof.
  unfold genuine, range_entries, indexed. apply Forall_forall. intros [i e] Hin. apply filter_In in Hin as [Hin _].
  apply combine_seq_nth in Hin as [_ H]. cbn. now rewrite Nat.sub_0_r in H.
Qed.

Theorem verify_relative_sound w ref first last :
  verify_relative w ref first last = None ->
  exists cur tr, initial_policy w first = Some cur /\
    verify_loop_tr w ref first (S (List.length (w_log w)) * 2) cur (range_entries w ref first last) [] = (None, tr) /\
    Forall (step_ok w) tr.
Proof.
  unfold verify_relative. destruct (initial_policy w first) as [cur|]; [|discriminate].
  destruct (Nat.ltb last first); [discriminate|]. unfold verify_loop.
  destruct (verify_loop_tr w ref first (S (List.length (w_log w)) * 2) cur (range_entries w ref first last) []) as [r tr] eqn:E.
  cbn [fst]. intros ->. exists cur, tr. repeat split; [assumption|].
  eapply loop_trace_ok; [apply range_genuine|constructor|exact E].
Qed.

Theorem verify_full_sound w ref c : verify_full w ref = VTip c ->
  exists f fe l le, first_for w ref = Some (f, fe) /\ latest_for w ref (List.length (w_log w)) false false = Some (l, le) /\
    c = entry_target le /\                                   (* the tip reported is the target of the latest entry for the ref *)
    verify_relative w ref f l = None.
Proof.
  unfold verify_full. destruct (first_for w ref) as [[f fe]|]; [|discriminate].
  destruct (latest_for w ref (List.length (w_log w)) false false) as [[l le]|]; [|discriminate].
  destruct (verify_relative w ref f l) eqn:E; [discriminate|]. intros [= <-]. exists f, fe, l, le. auto.
Qed.

(** the initial policy of a run, when there is one, heads a verified chain *)
Theorem initial_policy_chain w first ps : initial_policy w first = Some (Some ps) ->
  exists j k0 p0 rest, policy_entries_upto w j = (k0, p0) :: rest /\ Chain p0 rest ps /\ state_verify ps = true.
Proof.
  unfold initial_policy. destruct (nth_entry w first) as [[p| |a|r c s|t sk|r c]|];
    try (destruct (latest_for w PolicyRefB first false false) as [[j e]|]; [|discriminate];
         destruct (load_state w j) as [ps'|] eqn:E; [|discriminate]; intros [= <-];
         destruct (load_state_chain _ _ _ E) as (k0 & p0 & rest & H1 & H2 & H3); exists j, k0, p0, rest; auto).
  destruct (load_state w first) as [ps'|] eqn:E; [|discriminate]. intros [= <-].
  destruct (load_state_chain _ _ _ E) as (k0 & p0 & rest & H1 & H2 & H3). exists first, k0, p0, rest. auto.
Qed.

(** *** approvals are bound to the exact change (C09) *)
Theorem find_authz_bound auths ref from to signers :
  find_authz auths ref from to = AzEnv signers ->
  exists a, In a auths /\ az_signers a = signers /\
    az_path_ref a = ref /\ az_path_from a = from /\ az_path_to a = to /\     (* stored for this change *)
    az_ref a = ref /\ az_from a = from /\ az_to a = to.                        (* and the signed statement names exactly it *)
Proof.
  unfold find_authz.
  destruct (filter (fun a => beq (az_path_ref a) ref && N.eqb (az_path_from a) from && N.eqb (az_path_to a) to) auths) as [|a l] eqn:E; [discriminate|].
  destruct (beq (az_ref a) ref && N.eqb (az_from a) from && N.eqb (az_to a) to) eqn:Eb; [|discriminate].
  intros [= <-]. assert (Hin : In a (a :: l)) by now left. rewrite <- E in Hin. apply filter_In in Hin as [Hin Hp].
  apply andb_true_iff in Hp as [Hp H3]. apply andb_true_iff in Hp as [H1 H2].
  apply andb_true_iff in Eb as [Eb H6]. apply andb_true_iff in Eb as [H4 H5].
  exists a. repeat split; try assumption; try (now apply beq_eq); now apply N.eqb_eq.
Qed.

Theorem misbound_statement_rejected auths ref from to :
  find_authz auths ref from to = AzInvalid ->
  exists a, In a auths /\ az_path_ref a = ref /\ az_path_from a = from /\ az_path_to a = to /\
    ~ (az_ref a = ref /\ az_from a = from /\ az_to a = to).
Proof.
  unfold find_authz.
  destruct (filter (fun a => beq (az_path_ref a) ref && N.eqb (az_path_from a) from && N.eqb (az_path_to a) to) auths) as [|a l] eqn:E; [discriminate|].
  destruct (beq (az_ref a) ref && N.eqb (az_from a) from && N.eqb (az_to a) to) eqn:Eb; [discriminate|]. intros _.
  assert (Hin : In a (a :: l)) by now left. rewrite <- E in Hin. apply filter_In in Hin as [Hin Hp].
  apply andb_true_iff in Hp as [Hp H3]. apply andb_true_iff in Hp as [H1 H2].
  exists a. repeat split; try assumption; try (now apply beq_eq); try (now apply N.eqb_eq).
  intros (K1 & K2 & K3). rewrite K1, K2, K3, beq_refl, !N.eqb_refl in Eb. discriminate.
Qed.
