(** Lemmas about the byte-string functions of Bytes.v. *)
From GV Require Export Bytes.
From Coq Require Import DecimalN DecimalPos.

Lemma beqb_refl b : Byte.eqb b b = true.
Proof. apply Byte.byte_dec_lb; reflexivity. Qed.

Lemma beq_refl a : beq a a = true.
Proof. induction a as [|x a IH]; cbn; [reflexivity|]. now rewrite beqb_refl, IH. Qed.

Lemma beq_eq a b : beq a b = true -> a = b.
Proof.
  revert b; induction a as [|x a IH]; intros [|y b] H; cbn in H; try discriminate; [reflexivity|].
  apply andb_true_iff in H as [H1 H2]. apply Byte.byte_dec_bl in H1. f_equal; auto.
Qed.

Lemma beq_false_neq a b : beq a b = false -> a <> b.
Proof. intros H E; subst. now rewrite beq_refl in H. Qed.

Lemma has_prefix_app p s : has_prefix p (p ++ s) = true.
Proof. induction p as [|x p IH]; cbn; [reflexivity|]. now rewrite beqb_refl, IH. Qed.

Lemma has_prefix_spec p s : has_prefix p s = true -> exists r, s = p ++ r.
Proof.
  revert s; induction p as [|x p IH]; intros s H; [exists s; reflexivity|].
  destruct s as [|y s]; cbn in H; [discriminate|].
  apply andb_true_iff in H as [H1 H2]. apply Byte.byte_dec_bl in H1; subst.
  destruct (IH _ H2) as [r ->]. exists r; reflexivity.
Qed.

Lemma has_prefix_app_r p a b : has_prefix p a = true -> has_prefix p (a ++ b) = true.
Proof.
  intros H. destruct (has_prefix_spec _ _ H) as [r ->]. rewrite <- app_assoc. apply has_prefix_app.
Qed.

(** a prefix of [a ++ b :: x] is a prefix of [a] or runs over the byte [b] *)
Lemma has_prefix_app_inv p a b x :
  has_prefix p (a ++ b :: x) = true ->
  has_prefix p a = true \/ (List.length a < List.length p /\ In b p).
Proof.
  revert a; induction p as [|c p IH]; intros a H; [left; reflexivity|].
  destruct a as [|y a]; cbn in H.
  - apply andb_true_iff in H as [H1 _]. apply Byte.byte_dec_bl in H1; subst.
    right; split; cbn; [lia|auto].
  - apply andb_true_iff in H as [H1 H2]. destruct (IH _ H2) as [H3|[H3 H4]].
    + left; cbn. now rewrite H1, H3.
    + right; split; cbn; [lia|auto].
Qed.

(** ** split / join *)
Lemma split_on_nonnil c s : split_on c s <> [].
Proof.
  induction s as [|x s IH]; cbn; [discriminate|].
  destruct (Byte.eqb x c); [discriminate|]. destruct (split_on c s); discriminate.
Qed.

Lemma split_on_nosep c a : no_byte c a = true -> split_on c a = [a].
Proof.
  induction a as [|x a IH]; cbn; intros H; [reflexivity|].
  apply andb_true_iff in H as [H1 H2]. apply negb_true_iff in H1. rewrite H1, (IH H2). reflexivity.
Qed.

Lemma split_on_app_sep c a b : no_byte c a = true -> split_on c (a ++ c :: b) = a :: split_on c b.
Proof.
  induction a as [|x a IH]; cbn; intros H.
  - now rewrite beqb_refl.
  - apply andb_true_iff in H as [H1 H2]. apply negb_true_iff in H1. rewrite H1, (IH H2). reflexivity.
Qed.

Lemma join_cons c l ls : ls <> [] -> join_with c (l :: ls) = l ++ c :: join_with c ls.
Proof. destruct ls; [congruence|reflexivity]. Qed.

Lemma split_join_gen c ls x :
  Forall (fun l => no_byte c l = true) ls ->
  split_on c (join_with c (ls ++ [x])) = ls ++ split_on c x.
Proof.
  induction 1 as [|l ls Hl Hls IH]; [reflexivity|].
  cbn [app]. rewrite join_cons by (destruct ls; discriminate).
  rewrite split_on_app_sep by assumption. now rewrite IH.
Qed.

Lemma split_join c ls x :
  Forall (fun l => no_byte c l = true) (ls ++ [x]) ->
  split_on c (join_with c (ls ++ [x])) = ls ++ [x].
Proof.
  intros H. apply Forall_app in H as [H1 H2]. rewrite split_join_gen by assumption.
  inversion H2; subst. now rewrite split_on_nosep.
Qed.

Lemma split_on_nosep_all c s : Forall (fun l => no_byte c l = true) (split_on c s).
Proof.
  induction s as [|x s IH]; cbn; [repeat constructor|].
  destruct (Byte.eqb x c) eqn:E; [constructor; [reflexivity|assumption]|].
  destruct (split_on c s) as [|l ls]; [repeat constructor; cbn; now rewrite E|].
  inversion IH; subst. constructor; [cbn; now rewrite E|assumption].
Qed.

(** ** cut *)
Lemma cut_app c k v : no_byte c k = true -> cut c (k ++ c :: v) = Some (k, v).
Proof.
  induction k as [|x k IH]; cbn; intros H.
  - now rewrite beqb_refl.
  - apply andb_true_iff in H as [H1 H2]. apply negb_true_iff in H1. now rewrite H1, (IH H2).
Qed.

Lemma cut_spec c s k v : cut c s = Some (k, v) -> s = k ++ c :: v.
Proof.
  revert k; induction s as [|x s IH]; cbn; intros k H; [discriminate|].
  destruct (Byte.eqb x c) eqn:E.
  - apply Byte.byte_dec_bl in E. inversion H; subst. reflexivity.
  - destruct (cut c s) as [[k' v']|]; [|discriminate]. inversion H; subst. cbn. f_equal. now apply IH.
Qed.

(** ** no_byte through sublists *)
Lemma no_byte_app c a b : no_byte c (a ++ b) = no_byte c a && no_byte c b.
Proof. unfold no_byte. apply forallb_app. Qed.

Lemma no_byte_rev c a : no_byte c (rev a) = no_byte c a.
Proof.
  induction a as [|x a IH]; [reflexivity|]. cbn [rev]. rewrite no_byte_app, IH. cbn.
  rewrite andb_true_r. apply andb_comm.
Qed.

(** ** token stripping *)
Definition toks_nonnil (toks : list bytes) : Prop := Forall (fun t => t <> []) toks.

Lemma tok_prefix_len_zero toks s :
  toks_nonnil toks ->
  (tok_prefix_len toks s = 0 <-> forall t, In t toks -> has_prefix t s = false).
Proof.
  intros Hn; induction Hn as [|t toks Ht Hn IH]; cbn; [tauto|].
  destruct (has_prefix t s) eqn:E.
  - split; [destruct t; cbn; [congruence|discriminate]|].
    intros H. specialize (H t (or_introl eq_refl)). congruence.
  - rewrite IH. split; [intros H t' [<-|Hin]; auto|intros H t' Hin; auto].
Qed.

Lemma tok_prefix_len_nil toks : toks_nonnil toks -> tok_prefix_len toks [] = 0.
Proof.
  intros Hn. apply tok_prefix_len_zero; [assumption|]. intros t Hin.
  unfold toks_nonnil in Hn. rewrite Forall_forall in Hn. specialize (Hn _ Hin). destruct t; [congruence|reflexivity].
Qed.

Lemma tok_prefix_len_pos toks s : toks_nonnil toks -> tok_prefix_len toks s <> 0 -> 1 <= tok_prefix_len toks s.
Proof. lia. Qed.

Lemma strip_toks_stable toks f s : tok_prefix_len toks s = 0 -> strip_toks toks f s = s.
Proof. destruct f; cbn; [reflexivity|]. now intros ->. Qed.

Lemma strip_toks_step toks f s n :
  tok_prefix_len toks s = S n -> strip_toks toks (S f) s = strip_toks toks f (skipn (S n) s).
Proof. intros H. cbn [strip_toks]. now rewrite H. Qed.

Lemma strip_toks_result toks f s :
  toks_nonnil toks -> List.length s <= f -> tok_prefix_len toks (strip_toks toks f s) = 0.
Proof.
  intros Hn; revert s; induction f as [|f IH]; intros s Hl; cbn [strip_toks].
  - destruct s; [now apply tok_prefix_len_nil|cbn in Hl; lia].
  - destruct (tok_prefix_len toks s) as [|n] eqn:E; [assumption|].
    apply IH. rewrite skipn_length. lia.
Qed.

Lemma strip_toks_suffix toks f s : exists p, s = p ++ strip_toks toks f s.
Proof.
  revert s; induction f as [|f IH]; intros s; cbn [strip_toks]; [exists []; reflexivity|].
  destruct (tok_prefix_len toks s) as [|n]; [exists []; reflexivity|].
  destruct (IH (skipn (S n) s)) as [p Hp]. exists (firstn (S n) s ++ p).
  rewrite <- app_assoc, <- Hp. symmetry; apply firstn_skipn.
Qed.

Lemma space_tokens_nonnil : toks_nonnil space_tokens.
Proof. unfold toks_nonnil, space_tokens. repeat constructor; discriminate. Qed.

Lemma rev_space_tokens_nonnil : toks_nonnil rev_space_tokens.
Proof. unfold toks_nonnil, rev_space_tokens. repeat constructor; discriminate. Qed.

(** ** trim *)
Lemma trim_left_stable s : lstable s = true -> trim_left s = s.
Proof. unfold lstable, trim_left. intros H. apply Nat.eqb_eq in H. now apply strip_toks_stable. Qed.

Lemma trim_right_stable s : rstable s = true -> trim_right s = s.
Proof.
  unfold rstable, trim_right. intros H. apply Nat.eqb_eq in H.
  rewrite strip_toks_stable by assumption. apply rev_involutive.
Qed.

Lemma trim_stable_trim s : trim_stable s = true -> trim s = s.
Proof.
  unfold trim_stable, trim. intros H. apply andb_true_iff in H as [H1 H2].
  rewrite trim_left_stable by assumption. now apply trim_right_stable.
Qed.

Lemma trim_left_suffix s : exists p, s = p ++ trim_left s.
Proof. apply strip_toks_suffix. Qed.

Lemma trim_right_prefix s : exists q, s = trim_right s ++ q.
Proof.
  unfold trim_right. destruct (strip_toks_suffix rev_space_tokens (List.length s) (rev s)) as [p Hp].
  exists (rev p). rewrite <- rev_app_distr, <- Hp. symmetry; apply rev_involutive.
Qed.

Lemma lstable_trim_left s : lstable (trim_left s) = true.
Proof.
  unfold lstable, trim_left. apply Nat.eqb_eq. apply strip_toks_result; [apply space_tokens_nonnil|lia].
Qed.

Lemma lstable_prefix a b : lstable (a ++ b) = true -> lstable a = true.
Proof.
  unfold lstable. rewrite !Nat.eqb_eq, !(tok_prefix_len_zero _ _ space_tokens_nonnil).
  intros H t Hin. specialize (H t Hin). destruct (has_prefix t a) eqn:E; [|reflexivity].
  now rewrite (has_prefix_app_r _ _ b E) in H.
Qed.

Lemma trim_is_stable s : trim_stable (trim s) = true.
Proof.
  unfold trim_stable, trim. apply andb_true_iff; split.
  - destruct (trim_right_prefix (trim_left s)) as [q Hq].
    apply lstable_prefix with (b := q). rewrite <- Hq. apply lstable_trim_left.
  - unfold rstable, trim_right. rewrite rev_involutive. apply Nat.eqb_eq.
    apply strip_toks_result; [apply rev_space_tokens_nonnil|rewrite rev_length; lia].
Qed.

Lemma no_byte_trim c s : no_byte c s = true -> no_byte c (trim s) = true.
Proof.
  intros H. unfold trim.
  destruct (trim_left_suffix s) as [p Hp]. destruct (trim_right_prefix (trim_left s)) as [q Hq].
  rewrite Hp, no_byte_app in H. apply andb_true_iff in H as [_ H].
  rewrite Hq, no_byte_app in H. now apply andb_true_iff in H as [H _].
Qed.

Lemma no_byte_cut c d s k v : cut d s = Some (k, v) -> no_byte c s = true -> no_byte c k = true /\ no_byte c v = true.
Proof.
  intros H Hn. apply cut_spec in H; subst. rewrite no_byte_app in Hn.
  apply andb_true_iff in Hn as [H1 H2]. cbn in H2. apply andb_true_iff in H2 as [_ H2]. auto.
Qed.

(** a byte that starts no space token *)
Definition starts_no_token (b : byte) : bool :=
  forallb (fun t => match t with [] => false | x :: _ => negb (Byte.eqb x b) end) space_tokens.

Lemma lstable_first b rest : starts_no_token b = true -> lstable (b :: rest) = true.
Proof.
  intros H. unfold lstable. apply Nat.eqb_eq. apply tok_prefix_len_zero; [apply space_tokens_nonnil|].
  intros t Hin. unfold starts_no_token in H. rewrite forallb_forall in H. specialize (H _ Hin).
  destruct t as [|x t]; [discriminate|]. cbn. apply negb_true_iff in H. now rewrite H.
Qed.

(** multi-byte space tokens contain no ASCII byte; used for: appending after a space does not
    create a new space suffix *)
Definition ascii (b : byte) : bool := (Byte.to_N b <? 128)%N.

Lemma rev_tokens_shape :
  forallb (fun t => Nat.eqb (List.length t) 1 || forallb (fun x => negb (ascii x)) t) rev_space_tokens = true.
Proof. vm_compute. reflexivity. Qed.

Lemma rstable_app_ascii a b v :
  ascii b = true -> v <> [] -> rstable v = true -> rstable (a ++ b :: v) = true.
Proof.
  intros Hb Hv H0. unfold rstable in *. apply Nat.eqb_eq in H0. apply Nat.eqb_eq.
  apply (tok_prefix_len_zero _ _ rev_space_tokens_nonnil).
  pose proof (proj1 (tok_prefix_len_zero _ _ rev_space_tokens_nonnil) H0) as H.
  intros t Hin. specialize (H t Hin).
  rewrite rev_app_distr. cbn [rev]. rewrite <- app_assoc. cbn [app].
  destruct (has_prefix t (rev v ++ b :: rev a)) eqn:E; [|reflexivity].
  apply has_prefix_app_inv in E as [E|[E1 E2]]; [congruence|].
  pose proof rev_tokens_shape as S. rewrite forallb_forall in S. specialize (S _ Hin).
  apply orb_true_iff in S as [S|S].
  - apply Nat.eqb_eq in S. rewrite rev_length in E1. destruct v; [congruence|cbn in E1; lia].
  - rewrite forallb_forall in S. specialize (S _ E2). now rewrite Hb in S.
Qed.

(** ** hex *)
Lemma byte_of_hex2_hex b :
  byte_of_hex2 (hexdigit (Byte.to_N b / 16)) (hexdigit (Byte.to_N b mod 16)) = Some b.
Proof. destruct b; vm_compute; reflexivity. Qed.

Lemma hex_decode_encode s : hex_decode (hex_encode s) = Some s.
Proof.
  induction s as [|b s IH]; [reflexivity|].
  cbn [hex_encode hex_of_byte app hex_decode]. now rewrite byte_of_hex2_hex, IH.
Qed.

Lemma hex_encode_length s : List.length (hex_encode s) = 2 * List.length s.
Proof. induction s as [|b s IH]; [reflexivity|]. cbn [hex_encode hex_of_byte app List.length]. lia. Qed.

Lemma hex_decode_length : forall n v h, List.length v <= n -> hex_decode v = Some h -> List.length v = 2 * List.length h.
Proof.
  induction n as [|n IH]; intros v h Hl H.
  - destruct v; [|cbn in Hl; lia]. inversion H; reflexivity.
  - destruct v as [|a [|b v]]; cbn in H; [inversion H; reflexivity|discriminate|].
    destruct (byte_of_hex2 a b); [|discriminate].
    destruct (hex_decode v) as [r|] eqn:E; [|discriminate]. inversion H; subst.
    cbn [List.length] in *. rewrite (IH v r); [lia|lia|assumption].
Qed.

Lemma hexdigit_not c : (forall n, hexdigit n <> c) -> forall s, no_byte c (hex_encode s) = true.
Proof.
  intros H; induction s as [|b s IH]; [reflexivity|].
  cbn [hex_encode hex_of_byte app no_byte forallb]. fold (no_byte c (hex_encode s)). rewrite IH.
  rewrite !andb_true_r. apply andb_true_iff; split; apply negb_true_iff;
    match goal with |- Byte.eqb ?x c = false => destruct (Byte.eqb x c) eqn:E; [apply Byte.byte_dec_bl in E; now apply H in E|reflexivity] end.
Qed.

Lemma hexdigit_cases n : In (hexdigit n) [x30;x31;x32;x33;x34;x35;x36;x37;x38;x39;x61;x62;x63;x64;x65;x66].
Proof.
  unfold hexdigit. destruct n as [|p]; [cbn; tauto|].
  do 4 (destruct p as [p|p|]; try (cbn; tauto)).
Qed.

Lemma hex_no_lf s : no_byte LF (hex_encode s) = true.
Proof.
  apply hexdigit_not. intros n E. pose proof (hexdigit_cases n) as H. rewrite E in H.
  cbn in H. repeat (destruct H as [H|H]; [discriminate|]). exact H.
Qed.

(** ** decimal *)
Lemma uint_of_dec_of_uint u : uint_of_dec (dec_of_uint u) = Some u.
Proof. induction u; cbn; try reflexivity; now rewrite IHu. Qed.

Lemma dec_of_uint_nonnil u : u <> Decimal.Nil -> dec_of_uint u <> [].
Proof. destruct u; cbn; congruence. Qed.

Lemma N_to_uint_nonnil n : N.to_uint n <> Decimal.Nil.
Proof. destruct n; cbn; [discriminate|apply Unsigned.to_uint_nonnil]. Qed.

Lemma parse_uint64_dec n : (n <? two64)%N = true -> parse_uint64 (dec_of_N n) = Some n.
Proof.
  intros H. unfold parse_uint64, dec_of_N.
  destruct (dec_of_uint (N.to_uint n)) eqn:E; [now apply dec_of_uint_nonnil in E; [|apply N_to_uint_nonnil]|].
  rewrite <- E, uint_of_dec_of_uint, DecimalN.Unsigned.of_to, H. reflexivity.
Qed.

Lemma parse_uint64_bound v n : parse_uint64 v = Some n -> (n <? two64)%N = true.
Proof.
  unfold parse_uint64. destruct v; [discriminate|]. destruct (uint_of_dec _); [|discriminate].
  destruct (N.of_uint u <? two64)%N eqn:E; [|discriminate]. now intros [= <-].
Qed.

Lemma dec_no_lf u : no_byte LF (dec_of_uint u) = true.
Proof. induction u; cbn; try reflexivity; assumption. Qed.
