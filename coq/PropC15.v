(** Property C15 — reconcile and sync never drop, reorder, un-revoke or invent log entries.
    Only statements here; proofs are in ReconcileProofs.v. *)
From GV Require Import Reconcile ReconcileProofs.

(** Reconciling a diverged log without conflict: the result extends the remote log and contains
    every local-only entry exactly once, in the original order, with the same reference and target
    (annotations: same number of references and same skip flag). *)
Theorem C15_reconcile_extends_remote_keeps_local : forall pre ls rs l,
  ls <> [] -> rs <> [] -> reconcile pre ls rs = ROk l ->
  exists tail, l = (pre ++ rs) ++ tail /\ List.length tail = List.length ls /\ map core tail = map core ls.
Proof. exact reconcile_diverged. Qed.
Print Assumptions C15_reconcile_extends_remote_keeps_local.

(** Annotations still refer to - and still skip - the re-recorded counterparts: a local-only entry
    is revoked afterwards exactly when it was revoked before ... *)
Theorem C15_revocations_follow_rerecorded_entries : forall pre ls rs j,
  targets_below (List.length pre) pre -> targets_below (List.length pre + List.length rs) rs ->
  j < List.length ls ->
  skipped (pre ++ rs ++ map (shift (List.length pre) (List.length rs)) ls) (List.length pre + List.length rs + j)
  = skipped (pre ++ ls) (List.length pre + j).
Proof. exact revocation_preserved. Qed.
Print Assumptions C15_revocations_follow_rerecorded_entries.

(** ... and a shared entry exactly when either side revoked it. *)
Theorem C15_shared_revocations_merged : forall pre ls rs i, i < List.length pre ->
  skipped (pre ++ rs ++ map (shift (List.length pre) (List.length rs)) ls) i
  = skipped (pre ++ ls) i || skipped (pre ++ rs) i.
Proof. exact shared_revocations_merged. Qed.
Print Assumptions C15_shared_revocations_merged.

(** Reconciliation is refused exactly when both sides changed the same reference (reference and
    propagation entries alike); a refusal carries no new log. *)
Theorem C15_conflict_iff_same_reference : forall pre ls rs,
  reconcile pre ls rs = RConflict <->
  ls <> [] /\ rs <> [] /\ exists r, In r (updated_refs ls) /\ In r (updated_refs rs).
Proof. exact reconcile_conflict_iff. Qed.
Print Assumptions C15_conflict_iff_same_reference.

(** Sync: a local reference only ever moves to what the latest unskipped remote-only entry for it
    records, and unless told to overwrite it only moves forward. *)
Theorem C15_sync_moves_only_to_recorded_state : forall g pre ls rs s overwrite s' r v,
  sync g pre ls rs s overwrite = SOk s' -> rlookup (s_lrefs s') r = Some v ->
  rlookup (s_lrefs s) r = Some v \/
  (In (r, v) (latest_tips (List.length pre) rs) /\
   (overwrite = false -> exists v0, rlookup (s_lrefs s) r = Some v0 /\ descends g v v0 = true)).
Proof. exact sync_moves_only_to_recorded_state. Qed.
Print Assumptions C15_sync_moves_only_to_recorded_state.

Theorem C15_sync_divergence_changes_nothing : forall g pre ls rs s overwrite refs s',
  sync g pre ls rs s overwrite = SDiverged refs s' -> s' = s /\ overwrite = false.
Proof. exact sync_divergence_changes_nothing. Qed.
Print Assumptions C15_sync_divergence_changes_nothing.

(** Publishing: the remote log only changes by becoming the local log, and then every reference an
    unskipped local-only reference entry names is published with it. *)
Theorem C15_sync_publishes_refs_with_entries : forall g pre ls rs s overwrite s',
  sync g pre ls rs s overwrite = SOk s' -> s_rlog s' <> s_rlog s ->
  s_rlog s' = pre ++ ls /\
  forall r t, In (r, t) (latest_tips (List.length pre) ls) -> exists v, rlookup (s_rrefs s') r = Some v.
Proof. exact sync_publishes_refs_with_entries. Qed.
Print Assumptions C15_sync_publishes_refs_with_entries.

(** Non-vacuity, and the defect the fix commit repairs: a local skip annotation of a local-only
    entry.  Re-recorded with shifted references the entry stays revoked; re-recorded against the
    stale position (what the unrepaired code did) it comes back unrevoked. *)
Example C15_example :
  let pre := [LRef [x6d] 1%N] in
  let ls := [LRef [x66] 2%N; LAnn [1] true] in
  let rs := [LRef [x6d] 3%N] in
  reconcile pre ls rs = ROk [LRef [x6d] 1%N; LRef [x6d] 3%N; LRef [x66] 2%N; LAnn [2] true] /\
  skipped [LRef [x6d] 1%N; LRef [x6d] 3%N; LRef [x66] 2%N; LAnn [2] true] 2 = true /\
  skipped [LRef [x6d] 1%N; LRef [x6d] 3%N; LRef [x66] 2%N; LAnn [1] true] 2 = false.
Proof. vm_compute. repeat split; reflexivity. Qed.
