(** C09, code-review approvals: proofs. *)
From GV Require Import Reviews SigProofs.

(** every identity collected was listed by an attestation that a trusted app's keys signed (to the
    app's threshold), that is stored in that app's slot for exactly this change and whose signed
    statement names exactly this change *)
Theorem collect_approvers_sound rs ref from to : forall apps l ident,
  collect_approvers apps rs ref from to = Some l -> In ident l ->
  exists a r, In a apps /\ a_trusted a = true /\ find_review rs (a_name a) ref from to = Some r /\
    statement_matches r ref from to = true /\
    accepts {| v_principals := key_principals (a_keys a); v_threshold := a_thr a; v_exhaustive := false |} false 0%N (env_of (rv_signers r)) = true /\
    In ident (rv_approvers r).
Proof.
  induction apps as [|a apps IH]; intros l ident H Hin; cbn [collect_approvers] in H.
  - injection H as <-. destruct Hin.
  - destruct (a_trusted a) eqn:Ht; cbn [negb] in H.
    + destruct (find_review rs (a_name a) ref from to) as [r|] eqn:Hf.
      * destruct (accepts _ false 0%N (env_of (rv_signers r)) && statement_matches r ref from to) eqn:Hc; [|discriminate].
        destruct (collect_approvers apps rs ref from to) as [l'|] eqn:Hl; [|discriminate]. injection H as <-.
        apply andb_true_iff in Hc. destruct Hc as [Hacc Hst]. apply in_app_or in Hin. destruct Hin as [Hin|Hin].
        -- exists a, r. split; [left; reflexivity|]. repeat split; assumption.
        -- destruct (IH l' ident eq_refl Hin) as [a' [r' [Ha' Hr']]]. exists a', r'. split; [right; exact Ha'|exact Hr'].
      * destruct (IH l ident H Hin) as [a' [r' [Ha' Hr']]]. exists a', r'. split; [right; exact Ha'|exact Hr'].
    + destruct (IH l ident H Hin) as [a' [r' [Ha' Hr']]]. exists a', r'. split; [right; exact Ha'|exact Hr'].
Qed.

(** a principal credited through approvals is a principal of the rule, was not already credited by a
    signature, registered an approved identity under a trusted app - and is credited once *)
Theorem review_credit_sound apps ids approved v used p :
  In p (review_credit apps ids approved v used) ->
  In p (map fst (vr_pr v)) /\ ~ In p used /\
  exists a ident, In a apps /\ a_trusted a = true /\ In (p, a_name a, ident) ids /\ In ident approved.
Proof.
  unfold review_credit. intros H. apply nodup_In in H. apply filter_In in H. destruct H as [Hin H].
  apply andb_true_iff in H. destruct H as [Hnu Hex]. split; [exact Hin|]. split.
  - apply negb_true_iff in Hnu. apply mem_false, Hnu.
  - apply existsb_exists in Hex. destruct Hex as [[[q an] ident] [Hid Hc]]. cbn [fst snd] in Hc.
    apply andb_true_iff in Hc. destruct Hc as [Hc Happ]. apply andb_true_iff in Hc. destruct Hc as [Hq Ha].
    apply N.eqb_eq in Hq. subst q. apply existsb_exists in Ha. destruct Ha as [a [Hain Ha]].
    apply andb_true_iff in Ha. destruct Ha as [Htr Hnm]. apply N.eqb_eq in Hnm. subst an.
    exists a, ident. repeat split; try assumption. apply mem_In, Happ.
Qed.

Theorem review_credit_once apps ids approved v used : NoDup (review_credit apps ids approved v used).
Proof. unfold review_credit. apply NoDup_nodup. Qed.

(** an accepted entry: some verifier of the branch reaches its threshold with principals credited by
    signatures plus principals credited by approvals *)
Theorem first_satisfied_r_sound apps ids approved signer env : forall vs s,
  first_satisfied_r apps ids approved vs signer env = Some s ->
  exists v, In v vs /\
    (verify (vrec_verifier v) true signer env = VOkSet s \/
     exists s0, verify (vrec_verifier v) true signer env = VErr EUnmet s0 /\
                s = s0 ++ review_credit apps ids approved v s0 /\ (vr_thr v <= Z.of_nat (List.length s))%Z).
Proof.
  induction vs as [|v vs IH]; intros s H; cbn [first_satisfied_r] in H; [discriminate|].
  destruct (verify (vrec_verifier v) true signer env) as [s1|e s1] eqn:Hv.
  - injection H as <-. exists v. split; [left; reflexivity|]. left. exact Hv.
  - destruct e; try discriminate.
    destruct (Z.leb_spec (vr_thr v) (Z.of_nat (List.length (s1 ++ review_credit apps ids approved v s1)))).
    + injection H as <-. exists v. split; [left; reflexivity|]. right. exists s1. split; [exact Hv|]. split; [reflexivity|assumption].
    + destruct (IH s H) as [v' [Hin Hr]]. exists v'. split; [right; exact Hin|exact Hr].
Qed.
