(** C18 proofs: the grafted tree holds exactly the upstream subtree under the downstream path,
    every other path is untouched, and a second propagation is a no-op. *)
From GV Require Import Propagate BytesLemmas.

Lemma tlookup_app a b p : tlookup (a ++ b) p = match tlookup a p with Some x => Some x | None => tlookup b p end.
Proof.
  induction a as [|[q x] a IH]; cbn [app tlookup]; [reflexivity|].
  destruct (beq p q); [reflexivity|exact IH].
Qed.

Lemma tlookup_filter_keep (f : bytes -> bool) t p : f p = true ->
  tlookup (filter (fun pb => f (fst pb)) t) p = tlookup t p.
Proof.
  intros Hp. induction t as [|[q x] t IH]; [reflexivity|]. cbn [filter fst tlookup].
  destruct (f q) eqn:Hq; cbn [tlookup].
  - destruct (beq p q); [reflexivity|exact IH].
  - destruct (beq p q) eqn:E; [|exact IH]. apply beq_eq in E. subst q. congruence.
Qed.

Lemma tlookup_filter_drop (f : bytes -> bool) t p : f p = false ->
  tlookup (filter (fun pb => f (fst pb)) t) p = None.
Proof.
  intros Hp. induction t as [|[q x] t IH]; [reflexivity|]. cbn [filter fst].
  destruct (f q) eqn:Hq; [|exact IH]. cbn [tlookup].
  destruct (beq p q) eqn:E; [|exact IH]. apply beq_eq in E. subst q. congruence.
Qed.

Lemma beq_app_l d a b : beq (d ++ a) (d ++ b) = beq a b.
Proof. induction d as [|c d IH]; [reflexivity|]. cbn [app beq]. rewrite beqb_refl. exact IH. Qed.

Lemma tlookup_prefixed d up q :
  tlookup (map (fun pb => (d ++ SLASH :: fst pb, snd pb)) up) (d ++ SLASH :: q) = tlookup up q.
Proof.
  induction up as [|[p x] up IH]; [reflexivity|]. cbn [map fst snd tlookup].
  rewrite beq_app_l. cbn [beq]. rewrite beqb_refl. destruct (beq q p); [reflexivity|exact IH].
Qed.

Lemma under_prefixed d q : under d (d ++ SLASH :: q) = true.
Proof. unfold under. replace (d ++ SLASH :: q) with ((d ++ [SLASH]) ++ q) by (rewrite <- app_assoc; reflexivity). apply has_prefix_app. Qed.

Lemma tlookup_prefixed_outside d up p : under d p = false ->
  tlookup (map (fun pb => (d ++ SLASH :: fst pb, snd pb)) up) p = None.
Proof.
  intros Hp. induction up as [|[q x] up IH]; [reflexivity|]. cbn [map fst snd tlookup].
  destruct (beq p (d ++ SLASH :: q)) eqn:E; [|exact IH].
  apply beq_eq in E. subst p. rewrite under_prefixed in Hp. discriminate.
Qed.

(** the downstream path holds exactly the upstream subtree *)
Theorem graft_inside old d up q : tlookup (graft old d up) (d ++ SLASH :: q) = tlookup up q.
Proof.
  unfold graft. rewrite tlookup_app.
  rewrite (tlookup_filter_drop (fun p => negb (replaced d p))); [apply tlookup_prefixed|].
  unfold replaced. rewrite under_prefixed. reflexivity.
Qed.

(** every other path, whatever its name, is unchanged *)
Theorem graft_outside old d up p : replaced d p = false -> tlookup (graft old d up) p = tlookup old p.
Proof.
  intros Hp. unfold graft. rewrite tlookup_app.
  rewrite (tlookup_filter_keep (fun p => negb (replaced d p))); [|rewrite Hp; reflexivity].
  destruct (tlookup old p); [reflexivity|]. apply tlookup_prefixed_outside.
  unfold replaced in Hp. apply orb_false_iff in Hp. apply Hp.
Qed.

(** a regular file at the downstream path itself does not survive next to the directory *)
Theorem graft_replaces_file old d up : tlookup (graft old d up) d = tlookup (map (fun pb => (d ++ SLASH :: fst pb, snd pb)) up) d.
Proof.
  unfold graft. rewrite tlookup_app.
  rewrite (tlookup_filter_drop (fun p => negb (replaced d p))); [reflexivity|].
  unfold replaced. rewrite beq_refl, orb_true_r. reflexivity.
Qed.

Lemma skipn_prefixed d q : skipn (S (List.length d)) (d ++ SLASH :: q) = q.
Proof. induction d as [|c d IH]; [reflexivity|]. cbn [List.length app]. exact IH. Qed.

Lemma filter_filter_none {A} (f g : A -> bool) l : (forall x, f x = true -> g x = true) ->
  filter f (filter (fun x => negb (g x)) l) = [].
Proof.
  intros Hfg. induction l as [|x l IH]; [reflexivity|]. cbn [filter]. destruct (g x) eqn:E; cbn [negb filter]; [exact IH|].
  destruct (f x) eqn:F; [rewrite (Hfg x F) in E; discriminate|exact IH].
Qed.

Theorem subtree_of_graft old d up : subtree_at (graft old d up) d = up.
Proof.
  unfold subtree_at, graft. rewrite filter_app, map_app.
  rewrite (filter_filter_none (fun pb => under d (fst pb)) (fun pb => replaced d (fst pb)));
    [|intros x Hx; unfold replaced; rewrite Hx; reflexivity]. cbn [map app].
  induction up as [|[p x] up IH]; [reflexivity|]. cbn [map filter fst snd].
  rewrite under_prefixed. cbn [map fst snd]. rewrite skipn_prefixed. f_equal. exact IH.
Qed.

Lemma opt_eqb_refl a : opt_eqb a a = true.
Proof. destruct a; cbn; [apply N.eqb_refl|reflexivity]. Qed.

Lemma teq_refl t : teq t t = true.
Proof. unfold teq. apply forallb_forall. intros p _. apply opt_eqb_refl. Qed.

Lemma ref_tree_set refs r t : ref_tree (set_ref refs r t) r = Some t.
Proof.
  induction refs as [|[r' t'] refs IH]; cbn [set_ref ref_tree]; [rewrite beq_refl; reflexivity|].
  destruct (beq r r') eqn:E; cbn [ref_tree]; [rewrite beq_refl; reflexivity|rewrite E; exact IH].
Qed.

Lemma set_ref_idem refs r t : set_ref (set_ref refs r t) r t = set_ref refs r t.
Proof.
  induction refs as [|[r' t'] refs IH]; cbn [set_ref]; [rewrite beq_refl; reflexivity|].
  destruct (beq r r') eqn:E; cbn [set_ref]; [rewrite beq_refl; reflexivity|rewrite E, IH; reflexivity].
Qed.

(** one directive, run again on its own result: nothing happens (no commit, no entry) *)
Theorem propagate_one_idempotent up s d s1 :
  (forall eid utree, latest_unskipped up (d_upref d) = Some (eid, utree) -> utree <> []) ->
  propagate_one up s d = POk s1 -> propagate_one up s1 d = POk s1.
Proof.
  intros Hne H. unfold propagate_one in *.
  destruct (latest_unskipped up (d_upref d)) as [[eid utree]|] eqn:Hl; [|injection H as <-; reflexivity].
  destruct (ref_tree (ds_refs s) (d_downref d)) as [cur|] eqn:Hr; [|discriminate].
  destruct (up_subtree utree (d_uppath d)) as [usub|] eqn:Hu; [|discriminate].
  destruct (d_downpath d) as [|c dp'] eqn:Hd; [discriminate|].
  set (dp := trim_slash (c :: dp')) in *.
  destruct (negb (Nat.eqb (List.length (subtree_at cur dp)) 0) && teq (subtree_at cur dp) usub) eqn:Ha.
  - injection H as <-. rewrite Hr, Ha. reflexivity.
  - injection H as <-. cbn [ds_refs]. rewrite ref_tree_set, subtree_of_graft, teq_refl.
    assert (Hn : usub <> []).
    { unfold up_subtree in Hu. destruct (d_uppath d) as [|b0 l0].
      - injection Hu as <-. eapply Hne. reflexivity.
      - destruct (subtree_at utree (trim_slash (b0 :: l0))); [discriminate|]. injection Hu as <-. discriminate. }
    destruct usub; [contradiction|]. reflexivity.
Qed.

Theorem repeat_single_directive up d n : forall s s1,
  (forall eid utree, latest_unskipped up (d_upref d) = Some (eid, utree) -> utree <> []) ->
  propagate up s [d] = POk s1 ->
  Forall (fun r => r = POk s1) (repeat_propagate n up s1 [d]).
Proof.
  induction n as [|n IH]; intros s s1 Hne H; [constructor|].
  cbn [repeat_propagate propagate] in *.
  destruct (propagate_one up s d) as [s'|s'] eqn:H1; [|discriminate]. injection H as <-.
  rewrite (propagate_one_idempotent up s d s' Hne H1). constructor; [reflexivity|].
  apply (IH s s' Hne). rewrite H1. reflexivity.
Qed.

(** what a propagating step writes: the grafted tree and an entry naming the upstream location and
    the upstream entry used *)
Theorem propagate_one_effect up s d s1 : propagate_one up s d = POk s1 ->
  s1 = s \/
  exists eid utree cur usub,
    latest_unskipped up (d_upref d) = Some (eid, utree) /\ ref_tree (ds_refs s) (d_downref d) = Some cur /\
    up_subtree utree (d_uppath d) = Some usub /\
    let nt := graft cur (trim_slash (d_downpath d)) usub in
    ds_refs s1 = set_ref (ds_refs s) (d_downref d) nt /\ ds_commits s1 = S (ds_commits s) /\
    ds_entries s1 = ds_entries s ++ [(d_downref d, nt, d_uprepo d, eid)].
Proof.
  intros H. unfold propagate_one in H.
  destruct (latest_unskipped up (d_upref d)) as [[eid utree]|] eqn:Hl; [|injection H as <-; left; reflexivity].
  destruct (ref_tree (ds_refs s) (d_downref d)) as [cur|] eqn:Hr; [|discriminate].
  destruct (up_subtree utree (d_uppath d)) as [usub|] eqn:Hu; [|discriminate].
  destruct (d_downpath d) as [|c dp'] eqn:Hd; [discriminate|].
  destruct (negb (Nat.eqb (List.length (subtree_at cur (trim_slash (c :: dp')))) 0) && teq (subtree_at cur (trim_slash (c :: dp'))) usub).
  - injection H as <-. left. reflexivity.
  - injection H as <-. right. exists eid, utree, cur, usub. cbn [ds_refs ds_commits ds_entries].
    split; [reflexivity|]. split; [reflexivity|]. split; [exact Hu|].
    split; [reflexivity|]. split; reflexivity.
Qed.
