(** C19 model: PolicyVerifier.VerifyMergeable (internal/policy/verify.go:160-314) over the world
    model, for policies without file rules. *)
From GV Require Export World.

Inductive mres := MPossible (needs_signature : bool) | MNotPossible.

(** one verifier under the mergeability relaxation: satisfied outright, or short by exactly the
    recorder's own signature (only for thresholds above one) *)
Fixpoint first_mergeable (vs : list vrec) (env : option (list sigrec)) : option (list pid * bool) :=
  match vs with
  | [] => None
  | v :: vs' =>
      match verify (vrec_verifier v) false 0%N env with
      | VOkSet s => Some (s, false)
      | VErr EUnmet s =>
          if (vr_thr v <=? Z.of_nat (List.length s))%Z then Some (s, false)
          else if (1 <? vr_thr v)%Z && (vr_thr v - 1 <=? Z.of_nat (List.length s))%Z then Some (s, true)
          else first_mergeable vs' env
      | VErr _ _ => None
      end
  end.

(** [ref]: the branch; [from]: target of its latest unskipped entry (0 if none); [mtree]: tree of the merge *)
Definition verify_mergeable (w : world) (ref : bytes) (mtree : N) : mres :=
  let n := List.length (w_log w) in
  match latest_for w PolicyRefB n false false with
  | None => MNotPossible
  | Some (j, _) =>
      match load_state w j with
      | None => MNotPossible
      | Some ps =>
          let from := match latest_for w ref n true false with Some (_, e) => entry_target e | None => 0%N end in
          let az := match attest_before w n with None => AzNone | Some auths => find_authz auths ref from mtree end in
          match az with
          | AzInvalid => MNotPossible
          | _ =>
              let env := match az with AzEnv s => env_of s | _ => None end in
              match find_verifiers (policy_of ps) (GitScheme ++ ref) with
              | WOk vs =>
                  match vs, ps_globals ps with
                  | [], [] => MPossible false
                  | _, _ =>
                      let deleg := match vs with [] => Some ([], false) | _ => first_mergeable vs env end in
                      match deleg with
                      | None => MNotPossible
                      | Some (accepted, need) =>
                          match ps_globals ps with
                          | [] => MPossible need
                          | gs =>
                              match verify {| v_principals := all_principals ps; v_threshold := 1; v_exhaustive := true |} false 0%N env with
                              | VOkSet auth =>
                                  let count := List.length (nodup N.eq_dec (auth ++ accepted)) in
                                  if forallb (fun g => match g with
                                                       | GThreshold _ pats k =>
                                                           negb (globals_match (GitScheme ++ ref) pats)
                                                           || ((k - (if need then 1 else 0)) <=? Z.of_nat count)%Z
                                                       | GBlockForce _ _ => true
                                                       end) gs
                                  then MPossible need else MNotPossible
                              | VErr _ _ => MNotPossible
                              end
                          end
                      end
                  end
              | _ => MNotPossible
              end
          end
      end
  end.

(** the delegation-rule part of the answer alone (used to classify disagreements) *)
Definition deleg_result (w : world) (ref : bytes) (mtree : N) : option (list pid * bool) :=
  let n := List.length (w_log w) in
  match latest_for w PolicyRefB n false false with
  | None => None
  | Some (j, _) =>
      match load_state w j with
      | None => None
      | Some ps =>
          let from := match latest_for w ref n true false with Some (_, e) => entry_target e | None => 0%N end in
          let az := match attest_before w n with None => AzNone | Some auths => find_authz auths ref from mtree end in
          match az with
          | AzInvalid => None
          | _ =>
              let env := match az with AzEnv s => env_of s | _ => None end in
              match find_verifiers (policy_of ps) (GitScheme ++ ref) with
              | WOk [] => Some ([], false)
              | WOk vs => first_mergeable vs env
              | _ => None
              end
          end
      end
  end.
