(** Recording operations on the log (C03, C17): each writer is the sequence of the semantic
    storage steps the code performs — read the tip for numbering (setEntryNumber), then inside
    Storer.Commit: read the tip again, create the commit parented on it, compare-and-set the ref. *)
From GV Require Export RslStore.

Record lstate := { ls_store : store; ls_tip : option id; ls_next : id }.

Inductive wop :=
| WRef  (ref : bytes) (target : id) (numbered : bool)
| WAnn  (targets : list id) (skip : bool) (numbered : bool)
| WProp (ref : bytes) (target : id) (uprepo : bytes) (upentry : id).

Definition op_numbered (o : wop) : bool :=
  match o with WRef _ _ b | WAnn _ _ b => b | WProp _ _ _ _ => true end.

Definition op_entry (o : wop) (n : N) : lentry :=
  match o with
  | WRef r t _ => LRef r t n
  | WAnn ts sk _ => LAnn ts sk n
  | WProp r t ur ue => LProp r t ur ue n
  end.

(** annotation targets must denote well-formed entries (AnnotationEntry.Commit); evaluated when the
    operation starts — targets are existing, immutable commits *)
Definition op_valid (st : store) (o : wop) : bool :=
  match o with
  | WAnn ts _ _ => forallb (fun t => match get_entry st t with ROk _ => true | RErr _ => false end) ts
  | _ => true
  end.

Inductive wstatus :=
| WStart                                   (* nothing done yet *)
| WNumbered (n : N)                        (* number chosen from one read of the tip *)
| WRead (n : N) (t2 : option id)           (* Commit: tip read *)
| WCreated (n : N) (t2 : option id) (c : id)   (* Commit: object written *)
| WDone (ok : bool) (c : option id).       (* finished; c = the commit it created, if any *)

Definition opt_list (o : option id) : list id := match o with Some x => [x] | None => [] end.

Definition opt_id_eqb (a b : option id) : bool :=
  match a, b with Some x, Some y => N.eqb x y | None, None => true | _, _ => false end.

(** one semantic step of one writer *)
Definition wstep (s : lstate) (o : wop) (w : wstatus) : lstate * wstatus :=
  match w with
  | WStart =>
      if negb (op_valid (ls_store s) o) then (s, WDone false None)
      else if negb (op_numbered o) then (s, WRead 0%N (ls_tip s))    (* CommitWithoutNumber: straight to Commit *)
      else
        match latest_entry (ls_store s) (ls_tip s) with
        | ROk it => (s, WNumbered (enum (snd it) + 1)%N)
        | RErr RNotFound => (s, WNumbered 1%N)
        | RErr _ => (s, WDone false None)
        end
  | WNumbered n => (s, WRead n (ls_tip s))
  | WRead n t2 =>
      let c := ls_next s in
      ({| ls_store := (c, {| c_parents := opt_list t2; c_entry := Some (op_entry o n) |}) :: ls_store s;
          ls_tip := ls_tip s; ls_next := N.succ c |},
       WCreated n t2 c)
  | WCreated n t2 c =>
      if opt_id_eqb (ls_tip s) t2
      then ({| ls_store := ls_store s; ls_tip := Some c; ls_next := ls_next s |}, WDone true (Some c))
      else (s, WDone false (Some c))
  | WDone ok c => (s, WDone ok c)
  end.

Definition wdone (w : wstatus) : bool := match w with WDone _ _ => true | _ => false end.

(** ** C03: one writer at a time — an operation runs its steps back to back *)
Definition run_op (s : lstate) (o : wop) : lstate * wstatus :=
  let '(s1, w1) := wstep s o WStart in
  let '(s2, w2) := wstep s1 o w1 in
  let '(s3, w3) := wstep s2 o w2 in
  wstep s3 o w3.

Fixpoint run_ops (s : lstate) (ops : list wop) : lstate * list wstatus :=
  match ops with
  | [] => (s, [])
  | o :: ops' =>
      let '(s1, w) := run_op s o in
      let '(s2, ws) := run_ops s1 ops' in (s2, w :: ws)
  end.

(** a legacy (unnumbered) operation is only meaningful while the log is still unnumbered *)
Definition legacy_ok (s : lstate) (o : wop) : bool :=
  op_numbered o ||
  match latest_entry (ls_store s) (ls_tip s) with
  | ROk it => N.eqb (enum (snd it)) 0
  | RErr RNotFound => true
  | RErr _ => false
  end.

Fixpoint ops_ok (s : lstate) (ops : list wop) : bool :=
  match ops with
  | [] => true
  | o :: ops' => legacy_ok s o && ops_ok (fst (run_op s o)) ops'
  end.

Definition init_state : lstate := {| ls_store := []; ls_tip := None; ls_next := 1%N |}.

(** ** C17: several writers under a schedule (list of writer indices) *)
Fixpoint set_nth {A} (l : list A) (i : nat) (x : A) : list A :=
  match l, i with
  | [], _ => []
  | _ :: l', 0 => x :: l'
  | y :: l', S i' => y :: set_nth l' i' x
  end.

Definition sched_step (ops : list wop) (acc : lstate * list wstatus) (i : nat) : lstate * list wstatus :=
  match nth_error ops i, nth_error (snd acc) i with
  | Some o, Some w => let '(s', w') := wstep (fst acc) o w in (s', set_nth (snd acc) i w')
  | _, _ => acc
  end.

Definition exec (s : lstate) (ops : list wop) (sched : list nat) : lstate * list wstatus :=
  fold_left (sched_step ops) sched (s, map (fun _ => WStart) ops).

(** ** the log invariants as booleans (also evaluated on the implementation's graph) *)

(** single-parent chain from the tip: returns the entries newest first, or None *)
Fixpoint chain_ids (st : store) (fuel : nat) (t : option id) : option (list ent) :=
  match t with
  | None => Some []
  | Some i =>
      match fuel with
      | 0 => None
      | S f =>
          match lookup st i with
          | Some {| c_parents := ps; c_entry := Some e |} =>
              match ps with
              | [] => Some [(i, e)]
              | [p] => match chain_ids st f (Some p) with Some l => Some ((i, e) :: l) | None => None end
              | _ => None
              end
          | _ => None
          end
      end
  end.

(** the numbering rule of GetParentForEntry along a chain (newest first) *)
Fixpoint numbering_ok (l : list ent) : bool :=
  match l with
  | x :: ((y :: _) as l') =>
      (if (enum (snd x) <=? 1)%N then N.eqb (enum (snd y)) 0 else N.eqb (enum (snd y)) (enum (snd x) - 1))
      && numbering_ok l'
  | [x] => (enum (snd x) <=? 1)%N
  | [] => true
  end.

Definition log_ok (st : store) (t : option id) : bool :=
  match chain_ids st (S (List.length st)) t with
  | Some l => numbering_ok l
  | None => false
  end.
