(** C18 model: internal/propagation PropagateChangesFromUpstreamRepository (with the upstream-path
    comparison of fix F4) and gitinterface.CreateSubtreeFromUpstreamRepository, over flat trees
    (full path -> blob, regular files only). *)
From GV Require Export FileRules.

Definition SLASH : byte := x2f.

(** strings.TrimSuffix(p, "/") *)
Definition trim_slash (p : bytes) : bytes :=
  match rev p with
  | c :: r => if Byte.eqb c SLASH then rev r else p
  | [] => p
  end.

Definition under (d p : bytes) : bool := has_prefix (d ++ [SLASH]) p.

(** files below directory [d], names relative to it *)
Definition subtree_at (t : ftree) (d : bytes) : ftree :=
  map (fun pb => (skipn (S (List.length d)) (fst pb), snd pb)) (filter (fun pb => under d (fst pb)) t).

(** CreateSubtreeFromUpstreamRepository on flat trees: everything but [d] itself and what lies
    below [d]/ is kept, [d]/ holds exactly [up] *)
Definition replaced (d p : bytes) : bool := under d p || beq p d.
Definition graft (old : ftree) (d : bytes) (up : ftree) : ftree :=
  filter (fun pb => negb (replaced d (fst pb))) old ++ map (fun pb => (d ++ SLASH :: fst pb, snd pb)) up.

(** equal contents (what equal tree ids mean for canonical trees of regular files) *)
Definition teq (a b : ftree) : bool :=
  forallb (fun p => opt_eqb (tlookup a p) (tlookup b p)) (map fst a ++ map fst b).

Record directive := { d_uprepo : bytes; d_upref : bytes; d_uppath : bytes; d_downref : bytes; d_downpath : bytes }.

(** upstream log: (entry id, ref, tree of the target commit, skipped), oldest first *)
Definition uplog := list (N * bytes * ftree * bool).
Definition latest_unskipped (l : uplog) (ref : bytes) : option (N * ftree) :=
  match filter (fun e => beq (snd (fst (fst e))) ref && negb (snd e)) (rev l) with
  | e :: _ => Some (fst (fst (fst e)), snd (fst e))
  | [] => None
  end.

(** downstream: tree at each reference's tip, number of commits made, propagation entries appended
    (ref, tree of the commit named, upstream location, upstream entry id) *)
Record dstate := { ds_refs : list (bytes * ftree); ds_commits : nat; ds_entries : list (bytes * ftree * bytes * N) }.

Fixpoint ref_tree (refs : list (bytes * ftree)) (r : bytes) : option ftree :=
  match refs with [] => None | (r', t) :: refs' => if beq r r' then Some t else ref_tree refs' r end.
Fixpoint set_ref (refs : list (bytes * ftree)) (r : bytes) (t : ftree) : list (bytes * ftree) :=
  match refs with
  | [] => [(r, t)]
  | (r', t') :: refs' => if beq r r' then (r, t) :: refs' else (r', t') :: set_ref refs' r t
  end.

Inductive pres := POk (s : dstate) | PErr (s : dstate).

(** the subtree named by the directive's upstream path ("" : the whole tree); None: no such directory *)
Definition up_subtree (t : ftree) (p : bytes) : option ftree :=
  match p with
  | [] => Some t
  | _ => match subtree_at t (trim_slash p) with [] => None | s => Some s end
  end.

Definition propagate_one (up : uplog) (s : dstate) (d : directive) : pres :=
  match latest_unskipped up (d_upref d) with
  | None => POk s
  | Some (eid, utree) =>
      match ref_tree (ds_refs s) (d_downref d) with
      | None => PErr s
      | Some cur =>
          match up_subtree utree (d_uppath d) with
          | None => PErr s
          | Some usub =>
              let dp := trim_slash (d_downpath d) in
              match d_downpath d with
              | [] => PErr s      (* cannot create a subtree into the root *)
              | _ =>
                  let have := subtree_at cur dp in
                  if negb (Nat.eqb (List.length have) 0) && teq have usub then POk s
                  else
                    let nt := graft cur dp usub in
                    POk {| ds_refs := set_ref (ds_refs s) (d_downref d) nt; ds_commits := S (ds_commits s);
                           ds_entries := ds_entries s ++ [(d_downref d, nt, d_uprepo d, eid)] |}
              end
          end
      end
  end.

Fixpoint propagate (up : uplog) (s : dstate) (ds : list directive) : pres :=
  match ds with
  | [] => POk s
  | d :: ds' => match propagate_one up s d with POk s' => propagate up s' ds' | PErr s' => PErr s' end
  end.

Fixpoint repeat_propagate (n : nat) (up : uplog) (s : dstate) (ds : list directive) : list pres :=
  match n with
  | 0 => []
  | S n' => let r := propagate up s ds in
            r :: repeat_propagate n' up (match r with POk s' => s' | PErr s' => s' end) ds
  end.

(** repetitions with the upstream log possibly extended in between *)
Fixpoint repeat_propagate_ups (ups : list uplog) (s : dstate) (ds : list directive) : list pres :=
  match ups with
  | [] => []
  | up :: ups' => let r := propagate up s ds in
                  r :: repeat_propagate_ups ups' (match r with POk s' => s' | PErr s' => s' end) ds
  end.
