(** C12 proofs. *)
From GV Require Import World WorldProofs ApplyModel.

(** A successful Apply: the policy ref moves exactly to the staged state (and nowhere else), the
    staged state descends from the old policy, it passes internal verification, it is a valid
    successor of the applied policy (so subsequent verification accepts it), and exactly one policy
    entry, for that state, is appended by the same operation. *)
Theorem apply_ok_spec s s' :
  astep s AApply = (None, s') ->
  exists s1 st staged,
    reconcile s = (None, s1) /\
    a_staging s1 = Some st /\ a_policy s' = Some st /\ a_staging s' = Some st /\
    a_log s' = a_log s1 ++ [(true, st)] /\
    (forall p, a_policy s1 = Some p -> descends (a_commits s1) (S (List.length (a_commits s1))) st p = true) /\
    lookup_pc (a_commits s1) (match latest_entry_for (a_log s1) false with Some e => e | None => st end) = Some staged /\
    state_verify (pc_state staged) = true /\ pc_ctl_ok staged = true /\
    (forall cur, chain_verifies (policy_chain s1) = Some (Some cur) -> verify_new_state cur (pc_state staged) = true).
Proof.
  cbn [astep]. destruct (reconcile s) as [[e|] s1] eqn:Er; [discriminate|].
  destruct (ref_consistent (a_policy s1) (latest_entry_for (a_log s1) true)); [|discriminate].
  destruct (a_staging s1) as [st|] eqn:Es; [|discriminate].
  destruct (match a_policy s1 with Some p => negb (descends (a_commits s1) (S (List.length (a_commits s1))) st p) | None => false end) eqn:Ed; [discriminate|].
  destruct (chain_verifies (policy_chain s1)) as [cur|] eqn:Ec; [|discriminate].
  destruct (latest_entry_for (a_log s1) false) as [ste|] eqn:El; [|discriminate].
  destruct (lookup_pc (a_commits s1) ste) as [staged|] eqn:Ep; [|discriminate].
  destruct (pc_ctl_ok staged && (state_verify (pc_state staged) && match cur with Some c => verify_new_state c (pc_state staged) | None => true end
            && match cur with Some c => state_verify c | None => true end)) eqn:Ev; [|discriminate].
  intros [= <-]. exists s1, st, staged. cbn [a_policy a_staging a_log].
  apply andb_true_iff in Ev as [Ectl Ev].
  apply andb_true_iff in Ev as [Ev _]. apply andb_true_iff in Ev as [Ev1 Ev2].
  repeat split; try assumption; try reflexivity.
  - intros p Hp. rewrite Hp in Ed. now apply negb_false_iff in Ed.
  - rewrite El. exact Ep.
  - intros c Hc. rewrite Ec in Hc. inversion Hc; subst. exact Ev2.
Qed.

(** A refused Apply changes neither the policy ref nor the policy entries (ReconcileStaging may have
    fast-forwarded staging, with its entry). *)
Theorem apply_refused_spec s e s' :
  astep s AApply = (Some e, s') ->
  a_policy s' = a_policy s /\ filter (fun x => fst x) (a_log s') = filter (fun x => fst x) (a_log s).
Proof.
  cbn [astep]. assert (Hr : forall r s1, reconcile s = (r, s1) ->
    a_policy s1 = a_policy s /\ filter (fun x => fst x) (a_log s1) = filter (fun x => fst x) (a_log s)).
  { unfold reconcile. intros r s1.
    destruct (ref_consistent (a_policy s) (latest_entry_for (a_log s) true)) as [[|]|]; destruct (ref_consistent (a_staging s) (latest_entry_for (a_log s) false)) as [[|]|];
      try (intros [= <- <-]; split; reflexivity).
    destruct (a_policy s) as [p|] eqn:Ep; destruct (a_staging s) as [st|] eqn:Es; try (intros [= <- <-]; split; [now rewrite ?Ep|reflexivity]).
    destruct (N.eqb p st || descends (a_commits s) (S (List.length (a_commits s))) st p); [intros [= <- <-]; split; [now rewrite ?Ep|reflexivity]|].
    destruct (descends (a_commits s) (S (List.length (a_commits s))) p st); intros [= <- <-]; cbn [a_policy a_log]; [|split; [now rewrite ?Ep|reflexivity]].
    split; [now rewrite ?Ep|]. rewrite filter_app. cbn. now rewrite app_nil_r. }
  destruct (reconcile s) as [[e1|] s1] eqn:Er; destruct (Hr _ _ eq_refl) as [H1 H2]; [intros [= <- <-]; auto|].
  destruct (ref_consistent _ _); [|intros [= <- <-]; auto].
  destruct (a_staging s1); [|intros [= <- <-]; auto].
  destruct (match a_policy s1 with Some _ => _ | None => false end); [intros [= <- <-]; auto|].
  destruct (chain_verifies _); [|intros [= <- <-]; auto].
  destruct (latest_entry_for (a_log s1) false); [|intros [= <- <-]; auto].
  destruct (lookup_pc _ _); [|intros [= <- <-]; auto].
  destruct (_ && _); [discriminate|intros [= <- <-]; auto].
Qed.

(** Discard restores staging to the applied policy. *)
Theorem discard_spec s s' : astep s ADiscard = (None, s') -> a_staging s' = a_policy s /\ a_policy s' = a_policy s /\ a_log s' = a_log s.
Proof. cbn. intros [= <-]. auto. Qed.

(** Every policy state that Apply publishes is accepted by subsequent verification: if the policy
    entries chained before the Apply and the applied policy verified, they still do afterwards. *)
Lemma chain_ok_snoc : forall rest p0 last k ps, chain_ok p0 rest = Some last -> verify_new_state last ps = true ->
  chain_ok p0 (rest ++ [(k, ps)]) = Some ps.
Proof.
  induction rest as [|[j q] rest IH]; intros p0 last k ps; cbn [chain_ok app].
  - intros [= <-] H. now rewrite H.
  - destruct (verify_new_state p0 q); [|discriminate]. apply IH.
Qed.

(** ** for every sequence of operations: what has been published stays loadable *)
Definition AInv (s : astate) : Prop :=
  published_loadable s = true /\ forall e, In e (a_log s) -> (snd e < a_next s)%N.

Lemma latest_entry_in log b t : latest_entry_for log b = Some t -> In (b, t) log.
Proof.
  unfold latest_entry_for. destruct (rev (filter (fun e => Bool.eqb (fst e) b) log)) as [|e l] eqn:E; [discriminate|].
  intros [= <-]. assert (Hin : In e (rev (filter (fun e => Bool.eqb (fst e) b) log))) by (rewrite E; left; reflexivity).
  apply in_rev in Hin. apply filter_In in Hin. destruct Hin as [Hin Hb]. destruct e as [b' t']. cbn in *.
  apply Bool.eqb_prop in Hb. subst b'. exact Hin.
Qed.

Lemma ref_consistent_true r e : ref_consistent r e = Some true -> exists x, r = Some x /\ e = Some x.
Proof.
  unfold ref_consistent. destruct r as [x|], e as [y|]; try discriminate.
  destruct (N.eqb_spec x y); [|discriminate]. intros _. subst y. exists x. auto.
Qed.

Lemma policy_chain_app_false s c l cs n :
  policy_chain {| a_policy := s; a_staging := c; a_log := l ++ [(false, n)]; a_commits := cs; a_next := 0%N |}
  = policy_chain {| a_policy := s; a_staging := c; a_log := l; a_commits := cs; a_next := 0%N |}.
Proof. unfold policy_chain. cbn [a_log a_commits]. rewrite flat_map_app. cbn. apply app_nil_r. Qed.

Lemma chain_only_log_commits s s' : a_log s = a_log s' -> a_commits s = a_commits s' -> policy_chain s = policy_chain s'.
Proof. unfold policy_chain. intros -> ->. reflexivity. Qed.

Lemma loadable_only_chain s s' : policy_chain s = policy_chain s' -> published_loadable s = published_loadable s'.
Proof. unfold published_loadable. intros ->. reflexivity. Qed.

Lemma lookup_pc_fresh cs c p x : x <> c -> lookup_pc ((c, p) :: cs) x = lookup_pc cs x.
Proof. intros H. cbn. destruct (N.eqb_spec x c); [contradiction|reflexivity]. Qed.

Lemma flat_map_ext_in_local {A B} (f g : A -> list B) l : (forall a, In a l -> f a = g a) -> flat_map f l = flat_map g l.
Proof.
  induction l as [|a l IH]; intros H; [reflexivity|]. cbn. rewrite (H a (or_introl eq_refl)), IH; [reflexivity|].
  intros b Hb. apply H. right. exact Hb.
Qed.

Lemma reconcile_inv s e s1 : AInv s -> reconcile s = (e, s1) -> AInv s1 /\ (e = None -> ref_consistent (a_staging s1) (latest_entry_for (a_log s1) false) <> None).
Proof.
  intros [Hl Hn] H. unfold reconcile in H.
  destruct (ref_consistent (a_policy s) (latest_entry_for (a_log s) true)) as [bp|] eqn:Ep.
  2:{ injection H as <- <-. split; [split; assumption|discriminate]. }
  destruct (ref_consistent (a_staging s) (latest_entry_for (a_log s) false)) as [bs|] eqn:Es.
  2:{ destruct bp; injection H as <- <-; (split; [split; assumption|discriminate]). }
  destruct bp.
  2:{ injection H as <- <-. split; [split; assumption|]. intros _. rewrite Es. discriminate. }
  destruct bs.
  2:{ injection H as <- <-. split; [split; assumption|discriminate]. }
  destruct (a_policy s) as [p|] eqn:Epol; [|injection H as <- <-; split; [split; assumption|discriminate]].
  destruct (a_staging s) as [st|] eqn:Est; [|injection H as <- <-; split; [split; assumption|discriminate]].
  destruct (N.eqb p st || descends (a_commits s) (S (List.length (a_commits s))) st p).
  { injection H as <- <-. split; [split; assumption|]. intros _. rewrite Est, Es. discriminate. }
  destruct (descends (a_commits s) (S (List.length (a_commits s))) p st).
  2:{ injection H as <- <-. split; [split; assumption|discriminate]. }
  injection H as <- <-. split.
  - split.
    + rewrite <- Hl. apply loadable_only_chain. unfold policy_chain. cbn [a_log a_commits]. rewrite flat_map_app. cbn. apply app_nil_r.
    + cbn [a_log a_next]. intros e0 Hin. apply in_app_or in Hin. destruct Hin as [Hin|[<-|[]]]; [apply Hn, Hin|].
      destruct (ref_consistent_true _ _ Ep) as [x [Hx1 Hx2]]. injection Hx1 as <-. cbn. apply (Hn (true, p)). apply latest_entry_in, Hx2.
  - intros _. cbn [a_staging a_log]. unfold latest_entry_for. rewrite filter_app, rev_app_distr. cbn.
    unfold ref_consistent. rewrite N.eqb_refl. discriminate.
Qed.

Theorem astep_inv s o e s' : AInv s -> astep s o = (e, s') -> AInv s'.
Proof.
  intros Hi H. destruct o as [ps ctl| | |c|c]; cbn [astep] in H.
  - (* stage *) injection H as <- <-. destruct Hi as [Hl Hn]. split.
    + rewrite <- Hl. apply loadable_only_chain. unfold policy_chain. cbn [a_log a_commits].
      rewrite flat_map_app. cbn [flat_map fst app]. rewrite app_nil_r.
      apply flat_map_ext_in_local. intros [b t] Hin. cbn [fst snd]. destruct b; [|reflexivity].
      rewrite lookup_pc_fresh; [reflexivity|]. specialize (Hn _ Hin). cbn in Hn. lia.
    + cbn [a_log a_next]. intros e0 Hin. apply in_app_or in Hin. destruct Hin as [Hin|[<-|[]]]; [specialize (Hn _ Hin); lia|cbn; lia].
  - (* apply *)
    destruct (reconcile s) as [er s1] eqn:Er. destruct (reconcile_inv s er s1 Hi Er) as [Hi1 Hc].
    destruct er as [er|]; [injection H as <- <-; exact Hi1|]. specialize (Hc eq_refl).
    destruct (ref_consistent (a_policy s1) (latest_entry_for (a_log s1) true)); [|injection H as <- <-; exact Hi1].
    destruct (a_staging s1) as [st|] eqn:Est; [|injection H as <- <-; exact Hi1].
    destruct (match a_policy s1 with Some p => negb (descends (a_commits s1) (S (List.length (a_commits s1))) st p) | None => false end);
      [injection H as <- <-; exact Hi1|].
    destruct (chain_verifies (policy_chain s1)) as [cur|] eqn:Ech; [|injection H as <- <-; exact Hi1].
    destruct (latest_entry_for (a_log s1) false) as [ste|] eqn:Este; [|injection H as <- <-; exact Hi1].
    destruct (lookup_pc (a_commits s1) ste) as [staged|] eqn:Els; [|injection H as <- <-; exact Hi1].
    destruct (pc_ctl_ok staged && (state_verify (pc_state staged) && match cur with Some c => verify_new_state c (pc_state staged) | None => true end
              && match cur with Some c => state_verify c | None => true end)) eqn:Eok; [|injection H as <- <-; exact Hi1].
    apply andb_true_iff in Eok as [_ Eok].
    injection H as <- <-. destruct Hi1 as [Hl1 Hn1].
    assert (Hst : ste = st).
    { unfold ref_consistent in Hc. destruct (N.eqb_spec st ste); [congruence|contradiction]. }
    subst ste. apply andb_true_iff in Eok. destruct Eok as [Eok E3]. apply andb_true_iff in Eok. destruct Eok as [E1 E2].
    split.
    + unfold published_loadable, policy_chain. cbn [a_log a_commits]. rewrite flat_map_app. cbn [flat_map fst snd app].
      rewrite Els. cbn [app]. fold (policy_chain s1).
      unfold chain_verifies in *. destruct (policy_chain s1) as [|[k p0] rest].
      * cbn. exact E1.
      * destruct (chain_ok p0 rest) as [last|] eqn:Eco; [|discriminate]. injection Ech as <-.
        cbn [app]. rewrite (chain_ok_snoc rest p0 last 0 (pc_state staged) Eco E2). exact E1.
    + cbn [a_log a_next]. intros e0 Hin. apply in_app_or in Hin. destruct Hin as [Hin|[<-|[]]]; [apply Hn1, Hin|].
      cbn. apply (Hn1 (false, st)). apply latest_entry_in, Este.
  - injection H as <- <-. destruct Hi as [Hl Hn]. split; [rewrite <- Hl; apply loadable_only_chain; reflexivity|exact Hn].
  - injection H as <- <-. destruct Hi as [Hl Hn]. split; [rewrite <- Hl; apply loadable_only_chain; reflexivity|exact Hn].
  - injection H as <- <-. destruct Hi as [Hl Hn]. split; [rewrite <- Hl; apply loadable_only_chain; reflexivity|exact Hn].
Qed.

Theorem arun_inv : forall ops s es s', AInv s -> arun s ops = (es, s') -> AInv s'.
Proof.
  induction ops as [|o ops IH]; intros s es s' Hi H; cbn [arun] in H; [injection H as _ <-; exact Hi|].
  destruct (astep s o) as [e s1] eqn:Es. destruct (arun s1 ops) as [es2 s2] eqn:Er. injection H as _ <-.
  apply (IH s1 es2 s2); [apply (astep_inv _ _ _ _ Hi Es)|exact Er].
Qed.

Lemma a_init_inv : AInv a_init.
Proof. split; [reflexivity|intros e []]. Qed.

(** whatever sequence of staging, applying, discarding and direct tampering of the two policy
    references is performed on a fresh repository, the policy entries recorded in the log always
    form a chain that LoadCurrentState accepts *)
Theorem published_always_loadable ops es s : arun a_init ops = (es, s) -> published_loadable s = true.
Proof. intros H. exact (proj1 (arun_inv ops a_init es s a_init_inv H)). Qed.
