(** C12 proofs. *)
From GV Require Import World WorldProofs ApplyModel.

(** A successful Apply: the policy ref moves exactly to the staged state (and nowhere else), the
    staged state descends from the old policy, it passes internal verification, it is a valid
    successor of the applied policy (so subsequent verification accepts it), and exactly one policy
    entry, for that state, is appended by the same operation. *)
Theorem apply_ok_spec s s' :
  astep s AApply = (None, s') ->
  exists s1 st staged,
    reconcile s = (None, s1) /\
    a_staging s1 = Some st /\ a_policy s' = Some st /\ a_staging s' = Some st /\
    a_log s' = a_log s1 ++ [(true, st)] /\
    (forall p, a_policy s1 = Some p -> descends (a_commits s1) (S (List.length (a_commits s1))) st p = true) /\
    lookup_pc (a_commits s1) (match latest_entry_for (a_log s1) false with Some e => e | None => st end) = Some staged /\
    state_verify (pc_state staged) = true /\
    (forall cur, chain_verifies (policy_chain s1) = Some (Some cur) -> verify_new_state cur (pc_state staged) = true).
Proof.
  cbn [astep]. destruct (reconcile s) as [[e|] s1] eqn:Er; [discriminate|].
  destruct (ref_consistent (a_policy s1) (latest_entry_for (a_log s1) true)); [|discriminate].
  destruct (a_staging s1) as [st|] eqn:Es; [|discriminate].
  destruct (match a_policy s1 with Some p => negb (descends (a_commits s1) (S (List.length (a_commits s1))) st p) | None => false end) eqn:Ed; [discriminate|].
  destruct (chain_verifies (policy_chain s1)) as [cur|] eqn:Ec; [|discriminate].
  destruct (latest_entry_for (a_log s1) false) as [ste|] eqn:El; [|discriminate].
  destruct (lookup_pc (a_commits s1) ste) as [staged|] eqn:Ep; [|discriminate].
  destruct (state_verify (pc_state staged) && match cur with Some c => verify_new_state c (pc_state staged) | None => true end
            && match cur with Some c => state_verify c | None => true end) eqn:Ev; [|discriminate].
  intros [= <-]. exists s1, st, staged. cbn [a_policy a_staging a_log].
  apply andb_true_iff in Ev as [Ev _]. apply andb_true_iff in Ev as [Ev1 Ev2].
  repeat split; try assumption; try reflexivity.
  - intros p Hp. rewrite Hp in Ed. now apply negb_false_iff in Ed.
  - rewrite El. exact Ep.
  - intros c Hc. rewrite Ec in Hc. inversion Hc; subst. exact Ev2.
Qed.

(** A refused Apply changes neither the policy ref nor the policy entries (ReconcileStaging may have
    fast-forwarded staging, with its entry). *)
Theorem apply_refused_spec s e s' :
  astep s AApply = (Some e, s') ->
  a_policy s' = a_policy s /\ filter (fun x => fst x) (a_log s') = filter (fun x => fst x) (a_log s).
Proof.
  cbn [astep]. assert (Hr : forall r s1, reconcile s = (r, s1) ->
    a_policy s1 = a_policy s /\ filter (fun x => fst x) (a_log s1) = filter (fun x => fst x) (a_log s)).
  { unfold reconcile. intros r s1.
    destruct (ref_consistent (a_policy s) (latest_entry_for (a_log s) true)) as [[|]|]; destruct (ref_consistent (a_staging s) (latest_entry_for (a_log s) false)) as [[|]|];
      try (intros [= <- <-]; split; reflexivity).
    destruct (a_policy s) as [p|] eqn:Ep; destruct (a_staging s) as [st|] eqn:Es; try (intros [= <- <-]; split; [now rewrite ?Ep|reflexivity]).
    destruct (N.eqb p st || descends (a_commits s) (S (List.length (a_commits s))) st p); [intros [= <- <-]; split; [now rewrite ?Ep|reflexivity]|].
    destruct (descends (a_commits s) (S (List.length (a_commits s))) p st); intros [= <- <-]; cbn [a_policy a_log]; [|split; [now rewrite ?Ep|reflexivity]].
    split; [now rewrite ?Ep|]. rewrite filter_app. cbn. now rewrite app_nil_r. }
  destruct (reconcile s) as [[e1|] s1] eqn:Er; destruct (Hr _ _ eq_refl) as [H1 H2]; [intros [= <- <-]; auto|].
  destruct (ref_consistent _ _); [|intros [= <- <-]; auto].
  destruct (a_staging s1); [|intros [= <- <-]; auto].
  destruct (match a_policy s1 with Some _ => _ | None => false end); [intros [= <- <-]; auto|].
  destruct (chain_verifies _); [|intros [= <- <-]; auto].
  destruct (latest_entry_for (a_log s1) false); [|intros [= <- <-]; auto].
  destruct (lookup_pc _ _); [|intros [= <- <-]; auto].
  destruct (_ && _); [discriminate|intros [= <- <-]; auto].
Qed.

(** Discard restores staging to the applied policy. *)
Theorem discard_spec s s' : astep s ADiscard = (None, s') -> a_staging s' = a_policy s /\ a_policy s' = a_policy s /\ a_log s' = a_log s.
Proof. cbn. intros [= <-]. auto. Qed.

(** Every policy state that Apply publishes is accepted by subsequent verification: if the policy
    entries chained before the Apply and the applied policy verified, they still do afterwards. *)
Lemma chain_ok_snoc : forall rest p0 last k ps, chain_ok p0 rest = Some last -> verify_new_state last ps = true ->
  chain_ok p0 (rest ++ [(k, ps)]) = Some ps.
Proof.
  induction rest as [|[j q] rest IH]; intros p0 last k ps; cbn [chain_ok app].
  - intros [= <-] H. now rewrite H.
  - destruct (verify_new_state p0 q); [|discriminate]. apply IH.
Qed.
