(** C19: case type and checker. *)
From GV Require Export Mergeable FileRules WorldCheck Verdict.

Inductive c19case :=
| C19 (w : world) (ref : bytes) (mtree : N) (obs : mres) (recorders : list (key * N * vout))
  (* policies with file rules: [feature] is the tip being merged *)
| C19F (fw : fworld) (ref : bytes) (mtree : N) (feature : N) (obs : mres) (recorders : list (key * N * vout))
  (* the public API (experimental/gittuf Repository.VerifyMergeable) on the same history: through the
     log and with the feature reference read directly *)
| C19W (w : world) (ref : bytes) (mtree : N) (internal via_log direct : mres)
| C19Panic.

Definition mres_eqb (a b : mres) : bool :=
  match a, b with
  | MPossible x, MPossible y => Bool.eqb x y
  | MNotPossible, MNotPossible => true
  | _, _ => false
  end.

Definition with_merge (w : world) (ref : bytes) (commit : N) (signer : key) : world :=
  {| w_log := w_log w ++ [WERef ref commit signer]; w_commits := w_commits w |}.

(** the rule protecting the branch under the latest policy, and who already approved the merge *)
Definition latest_policy (w : world) : option pstate :=
  match latest_for w PolicyRefB (List.length (w_log w)) false false with
  | Some (j, _) => load_state w j
  | None => None
  end.

Definition branch_rule (w : world) (ref : bytes) : option vrec :=
  match latest_policy w with
  | Some ps => match find_verifiers (policy_of ps) (GitScheme ++ ref) with WOk (v :: _) => Some v | _ => None end
  | None => None
  end.

Definition approver_keys (w : world) (ref : bytes) (mtree : N) : list key :=
  let n := List.length (w_log w) in
  let from := match latest_for w ref n true false with Some (_, e) => entry_target e | None => 0%N end in
  match attest_before w n with
  | Some auths => match find_authz auths ref from mtree with AzEnv s => s | _ => [] end
  | None => []
  end.

(** key [k] belongs to a principal of the branch's rule that has not approved yet *)
Definition authorized_not_counted (w : world) (ref : bytes) (mtree : N) (k : key) : bool :=
  match branch_rule w ref with
  | None => false
  | Some v =>
      existsb (fun pk => match snd pk with
                         | Some ks => mem k ks && negb (existsb (fun a => mem a ks) (approver_keys w ref mtree))
                         | None => false
                         end) (vr_pr v)
  end.

(** some key is held by two principals of the branch's rule *)
Definition shares_keys (w : world) (ref : bytes) : bool :=
  match branch_rule w ref with
  | None => false
  | Some v =>
      let ks := flat_map (fun pk => match snd pk with Some ks => nodup N.eq_dec ks | None => [] end) (vr_pr v) in
      negb (Nat.eqb (List.length (nodup N.eq_dec ks)) (List.length ks))
  end.

Definition rule_key (w : world) (ref : bytes) (k : key) : bool :=
  match branch_rule w ref with
  | None => false
  | Some v => existsb (fun pk => match snd pk with Some ks => mem k ks | None => false end) (vr_pr v)
  end.

Definition rule_threshold (w : world) (ref : bytes) : Z :=
  match branch_rule w ref with Some v => vr_thr v | None => 0%Z end.

Definition c19_decide (w : world) (ref : bytes) (mtree : N) (obs : mres) (recs : list (key * N * vout)) (agree_m agree_v : bool) : verdict :=
      let ok (r : key * N * vout) := vout_ok (snd r) in
      let spec :=
        match obs with
        | MPossible false => if forallb ok recs then 0 else 1          (* verifies whoever records it *)
        | MPossible true =>                                             (* verifies exactly for authorised, not yet counted recorders *)
            if forallb (fun r => Bool.eqb (ok r) (authorized_not_counted w ref mtree (fst (fst r)))) recs then 0 else 2
        | MNotPossible =>
            if negb (existsb ok recs) then 0
            else if (rule_threshold w ref =? 1)%Z
                    && (match deleg_result w ref mtree with None => true | _ => false end)
                    && forallb (fun r => negb (ok r) || authorized_not_counted w ref mtree (fst (fst r))) recs then 6   (* K6 *)
            else if (match deleg_result w ref mtree with Some (_, false) => true | _ => false end)
                    && forallb (fun r => negb (ok r)
                                         || (negb (fst (fst r) =? 0)%N && negb (mem (fst (fst r)) (approver_keys w ref mtree)))) recs then 9   (* K9 *)
            else 3
        end in
      match spec with
      | 0 => if agree_m && agree_v then VOk else VMismatch (if agree_m then 2 else 1)
      | 6 => if agree_m && agree_v then VFinding 6 else VSpec 3
      | 9 => if agree_m && agree_v then VFinding 9 else VSpec 3
      | n => VSpec n
      end.

(** VerifyMergeable with file rules: the branch-rule answer, then every commit the feature tip would
    bring in is judged as at verification time, with the approvals for the merge *)
Definition verify_mergeable_files (fw : fworld) (ref : bytes) (mtree feature : N) : mres :=
  let w := fw_world fw in
  match verify_mergeable w ref mtree with
  | MNotPossible => MNotPossible
  | MPossible need =>
      match load_state w 0 with
      | None => MNotPossible
      | Some ps =>
          let n := List.length (w_log w) in
          let from := match latest_for w ref n true false with Some (_, e) => Some (entry_target e) | None => None end in
          let env := match attest_before w n with
                     | Some auths => match find_authz auths ref (match from with Some f => f | None => 0%N end) mtree with AzEnv s => env_of s | _ => None end
                     | None => None
                     end in
          if entry_files_ok ps (fw_graph fw) env feature from then MPossible need else MNotPossible
      end
  end.

Definition fw_with_merge (fw : fworld) (ref : bytes) (commit : N) (signer : key) : fworld :=
  {| fw_world := with_merge (fw_world fw) ref commit signer; fw_graph := fw_graph fw |}.

Definition c19_check (c : c19case) : verdict :=
  match c with
  | C19Panic => VSpec 9
  | C19 w ref mtree obs recs =>
      let agree_m := mres_eqb (verify_mergeable w ref mtree) obs in
      let agree_v := forallb (fun r => vout_eqb (verify_full (with_merge w ref (snd (fst r)) (fst (fst r))) ref) (snd r)) recs in
      c19_decide w ref mtree obs recs agree_m agree_v
  | C19W w ref mtree internal via_log direct =>
      if negb (mres_eqb via_log internal && mres_eqb direct internal) then VSpec 7
      else if mres_eqb (verify_mergeable w ref mtree) internal then VOk else VMismatch 1
  | C19F fw ref mtree feature obs recs =>
      if negb (c10_shape (fw_world fw) ref) then VMismatch 9
      else
        let agree_m := mres_eqb (verify_mergeable_files fw ref mtree feature) obs in
        let agree_v := forallb (fun r => vout_eqb (verify_full_files (fw_with_merge fw ref (snd (fst r)) (fst (fst r))) ref) (snd r)) recs in
        c19_decide (fw_world fw) ref mtree obs recs agree_m agree_v
  end.
