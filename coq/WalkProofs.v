(** C06 proofs: the delegation walk terminates on every policy (cyclic and diamond-shaped ones
    included) and consults only rules reached by the documented walk, never the trailing rule of a
    file, each with its own threshold and principal ids. *)
From GV Require Import BytesLemmas Walk.

(** *** termination *)
Definition unseen (pol : policy) (seen : list bytes) : nat :=
  List.length (filter (fun n => negb (mem_name n seen)) (map fst pol)).

Definition measure (pol : policy) (st : wstate) : nat := List.length (ws_queue st) + unseen pol (ws_seen st).

Lemma mem_name_cons n x l : mem_name n (x :: l) = beq n x || mem_name n l.
Proof. reflexivity. Qed.

Lemma filter_unseen_le (names : list bytes) x seen :
  List.length (filter (fun n => negb (mem_name n (x :: seen))) names)
  <= List.length (filter (fun n => negb (mem_name n seen)) names).
Proof.
  induction names as [|n names IH]; [cbn; lia|]. cbn [filter]. rewrite mem_name_cons.
  destruct (beq n x); destruct (mem_name n seen); cbn [orb negb List.length]; lia.
Qed.

Lemma filter_unseen_lt (names : list bytes) x seen :
  mem_name x seen = false -> (exists n, In n names /\ beq n x = true) ->
  List.length (filter (fun n => negb (mem_name n (x :: seen))) names)
  < List.length (filter (fun n => negb (mem_name n seen)) names).
Proof.
  intros Hx (n0 & Hin & Hb). induction names as [|n names IH]; [contradiction|].
  cbn [filter]. rewrite mem_name_cons. destruct Hin as [<-|Hin].
  - rewrite Hb. cbn [orb negb]. apply beq_eq in Hb. subst. rewrite Hx. cbn [negb List.length].
    pose proof (filter_unseen_le names x seen). lia.
  - specialize (IH Hin). destruct (beq n x) eqn:E; destruct (mem_name n seen); cbn [orb negb List.length]; lia.
Qed.

Lemma find_file_in pol n f : find_file pol n = Some f -> exists m, In m (map fst pol) /\ beq m n = true.
Proof.
  induction pol as [|[m g] pol IH]; cbn; [discriminate|]. destruct (beq m n) eqn:E.
  - intros _. exists m. split; [now left|assumption].
  - intros H. destruct (IH H) as (m' & Hin & Hb). exists m'. split; [now right|assumption].
Qed.

Lemma group_loop_measure pol path : forall g st, measure pol (group_loop pol path g st) <= measure pol st.
Proof.
  induction g as [|r g IH]; intros st; [cbn; lia|]. destruct g as [|r' g]; [cbn; lia|].
  cbn [group_loop]. destruct (rule_matches r path); [|apply IH].
  destruct (mem_name (r_name r) (ws_seen st)) eqn:Es.
  - etransitivity; [apply IH|]. unfold measure. cbn. lia.
  - destruct (find_file pol (r_name r)) as [f|] eqn:Ef.
    + assert (Hlt : measure pol {| ws_queue := f_rules f :: ws_queue st; ws_seen := r_name r :: ws_seen st;
                                   ws_defs := f_defs f ++ ws_defs st; ws_out := ws_out st ++
                                     [{| vr_name := r_name r; vr_thr := r_thr r;
                                         vr_pr := map (fun i => (i, lookup_def (ws_defs st) i)) (r_pids r) |}] |}
                          <= measure pol st).
      { unfold measure, unseen. cbn [ws_queue ws_seen List.length].
        pose proof (filter_unseen_lt (map fst pol) (r_name r) (ws_seen st) Es) as H.
        destruct (find_file_in _ _ _ Ef) as (m & Hm & Hb).
        assert (exists n, In n (map fst pol) /\ beq n (r_name r) = true) as Hex by eauto.
        specialize (H Hex). lia. }
      cbn [ws_queue ws_seen ws_defs ws_out]. destruct (r_term r); [exact Hlt|].
      etransitivity; [apply IH|exact Hlt].
    + etransitivity; [apply IH|]. unfold measure. cbn. lia.
Qed.

Lemma walk_loop_terminates pol path : forall fuel st, measure pol st <= fuel -> walk_loop pol path fuel st <> WFuel.
Proof.
  induction fuel as [|fuel IH]; intros st Hm.
  - unfold measure in Hm. destruct st as [q s d o]. cbn in *. destruct q; [discriminate|cbn in Hm; lia].
  - cbn [walk_loop]. destruct (ws_queue st) as [|g q] eqn:Eq; [discriminate|].
    apply IH. etransitivity; [apply group_loop_measure|]. unfold measure in *. rewrite Eq in Hm. cbn in *. lia.
Qed.

Lemma filter_len_le {A} (p : A -> bool) l : List.length (filter p l) <= List.length l.
Proof. induction l as [|x l IH]; cbn; [lia|]. destruct (p x); cbn; lia. Qed.

Theorem find_verifiers_terminates pol path : find_verifiers pol path <> WFuel.
Proof.
  unfold find_verifiers. destruct (find_file pol TargetsRole); [|discriminate].
  apply walk_loop_terminates. unfold measure, unseen. cbn [ws_queue ws_seen List.length].
  pose proof (filter_len_le (fun n => negb (mem_name n [TargetsRole])) (map fst pol)) as H.
  rewrite map_length in H. lia.
Qed.

(** *** soundness: only rules of the documented walk are consulted *)
Inductive Entered (pol : policy) (path : bytes) : bytes -> Prop :=
| En_root : Entered pol path TargetsRole
| En_step f file r :
    Entered pol path f -> find_file pol f = Some file -> In r (removelast (f_rules file)) ->
    rule_matches r path = true -> find_file pol (r_name r) <> None -> Entered pol path (r_name r).

(** [v] was produced by a matching, non-trailing rule of an entered file, with that rule's own
    threshold and principal ids *)
Definition Consulted (pol : policy) (path : bytes) (v : vrec) : Prop :=
  exists f file r, Entered pol path f /\ find_file pol f = Some file /\ In r (removelast (f_rules file)) /\
    rule_matches r path = true /\ vr_name v = r_name r /\ vr_thr v = r_thr r /\ map fst (vr_pr v) = r_pids r.

Definition suffix_of {A} (g l : list A) : Prop := exists pre, l = pre ++ g.

Definition GroupOK (pol : policy) (path : bytes) (g : list rule) : Prop :=
  exists f file, Entered pol path f /\ find_file pol f = Some file /\ suffix_of g (f_rules file).

Lemma suffix_head_removelast {A} (r x : A) g l : suffix_of (r :: x :: g) l -> In r (removelast l).
Proof.
  intros [pre ->]. induction pre as [|y pre IH]; cbn [app].
  - cbn. now left.
  - cbn [removelast]. destruct (pre ++ r :: x :: g) eqn:E; [destruct pre; discriminate|]. right. exact IH.
Qed.

Lemma suffix_tail {A} (r : A) g l : suffix_of (r :: g) l -> suffix_of g l.
Proof. intros [pre ->]. exists (pre ++ [r]). now rewrite <- app_assoc. Qed.

Definition StOK (pol : policy) (path : bytes) (st : wstate) : Prop :=
  Forall (GroupOK pol path) (ws_queue st) /\ Forall (Consulted pol path) (ws_out st).

Lemma map_fst_lookup defs pids : map fst (map (fun i : N => (i, lookup_def defs i)) pids) = pids.
Proof. rewrite map_map. cbn. apply map_id. Qed.

Lemma group_loop_ok pol path : forall g st, GroupOK pol path g -> StOK pol path st -> StOK pol path (group_loop pol path g st).
Proof.
  induction g as [|r g IH]; intros st Hg Hst; [exact Hst|]. destruct g as [|r' g]; [exact Hst|].
  cbn [group_loop].
  assert (Hg' : GroupOK pol path (r' :: g)).
  { destruct Hg as (f & file & He & Hf & Hs). exists f, file. repeat split; try assumption. eapply suffix_tail; eauto. }
  destruct (rule_matches r path) eqn:Em; [|now apply IH].
  destruct Hg as (f & file & He & Hf & Hs). pose proof (suffix_head_removelast _ _ _ _ Hs) as Hin.
  assert (Hc : Consulted pol path {| vr_name := r_name r; vr_thr := r_thr r;
                                     vr_pr := map (fun i => (i, lookup_def (ws_defs st) i)) (r_pids r) |}).
  { exists f, file, r. cbn. repeat split; try assumption. apply map_fst_lookup. }
  destruct Hst as [Hq Ho].
  assert (Hst1 : StOK pol path {| ws_queue := ws_queue st; ws_seen := ws_seen st; ws_defs := ws_defs st;
                                  ws_out := ws_out st ++ [{| vr_name := r_name r; vr_thr := r_thr r;
                                     vr_pr := map (fun i => (i, lookup_def (ws_defs st) i)) (r_pids r) |}] |}).
  { split; cbn; [assumption|]. apply Forall_app; split; [assumption|]. now constructor. }
  destruct (mem_name (r_name r) (ws_seen st)); [now apply IH|].
  destruct (find_file pol (r_name r)) as [f'|] eqn:Ef'; [|now apply IH].
  assert (Hst2 : StOK pol path {| ws_queue := f_rules f' :: ws_queue st; ws_seen := r_name r :: ws_seen st;
                                  ws_defs := f_defs f' ++ ws_defs st;
                                  ws_out := ws_out st ++ [{| vr_name := r_name r; vr_thr := r_thr r;
                                     vr_pr := map (fun i => (i, lookup_def (ws_defs st) i)) (r_pids r) |}] |}).
  { destruct Hst1 as [_ Ho1]. split; cbn; [|exact Ho1]. constructor; [|assumption].
    exists (r_name r), f'. repeat split; try assumption.
    - eapply En_step; eauto. congruence.
    - now exists []. }
  cbn [ws_queue ws_seen ws_defs ws_out]. destruct (r_term r); [exact Hst2|now apply IH].
Qed.

Lemma walk_loop_ok pol path : forall fuel st vs, StOK pol path st -> walk_loop pol path fuel st = WOk vs -> Forall (Consulted pol path) vs.
Proof.
  induction fuel as [|fuel IH]; intros st vs [Hq Ho]; cbn [walk_loop]; destruct (ws_queue st) as [|g q] eqn:Eq;
    try discriminate; try (intros [= <-]; assumption).
  inversion Hq; subst. apply IH. apply group_loop_ok; [assumption|]. split; cbn; assumption.
Qed.

Theorem find_verifiers_sound pol path vs : find_verifiers pol path = WOk vs -> Forall (Consulted pol path) vs.
Proof.
  unfold find_verifiers. destruct (find_file pol TargetsRole) as [f|] eqn:Ef; [|discriminate].
  apply walk_loop_ok. split; cbn; [|constructor]. constructor; [|constructor].
  exists TargetsRole, f. repeat split; [constructor|assumption|now exists []].
Qed.


(** ** a path that a rule of the top-level file matches is never reported unprotected *)
Definition out_extends (a b : list vrec) : Prop := exists more, b = a ++ more.

Lemma out_extends_refl a : out_extends a a.
Proof. exists []. symmetry. apply app_nil_r. Qed.

Lemma out_extends_trans a b c : out_extends a b -> out_extends b c -> out_extends a c.
Proof. intros [m1 ->] [m2 ->]. exists (m1 ++ m2). symmetry. apply app_assoc. Qed.

Lemma group_loop_out_grows pol path : forall g st, out_extends (ws_out st) (ws_out (group_loop pol path g st)).
Proof.
  induction g as [|r g IH]; intros st; [apply out_extends_refl|]. destruct g as [|r' g]; [apply out_extends_refl|].
  cbn [group_loop]. destruct (rule_matches r path); [|apply IH].
  set (v := {| vr_name := r_name r; vr_thr := r_thr r; vr_pr := map (fun i => (i, lookup_def (ws_defs st) i)) (r_pids r) |}).
  assert (H1 : out_extends (ws_out st) (ws_out st ++ [v])) by (exists [v]; reflexivity).
  destruct (mem_name (r_name r) (ws_seen st)).
  - eapply out_extends_trans; [exact H1|]. apply (IH {| ws_queue := ws_queue st; ws_seen := ws_seen st; ws_defs := ws_defs st; ws_out := ws_out st ++ [v] |}).
  - destruct (find_file pol (r_name r)) as [f'|].
    + destruct (r_term r); [exact H1|].
      eapply out_extends_trans; [exact H1|].
      apply (IH {| ws_queue := f_rules f' :: ws_queue st; ws_seen := r_name r :: ws_seen st; ws_defs := f_defs f' ++ ws_defs st; ws_out := ws_out st ++ [v] |}).
    + eapply out_extends_trans; [exact H1|]. apply (IH {| ws_queue := ws_queue st; ws_seen := ws_seen st; ws_defs := ws_defs st; ws_out := ws_out st ++ [v] |}).
Qed.

Lemma walk_loop_out_grows pol path : forall fuel st vs, walk_loop pol path fuel st = WOk vs -> out_extends (ws_out st) vs.
Proof.
  induction fuel as [|fuel IH]; intros st vs; cbn [walk_loop]; destruct (ws_queue st) as [|g q];
    try discriminate; try (intros [= <-]; apply out_extends_refl).
  intros H. eapply out_extends_trans; [|apply (IH _ _ H)].
  apply (group_loop_out_grows pol path g {| ws_queue := q; ws_seen := ws_seen st; ws_defs := ws_defs st; ws_out := ws_out st |}).
Qed.

Lemma group_loop_cons2 pol path r r' g st :
  group_loop pol path (r :: r' :: g) st =
  if rule_matches r path then
    let v := {| vr_name := r_name r; vr_thr := r_thr r; vr_pr := map (fun i => (i, lookup_def (ws_defs st) i)) (r_pids r) |} in
    let st1 := {| ws_queue := ws_queue st; ws_seen := ws_seen st; ws_defs := ws_defs st; ws_out := ws_out st ++ [v] |} in
    if mem_name (r_name r) (ws_seen st) then group_loop pol path (r' :: g) st1
    else match find_file pol (r_name r) with
         | Some f =>
             let st2 := {| ws_queue := f_rules f :: ws_queue st1; ws_seen := r_name r :: ws_seen st1;
                           ws_defs := f_defs f ++ ws_defs st1; ws_out := ws_out st1 |} in
             if r_term r then st2 else group_loop pol path (r' :: g) st2
         | None => group_loop pol path (r' :: g) st1
         end
  else group_loop pol path (r' :: g) st.
Proof. reflexivity. Qed.

(** a group with a matching rule before its last one makes the output strictly longer *)
Lemma group_loop_keeps_longer pol path n g st1 :
  n < List.length (ws_out st1) -> n < List.length (ws_out (group_loop pol path g st1)).
Proof.
  intros H. destruct (group_loop_out_grows pol path g st1) as [more ->]. rewrite app_length. lia.
Qed.

Lemma group_loop_consults_match pol path : forall g st,
  (exists r, In r (removelast g) /\ rule_matches r path = true) ->
  List.length (ws_out st) < List.length (ws_out (group_loop pol path g st)).
Proof.
  induction g as [|r g IH]; intros st [r0 [Hin Hm]]; [destruct Hin|]. destruct g as [|r' g]; [destruct Hin|].
  rewrite group_loop_cons2. cbv zeta. destruct (rule_matches r path) eqn:Er.
  - destruct (mem_name (r_name r) (ws_seen st)).
    + apply group_loop_keeps_longer. cbn [ws_out]. rewrite app_length. cbn. lia.
    + destruct (find_file pol (r_name r)) as [f'|].
      * destruct (r_term r).
        -- cbn [ws_out]. rewrite app_length. cbn. lia.
        -- apply group_loop_keeps_longer. cbn [ws_out]. rewrite app_length. cbn. lia.
      * apply group_loop_keeps_longer. cbn [ws_out]. rewrite app_length. cbn. lia.
  - apply IH. cbn [removelast] in Hin. destruct Hin as [<-|Hin]; [congruence|]. exists r0. split; [exact Hin|exact Hm].
Qed.

Theorem top_level_match_is_protected pol path f vs :
  find_file pol TargetsRole = Some f ->
  (exists r, In r (removelast (f_rules f)) /\ rule_matches r path = true) ->
  find_verifiers pol path = WOk vs -> vs <> [].
Proof.
  intros Hf Hex H. unfold find_verifiers in H. rewrite Hf in H.
  set (st0 := {| ws_queue := [f_rules f]; ws_seen := [TargetsRole]; ws_defs := f_defs f; ws_out := [] |}) in H.
  change (walk_loop pol path (S (List.length pol)) st0)
    with (walk_loop pol path (List.length pol)
            (group_loop pol path (f_rules f) {| ws_queue := []; ws_seen := [TargetsRole]; ws_defs := f_defs f; ws_out := [] |})) in H.
  pose proof (walk_loop_out_grows _ _ _ _ _ H) as [more Hmore].
  pose proof (group_loop_consults_match pol path (f_rules f)
                {| ws_queue := []; ws_seen := [TargetsRole]; ws_defs := f_defs f; ws_out := [] |} Hex) as Hlt.
  cbn [ws_out List.length] in Hlt. intros ->. symmetry in Hmore. apply app_eq_nil in Hmore. destruct Hmore as [E _].
  rewrite E in Hlt. cbn in Hlt. lia.
Qed.
