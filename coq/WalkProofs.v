(** C06 proofs: the delegation walk terminates on every policy (cyclic and diamond-shaped ones
    included) and consults only rules reached by the documented walk, never the trailing rule of a
    file, each with its own threshold and principal ids. *)
From GV Require Import BytesLemmas Walk.

(** *** termination *)
Definition unseen (pol : policy) (seen : list bytes) : nat :=
  List.length (filter (fun n => negb (mem_name n seen)) (map fst pol)).

Definition measure (pol : policy) (st : wstate) : nat := List.length (ws_queue st) + unseen pol (ws_seen st).

Lemma mem_name_cons n x l : mem_name n (x :: l) = beq n x || mem_name n l.
Proof. reflexivity. Qed.

Lemma filter_unseen_le (names : list bytes) x seen :
  List.length (filter (fun n => negb (mem_name n (x :: seen))) names)
  <= List.length (filter (fun n => negb (mem_name n seen)) names).
Proof.
  induction names as [|n names IH]; [cbn; lia|]. cbn [filter]. rewrite mem_name_cons.
  destruct (beq n x); destruct (mem_name n seen); cbn [orb negb List.length]; lia.
Qed.

Lemma filter_unseen_lt (names : list bytes) x seen :
  mem_name x seen = false -> (exists n, In n names /\ beq n x = true) ->
  List.length (filter (fun n => negb (mem_name n (x :: seen))) names)
  < List.length (filter (fun n => negb (mem_name n seen)) names).
Proof.
  intros Hx (n0 & Hin & Hb). induction names as [|n names IH]; [contradiction|].
  cbn [filter]. rewrite mem_name_cons. destruct Hin as [<-|Hin].
  - rewrite Hb. cbn [orb negb]. apply beq_eq in Hb. subst. rewrite Hx. cbn [negb List.length].
    pose proof (filter_unseen_le names x seen). lia.
  - specialize (IH Hin). destruct (beq n x) eqn:E; destruct (mem_name n seen); cbn [orb negb List.length]; lia.
Qed.

Lemma find_file_in pol n f : find_file pol n = Some f -> exists m, In m (map fst pol) /\ beq m n = true.
Proof.
  induction pol as [|[m g] pol IH]; cbn; [discriminate|]. destruct (beq m n) eqn:E.
  - intros _. exists m. split; [now left|assumption].
  - intros H. destruct (IH H) as (m' & Hin & Hb). exists m'. split; [now right|assumption].
Qed.

Lemma group_loop_measure pol path : forall g st, measure pol (group_loop pol path g st) <= measure pol st.
Proof.
  induction g as [|r g IH]; intros st; [cbn; lia|]. destruct g as [|r' g]; [cbn; lia|].
  cbn [group_loop]. destruct (rule_matches r path); [|apply IH].
  destruct (mem_name (r_name r) (ws_seen st)) eqn:Es.
  - etransitivity; [apply IH|]. unfold measure. cbn. lia.
  - destruct (find_file pol (r_name r)) as [f|] eqn:Ef.
    + assert (Hlt : measure pol {| ws_queue := f_rules f :: ws_queue st; ws_seen := r_name r :: ws_seen st;
                                   ws_defs := f_defs f ++ ws_defs st; ws_out := ws_out st ++
                                     [{| vr_name := r_name r; vr_thr := r_thr r;
                                         vr_pr := map (fun i => (i, lookup_def (ws_defs st) i)) (r_pids r) |}] |}
                          <= measure pol st).
      { unfold measure, unseen. cbn [ws_queue ws_seen List.length].
        pose proof (filter_unseen_lt (map fst pol) (r_name r) (ws_seen st) Es) as H.
        destruct (find_file_in _ _ _ Ef) as (m & Hm & Hb).
        assert (exists n, In n (map fst pol) /\ beq n (r_name r) = true) as Hex by eauto.
        specialize (H Hex). lia. }
      cbn [ws_queue ws_seen ws_defs ws_out]. destruct (r_term r); [exact Hlt|].
      etransitivity; [apply IH|exact Hlt].
    + etransitivity; [apply IH|]. unfold measure. cbn. lia.
Qed.

Lemma walk_loop_terminates pol path : forall fuel st, measure pol st <= fuel -> walk_loop pol path fuel st <> WFuel.
Proof.
  induction fuel as [|fuel IH]; intros st Hm.
  - unfold measure in Hm. destruct st as [q s d o]. cbn in *. destruct q; [discriminate|cbn in Hm; lia].
  - cbn [walk_loop]. destruct (ws_queue st) as [|g q] eqn:Eq; [discriminate|].
    apply IH. etransitivity; [apply group_loop_measure|]. unfold measure in *. rewrite Eq in Hm. cbn in *. lia.
Qed.

Lemma filter_len_le {A} (p : A -> bool) l : List.length (filter p l) <= List.length l.
Proof. induction l as [|x l IH]; cbn; [lia|]. destruct (p x); cbn; lia. Qed.

Theorem find_verifiers_terminates pol path : find_verifiers pol path <> WFuel.
Proof.
  unfold find_verifiers. destruct (find_file pol TargetsRole); [|discriminate].
  apply walk_loop_terminates. unfold measure, unseen. cbn [ws_queue ws_seen List.length].
  pose proof (filter_len_le (fun n => negb (mem_name n [TargetsRole])) (map fst pol)) as H.
  rewrite map_length in H. lia.
Qed.

(** *** soundness: only rules of the documented walk are consulted *)
Inductive Entered (pol : policy) (path : bytes) : bytes -> Prop :=
| En_root : Entered pol path TargetsRole
| En_step f file r :
    Entered pol path f -> find_file pol f = Some file -> In r (removelast (f_rules file)) ->
    rule_matches r path = true -> find_file pol (r_name r) <> None -> Entered pol path (r_name r).

(** [v] was produced by a matching, non-trailing rule of an entered file, with that rule's own
    threshold and principal ids *)
Definition Consulted (pol : policy) (path : bytes) (v : vrec) : Prop :=
  exists f file r, Entered pol path f /\ find_file pol f = Some file /\ In r (removelast (f_rules file)) /\
    rule_matches r path = true /\ vr_name v = r_name r /\ vr_thr v = r_thr r /\ map fst (vr_pr v) = r_pids r.

Definition suffix_of {A} (g l : list A) : Prop := exists pre, l = pre ++ g.

Definition GroupOK (pol : policy) (path : bytes) (g : list rule) : Prop :=
  exists f file, Entered pol path f /\ find_file pol f = Some file /\ suffix_of g (f_rules file).

Lemma suffix_head_removelast {A} (r x : A) g l : suffix_of (r :: x :: g) l -> In r (removelast l).
Proof.
  intros [pre ->]. induction pre as [|y pre IH]; cbn [app].
  - cbn. now left.
  - cbn [removelast]. destruct (pre ++ r :: x :: g) eqn:E; [destruct pre; discriminate|]. right. exact IH.
Qed.

Lemma suffix_tail {A} (r : A) g l : suffix_of (r :: g) l -> suffix_of g l.
Proof. intros [pre ->]. exists (pre ++ [r]). now rewrite <- app_assoc. Qed.

Definition StOK (pol : policy) (path : bytes) (st : wstate) : Prop :=
  Forall (GroupOK pol path) (ws_queue st) /\ Forall (Consulted pol path) (ws_out st).

Lemma map_fst_lookup defs pids : map fst (map (fun i : N => (i, lookup_def defs i)) pids) = pids.
Proof. rewrite map_map. cbn. apply map_id. Qed.

Lemma group_loop_ok pol path : forall g st, GroupOK pol path g -> StOK pol path st -> StOK pol path (group_loop pol path g st).
Proof.
  induction g as [|r g IH]; intros st Hg Hst; [exact Hst|]. destruct g as [|r' g]; [exact Hst|].
  cbn [group_loop].
  assert (Hg' : GroupOK pol path (r' :: g)).
  { destruct Hg as (f & file & He & Hf & Hs). exists f, file. repeat split; try assumption. eapply suffix_tail; eauto. }
  destruct (rule_matches r path) eqn:Em; [|now apply IH].
  destruct Hg as (f & file & He & Hf & Hs). pose proof (suffix_head_removelast _ _ _ _ Hs) as Hin.
  assert (Hc : Consulted pol path {| vr_name := r_name r; vr_thr := r_thr r;
                                     vr_pr := map (fun i => (i, lookup_def (ws_defs st) i)) (r_pids r) |}).
  { exists f, file, r. cbn. repeat split; try assumption. apply map_fst_lookup. }
  destruct Hst as [Hq Ho].
  assert (Hst1 : StOK pol path {| ws_queue := ws_queue st; ws_seen := ws_seen st; ws_defs := ws_defs st;
                                  ws_out := ws_out st ++ [{| vr_name := r_name r; vr_thr := r_thr r;
                                     vr_pr := map (fun i => (i, lookup_def (ws_defs st) i)) (r_pids r) |}] |}).
  { split; cbn; [assumption|]. apply Forall_app; split; [assumption|]. now constructor. }
  destruct (mem_name (r_name r) (ws_seen st)); [now apply IH|].
  destruct (find_file pol (r_name r)) as [f'|] eqn:Ef'; [|now apply IH].
  assert (Hst2 : StOK pol path {| ws_queue := f_rules f' :: ws_queue st; ws_seen := r_name r :: ws_seen st;
                                  ws_defs := f_defs f' ++ ws_defs st;
                                  ws_out := ws_out st ++ [{| vr_name := r_name r; vr_thr := r_thr r;
                                     vr_pr := map (fun i => (i, lookup_def (ws_defs st) i)) (r_pids r) |}] |}).
  { destruct Hst1 as [_ Ho1]. split; cbn; [|exact Ho1]. constructor; [|assumption].
    exists (r_name r), f'. repeat split; try assumption.
    - eapply En_step; eauto. congruence.
    - now exists []. }
  cbn [ws_queue ws_seen ws_defs ws_out]. destruct (r_term r); [exact Hst2|now apply IH].
Qed.

Lemma walk_loop_ok pol path : forall fuel st vs, StOK pol path st -> walk_loop pol path fuel st = WOk vs -> Forall (Consulted pol path) vs.
Proof.
  induction fuel as [|fuel IH]; intros st vs [Hq Ho]; cbn [walk_loop]; destruct (ws_queue st) as [|g q] eqn:Eq;
    try discriminate; try (intros [= <-]; assumption).
  inversion Hq; subst. apply IH. apply group_loop_ok; [assumption|]. split; cbn; assumption.
Qed.

Theorem find_verifiers_sound pol path vs : find_verifiers pol path = WOk vs -> Forall (Consulted pol path) vs.
Proof.
  unfold find_verifiers. destruct (find_file pol TargetsRole) as [f|] eqn:Ef; [|discriminate].
  apply walk_loop_ok. split; cbn; [|constructor]. constructor; [|constructor].
  exists TargetsRole, f. repeat split; [constructor|assumption|now exists []].
Qed.

