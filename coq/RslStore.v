(** The reference state log as a commit graph, and the readers of pkg/rsl/rsl.go written as
    stepwise walkers over [get_parent] (so they fail only if they reach a corruption).
    Model only (C03, C04, C17 build on it). *)
From GV Require Export Bytes.
From Coq Require Import Strings.String.

Definition id := N.   (* object ids, numbered by the harness in creation order; 0 = zero hash *)

Inductive lentry :=
| LRef  (ref : bytes) (target : id) (num : N)
| LAnn  (targets : list id) (skip : bool) (num : N)
| LProp (ref : bytes) (target : id) (uprepo : bytes) (upentry : id) (num : N).

Definition enum (e : lentry) : N :=
  match e with LRef _ _ n | LAnn _ _ n | LProp _ _ _ _ n => n end.

Record cobj := { c_parents : list id; c_entry : option lentry }.
Definition store := list (id * cobj).

Fixpoint lookup (st : store) (i : id) : option cobj :=
  match st with
  | [] => None
  | (j, c) :: st' => if N.eqb i j then Some c else lookup st' i
  end.

Inductive rerr :=
| RNotFound | RBranch | RInvalid | RBadOpts | RNoNumbers | RUntilNum | RNoRecord | RFuel | ROther.

Inductive rres (A : Type) := ROk (a : A) | RErr (e : rerr).
Arguments ROk {A} a. Arguments RErr {A} e.

Definition ent := (id * lentry)%type.

(** [GetEntry]: the commit must exist and its message must parse *)
Definition get_entry (st : store) (i : id) : rres ent :=
  match lookup st i with
  | None => RErr RNotFound
  | Some c => match c_entry c with Some e => ROk (i, e) | None => RErr RInvalid end
  end.

(** [GetParentForEntry] *)
Definition get_parent (st : store) (it : ent) : rres ent :=
  match lookup st (fst it) with
  | None => RErr ROther
  | Some c =>
      match c_parents c with
      | [] => RErr RNotFound
      | [p] =>
          match get_entry st p with
          | RErr e => RErr e
          | ROk pe =>
              let n := enum (snd it) in
              let pn := enum (snd pe) in
              if (n <=? 1)%N then (if N.eqb pn 0 then ROk pe else RErr RInvalid)
              else (if N.eqb pn (n - 1) then ROk pe else RErr RInvalid)
          end
      | _ => RErr RBranch
      end
  end.

(** [GetLatestEntry] *)
Definition latest_entry (st : store) (tip : option id) : rres ent :=
  match tip with None => RErr RNotFound | Some t => get_entry st t end.

Definition gittuf_prefix : bytes := Eval compute in bs "refs/gittuf/".
Definition staging_ref : bytes := Eval compute in bs "refs/gittuf/policy-staging".

Definition refers_to (a : lentry) (i : id) : bool :=
  match a with LAnn ts _ _ => existsb (N.eqb i) ts | _ => false end.
Definition is_ann (e : lentry) : bool := match e with LAnn _ _ _ => true | _ => false end.
Definition ann_skip (a : lentry) : bool := match a with LAnn _ s _ => s | _ => false end.

(** [ReferenceEntry.SkippedBy] *)
Definition skipped_by (anns : list ent) (i : id) : bool :=
  existsb (fun a => refers_to (snd a) i && ann_skip (snd a)) anns.

(** [filterAnnotationsForRelevantAnnotations] *)
Definition relevant_anns (anns : list ent) (i : id) : list ent :=
  filter (fun a => refers_to (snd a) i) anns.

Definition eref (e : lentry) : option bytes :=
  match e with LRef r _ _ | LProp r _ _ _ _ => Some r | LAnn _ _ _ => None end.

(** ** GetLatestReferenceUpdaterEntry *)
Record opts := {
  o_ref : bytes;                (* "" = unset *)
  o_before_id : option id; o_before_num : N;
  o_until_id : option id;  o_until_num : N;
  o_unskipped : bool; o_nongittuf : bool; o_isref : bool;
  o_prop_repo : bytes           (* "" = unset *)
}.

Definition opts_invalid (o : opts) : bool :=
  (match o_before_id o with Some _ => negb (N.eqb (o_before_num o) 0) | None => false end)
  || (match o_until_id o with Some _ => negb (N.eqb (o_until_num o) 0) | None => false end)
  || (negb (N.eqb (o_before_num o) 0) && negb (N.eqb (o_until_num o) 0) && (o_before_num o <? o_until_num o)%N)
  || (o_isref o && negb (beq (o_prop_repo o) [])).

(** the conditions on a reference updater entry, given the annotations met so far *)
Definition matches (o : opts) (anns : list ent) (it : ent) : bool :=
  match snd it with
  | LAnn _ _ _ => false
  | LRef r _ _ =>
      (beq (o_ref o) [] || beq r (o_ref o))
      && negb (o_unskipped o && skipped_by anns (fst it))
      && beq (o_prop_repo o) []
      && negb (o_nongittuf o && has_prefix gittuf_prefix r)
  | LProp r _ ur _ _ =>
      (beq (o_ref o) [] || beq r (o_ref o))
      && negb (o_isref o)
      && (beq (o_prop_repo o) [] || beq ur (o_prop_repo o))
      && negb (o_nongittuf o && has_prefix gittuf_prefix r)
  end.

Definition is_anchor (o : opts) (it : ent) : bool :=
  (match o_before_id o with Some b => N.eqb (fst it) b | None => false end)
  || (negb (N.eqb (enum (snd it)) 0) && N.eqb (enum (snd it)) (o_before_num o)).

Definition push_ann (anns : list ent) (it : ent) : list ent :=
  if is_ann (snd it) then anns ++ [it] else anns.

(** phase 1: walk to the before-anchor; returns the entry the search starts from (the anchor's
    parent) and the annotations met so far, the anchor included *)
Fixpoint before_walk (st : store) (o : opts) (fuel : nat) (it : ent) (anns : list ent) : rres (ent * list ent) :=
  match fuel with
  | 0 => RErr RFuel
  | S f =>
      if is_anchor o it then
        match get_parent st it with
        | RErr e => RErr e
        | ROk p => ROk (p, push_ann anns it)
        end
      else
        match get_parent st it with
        | RErr e => RErr e
        | ROk p => if (enum (snd p) <? o_until_num o)%N then RErr RBadOpts
                   else before_walk st o f p (push_ann anns it)
        end
  end.

(** phase 2: the search proper *)
Fixpoint search_walk (st : store) (o : opts) (fuel : nat) (it : ent) (anns : list ent) : rres (ent * list ent) :=
  match fuel with
  | 0 => RErr RFuel
  | S f =>
      if matches o anns it then ROk (it, relevant_anns anns (fst it))
      else if (match o_until_id o with Some u => N.eqb (fst it) u | None => false end) then RErr RNotFound
      else
        let anns' := push_ann anns it in
        match get_parent st it with
        | RErr e => RErr e
        | ROk p =>
            if negb (N.eqb (o_until_num o) 0) && (enum (snd p) <? o_until_num o)%N then RErr RNotFound
            else search_walk st o f p anns'
        end
  end.

Definition before_set (o : opts) : bool :=
  (match o_before_id o with Some _ => true | None => false end) || negb (N.eqb (o_before_num o) 0).

Definition get_latest (st : store) (tip : option id) (o : opts) (fuel : nat) : rres (ent * list ent) :=
  if opts_invalid o then RErr RBadOpts
  else
    match latest_entry st tip with
    | RErr e => RErr e
    | ROk it0 =>
        if N.eqb (enum (snd it0)) 0 && (negb (N.eqb (o_before_num o) 0) || negb (N.eqb (o_until_num o) 0))
        then RErr RNoNumbers
        else if negb (N.eqb (enum (snd it0)) 0) && negb (N.eqb (o_until_num o) 0) && (enum (snd it0) <? o_until_num o)%N
        then RErr RUntilNum
        else if before_set o then
          match before_walk st o fuel it0 [] with
          | RErr e => RErr e
          | ROk (p, anns) => search_walk st o fuel p anns
          end
        else search_walk st o fuel it0 []
    end.

(** ** GetFirstReferenceUpdaterEntryForRef (targetRef "" = GetFirstEntry) *)
Fixpoint first_walk (st : store) (r : bytes) (fuel : nat) (it : ent) (anns : list ent) (best : option ent)
  : rres (option ent * list ent) :=
  match fuel with
  | 0 => RErr RFuel
  | S f =>
      let best' := match eref (snd it) with
                   | Some r' => if beq r [] || beq r' r then Some it else best
                   | None => best
                   end in
      let anns' := push_ann anns it in
      match get_parent st it with
      | RErr RNotFound => ROk (best', anns')
      | RErr e => RErr e
      | ROk p => first_walk st r f p anns' best'
      end
  end.

Definition get_first_for_ref (st : store) (tip : option id) (r : bytes) (fuel : nat) : rres (ent * list ent) :=
  match latest_entry st tip with
  | RErr e => RErr e
  | ROk it0 =>
      match first_walk st r fuel it0 [] None with
      | RErr e => RErr e
      | ROk (None, _) => RErr RNotFound
      | ROk (Some e, anns) => ROk (e, relevant_anns anns (fst e))
      end
  end.

(** ** GetReferenceUpdaterEntriesInRangeForRef *)
Definition relevant_gittuf (r : bytes) : bool := has_prefix gittuf_prefix r && negb (beq r staging_ref).

Definition range_relevant (r : bytes) (e : lentry) : bool :=
  match eref e with
  | Some r' => beq r [] || beq r' r || relevant_gittuf r'
  | None => false
  end.

(** phase 1: from the tip down to [last], collecting annotations *)
Fixpoint range_walk1 (st : store) (last : id) (fuel : nat) (it : ent) (anns : list ent) : rres (ent * list ent) :=
  match fuel with
  | 0 => RErr RFuel
  | S f =>
      if N.eqb (fst it) last then ROk (it, anns)
      else match get_parent st it with
           | RErr e => RErr e
           | ROk p => range_walk1 st last f p (push_ann anns it)
           end
  end.

(** phase 2: down to [first]; [stack] is newest first *)
Fixpoint range_walk2 (st : store) (first : id) (r : bytes) (fuel : nat) (it : ent) (anns stack : list ent)
  : rres (list ent * list ent) :=
  match fuel with
  | 0 => RErr RFuel
  | S f =>
      if N.eqb (fst it) first then
        ROk ((if range_relevant r (snd it) then stack ++ [it] else stack), anns)
      else
        let stack' := if range_relevant r (snd it) then stack ++ [it] else stack in
        match get_parent st it with
        | RErr e => RErr e
        | ROk p => range_walk2 st first r f p (push_ann anns it) stack'
        end
  end.

(** the annotation map as an association list keyed by entry id, annotations in log order
    (oldest first), keys in order of first insertion *)
Definition ann_targets (e : lentry) : list id := match e with LAnn ts _ _ => ts | _ => [] end.
Definition count_id (i : id) (l : list id) : nat := List.length (filter (N.eqb i) l).

(** an annotation naming the same entry twice is listed twice (the Go loop appends per id) *)
Definition ann_map_for (entries : list ent) (anns_newest_first : list ent) : list (id * list ent) :=
  let oldest_first := rev anns_newest_first in
  flat_map (fun e =>
              match flat_map (fun a => repeat a (count_id (fst e) (ann_targets (snd a)))) oldest_first with
              | [] => []
              | l => [(fst e, l)]
              end) entries.

Definition get_range (st : store) (tip : option id) (first last : id) (r : bytes) (fuel : nat)
  : rres (list ent * list (id * list ent)) :=
  match latest_entry st tip with
  | RErr e => RErr e
  | ROk it0 =>
      match range_walk1 st last fuel it0 [] with
      | RErr e => RErr e
      | ROk (itl, anns1) =>
          match range_walk2 st first r fuel itl anns1 [] with
          | RErr e => RErr e
          | ROk (stack, anns) => let entries := rev stack in ROk (entries, ann_map_for entries anns)
          end
      end
  end.

(** ** GetNonGittufParentReferenceUpdaterEntryForEntry *)
Fixpoint ngp_walk1 (st : store) (stop : id) (fuel : nat) (it : ent) (anns : list ent) : rres (ent * list ent) :=
  match fuel with
  | 0 => RErr RFuel
  | S f =>
      let anns' := push_ann anns it in
      match get_parent st it with
      | RErr e => RErr e
      | ROk p => if N.eqb (fst p) stop then ROk (p, anns') else ngp_walk1 st stop f p anns'
      end
  end.

Definition is_nongittuf_updater (e : lentry) : bool :=
  match eref e with Some r => negb (has_prefix gittuf_prefix r) | None => false end.

Fixpoint ngp_walk2 (st : store) (fuel : nat) (it : ent) (anns : list ent) : rres (ent * list ent) :=
  match fuel with
  | 0 => RErr RFuel
  | S f =>
      if is_nongittuf_updater (snd it) then ROk (it, relevant_anns anns (fst it))
      else match get_parent st it with
           | RErr e => RErr e
           | ROk p => ngp_walk2 st f p (push_ann anns it)
           end
  end.

Definition get_nongittuf_parent (st : store) (tip : option id) (e : ent) (fuel : nat) : rres (ent * list ent) :=
  match latest_entry st tip with
  | RErr er => RErr er
  | ROk it0 =>
      match get_parent st e with
      | RErr er => RErr er
      | ROk pe =>
          match ngp_walk1 st (fst pe) fuel it0 [] with
          | RErr er => RErr er
          | ROk (it, anns) => ngp_walk2 st fuel it anns
          end
      end
  end.
