(** C17 proofs: for every number of writers and every schedule of their semantic storage steps the
    log stays a single-parent chain on which every successful writer has exactly one entry and no
    failed writer has any (what the compare-and-set buys).  Consecutive numbering is NOT an
    invariant of schedules: see FindingsC17.v. *)
From GV Require Import RslStore LogOps LogOpsProofs.

Lemma nth_error_set_nth_same {A} (l : list A) i x : i < List.length l -> nth_error (set_nth l i x) i = Some x.
Proof.
  revert i; induction l as [|y l IH]; intros i H; [cbn in H; lia|].
  destruct i; cbn; [reflexivity|]. apply IH. cbn in H. lia.
Qed.

Lemma nth_error_set_nth_other {A} (l : list A) i j x : i <> j -> nth_error (set_nth l i x) j = nth_error l j.
Proof.
  revert i j; induction l as [|y l IH]; intros i j H; [reflexivity|].
  destruct i, j; cbn; try reflexivity; [congruence|]. apply IH. congruence.
Qed.

Lemma set_nth_length {A} (l : list A) i x : List.length (set_nth l i x) = List.length l.
Proof. revert i; induction l as [|y l IH]; intros i; [reflexivity|]. destruct i; cbn; [reflexivity|]. now rewrite IH. Qed.

Definition created_of (w : wstatus) : option id :=
  match w with WCreated _ _ c => Some c | WDone _ (Some c) => Some c | _ => None end.

Definition winv (st : store) (ids : list id) (o : wop) (w : wstatus) : Prop :=
  match w with
  | WCreated n t2 c =>
      lookup st c = Some {| c_parents := opt_list t2; c_entry := Some (op_entry o n) |} /\ ~ In c ids
  | WDone true (Some c) => In c ids
  | WDone true None => False
  | WDone false (Some c) => lookup st c <> None /\ ~ In c ids
  | _ => True
  end.

Definition GI (ops : list wop) (s : lstate) (ws : list wstatus) : Prop :=
  fresh s /\ List.length ws = List.length ops /\
  exists L, lchain (ls_store s) (ls_tip s) L /\ NoDup (map fst L) /\
    (forall i o w, nth_error ops i = Some o -> nth_error ws i = Some w -> winv (ls_store s) (map fst L) o w) /\
    (forall i j w w' c, i <> j -> nth_error ws i = Some w -> nth_error ws j = Some w' ->
                        created_of w = Some c -> created_of w' = Some c -> False).

Lemma lchain_ids_in_store st t L : lchain st t L -> forall i, In i (map fst L) -> lookup st i <> None.
Proof.
  induction 1 as [|i e Hl|i e p pe L Hl Hc IH]; cbn; intros j Hin; [contradiction| |].
  - destruct Hin as [<-|[]]. congruence.
  - destruct Hin as [<-|Hin]; [congruence|]. apply IH. exact Hin.
Qed.

Lemma winv_created_in_store st ids o w c : winv st ids o w -> created_of w = Some c -> In c ids \/ lookup st c <> None.
Proof.
  destruct w as [|n|n t2|n t2 c'|[|] [c'|]]; cbn; intros H E; inversion E; subst.
  - right. destruct H as [H _]. congruence.
  - now left.
  - right. tauto.
Qed.

(** one scheduled step preserves the invariant *)
Lemma sched_step_GI ops s ws i : GI ops s ws -> let '(s', ws') := sched_step ops (s, ws) i in GI ops s' ws'.
Proof.
  intros (Hf & Hlen & L & Hc & Hnd & Hw & Hd). unfold sched_step. cbn [fst snd].
  destruct (nth_error ops i) as [o|] eqn:Eo; [|now repeat split; eauto].
  destruct (nth_error ws i) as [w|] eqn:Ew; [|now repeat split; eauto].
  assert (Hi : i < List.length ws) by (apply nth_error_Some; congruence).
  (* generic re-establishment when the shared state does not change *)
  assert (Hsame : forall w', created_of w' = created_of w -> winv (ls_store s) (map fst L) o w' ->
                  GI ops s (set_nth ws i w')).
  { intros w' Hcr Hwi. split; [assumption|]. split; [now rewrite set_nth_length|].
    exists L. repeat split; try assumption.
    - intros j o' w'' Ho' Hw''. destruct (Nat.eq_dec i j) as [<-|Hne].
      + rewrite nth_error_set_nth_same in Hw'' by assumption. inversion Hw''; subst. congruence.
      + rewrite nth_error_set_nth_other in Hw'' by assumption. eauto.
    - intros j k w1 w2 c Hjk H1 H2 C1 C2.
      destruct (Nat.eq_dec i j) as [<-|Hij]; destruct (Nat.eq_dec i k) as [<-|Hik]; try congruence.
      + rewrite nth_error_set_nth_same in H1 by assumption. rewrite nth_error_set_nth_other in H2 by assumption.
        inversion H1; subst. rewrite Hcr in C1. eapply (Hd i k); eauto.
      + rewrite nth_error_set_nth_other in H1 by assumption. rewrite nth_error_set_nth_same in H2 by assumption.
        inversion H2; subst. rewrite Hcr in C2. eapply (Hd j i); eauto.
      + rewrite nth_error_set_nth_other in H1, H2 by assumption. eapply (Hd j k); eauto. }
  pose proof (Hw i o w Eo Ew) as Hwi.
  destruct w as [|n|n t2|n t2 c|ok c]; cbn [wstep].
  - (* WStart *)
    destruct (negb (op_valid (ls_store s) o)); [apply Hsame; cbn; auto|].
    destruct (negb (op_numbered o)); [apply Hsame; cbn; auto|].
    destruct (latest_entry (ls_store s) (ls_tip s)) as [it|[]]; apply Hsame; cbn; auto.
  - apply Hsame; cbn; auto.
  - (* create *)
    set (c := ls_next s). set (obj := {| c_parents := opt_list t2; c_entry := Some (op_entry o n) |}).
    assert (Hfr : forall j oj, lookup (ls_store s) j = Some oj -> j <> c).
    { intros j oj H. specialize (Hf _ _ H). unfold c. lia. }
    assert (Hnotin : ~ In c (map fst L)).
    { intros Hin. apply (lchain_ids_in_store _ _ _ Hc) in Hin. destruct (lookup (ls_store s) c) eqn:E; [|congruence].
      now apply Hfr in E. }
    split; [|split; [now rewrite set_nth_length|]].
    + intros j oj. cbn [ls_store ls_next lookup]. destruct (N.eqb_spec j c) as [->|Hne]; [lia|].
      intros H. specialize (Hf _ _ H). unfold c. lia.
    + exists L. cbn [ls_store ls_tip]. repeat split; try assumption.
      * apply lchain_extend; assumption.
      * intros j o' w'' Ho' Hw''. destruct (Nat.eq_dec i j) as [<-|Hne].
        -- rewrite nth_error_set_nth_same in Hw'' by assumption. inversion Hw''; subst. rewrite Eo in Ho'. inversion Ho'; subst.
           cbn. split; [now rewrite N.eqb_refl|assumption].
        -- rewrite nth_error_set_nth_other in Hw'' by assumption. specialize (Hw _ _ _ Ho' Hw'').
           destruct w'' as [|n'|n' t2'|n' t2' c'|[|] [c'|]]; cbn [winv created_of] in *; auto.
           ++ destruct Hw as [Hl Hn]. split; [|assumption]. rewrite lookup_cons_other; [assumption|]. eapply Hfr; eauto.
           ++ destruct Hw as [Hl Hn]. split; [|assumption]. rewrite lookup_cons_other; [assumption|].
              destruct (lookup (ls_store s) c') eqn:E; [eapply Hfr; eauto|congruence].
      * intros j k w1 w2 c0 Hjk H1 H2 C1 C2.
        assert (Hold : forall m wm, m <> i -> nth_error ws m = Some wm -> created_of wm = Some c0 -> c0 <> c).
        { intros m wm Hm Hwm Hcm. destruct (nth_error ops m) as [om|] eqn:Eom.
          - destruct (winv_created_in_store _ _ _ _ _ (Hw _ _ _ Eom Hwm) Hcm) as [Hin|Hin].
            + intros ->. contradiction.
            + destruct (lookup (ls_store s) c0) eqn:E; [eapply Hfr; eauto|congruence].
          - apply nth_error_None in Eom. assert (m < List.length ws) by (apply nth_error_Some; congruence). lia. }
        destruct (Nat.eq_dec i j) as [<-|Hij]; destruct (Nat.eq_dec i k) as [<-|Hik]; try congruence.
        -- rewrite nth_error_set_nth_same in H1 by assumption. rewrite nth_error_set_nth_other in H2 by assumption.
           inversion H1; subst. cbn in C1. inversion C1; subst. eapply (Hold k); eauto.
        -- rewrite nth_error_set_nth_other in H1 by assumption. rewrite nth_error_set_nth_same in H2 by assumption.
           inversion H2; subst. cbn in C2. inversion C2; subst. eapply (Hold j); eauto.
        -- rewrite nth_error_set_nth_other in H1, H2 by assumption. eapply (Hd j k); eauto.
  - (* compare-and-set *)
    cbn in Hwi. destruct Hwi as [Hlk Hnin].
    destruct (opt_id_eqb (ls_tip s) t2) eqn:Ecas.
    + (* success: the chain grows by exactly this commit *)
      assert (Et : ls_tip s = t2).
      { destruct (ls_tip s), t2; cbn in Ecas; try discriminate; [apply N.eqb_eq in Ecas; now subst|reflexivity]. }
      split; [exact Hf|]. split; [now rewrite set_nth_length|].
      exists ((c, op_entry o n) :: L). cbn [ls_store ls_tip map fst]. repeat split.
      * destruct L as [|[p pe] L'].
        -- pose proof (lchain_head _ _ _ Hc) as Hh. destruct (ls_tip s); [contradiction|]. subst t2. now apply LC_first.
        -- pose proof (lchain_head _ _ _ Hc) as Hh. destruct (ls_tip s) as [t|]; [|contradiction]. subst t t2.
           eapply LC_next; eauto.
      * constructor; assumption.
      * intros j o' w'' Ho' Hw''. destruct (Nat.eq_dec i j) as [<-|Hne].
        -- rewrite nth_error_set_nth_same in Hw'' by assumption. inversion Hw''; subst. cbn. now left.
        -- rewrite nth_error_set_nth_other in Hw'' by assumption. pose proof (Hw _ _ _ Ho' Hw'') as Hj.
           assert (Hcj : forall c', created_of w'' = Some c' -> c' <> c).
           { intros c' Hc' ->. eapply (Hd i j _ _ c Hne Ew Hw''); [reflexivity|assumption]. }
           destruct w'' as [|n'|n' t2'|n' t2' c'|[|] [c'|]]; cbn [winv created_of] in *; auto.
           ++ destruct Hj as [Hl Hn]. split; [assumption|]. intros [E|Hin]; [|contradiction]. symmetry in E. eapply Hcj; eauto.
           ++ now right.
           ++ destruct Hj as [Hl Hn]. split; [assumption|]. intros [E|Hin]; [|contradiction]. symmetry in E. eapply Hcj; eauto.
      * intros j k w1 w2 c0 Hjk H1 H2 C1 C2.
        destruct (Nat.eq_dec i j) as [<-|Hij]; destruct (Nat.eq_dec i k) as [<-|Hik]; try congruence.
        -- rewrite nth_error_set_nth_same in H1 by assumption. rewrite nth_error_set_nth_other in H2 by assumption.
           inversion H1; subst. cbn in C1. inversion C1; subst. eapply (Hd i k); eauto.
        -- rewrite nth_error_set_nth_other in H1 by assumption. rewrite nth_error_set_nth_same in H2 by assumption.
           inversion H2; subst. cbn in C2. inversion C2; subst. eapply (Hd j i); eauto.
        -- rewrite nth_error_set_nth_other in H1, H2 by assumption. eapply (Hd j k); eauto.
    + apply Hsame; [reflexivity|]. cbn. split; [congruence|assumption].
  - (* already finished *)
    apply Hsame; [reflexivity|exact Hwi].
Qed.

Lemma exec_GI ops sched : forall s ws, GI ops s ws ->
  let '(s', ws') := fold_left (sched_step ops) sched (s, ws) in GI ops s' ws'.
Proof.
  induction sched as [|i sched IH]; intros s ws H; [exact H|]. cbn [fold_left].
  pose proof (sched_step_GI ops s ws i H) as H1. destruct (sched_step ops (s, ws) i) as [s1 ws1]. now apply IH.
Qed.

Lemma GI_init ops s L : fresh s -> lchain (ls_store s) (ls_tip s) L -> NoDup (map fst L) ->
  GI ops s (map (fun _ => WStart) ops).
Proof.
  intros Hf Hc Hnd. split; [assumption|]. split; [now rewrite map_length|]. exists L. repeat split; try assumption.
  - intros i o w _ Hw. apply nth_error_In in Hw. apply in_map_iff in Hw as (_ & <- & _). exact I.
  - intros i j w w' c _ Hw _ Hcw. apply nth_error_In in Hw. apply in_map_iff in Hw as (_ & <- & _). discriminate.
Qed.


(** ids on a chain of a fresh state are below [ls_next] *)
Lemma lchain_ids_fresh s L : fresh s -> lchain (ls_store s) (ls_tip s) L -> forall i, In i (map fst L) -> (i < ls_next s)%N.
Proof.
  intros Hf Hc i Hin. apply (lchain_ids_in_store _ _ _ Hc) in Hin.
  destruct (lookup (ls_store s) i) eqn:E; [|congruence]. exact (Hf _ _ E).
Qed.

(** sequential recording keeps the ids on the chain distinct *)
Lemma run_ops_nodup : forall ops s L,
  fresh s -> lchain (ls_store s) (ls_tip s) L -> numbering_ok L = true -> ops_ok s ops = true -> NoDup (map fst L) ->
  let '(s', ws) := run_ops s ops in
  exists L', fresh s' /\ lchain (ls_store s') (ls_tip s') (L' ++ L) /\ NoDup (map fst (L' ++ L)) /\ numbering_ok (L' ++ L) = true.
Proof.
  induction ops as [|o ops IH]; intros s L Hf Hc Hn Hok Hnd; cbn [run_ops].
  - exists []. cbn [app]. auto.
  - cbn [ops_ok] in Hok. apply andb_true_iff in Hok as [Hl Hok].
    pose proof (run_op_spec s o L Hf Hc Hn (legacy_ok_op_ok _ _ _ Hc Hl)) as Hs.
    destruct (run_op s o) as [s1 w] eqn:Er. cbn [fst] in Hok.
    destruct (op_valid (ls_store s) o).
    + destruct Hs as (n & Hw & Ht & Hnx & Hst & Hf1 & Hc1 & Hn1).
      assert (Hnd1 : NoDup (map fst ((ls_next s, op_entry o n) :: L))).
      { cbn [map fst]. constructor; [|assumption]. intros Hin. apply (lchain_ids_fresh _ _ Hf Hc) in Hin. lia. }
      specialize (IH s1 _ Hf1 Hc1 Hn1 Hok Hnd1). destruct (run_ops s1 ops) as [s2 ws].
      destruct IH as (L' & Hf2 & Hc2 & Hnd2 & Hn2).
      exists (L' ++ [(ls_next s, op_entry o n)]). rewrite <- !app_assoc. cbn [app]. auto.
    + destruct Hs as [Hw ->]. specialize (IH s _ Hf Hc Hn Hok Hnd). destruct (run_ops s ops) as [s2 ws].
      destruct IH as (L' & Hf2 & Hc2 & Hnd2 & Hn2). exists L'. auto.
Qed.

(** the statement of the property, for every set of writers and every schedule *)
Theorem exec_chain_safe ops sched s0 L0 :
  fresh s0 -> lchain (ls_store s0) (ls_tip s0) L0 -> NoDup (map fst L0) ->
  let '(s, ws) := exec s0 ops sched in
  exists L, lchain (ls_store s) (ls_tip s) L /\ NoDup (map fst L) /\
    forall i w, nth_error ws i = Some w ->
      match w with
      | WDone true (Some c) => In c (map fst L)            (* recorded: on the chain (once, by NoDup) *)
      | WDone true None => False                           (* never "recorded" without an entry *)
      | WDone false (Some c) => ~ In c (map fst L)         (* failed: left no trace on the chain *)
      | WCreated _ _ c => ~ In c (map fst L)               (* not yet published *)
      | _ => True
      end.
Proof.
  intros Hf Hc Hnd. unfold exec.
  pose proof (exec_GI ops sched s0 _ (GI_init ops s0 L0 Hf Hc Hnd)) as H.
  destruct (fold_left (sched_step ops) sched (s0, map (fun _ => WStart) ops)) as [s ws].
  destruct H as (_ & Hlen & L & HcL & HndL & Hw & _). exists L. repeat split; try assumption.
  intros i w Hi. assert (exists o, nth_error ops i = Some o) as [o Ho].
  { destruct (nth_error ops i) eqn:E; [eauto|]. apply nth_error_None in E.
    assert (i < List.length ws) by (apply nth_error_Some; congruence). lia. }
  specialize (Hw _ _ _ Ho Hi). destruct w as [|n|n t2|n t2 c|[|] [c|]]; cbn in Hw; tauto.
Qed.
