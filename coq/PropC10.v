(** Property C10 — file rules see every changed path verbatim; odd path names are not exempt.
    Only statements here; proofs are in GitFormatProofs.v and FileRulesProofs.v. *)
From GV Require Import GitFormat GitFormatProofs FileRules FileRulesProofs.
From Coq Require Import Strings.String.

(** Bytes.  gitinterface reads path lists (ls-tree / diff-tree --name-only -z) back exactly as git
    printed them, for every list of NUL-free names: spaces, tabs, quotes, backslashes, control and
    non-ASCII bytes and glob metacharacters included, leading and trailing blanks included. *)
Theorem C10_names_verbatim : forall ps, Forall (fun p => no_byte NUL p = true) ps ->
  parse_names_z (print_names_z ps) = ps.
Proof. exact names_roundtrip. Qed.
Print Assumptions C10_names_verbatim.

(** ls-tree -z records (GetEntriesInTree, GetAllFilesInTree): path, object id and kind come back
    exactly, whatever bytes other than NUL the path contains. *)
Theorem C10_tree_listing_verbatim : forall es, Forall ent_ok es ->
  parse_lstree_z (print_lstree_z es) = Some (map ent_result es).
Proof. exact lstree_roundtrip. Qed.
Print Assumptions C10_tree_listing_verbatim.

(** rewriting: the mktree -z input TreeBuilder writes carries every entry verbatim. *)
Theorem C10_tree_rewrite_verbatim : forall es,
  Forall (fun e => valid_oid (snd (fst e)) = true /\ no_byte NUL (fst (fst e)) = true) es ->
  parse_lstree_z (mktree_input es) = Some es.
Proof. exact mktree_roundtrip. Qed.
Print Assumptions C10_tree_rewrite_verbatim.

(** Logic.  The changed-path set leaves nothing out: all files of a root commit, every path whose
    blob differs from the single parent's, and for a merge every difference with any parent unless
    the result is exactly the last parent's tree. *)
Theorem C10_changed_paths_complete : forall g c i,
  glookup g c = Some i ->
  match fc_parents i with
  | [] => forall p b, tlookup (fc_tree i) p = Some b -> In p (changed_paths g c)
  | [q] => forall p, tlookup (tree_of_commit g q) p <> tlookup (fc_tree i) p -> In p (changed_paths g c)
  | qs => diff_paths (tree_of_commit g (last qs 0%N)) (fc_tree i) <> [] ->
          forall q p, In q qs -> tlookup (tree_of_commit g q) p <> tlookup (fc_tree i) p -> In p (changed_paths g c)
  end.
Proof. exact changed_paths_complete. Qed.
Print Assumptions C10_changed_paths_complete.

(** An accepted entry (policy with file rules): every commit it newly introduces is known, every
    one of its changed paths was looked up under file:<path>, and when rules protect the path some
    verifier they name is satisfied by the commit's own signature together with the entry's
    approvals.  ([Covered] goes through verifier names because of the already-verified shortcut;
    rule names are unique in a loaded policy - loadRuleNames rejects duplicates.) *)
Theorem C10_accepted_entry_covers_every_path : forall ps g env new old,
  has_file_rule ps = true -> entry_files_ok ps g env new old = true ->
  forall c, In c (new_commits g new old) ->
  exists i, glookup g c = Some i /\
    forall p, In p (changed_paths g c) ->
      (exists vs, find_verifiers (policy_of ps) (FileScheme ++ p) = WOk vs) /\
      Covered (policy_of ps) (fc_signer i) env p.
Proof. exact entry_files_sound. Qed.
Print Assumptions C10_accepted_entry_covers_every_path.

(** The defect repaired by the fix commit, on the model of the old line-based reader: the record of
    a file named "a b" split at spaces yields the name "a". *)
Example C10_old_parser_truncated_names :
  let line := bs "100644 blob 0123456789012345678901234567890123456789"%string ++ TAB :: bs "a b"%string in
  nth 2 (split_on SP line) [] = bs "0123456789012345678901234567890123456789"%string ++ TAB :: bs "a"%string.
Proof. exact old_parser_truncates. Qed.

(** Non-vacuity: odd names satisfy the hypotheses. *)
Example C10_odd_names_are_nul_free :
  Forall (fun p => no_byte NUL p = true) [bs " lead"%string; bs "a b"%string; [x71; x22; x75]; [xc3; xa9]; [x01; x63]; bs "back\slash"%string; bs "star*"%string].
Proof. repeat constructor. Qed.
