(** C04: case type and checker.  Observables are projected to ids. *)
From GV Require Export RslStore RslScan Verdict.

Definition proj1r (r : rres (ent * list ent)) : rres (id * list id) :=
  match r with ROk (e, anns) => ROk (fst e, map fst anns) | RErr x => RErr x end.

Definition projrange (r : rres (list ent * list (id * list ent))) : rres (list id * list (id * list id)) :=
  match r with
  | ROk (es, m) => ROk (map fst es, map (fun kv => (fst kv, map fst (snd kv))) m)
  | RErr x => RErr x
  end.

Definition ids_eqb (a b : list id) : bool :=
  Nat.eqb (List.length a) (List.length b) && forallb (fun p => N.eqb (fst p) (snd p)) (combine a b).

Definition rerr_eqb (a b : rerr) : bool :=
  match a, b with
  | RNotFound, RNotFound | RBranch, RBranch | RInvalid, RInvalid | RBadOpts, RBadOpts
  | RNoNumbers, RNoNumbers | RUntilNum, RUntilNum | RNoRecord, RNoRecord | RFuel, RFuel | ROther, ROther => true
  | _, _ => false
  end.

Definition r1_eqb (a b : rres (id * list id)) : bool :=
  match a, b with
  | ROk (e, l), ROk (e', l') => N.eqb e e' && ids_eqb l l'
  | RErr x, RErr y => rerr_eqb x y
  | _, _ => false
  end.

Definition map_eqb (a b : list (id * list id)) : bool :=
  Nat.eqb (List.length a) (List.length b)
  && forallb (fun p => N.eqb (fst (fst p)) (fst (snd p)) && ids_eqb (snd (fst p)) (snd (snd p))) (combine a b).

Definition rr_eqb (a b : rres (list id * list (id * list id))) : bool :=
  match a, b with
  | ROk (es, m), ROk (es', m') => ids_eqb es es' && map_eqb m m'
  | RErr x, RErr y => rerr_eqb x y
  | _, _ => false
  end.

(** what the property constrains: the value, "not found", or "some error" (the kind of error on a
    corrupted log is tied by correspondence only) *)
Definition class1 (r : rres (id * list id)) : rres (id * list id) :=
  match r with ROk x => ROk x | RErr RNotFound => RErr RNotFound | RErr _ => RErr ROther end.
Definition classr (r : rres (list id * list (id * list id))) :=
  match r with ROk x => ROk x | RErr RNotFound => RErr RNotFound | RErr _ => RErr ROther end.

Inductive query :=
| QLatest (o : opts) (r : rres (id * list id))
| QFirst (ref : bytes) (r : rres (id * list id))
| QRange (first last : id) (ref : bytes) (r : rres (list id * list (id * list id)))
| QNgp (e : id) (r : rres (id * list id)).

Inductive c04case := C04 (st : store) (tip : option id) (q : query) | C04Panic.


Definition c04_check (c : c04case) : verdict :=
  match c with
  | C04Panic => VSpec 9
  | C04 st tip q =>
      let fuel := S (List.length st) in
      let ch := chain st tip fuel in
      match q with
      | QLatest o r =>
          if negb (r1_eqb (class1 r) (class1 (proj1r (scan_latest o ch)))) then VSpec 1
          else if negb (r1_eqb r (proj1r (get_latest st tip o fuel))) then VMismatch 1 else VOk
      | QFirst ref r =>
          if negb (r1_eqb (class1 r) (class1 (proj1r (scan_first ref ch)))) then VSpec 2
          else if negb (r1_eqb r (proj1r (get_first_for_ref st tip ref fuel))) then VMismatch 2 else VOk
      | QRange f l ref r =>
          if negb (rr_eqb (classr r) (classr (projrange (scan_range f l ref ch)))) then VSpec 3
          else if negb (rr_eqb r (projrange (get_range st tip f l ref fuel))) then VMismatch 3 else VOk
      | QNgp e r =>
          match get_entry st e with
          | RErr _ => VMismatch 5
          | ROk it => if negb (r1_eqb r (proj1r (get_nongittuf_parent st tip it fuel))) then VMismatch 4 else VOk
          end
      end
  end.
