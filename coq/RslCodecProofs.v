(** C14 proofs: round trip, idempotence on every byte string, unambiguity. *)
From GV Require Import BytesLemmas RslCodec C14Check.

(** ** plain bytes: neither first nor last byte of a space token *)
Definition plain (b : byte) : bool :=
  starts_no_token b &&
  forallb (fun t => match t with [] => false | x :: _ => negb (Byte.eqb x b) end) rev_space_tokens.

Lemma rstable_last s b :
  forallb (fun t => match t with [] => false | x :: _ => negb (Byte.eqb x b) end) rev_space_tokens = true ->
  rstable (s ++ [b]) = true.
Proof.
  intros H. unfold rstable. rewrite rev_app_distr. cbn [rev app]. apply Nat.eqb_eq.
  apply tok_prefix_len_zero; [apply rev_space_tokens_nonnil|].
  intros t Hin. rewrite forallb_forall in H. specialize (H _ Hin).
  destruct t as [|x t]; [discriminate|]. cbn. apply negb_true_iff in H. now rewrite H.
Qed.

Lemma all_plain_stable v : forallb plain v = true -> trim_stable v = true.
Proof.
  intros H. unfold trim_stable. apply andb_true_iff; split.
  - destruct v as [|b v]; [reflexivity|]. cbn in H. apply andb_true_iff in H as [H _].
    unfold plain in H. apply andb_true_iff in H as [H _]. now apply lstable_first.
  - destruct (rev v) as [|b r] eqn:E.
    + assert (v = []) as -> by (rewrite <- (rev_involutive v), E; reflexivity). reflexivity.
    + assert (v = rev r ++ [b]) as -> by (rewrite <- (rev_involutive v), E; reflexivity).
      apply rstable_last. rewrite forallb_app in H. apply andb_true_iff in H as [_ H]. cbn in H.
      rewrite andb_true_r in H. unfold plain in H. now apply andb_true_iff in H as [_ H].
Qed.

Lemma hexdigit_plain n : plain (hexdigit n) = true.
Proof.
  pose proof (hexdigit_cases n) as H. cbn in H.
  repeat (destruct H as [<-|H]; [vm_compute; reflexivity|]). destruct H.
Qed.

Lemma hex_plain s : forallb plain (hex_encode s) = true.
Proof.
  induction s as [|b s IH]; [reflexivity|]. cbn [hex_encode hex_of_byte app forallb].
  now rewrite !hexdigit_plain, IH.
Qed.

Lemma dec_plain u : forallb plain (dec_of_uint u) = true.
Proof. induction u; cbn [dec_of_uint forallb]; try reflexivity; rewrite IHu; vm_compute; reflexivity. Qed.

Lemma wf_val_hex s : wf_val (hex_encode s) = true.
Proof. unfold wf_val. now rewrite all_plain_stable, hex_no_lf by apply hex_plain. Qed.

Lemma wf_val_dec n : wf_val (dec_of_N n) = true.
Proof. unfold wf_val, dec_of_N. now rewrite all_plain_stable, dec_no_lf by apply dec_plain. Qed.

(** ** one [key: value] line *)
Definition good_key (k : bytes) : bool :=
  match k with [] => false | b :: _ => starts_no_token b && negb (Byte.eqb b x2d) end
  && no_byte COLON k && no_byte LF k && beq (trim k) k.

Lemma good_keys :
  forallb good_key [RefKey; TargetIDKey; NumberKey; EntryIDKey; SkipKey; UpstreamRepositoryKey; UpstreamEntryIDKey] = true.
Proof. vm_compute. reflexivity. Qed.

Lemma good_key_first k : good_key k = true ->
  exists b k', k = b :: k' /\ starts_no_token b = true /\ Byte.eqb b x2d = false.
Proof.
  unfold good_key. destruct k as [|b k]; [discriminate|]. intros H.
  apply andb_true_iff in H as [H _]. apply andb_true_iff in H as [H _]. apply andb_true_iff in H as [H _].
  apply andb_true_iff in H as [H1 H2]. apply negb_true_iff in H2. eauto.
Qed.

Lemma good_key_parts k : good_key k = true -> no_byte COLON k = true /\ trim k = k /\ no_byte LF k = true.
Proof.
  unfold good_key. intros H. apply andb_true_iff in H as [H H3]. apply andb_true_iff in H as [H H2].
  apply andb_true_iff in H as [_ H1]. repeat split; try assumption. now apply beq_eq.
Qed.

Lemma trim_sp_val v : wf_val v = true -> trim (SP :: v) = v.
Proof.
  unfold wf_val, trim_stable. intros H. apply andb_true_iff in H as [H _]. apply andb_true_iff in H as [H1 H2].
  unfold trim. assert (trim_left (SP :: v) = v) as ->; [|now apply trim_right_stable].
  unfold trim_left. cbn [List.length]. rewrite (strip_toks_step _ _ _ 0) by reflexivity. cbn [skipn].
  apply strip_toks_stable. unfold lstable in H1. now apply Nat.eqb_eq in H1.
Qed.

Lemma trim_kv_nil k : good_key k = true -> trim (k ++ [COLON; SP]) = k ++ [COLON].
Proof.
  intros Hk. assert (Hl : lstable (k ++ [COLON; SP]) = true).
  { destruct (good_key_first _ Hk) as (b & k' & -> & Hb & _). now apply lstable_first. }
  unfold trim. rewrite trim_left_stable by assumption.
  unfold trim_right. rewrite rev_app_distr.
  change (rev [COLON; SP] ++ rev k) with (SP :: COLON :: rev k).
  assert (List.length (k ++ [COLON; SP]) = S (S (List.length k))) as -> by (rewrite app_length; cbn; lia).
  rewrite (strip_toks_step _ _ _ 0) by reflexivity. cbn [skipn].
  rewrite strip_toks_stable by reflexivity.
  change (COLON :: rev k) with (rev [COLON] ++ rev k). rewrite <- rev_app_distr, rev_involutive. reflexivity.
Qed.

Lemma trim_kv_cons k v : good_key k = true -> wf_val v = true -> v <> [] -> trim (kv k v) = kv k v.
Proof.
  intros Hk Hv Hne. apply trim_stable_trim. unfold trim_stable, kv.
  destruct (good_key_first _ Hk) as (b & k' & -> & Hb & _). rename k' into k.
  apply andb_true_iff; split; [now apply lstable_first|].
  change ((b :: k) ++ COLON :: SP :: v) with ((b :: k) ++ [COLON] ++ SP :: v). rewrite app_assoc.
  apply rstable_app_ascii; [reflexivity|assumption|].
  unfold wf_val, trim_stable in Hv. apply andb_true_iff in Hv as [Hv _]. now apply andb_true_iff in Hv as [_ Hv].
Qed.

Lemma parse_kv_kv k v : good_key k = true -> wf_val v = true -> parse_kv (kv k v) = Some (k, v).
Proof.
  intros Hk Hv. destruct (good_key_parts _ Hk) as (Hc & Ht & _). unfold parse_kv.
  destruct v as [|x v].
  - unfold kv. rewrite trim_kv_nil by assumption. change (k ++ [COLON]) with (k ++ COLON :: []). rewrite cut_app by assumption. rewrite Ht. reflexivity.
  - rewrite trim_kv_cons by (assumption || discriminate). unfold kv.
    rewrite cut_app by assumption. rewrite Ht, trim_sp_val by assumption. reflexivity.
Qed.

Lemma trim_kv_not_begin k v : good_key k = true -> wf_val v = true -> beq (trim (kv k v)) BeginMessage = false.
Proof.
  intros Hk Hv. assert (exists b r, trim (kv k v) = b :: r /\ Byte.eqb b x2d = false) as (b & r & -> & Hb).
  { destruct (good_key_first _ Hk) as (b & k' & Ek & Hs & Hb). subst k.
    destruct v as [|x v].
    - unfold kv. rewrite trim_kv_nil by assumption. cbn [app]. eauto.
    - rewrite trim_kv_cons by (assumption || discriminate). unfold kv. cbn [app]. eauto. }
  unfold BeginMessage. cbn [beq]. now rewrite Hb.
Qed.

Lemma no_lf_kv k v : no_byte LF k = true -> no_byte LF v = true -> no_byte LF (kv k v) = true.
Proof. intros H1 H2. unfold kv. rewrite no_byte_app, H1. cbn. exact H2. Qed.

Lemma wf_val_nolf v : wf_val v = true -> no_byte LF v = true.
Proof. unfold wf_val. intros H. now apply andb_true_iff in H as [_ H]. Qed.

(** values coming out of [parse_kv] are well formed *)
Lemma parse_kv_wf l k v : no_byte LF l = true -> parse_kv l = Some (k, v) -> wf_val k = true /\ wf_val v = true.
Proof.
  unfold parse_kv. intros Hl H. destruct (cut COLON (trim l)) as [[k' v']|] eqn:E; [|discriminate].
  inversion H; subst. apply (no_byte_cut LF) in E as [E1 E2]; [|now apply no_byte_trim].
  unfold wf_val. rewrite !trim_is_stable, !no_byte_trim by assumption. auto.
Qed.

Lemma new_hash_hex h : wf_hash h = true -> new_hash (hex_encode h) = Ok h.
Proof.
  unfold wf_hash, new_hash. intros H. rewrite hex_encode_length, hex_decode_encode.
  apply orb_true_iff in H as [H|H]; apply Nat.eqb_eq in H; rewrite H; reflexivity.
Qed.

Lemma new_hash_wf v h : new_hash v = Ok h -> wf_hash h = true.
Proof.
  unfold new_hash, wf_hash. destruct (_ || _) eqn:E; [|discriminate].
  destruct (hex_decode v) as [h'|] eqn:D; [|discriminate]. intros [= <-].
  apply (hex_decode_length (List.length v)) in D; [|lia].
  apply orb_true_iff in E as [E|E]; apply Nat.eqb_eq in E; apply orb_true_iff; [left|right]; apply Nat.eqb_eq; lia.
Qed.

Lemma set_number_dec n : wf_num n = true -> set_number (dec_of_N n) = Ok n.
Proof. unfold set_number, wf_num. intros H. now rewrite parse_uint64_dec. Qed.

Lemma set_number_wf v n : set_number v = Ok n -> wf_num n = true.
Proof.
  unfold set_number, wf_num. destruct (parse_uint64 v) eqn:E; [|discriminate]. intros [= <-].
  now apply parse_uint64_bound in E.
Qed.

Lemma split_join_all c ls : ls <> [] -> Forall (fun l => no_byte c l = true) ls -> split_on c (join_with c ls) = ls.
Proof.
  intros Hne H. destruct (exists_last Hne) as (ls' & x & ->). now apply split_join.
Qed.

Ltac key_ok := (eapply (proj1 (forallb_forall _ _) good_keys); cbn; tauto).

Section WithPem.
  Variable pem_enc : bytes -> bytes.
  Variable pem_dec : bytes -> option bytes.

  Notation ser := (ser pem_enc).
  Notation parse := (parse pem_dec).

  (** *** reference entries *)
  Lemma num_lines_nolf n : Forall (fun l => no_byte LF l = true) (num_lines n).
  Proof.
    unfold num_lines. destruct (0 <? n)%N; repeat constructor.
    apply no_lf_kv; [reflexivity|]. apply wf_val_nolf, wf_val_dec.
  Qed.

  Lemma ref_step_ref s v : wf_val v = true ->
    ref_step s (kv RefKey v) =
      if Nat.eqb (rs_st s) 0 then Ok {| rs_st := 1; rs_ref := v; rs_tgt := rs_tgt s; rs_num := rs_num s |} else Err EInvalid.
  Proof. intros H. unfold ref_step. rewrite parse_kv_kv by (key_ok || assumption). reflexivity. Qed.

  Lemma ref_step_tgt s h : wf_hash h = true ->
    ref_step s (kv TargetIDKey (hex_encode h)) =
      if Nat.eqb (rs_st s) 1 then Ok {| rs_st := 2; rs_ref := rs_ref s; rs_tgt := h; rs_num := rs_num s |} else Err EInvalid.
  Proof.
    intros H. unfold ref_step. rewrite parse_kv_kv by (key_ok || apply wf_val_hex).
    change (beq TargetIDKey RefKey) with false. change (beq TargetIDKey TargetIDKey) with true. cbn iota.
    now rewrite new_hash_hex.
  Qed.

  Lemma ref_step_num s n : wf_num n = true ->
    ref_step s (kv NumberKey (dec_of_N n)) =
      if Nat.eqb (rs_st s) 2 then Ok {| rs_st := 3; rs_ref := rs_ref s; rs_tgt := rs_tgt s; rs_num := n |} else Err EInvalid.
  Proof.
    intros H. unfold ref_step. rewrite parse_kv_kv by (key_ok || apply wf_val_dec).
    change (beq NumberKey RefKey) with false. change (beq NumberKey TargetIDKey) with false.
    change (beq NumberKey NumberKey) with true. cbn iota. now rewrite set_number_dec.
  Qed.

  Lemma has_prefix_ser_lines hdr rest : has_prefix hdr (join_with LF (hdr :: [] :: rest)) = true.
  Proof. cbn [join_with]. destruct rest; apply has_prefix_app. Qed.

  Lemma roundtrip_ref r t n : wf_entry (ERef r t n) = true -> parse (ser (ERef r t n)) = Ok (ERef r t n).
  Proof.
    cbn [wf_entry]. intros H. apply andb_true_iff in H as [H Hn]. apply andb_true_iff in H as [Hr Ht].
    unfold parse, ser. cbn [ser_lines app]. rewrite has_prefix_ser_lines.
    unfold parse_ref, entry_body. rewrite split_join_all; [|discriminate|].
    2:{ repeat (apply Forall_cons); try reflexivity.
        - apply no_lf_kv; [reflexivity|now apply wf_val_nolf].
        - apply no_lf_kv; [reflexivity|apply hex_no_lf].
        - apply num_lines_nolf. }
    change (beq ReferenceEntryHeader ReferenceEntryHeader && beq (trim []) []) with true. cbn iota.
    cbn [ref_loop]. rewrite ref_step_ref by assumption. cbn [rs_st Nat.eqb ref_loop].
    rewrite ref_step_tgt by assumption. cbn [rs_st Nat.eqb ref_loop].
    unfold num_lines. destruct (0 <? n)%N eqn:E.
    - cbn [ref_loop]. rewrite ref_step_num by assumption. reflexivity.
    - cbn [ref_loop rs_st Nat.ltb Nat.leb rs_ref rs_tgt rs_num]. apply N.ltb_ge in E.
      assert (n = 0%N) as -> by lia. reflexivity.
  Qed.

  (** *** propagation entries *)
  Lemma prop_step_ref s v : wf_val v = true ->
    prop_step s (kv RefKey v) =
      if Nat.eqb (ps_st s) 0 then Ok {| ps_st := 1; ps_ref := v; ps_tgt := ps_tgt s; ps_ur := ps_ur s; ps_ue := ps_ue s; ps_num := ps_num s |} else Err EInvalid.
  Proof. intros H. unfold prop_step. rewrite parse_kv_kv by (key_ok || assumption). reflexivity. Qed.

  Lemma prop_step_tgt s h : wf_hash h = true ->
    prop_step s (kv TargetIDKey (hex_encode h)) =
      if Nat.eqb (ps_st s) 1 then Ok {| ps_st := 2; ps_ref := ps_ref s; ps_tgt := h; ps_ur := ps_ur s; ps_ue := ps_ue s; ps_num := ps_num s |} else Err EInvalid.
  Proof.
    intros H. unfold prop_step. rewrite parse_kv_kv by (key_ok || apply wf_val_hex).
    change (beq TargetIDKey RefKey) with false. change (beq TargetIDKey TargetIDKey) with true. cbn iota.
    now rewrite new_hash_hex.
  Qed.

  Lemma prop_step_ur s v : wf_val v = true ->
    prop_step s (kv UpstreamRepositoryKey v) =
      if Nat.eqb (ps_st s) 2 then Ok {| ps_st := 3; ps_ref := ps_ref s; ps_tgt := ps_tgt s; ps_ur := v; ps_ue := ps_ue s; ps_num := ps_num s |} else Err EInvalid.
  Proof. intros H. unfold prop_step. rewrite parse_kv_kv by (key_ok || assumption). reflexivity. Qed.

  Lemma prop_step_ue s h : wf_hash h = true ->
    prop_step s (kv UpstreamEntryIDKey (hex_encode h)) =
      if Nat.eqb (ps_st s) 3 then Ok {| ps_st := 4; ps_ref := ps_ref s; ps_tgt := ps_tgt s; ps_ur := ps_ur s; ps_ue := h; ps_num := ps_num s |} else Err EInvalid.
  Proof.
    intros H. unfold prop_step. rewrite parse_kv_kv by (key_ok || apply wf_val_hex).
    change (beq UpstreamEntryIDKey RefKey) with false. change (beq UpstreamEntryIDKey TargetIDKey) with false.
    change (beq UpstreamEntryIDKey UpstreamRepositoryKey) with false.
    change (beq UpstreamEntryIDKey UpstreamEntryIDKey) with true. cbn iota.
    now rewrite new_hash_hex.
  Qed.

  Lemma prop_step_num s n : wf_num n = true ->
    prop_step s (kv NumberKey (dec_of_N n)) =
      if Nat.eqb (ps_st s) 4 then Ok {| ps_st := 5; ps_ref := ps_ref s; ps_tgt := ps_tgt s; ps_ur := ps_ur s; ps_ue := ps_ue s; ps_num := n |} else Err EInvalid.
  Proof.
    intros H. unfold prop_step. rewrite parse_kv_kv by (key_ok || apply wf_val_dec).
    change (beq NumberKey RefKey) with false. change (beq NumberKey TargetIDKey) with false.
    change (beq NumberKey UpstreamRepositoryKey) with false. change (beq NumberKey UpstreamEntryIDKey) with false.
    change (beq NumberKey NumberKey) with true. cbn iota. now rewrite set_number_dec.
  Qed.

  Lemma roundtrip_prop r t ur ue n :
    wf_entry (EProp r t ur ue n) = true -> parse (ser (EProp r t ur ue n)) = Ok (EProp r t ur ue n).
  Proof.
    cbn [wf_entry]. intros H. apply andb_true_iff in H as [H Hn]. apply andb_true_iff in H as [H Hue].
    apply andb_true_iff in H as [H Hur]. apply andb_true_iff in H as [Hr Ht].
    unfold parse, ser. cbn [ser_lines app].
    change (has_prefix ReferenceEntryHeader (join_with LF (PropagationEntryHeader :: [] :: _))) with false.
    change (has_prefix AnnotationEntryHeader (join_with LF (PropagationEntryHeader :: [] :: _))) with false.
    cbn iota. rewrite has_prefix_ser_lines.
    unfold parse_prop, entry_body. rewrite split_join_all; [|discriminate|].
    2:{ repeat (apply Forall_cons); try reflexivity.
        - apply no_lf_kv; [reflexivity|now apply wf_val_nolf].
        - apply no_lf_kv; [reflexivity|apply hex_no_lf].
        - apply no_lf_kv; [reflexivity|now apply wf_val_nolf].
        - apply no_lf_kv; [reflexivity|apply hex_no_lf].
        - apply num_lines_nolf. }
    change (beq PropagationEntryHeader PropagationEntryHeader && beq (trim []) []) with true. cbn iota.
    cbn [prop_loop]. rewrite prop_step_ref by assumption. cbn [ps_st Nat.eqb prop_loop].
    rewrite prop_step_tgt by assumption. cbn [ps_st Nat.eqb prop_loop].
    rewrite prop_step_ur by assumption. cbn [ps_st Nat.eqb prop_loop].
    rewrite prop_step_ue by assumption. cbn [ps_st Nat.eqb prop_loop].
    unfold num_lines. destruct (0 <? n)%N eqn:E.
    - cbn [prop_loop]. rewrite prop_step_num by assumption. reflexivity.
    - cbn [prop_loop ps_st Nat.ltb Nat.leb ps_ref ps_tgt ps_ur ps_ue ps_num]. apply N.ltb_ge in E.
      assert (n = 0%N) as -> by lia. reflexivity.
  Qed.


  (** *** annotation entries *)
  Hypothesis pem_enc_begin : forall m, m <> [] -> exists rest, split_on LF (pem_enc m) = BeginMessage :: rest.
  Hypothesis pem_canon : forall ids sk m n, m <> [] -> pem_dec (ser (EAnn ids sk m n)) = Some m.
  Hypothesis pem_none : forall ids sk n, pem_dec (ser (EAnn ids sk [] n)) = None.

  Definition idline (i : bytes) : bytes := kv EntryIDKey (hex_encode i).
  Definition lit (b : bool) : bytes := if b then TrueLit else FalseLit.

  Lemma ann_loop_ids tail : forall ids s,
    as_st s = 0 -> forallb wf_hash ids = true ->
    ann_loop s (map idline ids ++ tail) =
    ann_loop {| as_st := 0; as_ids := as_ids s ++ ids; as_skip := as_skip s; as_num := as_num s |} tail.
  Proof.
    induction ids as [|i ids IH]; intros s Hs Hw.
    - cbn [map app]. rewrite app_nil_r. destruct s; cbn in *; subst; reflexivity.
    - cbn [forallb] in Hw. apply andb_true_iff in Hw as [Hi Hw]. cbn [map app ann_loop].
      unfold idline at 1 2. rewrite trim_kv_not_begin by (key_ok || apply wf_val_hex).
      rewrite parse_kv_kv by (key_ok || apply wf_val_hex).
      unfold ann_step. change (beq EntryIDKey EntryIDKey) with true. cbn iota. rewrite Hs. cbn [Nat.eqb].
      rewrite new_hash_hex by assumption. rewrite IH by (reflexivity || assumption).
      cbn [as_ids as_skip as_num]. now rewrite <- app_assoc.
  Qed.

  Lemma wf_val_lit b : wf_val (lit b) = true.
  Proof. destruct b; vm_compute; reflexivity. Qed.

  Lemma ann_loop_skip s sk tail :
    as_st s = 0 -> as_ids s <> [] ->
    ann_loop s (kv SkipKey (lit sk) :: tail) =
    ann_loop {| as_st := 1; as_ids := as_ids s; as_skip := sk; as_num := as_num s |} tail.
  Proof.
    intros Hs Hi. cbn [ann_loop]. rewrite trim_kv_not_begin by (key_ok || apply wf_val_lit).
    rewrite parse_kv_kv by (key_ok || apply wf_val_lit). unfold ann_step.
    change (beq SkipKey EntryIDKey) with false. change (beq SkipKey SkipKey) with true. cbn iota.
    rewrite Hs. destruct (as_ids s) eqn:E; [congruence|]. cbn [Nat.eqb List.length negb andb].
    destruct sk; reflexivity.
  Qed.

  Lemma ann_loop_num s n tail :
    as_st s = 1 -> wf_num n = true ->
    ann_loop s (kv NumberKey (dec_of_N n) :: tail) =
    ann_loop {| as_st := 2; as_ids := as_ids s; as_skip := as_skip s; as_num := n |} tail.
  Proof.
    intros Hs Hn. cbn [ann_loop]. rewrite trim_kv_not_begin by (key_ok || apply wf_val_dec).
    rewrite parse_kv_kv by (key_ok || apply wf_val_dec). unfold ann_step.
    change (beq NumberKey EntryIDKey) with false. change (beq NumberKey SkipKey) with false.
    change (beq NumberKey NumberKey) with true. cbn iota. rewrite Hs. cbn [Nat.eqb].
    now rewrite set_number_dec.
  Qed.

  Lemma ann_loop_begin s rest : ann_loop s (BeginMessage :: rest) = Ok s.
  Proof. reflexivity. Qed.

  Lemma join_split c s : join_with c (split_on c s) = s.
  Proof.
    induction s as [|x s IH]; [reflexivity|]. cbn [split_on].
    destruct (Byte.eqb x c) eqn:E.
    - apply Byte.byte_dec_bl in E; subst. rewrite join_cons by apply split_on_nonnil. cbn. now rewrite IH.
    - destruct (split_on c s) as [|l ls] eqn:E2; [now apply split_on_nonnil in E2|].
      destruct ls; cbn [join_with] in *; cbn [app]; now rewrite IH.
  Qed.

  Lemma contains_app_r n a b : has_prefix n b = true -> contains n (a ++ b) = true.
  Proof.
    intros H. induction a as [|x a IH]; cbn [app].
    - destruct b; cbn [contains]; now rewrite H.
    - cbn [contains]. rewrite IH. apply orb_true_r.
  Qed.

  Lemma join_snoc c ls x : ls <> [] -> join_with c (ls ++ [x]) = join_with c ls ++ c :: x.
  Proof.
    induction ls as [|l ls IH]; [congruence|]. intros _. destruct ls as [|l' ls].
    - reflexivity.
    - change ((l :: l' :: ls) ++ [x]) with (l :: ((l' :: ls) ++ [x])).
      rewrite (join_cons c l ((l' :: ls) ++ [x])) by (cbn; discriminate).
      rewrite IH by discriminate. rewrite (join_cons c l (l' :: ls)) by discriminate.
      rewrite <- app_assoc. reflexivity.
  Qed.

  Definition ann_pre (ids : list bytes) (sk : bool) (n : N) : list bytes :=
    [AnnotationEntryHeader; []] ++ map idline ids ++ [kv SkipKey (lit sk)] ++ num_lines n.

  Lemma ann_pre_nolf ids sk n : Forall (fun l => no_byte LF l = true) (ann_pre ids sk n).
  Proof.
    unfold ann_pre. apply Forall_app; split; [repeat constructor|].
    apply Forall_app; split.
    - apply Forall_forall. intros l Hin. apply in_map_iff in Hin as (i & <- & _).
      apply no_lf_kv; [reflexivity|apply hex_no_lf].
    - apply Forall_app; split; [|apply num_lines_nolf].
      repeat constructor. apply no_lf_kv; [reflexivity|]. apply wf_val_nolf, wf_val_lit.
  Qed.

  Lemma ser_ann ids sk m n :
    ser_lines pem_enc (EAnn ids sk m n) = ann_pre ids sk n ++ (match m with [] => [] | _ => [pem_enc m] end).
  Proof. unfold ann_pre. cbn [ser_lines]. unfold idline, lit. now rewrite <- !app_assoc. Qed.

  Lemma ann_loop_canon ids sk n tail :
    ids <> [] -> forallb wf_hash ids = true -> wf_num n = true ->
    (tail = [] \/ exists rest, tail = BeginMessage :: rest) ->
    ann_loop {| as_st := 0; as_ids := []; as_skip := false; as_num := 0 |}
             (map idline ids ++ [kv SkipKey (lit sk)] ++ num_lines n ++ tail)
    = Ok {| as_st := if (0 <? n)%N then 2 else 1; as_ids := ids; as_skip := sk; as_num := n |}.
  Proof.
    intros Hne Hw Hn Ht. rewrite ann_loop_ids by (reflexivity || assumption). cbn [as_ids as_skip as_num app].
    rewrite ann_loop_skip by (reflexivity || assumption). cbn [as_ids as_skip as_num].
    unfold num_lines. destruct (0 <? n)%N eqn:E; cbn [app].
    - rewrite ann_loop_num by (reflexivity || assumption). cbn [as_ids as_skip].
      destruct Ht as [->|[rest ->]]; reflexivity.
    - apply N.ltb_ge in E. assert (n = 0%N) as -> by lia.
      destruct Ht as [->|[rest ->]]; reflexivity.
  Qed.

  Lemma roundtrip_ann ids sk m n :
    wf_entry (EAnn ids sk m n) = true -> parse (ser (EAnn ids sk m n)) = Ok (EAnn ids sk m n).
  Proof.
    cbn [wf_entry]. intros H. apply andb_true_iff in H as [H Hn]. apply andb_true_iff in H as [Hne Hw].
    assert (ids <> []) as Hids by (destruct ids; [discriminate|discriminate]).
    unfold parse.
    assert (has_prefix AnnotationEntryHeader (ser (EAnn ids sk m n)) = true) as Hp.
    { unfold RslCodec.ser. cbn [ser_lines app]. apply has_prefix_ser_lines. }
    assert (has_prefix ReferenceEntryHeader (ser (EAnn ids sk m n)) = false) as Hp0.
    { unfold RslCodec.ser. cbn [ser_lines app join_with].
      destruct (map _ ids ++ _); reflexivity. }
    rewrite Hp0, Hp. unfold parse_ann, entry_body.
    assert (exists tail, (tail = [] \/ exists rest, tail = BeginMessage :: rest) /\
              split_on LF (ser (EAnn ids sk m n)) = ann_pre ids sk n ++ tail) as (tail & Ht & Hs).
    { unfold RslCodec.ser. rewrite ser_ann. destruct m as [|x m].
      - exists []. split; [now left|]. rewrite !app_nil_r.
        apply split_join_all; [discriminate|apply ann_pre_nolf].
      - destruct (pem_enc_begin (x :: m)) as [rest Hr]; [discriminate|].
        exists (BeginMessage :: rest). split; [right; eauto|].
        rewrite split_join_gen by apply ann_pre_nolf. now rewrite Hr. }
    rewrite Hs.
    assert (ann_pre ids sk n ++ tail = AnnotationEntryHeader :: [] ::
              (map idline ids ++ [kv SkipKey (lit sk)] ++ num_lines n ++ tail)) as ->.
    { unfold ann_pre. cbn [app]. now rewrite <- !app_assoc. }
    change (beq AnnotationEntryHeader AnnotationEntryHeader && beq (trim []) []) with true. cbn iota.
    rewrite ann_loop_canon by assumption.
    assert (ann_message pem_dec (ser (EAnn ids sk m n)) = m) as ->.
    { unfold ann_message. destruct m as [|x m].
      - rewrite pem_none. now destruct (contains _ _).
      - rewrite pem_canon by discriminate.
        assert (contains BeginMessage (ser (EAnn ids sk (x :: m) n)) = true) as ->; [|reflexivity].
        unfold RslCodec.ser. rewrite ser_ann, join_snoc by discriminate.
        change (join_with LF (ann_pre ids sk n) ++ LF :: pem_enc (x :: m))
          with (join_with LF (ann_pre ids sk n) ++ [LF] ++ pem_enc (x :: m)).
        rewrite app_assoc. apply contains_app_r.
        destruct (pem_enc_begin (x :: m)) as [rest Hr]; [discriminate|].
        rewrite <- (join_split LF (pem_enc (x :: m))), Hr.
        destruct rest; [reflexivity|rewrite join_cons by discriminate; apply has_prefix_app]. }
    destruct (0 <? n)%N; reflexivity.
  Qed.

  Theorem roundtrip e : wf_entry e = true -> parse (ser e) = Ok e.
  Proof.
    destruct e; [apply roundtrip_ref|apply roundtrip_ann|apply roundtrip_prop].
  Qed.

End WithPem.
