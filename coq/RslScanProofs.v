(** C04 proofs: every reader equals its plain-scan specification over the lazy walk, and the
    consequences the property names (fail closed, first match, exact annotations). *)
From GV Require Import RslStore RslScan.

Lemma chain_from_head st f it L term :
  chain_from st f it = (L, term) -> term <> RFuel -> exists L', L = it :: L'.
Proof.
  destruct f; cbn; [intros [= <- <-]; congruence|].
  destruct (get_parent st it); [destruct (chain_from st f a)|]; intros [= <- <-]; eauto.
Qed.

Lemma push_ann_filter anns it : push_ann anns it = anns ++ filter (fun x => is_ann (snd x)) [it].
Proof. unfold push_ann. cbn. destruct (is_ann (snd it)); [reflexivity|now rewrite app_nil_r]. Qed.

(** *** latest: search phase *)
Lemma search_scan st o : forall f it anns L term,
  chain_from st f it = (L, term) -> term <> RFuel ->
  forall f', f <= f' -> search_walk st o f' it anns = scan_search o L term anns.
Proof.
  induction f as [|f IH]; intros it anns L term Hc Ht f' Hf; cbn in Hc; [inversion Hc; congruence|].
  destruct f' as [|f']; [lia|]. cbn [search_walk].
  destruct (get_parent st it) as [p|e] eqn:Ep.
  - destruct (chain_from st f p) as [l e'] eqn:Ec. inversion Hc; subst.
    destruct (chain_from_head _ _ _ _ _ Ec Ht) as [l' ->]. cbn [scan_search].
    destruct (matches o anns it); [reflexivity|]. destruct (match o_until_id o with Some _ => _ | None => _ end); [reflexivity|].
    destruct (_ && _); [reflexivity|]. apply (IH _ _ _ _ Ec Ht). lia.
  - inversion Hc; subst. cbn [scan_search]. destruct (matches o anns it); [reflexivity|].
    now destruct (match o_until_id o with Some _ => _ | None => _ end).
Qed.

(** *** latest: before phase followed by the search *)
Lemma before_scan st o : forall f it anns L term,
  chain_from st f it = (L, term) -> term <> RFuel ->
  forall f' g, f <= f' -> f <= g ->
  match before_walk st o f' it anns with RErr e => RErr e | ROk (p, a1) => search_walk st o g p a1 end
  = match scan_before o L term anns with RErr e => RErr e | ROk (a1, rest) => scan_search o rest term a1 end.
Proof.
  induction f as [|f IH]; intros it anns L term Hc Ht f' g Hf Hg; cbn in Hc; [inversion Hc; congruence|].
  destruct f' as [|f']; [lia|]. cbn [before_walk].
  destruct (get_parent st it) as [p|e] eqn:Ep.
  - destruct (chain_from st f p) as [l e'] eqn:Ec. inversion Hc; subst.
    destruct (chain_from_head _ _ _ _ _ Ec Ht) as [l' ->]. cbn [scan_before].
    destruct (is_anchor o it).
    + apply (search_scan _ _ _ _ _ _ _ Ec Ht). lia.
    + destruct (enum (snd p) <? o_until_num o)%N; [reflexivity|]. apply (IH _ _ _ _ Ec Ht); lia.
  - inversion Hc; subst. cbn [scan_before]. now destruct (is_anchor o it).
Qed.

Theorem get_latest_scan st tip o fuel :
  snd (chain st tip fuel) <> RFuel -> get_latest st tip o fuel = scan_latest o (chain st tip fuel).
Proof.
  unfold chain, get_latest, scan_latest. destruct (latest_entry st tip) as [it0|e] eqn:El; cbn [snd].
  - destruct (chain_from st fuel it0) as [L term] eqn:Ec. cbn [snd]. intros Ht.
    destruct (chain_from_head _ _ _ _ _ Ec Ht) as [L' ->].
    destruct (opts_invalid o); [reflexivity|].
    destruct (_ && _); [reflexivity|]. destruct (_ && _); [reflexivity|].
    destruct (before_set o).
    + apply (before_scan st o fuel it0 [] _ _ Ec Ht fuel fuel); lia.
    + apply (search_scan st o fuel it0 [] _ _ Ec Ht fuel). lia.
  - intros _. now destruct (opts_invalid o).
Qed.

(** *** first *)
Definition last_match (r : bytes) (L : list ent) (best : option ent) : option ent :=
  fold_left (fun b it => if ref_matches r it then Some it else b) L best.

Lemma first_scan st r : forall f it anns best L term,
  chain_from st f it = (L, term) -> term <> RFuel ->
  forall f', f <= f' ->
  first_walk st r f' it anns best =
    match term with
    | RNotFound => ROk (last_match r L best, anns ++ filter (fun x => is_ann (snd x)) L)
    | e => RErr e
    end.
Proof.
  induction f as [|f IH]; intros it anns best L term Hc Ht f' Hf; cbn in Hc; [inversion Hc; congruence|].
  destruct f' as [|f']; [lia|]. cbn [first_walk].
  assert (Hb : (match eref (snd it) with
                | Some r' => if beq r [] || beq r' r then Some it else best
                | None => best end) = if ref_matches r it then Some it else best).
  { unfold ref_matches. destruct (eref (snd it)); reflexivity. }
  rewrite Hb. clear Hb.
  destruct (get_parent st it) as [p|e] eqn:Ep.
  - destruct (chain_from st f p) as [l e'] eqn:Ec. inversion Hc; subst.
    rewrite (IH _ _ _ _ _ Ec Ht) by lia. rewrite push_ann_filter.
    destruct term; try reflexivity. cbn [last_match fold_left filter]. f_equal. f_equal.
    rewrite <- app_assoc. f_equal. now destruct (is_ann (snd it)).
  - inversion Hc; subst. destruct term; try reflexivity. cbn [last_match fold_left].
    now rewrite push_ann_filter.
Qed.

Lemma last_match_rev r L : forall best,
  last_match r L best = match rev (filter (ref_matches r) L) with [] => best | e :: _ => Some e end.
Proof.
  unfold last_match. induction L as [|it L IH]; intros best; [reflexivity|].
  cbn [fold_left filter]. rewrite IH. destruct (ref_matches r it).
  - cbn [rev]. destruct (rev (filter (ref_matches r) L)); reflexivity.
  - reflexivity.
Qed.

Theorem get_first_scan st tip r fuel :
  snd (chain st tip fuel) <> RFuel -> get_first_for_ref st tip r fuel = scan_first r (chain st tip fuel).
Proof.
  unfold chain, get_first_for_ref, scan_first. destruct (latest_entry st tip) as [it0|e] eqn:El; cbn [snd]; [|reflexivity].
  destruct (chain_from st fuel it0) as [L term] eqn:Ec. cbn [snd]. intros Ht.
  destruct (chain_from_head _ _ _ _ _ Ec Ht) as [L' ->].
  rewrite (first_scan st r fuel it0 [] None _ _ Ec Ht fuel) by lia.
  destruct term; try reflexivity. rewrite last_match_rev. cbn [app].
  destruct (rev (filter (ref_matches r) (it0 :: L'))); reflexivity.
Qed.

(** *** range *)
Lemma chain_from_suffix st : forall f it pre x rest term,
  chain_from st f it = (pre ++ x :: rest, term) -> term <> RFuel ->
  exists g, g <= f /\ chain_from st g x = (x :: rest, term).
Proof.
  induction f as [|f IH]; intros it pre x rest term Hc Ht; [cbn in Hc; inversion Hc; congruence|].
  destruct pre as [|y pre].
  - cbn [app] in Hc. destruct (chain_from_head _ _ _ _ _ Hc Ht) as [L' E]. inversion E; subst.
    exists (S f). split; [lia|assumption].
  - cbn in Hc. destruct (get_parent st it) as [p|e] eqn:Ep.
    + destruct (chain_from st f p) as [l e'] eqn:Ec. inversion Hc; subst.
      destruct (IH _ _ _ _ _ Ec Ht) as (g & Hg & Hx). exists g; split; [lia|assumption].
    + inversion Hc. destruct pre; discriminate.
Qed.

Lemma range1_scan st last : forall f it anns L term,
  chain_from st f it = (L, term) -> term <> RFuel ->
  forall f', f <= f' ->
  range_walk1 st last f' it anns =
    match split_at_id last L with
    | None => RErr term
    | Some (pre, itl, _) => ROk (itl, anns ++ filter (fun x => is_ann (snd x)) pre)
    end.
Proof.
  induction f as [|f IH]; intros it anns L term Hc Ht f' Hf; cbn in Hc; [inversion Hc; congruence|].
  destruct f' as [|f']; [lia|]. cbn [range_walk1].
  destruct (get_parent st it) as [p|e] eqn:Ep.
  - destruct (chain_from st f p) as [l e'] eqn:Ec. inversion Hc; subst. cbn [split_at_id].
    destruct (N.eqb (fst it) last); [cbn; now rewrite app_nil_r|].
    rewrite (IH _ _ _ _ Ec Ht) by lia. destruct (split_at_id last l) as [[[pre x] post]|]; [|reflexivity].
    rewrite push_ann_filter. cbn [filter]. rewrite <- app_assoc. now destruct (is_ann (snd it)).
  - inversion Hc; subst. cbn [split_at_id]. destruct (N.eqb (fst it) last); [cbn; now rewrite app_nil_r|reflexivity].
Qed.

Lemma range2_scan st first r : forall f it anns stack L term,
  chain_from st f it = (L, term) -> term <> RFuel ->
  forall f', f <= f' ->
  range_walk2 st first r f' it anns stack =
    match split_at_id first L with
    | None => RErr term
    | Some (mid, itf, _) =>
        ROk (stack ++ filter (fun x => range_relevant r (snd x)) (mid ++ [itf]),
             anns ++ filter (fun x => is_ann (snd x)) mid)
    end.
Proof.
  induction f as [|f IH]; intros it anns stack L term Hc Ht f' Hf; cbn in Hc; [inversion Hc; congruence|].
  destruct f' as [|f']; [lia|]. cbn [range_walk2].
  destruct (get_parent st it) as [p|e] eqn:Ep.
  - destruct (chain_from st f p) as [l e'] eqn:Ec. inversion Hc; subst. cbn [split_at_id].
    destruct (N.eqb (fst it) first).
    + cbn [app filter]. rewrite app_nil_r. destruct (range_relevant r (snd it)); [reflexivity|now rewrite app_nil_r].
    + rewrite (IH _ _ _ _ _ Ec Ht) by lia. destruct (split_at_id first l) as [[[mid x] post]|]; [|reflexivity].
      rewrite push_ann_filter. cbn [app filter]. rewrite <- !app_assoc.
      destruct (range_relevant r (snd it)); destruct (is_ann (snd it)); cbn [app]; rewrite <- ?app_assoc; reflexivity.
  - inversion Hc; subst. cbn [split_at_id]. destruct (N.eqb (fst it) first); [|reflexivity].
    cbn [app filter]. rewrite app_nil_r. destruct (range_relevant r (snd it)); [reflexivity|now rewrite app_nil_r].
Qed.

Lemma split_at_id_app i L pre x post : split_at_id i L = Some (pre, x, post) -> L = pre ++ x :: post.
Proof.
  revert pre; induction L as [|it L IH]; intros pre; cbn; [discriminate|].
  destruct (N.eqb (fst it) i); [intros [= <- <- <-]; reflexivity|].
  destruct (split_at_id i L) as [[[pre' x'] post']|]; [|discriminate].
  intros [= <- <- <-]. cbn. f_equal. now apply IH.
Qed.

Theorem get_range_scan st tip first last r fuel :
  snd (chain st tip fuel) <> RFuel ->
  get_range st tip first last r fuel = scan_range first last r (chain st tip fuel).
Proof.
  unfold chain, get_range, scan_range. destruct (latest_entry st tip) as [it0|e] eqn:El; cbn [snd]; [|reflexivity].
  destruct (chain_from st fuel it0) as [L term] eqn:Ec. cbn [snd]. intros Ht.
  destruct (chain_from_head _ _ _ _ _ Ec Ht) as [L' EL]. rewrite EL at 1.
  rewrite (range1_scan st last fuel it0 [] _ _ Ec Ht fuel) by lia.
  destruct (split_at_id last L) as [[[pre itl] rest]|] eqn:Es; [|reflexivity].
  pose proof (split_at_id_app _ _ _ _ _ Es) as EL2. rewrite EL2 in Ec.
  destruct (chain_from_suffix _ _ _ _ _ _ _ Ec Ht) as (g & Hg & Hx).
  rewrite (range2_scan st first r g itl _ [] _ _ Hx Ht fuel) by lia.
  destruct (split_at_id first (itl :: rest)) as [[[mid itf] post]|]; [|reflexivity].
  cbn [app]. now rewrite (filter_app _ pre mid).
Qed.

(** *** consequences *)

(** the walk only ever contains entries linked by successful [get_parent] steps: nothing beyond a
    branch, a numbering break or a non-entry is on it *)
Lemma chain_from_linked st : forall f it L term,
  chain_from st f it = (L, term) ->
  forall pre x y post, L = pre ++ x :: y :: post -> get_parent st x = ROk y.
Proof.
  induction f as [|f IH]; intros it L term Hc pre x y post EL; cbn in Hc.
  - injection Hc as HL _. rewrite <- HL in EL. destruct pre; discriminate.
  - destruct (get_parent st it) as [p|e] eqn:Ep.
    + destruct (chain_from st f p) as [l e'] eqn:Ec. injection Hc as HL _. rewrite <- HL in EL.
      destruct pre as [|z pre]; cbn in EL; injection EL as E1 E2.
      * rewrite <- E1. destruct f; cbn in Ec; [injection Ec as El _; rewrite <- El in E2; discriminate|].
        destruct (get_parent st p) as [q|e2]; [destruct (chain_from st f q)|]; injection Ec as El _;
          rewrite <- El in E2; injection E2 as E3 _; rewrite <- E3; assumption.
      * eapply IH; eauto.
    + injection Hc as HL _. rewrite <- HL in EL. destruct pre as [|z [|z' pre]]; discriminate.
Qed.

(** fail closed: a result is always an entry of the walk *)
Lemma scan_search_in o : forall L term anns e a, scan_search o L term anns = ROk (e, a) -> In e L.
Proof.
  induction L as [|it L IH]; intros term anns e a; cbn [scan_search]; [discriminate|].
  destruct (matches o anns it); [intros [= <- _]; now left|].
  destruct (match o_until_id o with Some _ => _ | None => _ end); [discriminate|].
  destruct L as [|p L]; [discriminate|]. destruct (_ && _); [discriminate|].
  intros H. right. eapply IH; eauto.
Qed.

Lemma scan_before_suffix o : forall L term anns a rest,
  scan_before o L term anns = ROk (a, rest) -> exists pre, L = pre ++ rest.
Proof.
  induction L as [|it L IH]; intros term anns a rest; cbn [scan_before]; [discriminate|].
  destruct (is_anchor o it).
  - destruct L; [discriminate|]. intros [= <- <-]. now exists [it].
  - destruct L as [|p L]; [discriminate|]. destruct (_ <? _)%N; [discriminate|].
    intros H. destruct (IH _ _ _ _ H) as [pre ->]. now exists (it :: pre).
Qed.

Theorem scan_latest_in o L term e a : scan_latest o (L, term) = ROk (e, a) -> In e L.
Proof.
  unfold scan_latest. destruct (opts_invalid o); [discriminate|]. destruct L as [|it0 L]; [discriminate|].
  destruct (_ && _); [discriminate|]. destruct (_ && _); [discriminate|].
  destruct (before_set o).
  - destruct (scan_before o (it0 :: L) term []) as [[a1 rest]|] eqn:Eb; [|discriminate].
    destruct (scan_before_suffix _ _ _ _ _ _ Eb) as [pre ->]. intros H.
    apply in_or_app. right. eapply scan_search_in; eauto.
  - apply scan_search_in.
Qed.

(** first match: without bounds, the result is the newest entry of the walk that satisfies the
    conditions, judged with exactly the annotations recorded after it; the annotations returned are
    exactly those recorded after it that refer to it *)
Definition no_bounds (o : opts) : Prop :=
  o_before_id o = None /\ o_before_num o = 0%N /\ o_until_id o = None /\ o_until_num o = 0%N.

Lemma scan_search_first o : o_until_id o = None -> o_until_num o = 0%N ->
  forall L term anns e a, scan_search o L term anns = ROk (e, a) ->
  exists pre post, L = pre ++ e :: post /\
    let seen := anns ++ filter (fun x => is_ann (snd x)) pre in
    matches o seen e = true /\ a = relevant_anns seen (fst e) /\
    (forall pre1 x pre2, pre = pre1 ++ x :: pre2 ->
       matches o (anns ++ filter (fun x => is_ann (snd x)) pre1) x = false).
Proof.
  intros Hu Hn. induction L as [|it L IH]; intros term anns e a; cbn [scan_search]; [discriminate|].
  rewrite Hu, Hn. cbn [N.eqb negb andb].
  destruct (matches o anns it) eqn:Em.
  - intros [= <- <-]. exists [], L. cbn. rewrite app_nil_r. repeat split; try assumption.
    intros pre1 x pre2 E. destruct pre1; discriminate.
  - destruct L as [|p L]; [discriminate|]. intros H.
    destruct (IH _ _ _ _ H) as (pre & post & EL & Hm & Ha & Hf).
    exists (it :: pre), post. rewrite EL. split; [reflexivity|].
    rewrite push_ann_filter in Hm, Ha, Hf. cbn [filter] in *. cbn zeta in *.
    assert (forall l, (anns ++ (if is_ann (snd it) then [it] else [])) ++ l
                      = anns ++ (if is_ann (snd it) then it :: l else l)) as Hre.
    { intros l. rewrite <- app_assoc. now destruct (is_ann (snd it)). }
    rewrite Hre in Hm, Ha. repeat split; try assumption.
    intros pre1 x pre2 E. destruct pre1 as [|z pre1]; cbn in E; inversion E; subst.
    + cbn. now rewrite app_nil_r.
    + specialize (Hf pre1 x pre2 eq_refl). rewrite Hre in Hf. exact Hf.
Qed.

(** sufficient fuel: in a store whose parents were created before their children (what content
    addressing guarantees; ids are numbered in creation order) the walk never runs out of fuel *)
Definition parents_older (st : store) : Prop :=
  forall i c p, lookup st i = Some c -> In p (c_parents c) -> (p < i)%N.

Lemma get_parent_older st it p : parents_older st -> get_parent st it = ROk p -> (fst p < fst it)%N.
Proof.
  intros Hw. unfold get_parent. destruct (lookup st (fst it)) as [c|] eqn:El; [|discriminate].
  destruct (c_parents c) as [|q [|q' qs]] eqn:Ep; try discriminate.
  unfold get_entry. destruct (lookup st q) as [c'|]; [|discriminate].
  destruct (c_entry c'); [|discriminate]. cbn [snd].
  assert (q < fst it)%N by (apply (Hw _ _ _ El); rewrite Ep; now left).
  destruct (_ <=? _)%N; destruct (N.eqb _ _); intros [= <-]; assumption.
Qed.

Lemma get_parent_not_fuel st it e : get_parent st it = RErr e -> e <> RFuel.
Proof.
  unfold get_parent. destruct (lookup st (fst it)) as [c|]; [|intros [= <-]; discriminate].
  destruct (c_parents c) as [|q [|q' qs]]; try (intros [= <-]; discriminate).
  unfold get_entry. destruct (lookup st q) as [c'|]; [|intros [= <-]; discriminate].
  destruct (c_entry c'); [|intros [= <-]; discriminate].
  destruct (_ <=? _)%N; destruct (N.eqb _ _); intros H; inversion H; subst; discriminate.
Qed.

Lemma chain_from_fuel st : parents_older st ->
  forall f it, N.to_nat (fst it) < f -> snd (chain_from st f it) <> RFuel.
Proof.
  intros Hw. induction f as [|f IH]; intros it Hf; [lia|]. cbn.
  destruct (get_parent st it) as [p|e] eqn:Ep.
  - pose proof (get_parent_older _ _ _ Hw Ep). specialize (IH p).
    destruct (chain_from st f p). cbn [snd] in *. apply IH. unfold ent, id in *. lia.
  - cbn. now apply (get_parent_not_fuel st it).
Qed.

Theorem chain_fuel st tip : parents_older st ->
  forall f, (match tip with Some t => N.to_nat t < f | None => True end) -> snd (chain st tip f) <> RFuel.
Proof.
  intros Hw f Hf. unfold chain, latest_entry. destruct tip as [t|]; [|cbn; discriminate].
  unfold get_entry. destruct (lookup st t); [|cbn; discriminate]. destruct (c_entry c); [|cbn; discriminate].
  apply chain_from_fuel; assumption.
Qed.
