(** Property C05 — thresholds count distinct trusted principals, each with a distinct valid key.
    Only statements here; proofs are in SigProofs.v. *)
From GV Require Import Sig SigProofs C19Exact.

(** Soundness, injectivity, one-Git-credit.  Whenever [SignatureVerifier.Verify] accepts with the
    set [S], there is an assignment [W] of keys to exactly the members of [S] such that: the
    principals are distinct, the keys are distinct (a shared key credits one principal; several
    keys of one person count once), every key belongs to the principal it is assigned to, at most
    one assignment (the first) is justified by the Git object's own signature, and every other one
    by an envelope signature made by that very key over exactly this payload (signatures by keys
    outside the rule, over other content, or repeated justify nothing).  Unless the verifier is
    the exhaustive one, |S| reaches the threshold; the threshold is at least 1 and the rule has
    principals. *)
Theorem C05_sound : forall v hg g env S W,
  verify_w v hg g env = (VOkSet S, W) ->
  S = map fst W /\ NoDup S /\ NoDup (map snd W) /\
  (exists wg we, W = wg ++ we /\ List.length wg <= 1 /\
     Forall (justified_git v hg g) wg /\ Forall (justified_env (v_principals v) (sigs_of env)) we) /\
  (v_exhaustive v = false -> (v_threshold v <= Z.of_nat (List.length S))%Z) /\
  (1 <= v_threshold v)%Z /\ v_principals v <> [].
Proof. exact verify_sound. Qed.
Print Assumptions C05_sound.

(** A rule with a threshold below one or with no principals is never satisfied. *)
Theorem C05_degenerate : forall v hg g env,
  (v_threshold v < 1)%Z \/ v_principals v = [] -> verify v hg g env = VErr EInvalidVerifier [].
Proof. exact verify_degenerate. Qed.
Print Assumptions C05_degenerate.

(** Exactness when no key is shared ("satisfied whenever enough of them signed") is NOT yet a
    theorem: it is stated as the boolean [must_accept] in C05Check.v and evaluated against the
    implementation's answer on every generated case (C05_exact_partial = checked, not proved). *)

(** Non-vacuity / the property's own examples, computed on the model. *)
Definition P (i : N) (ks : list key) := {| p_id := i; p_keys := ks |}.
Definition Sg (k : key) := {| s_hint := k; s_signer := k; s_valid := true |}.

Example C05_two_keys_of_one_person_count_once :
  verify {| v_principals := [P 1 [1; 2]%N; P 2 [3]%N]; v_threshold := 2; v_exhaustive := false |}
         false 0%N (Some [Sg 1%N; Sg 2%N]) = VErr EUnmet [1%N].
Proof. vm_compute. reflexivity. Qed.

Example C05_shared_key_counts_once :
  verify {| v_principals := [P 1 [1]%N; P 2 [1]%N]; v_threshold := 2; v_exhaustive := false |}
         false 0%N (Some [Sg 1%N]) = VErr EUnmet [1%N].
Proof. vm_compute. reflexivity. Qed.

Example C05_git_plus_envelope :
  verify {| v_principals := [P 1 [1]%N; P 2 [2]%N]; v_threshold := 2; v_exhaustive := false |}
         true 1%N (Some [Sg 2%N; Sg 9%N; {| s_hint := 2%N; s_signer := 2%N; s_valid := false |}]) = VOkSet [1%N; 2%N].
Proof. vm_compute. reflexivity. Qed.

(** Exactness for principals that each hold one key and share none: the approvals alone are
    accepted exactly when the principals whose key validly signed the envelope number at least the
    threshold - no valid signer is left out, none is counted twice. *)
Theorem C05_exact_for_single_key_principals : forall v sigs,
  simple (v_principals v) -> sigs <> [] -> v_exhaustive v = false -> (1 < v_threshold v)%Z -> v_principals v <> [] ->
  verify v false 0%N (Some sigs) =
  if (v_threshold v <=? Z.of_nat (List.length (cred (v_principals v) sigs [])))%Z
  then VOkSet (cred (v_principals v) sigs []) else VErr EUnmet (cred (v_principals v) sigs []).
Proof. exact verify_without. Qed.
Print Assumptions C05_exact_for_single_key_principals.

(** ... and the object's own signature adds exactly its holder, if the holder is a principal of the
    verifier that the envelope has not credited. *)
Theorem C05_object_signature_adds_its_holder : forall v sigs,
  simple (v_principals v) -> sigs <> [] -> v_exhaustive v = false -> (1 < v_threshold v)%Z -> v_principals v <> [] ->
  forall g p, In p (v_principals v) -> key_of p = g -> ~ In (p_id p) (cred (v_principals v) sigs []) ->
  (v_threshold v - 1 <= Z.of_nat (List.length (cred (v_principals v) sigs [])))%Z ->
  exists s, verify v true g (Some sigs) = VOkSet s.
Proof. exact recorder_adds_one. Qed.
Print Assumptions C05_object_signature_adds_its_holder.
