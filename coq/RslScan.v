(** C04 specification: the readers as plain scans of the chain, i.e. list programs over the
    maximal lazy walk [chain] of the log (newest first, with the error that ended the walk). *)
From GV Require Export RslStore.

Fixpoint chain_from (st : store) (fuel : nat) (it : ent) : list ent * rerr :=
  match fuel with
  | 0 => ([], RFuel)
  | S f =>
      match get_parent st it with
      | RErr e => ([it], e)
      | ROk p => let '(l, e) := chain_from st f p in (it :: l, e)
      end
  end.

Definition chain (st : store) (tip : option id) (fuel : nat) : list ent * rerr :=
  match latest_entry st tip with
  | RErr e => ([], e)
  | ROk it0 => chain_from st fuel it0
  end.

(** *** latest *)
Fixpoint scan_before (o : opts) (L : list ent) (term : rerr) (anns : list ent) : rres (list ent * list ent) :=
  match L with
  | [] => RErr term
  | it :: L' =>
      if is_anchor o it then
        match L' with [] => RErr term | _ => ROk (push_ann anns it, L') end
      else
        match L' with
        | [] => RErr term
        | p :: _ => if (enum (snd p) <? o_until_num o)%N then RErr RBadOpts
                    else scan_before o L' term (push_ann anns it)
        end
  end.

Fixpoint scan_search (o : opts) (L : list ent) (term : rerr) (anns : list ent) : rres (ent * list ent) :=
  match L with
  | [] => RErr term
  | it :: L' =>
      if matches o anns it then ROk (it, relevant_anns anns (fst it))
      else if (match o_until_id o with Some u => N.eqb (fst it) u | None => false end) then RErr RNotFound
      else
        match L' with
        | [] => RErr term
        | p :: _ =>
            if negb (N.eqb (o_until_num o) 0) && (enum (snd p) <? o_until_num o)%N then RErr RNotFound
            else scan_search o L' term (push_ann anns it)
        end
  end.

Definition scan_latest (o : opts) (c : list ent * rerr) : rres (ent * list ent) :=
  let '(L, term) := c in
  if opts_invalid o then RErr RBadOpts
  else
    match L with
    | [] => RErr term
    | it0 :: _ =>
        if N.eqb (enum (snd it0)) 0 && (negb (N.eqb (o_before_num o) 0) || negb (N.eqb (o_until_num o) 0))
        then RErr RNoNumbers
        else if negb (N.eqb (enum (snd it0)) 0) && negb (N.eqb (o_until_num o) 0) && (enum (snd it0) <? o_until_num o)%N
        then RErr RUntilNum
        else if before_set o then
          match scan_before o L term [] with
          | RErr e => RErr e
          | ROk (anns, rest) => scan_search o rest term anns
          end
        else scan_search o L term []
    end.

(** *** first *)
Definition ref_matches (r : bytes) (it : ent) : bool :=
  match eref (snd it) with Some r' => beq r [] || beq r' r | None => false end.

Definition scan_first (r : bytes) (c : list ent * rerr) : rres (ent * list ent) :=
  let '(L, term) := c in
  match L with
  | [] => RErr term
  | _ =>
      match term with
      | RNotFound =>
          match rev (filter (ref_matches r) L) with
          | [] => RErr RNotFound
          | e :: _ => ROk (e, relevant_anns (filter (fun x => is_ann (snd x)) L) (fst e))
          end
      | e => RErr e
      end
  end.

(** *** range *)
Fixpoint split_at_id (i : id) (L : list ent) : option (list ent * ent * list ent) :=
  match L with
  | [] => None
  | it :: L' =>
      if N.eqb (fst it) i then Some ([], it, L')
      else match split_at_id i L' with
           | Some (pre, x, post) => Some (it :: pre, x, post)
           | None => None
           end
  end.

Definition scan_range (first last : id) (r : bytes) (c : list ent * rerr) : rres (list ent * list (id * list ent)) :=
  let '(L, term) := c in
  match L with
  | [] => RErr term
  | _ =>
      match split_at_id last L with
      | None => RErr term
      | Some (pre, itl, rest) =>
          match split_at_id first (itl :: rest) with
          | None => RErr term
          | Some (mid, itf, _) =>
              let entries := rev (filter (fun x => range_relevant r (snd x)) (mid ++ [itf])) in
              let anns := filter (fun x => is_ann (snd x)) (pre ++ mid) in
              ROk (entries, ann_map_for entries anns)
          end
      end
  end.
