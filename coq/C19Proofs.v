(** C19 proofs: what the mergeability relaxation computes, and how a recorder's signature changes a
    verifier's answer. *)
From GV Require Import Mergeable C19Check WorldExamples.
From Coq Require Import Strings.String.

Definition short_by_recorder (v : vrec) (s : list pid) : Prop :=
  (1 < vr_thr v)%Z /\ (vr_thr v - 1 <= Z.of_nat (List.length s))%Z /\ ~ (vr_thr v <= Z.of_nat (List.length s))%Z.

(** the answer of the delegation part names a verifier of the branch and says exactly how far it is
    from its threshold *)
Lemma first_mergeable_sound : forall vs env s need, first_mergeable vs env = Some (s, need) ->
  exists v, In v vs /\
    ((verify (vrec_verifier v) false 0%N env = VOkSet s /\ need = false) \/
     (verify (vrec_verifier v) false 0%N env = VErr EUnmet s /\
      (((vr_thr v <= Z.of_nat (List.length s))%Z /\ need = false) \/ (short_by_recorder v s /\ need = true)))).
Proof.
  induction vs as [|v vs IH]; intros env s need H; cbn [first_mergeable] in H; [discriminate|].
  destruct (verify (vrec_verifier v) false 0%N env) as [s0|e s0] eqn:Hv.
  - injection H as <- <-. exists v. split; [left; reflexivity|]. left. split; [exact Hv|reflexivity].
  - destruct e; try discriminate.
    destruct (vr_thr v <=? Z.of_nat (List.length s0))%Z eqn:H1.
    + injection H as <- <-. exists v. split; [left; reflexivity|]. right. split; [exact Hv|]. left. split; [lia|reflexivity].
    + destruct ((1 <? vr_thr v)%Z && (vr_thr v - 1 <=? Z.of_nat (List.length s0))%Z) eqn:H2.
      * injection H as <- <-. apply andb_true_iff in H2. destruct H2 as [H2 H3].
        exists v. split; [left; reflexivity|]. right. split; [exact Hv|]. right. split; [|reflexivity].
        unfold short_by_recorder. lia.
      * destruct (IH env s need H) as [v' [Hin Hr]]. exists v'. split; [right; exact Hin|exact Hr].
Qed.

(** a recorder that holds no key of the rule (unsigned, unknown key, unauthorised principal) leaves
    the verifier's answer exactly as predicted *)
Lemma outsider_changes_nothing v k env :
  git_phase (v_principals v) k = None -> verify v true k env = verify v false 0%N env.
Proof. intros H. unfold verify, verify_w. rewrite H. reflexivity. Qed.

Lemma git_phase_unsigned ps : git_phase ps 0%N = None.
Proof. induction ps as [|p ps IH]; cbn [git_phase]; [reflexivity|]. rewrite N.eqb_refl. cbn. exact IH. Qed.

Lemma git_phase_none ps k : (forall p, In p ps -> mem k (p_keys p) = false) -> git_phase ps k = None.
Proof.
  induction ps as [|p ps IH]; intros H; cbn [git_phase]; [reflexivity|].
  rewrite (H p (or_introl eq_refl)), andb_false_r. apply IH. intros q Hq. apply H. right. exact Hq.
Qed.

Lemma git_phase_some ps k : k <> 0%N -> (exists p, In p ps /\ mem k (p_keys p) = true) ->
  exists p, In p ps /\ mem k (p_keys p) = true /\ git_phase ps k = Some (p_id p, k).
Proof.
  intros Hk. induction ps as [|p ps IH]; intros [q [Hq Hm]]; [destruct Hq|].
  cbn [git_phase]. destruct (mem k (p_keys p)) eqn:Hp.
  - exists p. split; [left; reflexivity|]. split; [exact Hp|].
    destruct (N.eqb_spec k 0); [contradiction|]. reflexivity.
  - rewrite andb_false_r. destruct Hq as [<-|Hq]; [congruence|].
    destruct (IH (ex_intro _ q (conj Hq Hm))) as [p' [Hin [Hm' Hg]]].
    exists p'. split; [right; exact Hin|]. split; assumption.
Qed.

(** no approvals: the mergeability check never answers "possible" for a protected branch ... *)
Lemma verify_no_env v : (1 <= v_threshold v)%Z -> v_principals v <> [] -> v_exhaustive v = false ->
  verify v false 0%N None = VErr EUnmet [].
Proof.
  intros Ht Hp He. unfold verify, verify_w.
  destruct (Z.ltb_spec (v_threshold v) 1); [lia|]. destruct (v_principals v) as [|p ps] eqn:E; [contradiction|].
  cbn [List.length Nat.eqb orb]. rewrite He. cbn [negb andb orb].
  rewrite andb_false_r. cbn [List.length Z.of_nat].
  destruct (Z.leb_spec (v_threshold v) 0); [lia|]. reflexivity.
Qed.

Lemma verify_no_env_cases v : v_exhaustive v = false ->
  verify v false 0%N None = VErr EInvalidVerifier [] \/ ((1 <= v_threshold v)%Z /\ verify v false 0%N None = VErr EUnmet []).
Proof.
  intros He. destruct (Z.ltb_spec (v_threshold v) 1) as [Hlt|Hge].
  - left. unfold verify, verify_w. destruct (Z.ltb_spec (v_threshold v) 1); [reflexivity|lia].
  - destruct (v_principals v) as [|p ps] eqn:E.
    + left. unfold verify, verify_w. rewrite E. cbn [List.length Nat.eqb]. rewrite orb_true_r. reflexivity.
    + right. split; [exact Hge|]. apply verify_no_env; [exact Hge|rewrite E; discriminate|exact He].
Qed.

Lemma no_approvals_never_mergeable : forall vs, first_mergeable vs None = None.
Proof.
  induction vs as [|v vs IH]; [reflexivity|]. cbn [first_mergeable].
  destruct (verify_no_env_cases (vrec_verifier v) eq_refl) as [H|[Ht H]]; rewrite H; [reflexivity|].
  cbn [v_threshold vrec_verifier List.length Z.of_nat] in *.
  destruct (Z.leb_spec (vr_thr v) 0); [lia|].
  destruct (Z.ltb_spec 1 (vr_thr v)); destruct (Z.leb_spec (vr_thr v - 1) 0); cbn [andb]; try lia; exact IH.
Qed.

(** ... although a threshold-1 rule is satisfied by the recorder's own signature *)
Lemma threshold_one_recorder_verifies v k env : v_threshold v = 1%Z -> v_exhaustive v = false -> k <> 0%N ->
  (exists p, In p (v_principals v) /\ mem k (p_keys p) = true) ->
  exists p, In p (v_principals v) /\ mem k (p_keys p) = true /\ verify v true k env = VOkSet [p_id p].
Proof.
  intros Ht He Hk Hex. destruct (git_phase_some _ k Hk Hex) as [p [Hin [Hm Hg]]].
  exists p. split; [exact Hin|]. split; [exact Hm|].
  unfold verify, verify_w. rewrite Ht, He, Hg. cbn [Z.ltb Z.compare orb].
  destruct (v_principals v); [destruct Hin|]. reflexivity.
Qed.

(** the refuted clauses, on concrete worlds (the harness replays these shapes on the implementation) *)
Definition featref : bytes := Eval compute in bs "refs/heads/feature"%string.

(** K6: threshold-1 rule, no approvals *)
Definition w_k6 : world :=
  {| w_log := [WEPolicy pol1; WERef mainref 2%N 4%N; WERef featref 3%N 5%N]; w_commits := commits4 |}.

(** K9: the rule is met by an approval; a global threshold of 3 is short by one principal *)
Definition pol9 : pstate :=
  {| ps_root_version := 2%N; ps_root_keys := [1%N]; ps_root_thr := 1; ps_targets_keys := [2%N]; ps_targets_thr := 1;
     ps_has_targets_role := true; ps_root_signers := [1%N];
     ps_files := [(TargetsRole, {| sf_file := {| f_defs := [(101%N, [4%N]); (102%N, [5%N]); (103%N, [6%N])];
                                                  f_rules := [ {| r_name := pm_name; r_patterns := [main_pat];
                                                                  r_term := false; r_pids := [102%N]; r_thr := 1 |}; allow ] |};
                                     sf_version := 2%N; sf_signers := [2%N] |})];
     ps_globals := [GThreshold pm_name [main_pat] 3] |}.
Definition w_k9 : world :=
  {| w_log := [WEPolicy pol1; WERef mainref 2%N 4%N; WEPolicy pol9; WERef featref 3%N 4%N;
               WEAttest [ {| az_ref := mainref; az_from := 2%N; az_to := 3%N;
                             az_path_ref := mainref; az_path_from := 2%N; az_path_to := 3%N; az_signers := [5%N; 6%N] |} ]];
     w_commits := commits4 |}.

Lemma k6_refuted : verify_mergeable w_k6 mainref 3%N = MNotPossible /\ verify_full (with_merge w_k6 mainref 3%N 4%N) mainref = VTip 3%N.
Proof. vm_compute. split; reflexivity. Qed.

Lemma k9_refuted : verify_mergeable w_k9 mainref 3%N = MNotPossible /\ verify_full (with_merge w_k9 mainref 3%N 4%N) mainref = VTip 3%N.
Proof. vm_compute. split; reflexivity. Qed.

(** K10: principals sharing keys.  p1 holds k1,k2,k3; p2 holds k2; p3 holds k3; approvals by k2,k3 are all
    credited to p1 (one principal of three needed: "not possible"), but once k1 records the merge p1 is
    credited through the entry signature and p2, p3 through the approvals: threshold 3 is met. *)
Definition v_shared : verifier :=
  {| v_principals := [ {| p_id := 1%N; p_keys := [11%N; 12%N; 13%N] |}; {| p_id := 2%N; p_keys := [12%N] |}; {| p_id := 3%N; p_keys := [13%N] |} ];
     v_threshold := 3; v_exhaustive := false |}.
Lemma shared_keys_refuted :
  verify v_shared false 0%N (env_of [12%N; 13%N]) = VErr EUnmet [1%N] /\
  verify v_shared true 11%N (env_of [12%N; 13%N]) = VOkSet [1%N; 2%N; 3%N].
Proof. vm_compute. split; reflexivity. Qed.

(** non-vacuity: a world where the answer is "possible, signature needed" and one where none is needed *)
Definition pol2of2 : pstate :=
  {| ps_root_version := 2%N; ps_root_keys := [1%N]; ps_root_thr := 1; ps_targets_keys := [2%N]; ps_targets_thr := 1;
     ps_has_targets_role := true; ps_root_signers := [1%N];
     ps_files := [(TargetsRole, {| sf_file := {| f_defs := [(101%N, [4%N]); (102%N, [5%N]); (103%N, [6%N])];
                                                  f_rules := [ {| r_name := pm_name; r_patterns := [main_pat];
                                                                  r_term := false; r_pids := [101%N; 102%N; 103%N]; r_thr := 2 |}; allow ] |};
                                     sf_version := 2%N; sf_signers := [2%N] |})];
     ps_globals := [] |}.
Definition w_need (signers : list key) : world :=
  {| w_log := [WEPolicy pol1; WERef mainref 2%N 4%N; WEPolicy pol2of2; WERef featref 3%N 4%N;
               WEAttest [ {| az_ref := mainref; az_from := 2%N; az_to := 3%N;
                             az_path_ref := mainref; az_path_from := 2%N; az_path_to := 3%N; az_signers := signers |} ]];
     w_commits := commits4 |}.
Lemma need_example :
  verify_mergeable (w_need [5%N]) mainref 3%N = MPossible true /\ verify_full (with_merge (w_need [5%N]) mainref 3%N 4%N) mainref = VTip 3%N /\          (* authorised, not yet counted *)
  verify_full (with_merge (w_need [5%N]) mainref 3%N 5%N) mainref = VFail VEViolation /\   (* already counted *)
  verify_full (with_merge (w_need [5%N]) mainref 3%N 9%N) mainref = VFail VEViolation /\   (* unauthorised *)
  verify_full (with_merge (w_need [5%N]) mainref 3%N 0%N) mainref = VFail VEViolation /\   (* unsigned *)
  verify_mergeable (w_need [5%N; 6%N]) mainref 3%N = MPossible false /\ verify_full (with_merge (w_need [5%N; 6%N]) mainref 3%N 0%N) mainref = VTip 3%N.
Proof. vm_compute. repeat split; reflexivity. Qed.
