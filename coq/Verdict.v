(** Result of checking one case.  VMismatch: model and implementation disagree on a projected
    observable.  VSpec: the property's boolean specification is false on what the implementation
    returned.  VFinding: the case is an instance of a listed known finding. *)
Inductive verdict := VOk | VMismatch (what : nat) | VSpec (clause : nat) | VFinding (k : nat).
