(** Verifier family: case type and checker. *)
From GV Require Export World Reviews Tags FileRules Verdict.

Inductive vmode := MFull | MLatest | MFrom (i : nat).
Inductive wobs := WO (v : vout) | VPanic.
Definition wo_wrap (v : vout) := WO v.
Coercion wo_wrap : vout >-> wobs.

Inductive wcase :=
| WCase (w : world) (ref : bytes) (m : vmode) (obs : wobs)
| WFindingCase (k : nat) (w : world) (ref : bytes) (m : vmode) (obs : wobs)          (* replay of a listed finding *)
| WCaseMono (w w_noglobals : world) (ref : bytes) (m : vmode) (obs obs_ng : wobs)   (* C11: P with and without its global rules *)
| WReview (rw : rworld) (ref : bytes) (obs : wobs)
| WTagsMono (tw : tworld) (ref : bytes) (obs_g obs_ng : wobs)   (* C11: the tag history of [tw] under its policy plus global rules, and as it is *)
| WFilesMono (fw : fworld) (ref : bytes) (obs_g obs_ng : wobs)   (* C11: a history under file rules, under its policy plus global rules and as it is *)
| WTags (tw : tworld) (ref : bytes) (obs : wobs).                                    (* C01: entries of a tag reference *)                                  (* C09: latest-only verification with code-review approvals *)

Definition verr_eqb (a b : verr) : bool :=
  match a, b with
  | VEViolation, VEViolation | VENotSkipped, VENotSkipped | VELastGoodSkipped, VELastGoodSkipped
  | VEPolicy, VEPolicy | VENotFound, VENotFound | VEOther, VEOther => true
  | _, _ => false
  end.

Definition vout_eqb (a b : vout) : bool :=
  match a, b with
  | VTip x, VTip y => N.eqb x y
  | VFail x, VFail y => verr_eqb x y
  | _, _ => false
  end.

Definition vout_ok (a : vout) : bool := match a with VTip _ => true | VFail _ => false end.

Definition run_mode (w : world) (ref : bytes) (m : vmode) : vout :=
  match m with
  | MFull => verify_full w ref
  | MLatest => verify_latest w ref
  | MFrom i => verify_from w ref i
  end.

(** verdict classes: the property fixes success/failure and the tip; the error kind is tied by
    correspondence only *)
Definition check1 (w : world) (ref : bytes) (m : vmode) (o : wobs) : verdict :=
  match o with
  | VPanic => VSpec 9
  | WO o =>
      let mo := run_mode w ref m in
      if negb (Bool.eqb (vout_ok mo) (vout_ok o)) then VSpec 1
      else if vout_ok o && negb (vout_eqb mo o) then VSpec 2
      else if negb (vout_eqb mo o) then VMismatch 1
      else VOk
  end.

(** did the accepting run tolerate a violation through a recovery? (full and latest-only modes) *)
Definition range_of (w : world) (ref : bytes) (m : vmode) : option (nat * nat) :=
  match latest_for w ref (List.length (w_log w)) false false with
  | None => None
  | Some (l, _) =>
      match m with
      | MFull => match first_for w ref with Some (f, _) => Some (f, l) | None => None end
      | MLatest => Some (l, l)
      | MFrom i => Some (i, l)
      end
  end.

Definition run_has_recovery (w : world) (ref : bytes) (m : vmode) : bool :=
  match range_of w ref m with
  | None => false
  | Some (f, l) =>
      match initial_policy w f with
      | None => false
      | Some cur =>
          existsb (fun t => match t with TRecover _ _ _ => true | _ => false end)
                  (snd (verify_loop_tr w ref f (S (List.length (w_log w)) * 2) cur (range_entries w ref f l) []))
      end
  end.

Definition wcase_check (c : wcase) : verdict :=
  match c with
  | WCase w ref m o => check1 w ref m o
  | WFindingCase k w ref m o =>
      match check1 w ref m o with
      | VOk => match o with WO (VTip _) => VFinding k | _ => VOk end
      | v => v
      end
  | WReview rw ref o =>
      match o with
      | VPanic => VSpec 9
      | WO o =>
          let mo := verify_latest_r rw ref in
          (* accepted => a verifier is met by signatures plus approvals that are exactly about this change *)
          if vout_ok o && negb (latest_justified rw ref) then VSpec 4
          else if negb (vout_eqb mo o) then VMismatch 4 else VOk
      end
  | WTags tw ref o =>
      match o with
      | VPanic => VSpec 9
      | WO o =>
          if negb (tag_shape (tw_world tw) ref) then VMismatch 9
          else
            let mo := verify_full_tags tw ref in
            if negb (Bool.eqb (vout_ok mo) (vout_ok o)) then VSpec 5
            else if vout_ok o && negb (vout_eqb mo o) then VSpec 5 else VOk
      end
  | WTagsMono tw ref og o =>
      match o, og with
      | WO o, WO og =>
          if negb (tag_shape (tw_world tw) ref) then VMismatch 9
          else
            let mo := verify_full_tags tw ref in
            if negb (Bool.eqb (vout_ok mo) (vout_ok o)) then VSpec 5
            else if vout_ok o && negb (vout_eqb mo o) then VSpec 5
            (* declaring global rules never makes verification accept a tag history the delegation rules alone reject *)
            else if vout_ok og && negb (vout_ok o) then VSpec 3
            else VOk
      | _, _ => VSpec 9
      end
  | WFilesMono fw ref og o =>
      match o, og with
      | WO o, WO og =>
          if negb (c10_shape (fw_world fw) ref) then VMismatch 9
          else if negb (Bool.eqb (vout_ok (verify_full_files fw ref)) (vout_ok o)) then VMismatch 5   (* the file-rule clauses themselves are C10's *)
          else if vout_ok og && negb (vout_ok o) then VSpec 3
          else VOk
      | _, _ => VSpec 9
      end
  | WCaseMono w w' ref m o o' =>
      match check1 w ref m o, check1 w' ref m o' with
      | VOk, VOk =>
          (* declaring global rules never makes verification accept what the delegation rules alone reject *)
          match o, o' with
          | WO a, WO b =>
              if vout_ok a && negb (vout_ok b) then
                (* K14: with the global rules an entry became a violation that a recovery then tolerated
                   (its "fix" entry is not verified, K5); without them the history is rejected *)
                if run_has_recovery w ref m then VFinding 14 else VSpec 3
              else VOk
          | _, _ => VSpec 9
          end
      | VOk, v => v
      | v, _ => v
      end
  end.

Definition wcase_model (c : wcase) : vout :=
  match c with
  | WCase w ref m _ | WFindingCase _ w ref m _ | WCaseMono w _ ref m _ _ => run_mode w ref m
  | WReview rw ref _ => verify_latest_r rw ref
  | WTags tw ref _ | WTagsMono tw ref _ _ => verify_full_tags tw ref
  | WFilesMono fw ref _ _ => verify_full_files fw ref
  end.
