(** Property C13 — policy metadata stays well formed under edits, serialization and migration.
    Only statements here; proofs are in MetaProofs.v. *)
From GV Require Import Meta MetaProofs.

(** Rule files.  [targets_inv]: the rule list is non-empty and ends with the allow rule; no other
    rule carries the reserved prefix (so the allow rule occurs nowhere else); every rule has a
    threshold of at least one that its DISTINCT listed principals can meet; every principal a rule
    names is defined.  Every mutator, for arbitrary (also invalid) arguments, preserves it, and an
    edit that is refused returns the metadata unchanged. *)
Theorem C13_rule_file_step : forall t o, targets_inv t = true ->
  let '(e, t') := tstep t o in targets_inv t' = true /\ (e <> None -> t' = t).
Proof. exact tstep_inv. Qed.
Print Assumptions C13_rule_file_step.

Theorem C13_rule_file_sequences : forall ops, targets_inv (snd (trun new_targets ops)) = true.
Proof. intros ops. apply trun_inv. reflexivity. Qed.
Print Assumptions C13_rule_file_sequences.

(** Root and primary-rule-file roles in root metadata: thresholds at least one and at most the
    number of (distinct) principals of the role, every principal of a role defined. *)
Theorem C13_root_step : forall m o, root_inv m = true ->
  let '(e, m') := rstep m o in root_inv m' = true /\ (e <> None -> m' = m).
Proof. exact rstep_inv. Qed.
Print Assumptions C13_root_step.

Theorem C13_root_sequences : forall ops, root_inv (snd (rrun new_root ops)) = true.
Proof. intros ops. apply rrun_inv. reflexivity. Qed.
Print Assumptions C13_root_sequences.

(** C13_serialization_partial.  Query equivalence across JSON round trips and across the
    v01 -> v02 migration, uniqueness of rule names at the repository-API layer, and the remaining
    root mutators (global rules, propagation, controller/network, hooks, GitHub apps) are not
    modelled; round trip and migration are evaluated on every generated metadata object by the
    harness (dump through the query interface before/after) and reported as specification
    clauses 3 and 4 of the check. *)

Example C13_dup_ids_refused :
  fst (tstep (snd (tstep new_targets (TAddPrincipal 1))) (TAddRule [x72] [1%N; 1%N] [] 2)) = Some MCannotMeet.
Proof. vm_compute. reflexivity. Qed.
