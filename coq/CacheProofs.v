(** C08 proofs: a cache that holds exactly the policy entries of the log answers every lookup as
    the plain scan does; ordered insertion keeps the index sorted and adds exactly the inserted
    number. *)
From GV Require Import Cache.

Lemma sorted_tail x l : sorted (x :: l) -> sorted l.
Proof. cbn. tauto. Qed.

Lemma sorted_lt_all x l : sorted (x :: l) -> forall y, In y l -> x < y.
Proof.
  revert x; induction l as [|z l IH]; intros x H y Hy; [contradiction|].
  cbn in H. destruct H as [Hxz Hs]. destruct Hy as [<-|Hy]; [assumption|].
  assert (z < y) by (apply IH; assumption). lia.
Qed.

Lemma insert_In n l x : In x (insert n l) <-> x = n \/ In x l.
Proof.
  induction l as [|z l IH]; cbn [insert]; [cbn; intuition|].
  destruct (Nat.eqb_spec n z) as [->|Hne]; [cbn; intuition|].
  destruct (Nat.ltb n z); [cbn; intuition|]. cbn [In]. rewrite IH. intuition.
Qed.

Lemma insert_sorted n l : sorted l -> sorted (insert n l).
Proof.
  induction l as [|z l IH]; intros Hs; [cbn; auto|]. cbn [insert].
  destruct (Nat.eqb_spec n z) as [->|Hne]; [assumption|].
  destruct (Nat.ltb_spec n z) as [Hlt|Hge]; [cbn; auto|].
  pose proof (IH (sorted_tail _ _ Hs)) as Hi. cbn [sorted]. split; [|assumption].
  destruct (insert n l) as [|y l'] eqn:E; [exact I|].
  assert (In y (insert n l)) as Hy by (rewrite E; now left). apply insert_In in Hy as [->|Hy]; [lia|].
  eapply sorted_lt_all; eauto.
Qed.

Lemma filter_nil_all {A} (f : A -> bool) l : (forall y, In y l -> f y = false) -> filter f l = [].
Proof.
  induction l as [|y l IH]; intros H; [reflexivity|]. cbn. rewrite (H y (or_introl eq_refl)). apply IH.
  intros z Hz. apply H. now right.
Qed.

(** on a sorted index, [find_le] is the scan's answer *)
Theorem find_le_scan n : forall l, sorted l -> find_le n l = scan_le n l.
Proof.
  unfold scan_le. induction l as [|x l IH]; intros Hs; [reflexivity|]. cbn [find_le filter].
  destruct (Nat.leb_spec x n) as [Hle|Hgt].
  - rewrite (IH (sorted_tail _ _ Hs)). cbn [rev].
    destruct (rev (filter (fun y => Nat.leb y n) l)) as [|y r]; reflexivity.
  - rewrite filter_nil_all; [reflexivity|]. intros y Hy.
    pose proof (sorted_lt_all _ _ Hs y Hy). apply Nat.leb_gt. lia.
Qed.

(** a complete cache (exactly the policy entries of the log) answers as the scan over the log *)
Theorem complete_cache_equiv (cachel pol : list nat) n :
  sorted cachel -> cachel = pol -> find_le n cachel = scan_le n pol /\ latest cachel = latest pol /\ first cachel = first pol.
Proof. intros Hs ->. repeat split. now apply find_le_scan. Qed.

(** populating by insertion from any order yields the sorted set of what was inserted *)
Theorem populate_sorted (ns : list nat) : sorted (fold_right insert [] ns) /\ forall x, In x (fold_right insert [] ns) <-> In x ns.
Proof.
  induction ns as [|n ns [IH1 IH2]]; cbn; [split; [exact I|tauto]|]. split; [now apply insert_sorted|].
  intros x. rewrite insert_In, IH2. cbn [In]. intuition.
Qed.
