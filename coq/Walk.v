(** C06 model: fnmatch (flags 0, ASCII, bracket-free) and the delegation walk of
    State.findVerifiersForPathIfProtected (internal/policy/policy.go:467-546). *)
From GV Require Export Bytes.
From Coq Require Export ZArith.
From Coq Require Import Strings.String.

(** ** danwakefield/fnmatch.Match(pattern, s, 0) on ASCII byte strings without '[' *)
Definition STAR : byte := x2a.
Definition QMARK : byte := x3f.
Definition BSLASH : byte := x5c.
Definition LBRACK : byte := x5b.

Fixpoint drop_stars (p : bytes) : bytes :=
  match p with
  | c :: p' => if Byte.eqb c STAR then drop_stars p' else p
  | [] => []
  end.

Fixpoint fnm (fuel : nat) (p s : bytes) : bool :=
  match fuel with
  | 0 => false
  | S f =>
      match p with
      | [] => match s with [] => true | _ => false end
      | c :: p' =>
          if Byte.eqb c QMARK then match s with [] => false | _ :: s' => fnm f p' s' end
          else if Byte.eqb c STAR then
            let p'' := drop_stars p' in
            match p'' with
            | [] => true
            | _ =>
                (* every non-empty suffix of s, longest first *)
                (fix try (t : bytes) : bool :=
                   match t with
                   | [] => false
                   | _ :: t' => fnm f p'' t || try t'
                   end) s
            end
          else if Byte.eqb c LBRACK then false          (* bracket expressions: outside the modelled fragment *)
          else
            let '(c', p'') := if Byte.eqb c BSLASH then (match p' with x :: r => (x, r) | [] => (c, []) end) else (c, p') in
            match s with
            | [] => false
            | sc :: s' => Byte.eqb sc c' && fnm f p'' s'
            end
      end
  end.

Definition fnmatch (p s : bytes) : bool := fnm (S (List.length p + List.length s)) p s.

(** ** policy *)
Record rule := { r_name : bytes; r_patterns : list bytes; r_term : bool; r_pids : list N; r_thr : Z }.
Record rfile := { f_defs : list (N * list N); f_rules : list rule }.   (* principal id -> keys; rules incl. the trailing allow rule *)
Definition policy := list (bytes * rfile).

Definition TargetsRole : bytes := Eval compute in bs "targets"%string.

Fixpoint find_file (pol : policy) (name : bytes) : option rfile :=
  match pol with
  | [] => None
  | (n, f) :: pol' => if beq n name then Some f else find_file pol' name
  end.

Definition rule_matches (r : rule) (path : bytes) : bool := existsb (fun p => fnmatch p path) (r_patterns r).

(** a returned verifier: rule name, threshold, and for each listed principal id the keys the
    accumulated principal map gives it at that moment (None: undefined) *)
Record vrec := { vr_name : bytes; vr_thr : Z; vr_pr : list (N * option (list N)) }.

Fixpoint lookup_def (defs : list (N * list N)) (i : N) : option (list N) :=
  match defs with
  | [] => None
  | (j, ks) :: defs' => if N.eqb i j then Some ks else lookup_def defs' i
  end.

Definition mem_name (n : bytes) (l : list bytes) : bool := existsb (beq n) l.

Record wstate := { ws_queue : list (list rule); ws_seen : list bytes; ws_defs : list (N * list N); ws_out : list vrec }.

(** the inner loop over one group: [for len(group) > 1] *)
Fixpoint group_loop (pol : policy) (path : bytes) (g : list rule) (st : wstate) : wstate :=
  match g with
  | [] | [_] => st
  | r :: ((_ :: _) as g') =>
      if rule_matches r path then
        let v := {| vr_name := r_name r; vr_thr := r_thr r;
                    vr_pr := map (fun i => (i, lookup_def (ws_defs st) i)) (r_pids r) |} in
        let st1 := {| ws_queue := ws_queue st; ws_seen := ws_seen st; ws_defs := ws_defs st; ws_out := ws_out st ++ [v] |} in
        if mem_name (r_name r) (ws_seen st) then group_loop pol path g' st1
        else
          match find_file pol (r_name r) with
          | Some f =>
              let st2 := {| ws_queue := f_rules f :: ws_queue st1; ws_seen := r_name r :: ws_seen st1;
                            ws_defs := f_defs f ++ ws_defs st1;          (* later definitions override *)
                            ws_out := ws_out st1 |} in
              if r_term r then st2 else group_loop pol path g' st2
          | None => group_loop pol path g' st1
          end
      else group_loop pol path g' st
  end.

Inductive wres := WOk (vs : list vrec) | WNoPolicy | WFuel.

Fixpoint walk_loop (pol : policy) (path : bytes) (fuel : nat) (st : wstate) : wres :=
  match ws_queue st with
  | [] => WOk (ws_out st)
  | g :: q =>
      match fuel with
      | 0 => WFuel
      | S f =>
          walk_loop pol path f
            (group_loop pol path g {| ws_queue := q; ws_seen := ws_seen st; ws_defs := ws_defs st; ws_out := ws_out st |})
      end
  end.

Definition find_verifiers (pol : policy) (path : bytes) : wres :=
  match find_file pol TargetsRole with
  | None => WNoPolicy
  | Some f =>
      walk_loop pol path (S (List.length pol))
        {| ws_queue := [f_rules f]; ws_seen := [TargetsRole]; ws_defs := f_defs f; ws_out := [] |}
  end.
