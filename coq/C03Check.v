(** C03 / C17: case types and checkers. *)
From GV Require Export LogOps Verdict.

Definition lentry_eqb (a b : lentry) : bool :=
  match a, b with
  | LRef r t n, LRef r' t' n' => beq r r' && N.eqb t t' && N.eqb n n'
  | LAnn ts s n, LAnn ts' s' n' =>
      Nat.eqb (List.length ts) (List.length ts') && forallb (fun p => N.eqb (fst p) (snd p)) (combine ts ts')
      && Bool.eqb s s' && N.eqb n n'
  | LProp r t ur ue n, LProp r' t' ur' ue' n' => beq r r' && N.eqb t t' && beq ur ur' && N.eqb ue ue' && N.eqb n n'
  | _, _ => false
  end.

Definition cobj_eqb (a b : cobj) : bool :=
  Nat.eqb (List.length (c_parents a)) (List.length (c_parents b))
  && forallb (fun p => N.eqb (fst p) (snd p)) (combine (c_parents a) (c_parents b))
  && match c_entry a, c_entry b with
     | Some x, Some y => lentry_eqb x y
     | None, None => true
     | _, _ => false
     end.

Definition store_eqb (a b : store) : bool :=
  Nat.eqb (List.length a) (List.length b)
  && forallb (fun p => N.eqb (fst (fst p)) (fst (snd p)) && cobj_eqb (snd (fst p)) (snd (snd p))) (combine a b).

(** observed outcome of one operation: success with the id of the new entry, or failure *)
Inductive oobs := OOk (c : id) | OFail | OPanic.

Definition status_matches (w : wstatus) (o : oobs) : bool :=
  match w, o with
  | WDone true (Some c), OOk c' => N.eqb c c'
  | WDone false _, OFail => true
  | _, _ => false
  end.

(** after each operation: (tip, number of commits in the log) as read by the independent walker *)
Definition snap := (option id * nat)%type.

Fixpoint steps_ok (st : store) (prev : snap) (obs : list oobs) (snaps : list snap) : bool :=
  match obs, snaps with
  | [], [] => true
  | o :: obs', sn :: snaps' =>
      (match o with
       | OOk c =>
           opt_id_eqb (fst sn) (Some c) && Nat.eqb (snd sn) (S (snd prev))
           && match lookup st c with
              | Some co => Nat.eqb (List.length (c_parents co)) (List.length (opt_list (fst prev)))
                           && forallb (fun p => N.eqb (fst p) (snd p)) (combine (c_parents co) (opt_list (fst prev)))
              | None => false
              end
       | OFail => opt_id_eqb (fst sn) (fst prev) && Nat.eqb (snd sn) (snd prev)
       | OPanic => false
       end) && steps_ok st sn obs' snaps'
  | _, _ => false
  end.

Inductive c03case :=
| C03 (ops : list wop) (obs : list oobs) (snaps : list snap) (final : store) (tip : option id)
  (* an API built on the recording operations (automatic skipping of rewritten entries): the log
     before and after it, observed by the independent walker *)
| C03Api (before : store) (tip0 : option id) (after : store) (tip1 : option id) (err : bool).

(** the chain of [after] ends with the chain of [before]: append-only *)
Definition extends_chain (before : store) (tip0 : option id) (after : store) (tip1 : option id) : bool :=
  match chain_ids before (S (List.length before)) tip0, chain_ids after (S (List.length after)) tip1 with
  | Some l0, Some l1 =>
      let k := List.length l1 - List.length l0 in
      Nat.leb (List.length l0) (List.length l1)
      && (fix eqb (a b : list ent) : bool :=
            match a, b with
            | [], [] => true
            | x :: a', y :: b' => N.eqb (fst x) (fst y) && eqb a' b'
            | _, _ => false
            end) (skipn k l1) l0
  | _, _ => false
  end.

Definition c03_check (c : c03case) : verdict :=
  match c with
  | C03 ops obs snaps final tip =>
      if negb (ops_ok init_state ops) then VMismatch 8
      else if negb (log_ok final tip) then VSpec 1                      (* single chain, numbering *)
      else if negb (steps_ok final (None, 0) obs snaps) then VSpec 2    (* appends exactly what it reports *)
      else
        let '(s, ws) := run_ops init_state ops in
        if negb (Nat.eqb (List.length ws) (List.length obs) && forallb (fun p => status_matches (fst p) (snd p)) (combine ws obs))
        then VMismatch 1
        else if negb (store_eqb (ls_store s) final && opt_id_eqb (ls_tip s) tip) then VMismatch 2
        else VOk
  | C03Api before tip0 after tip1 err =>
      if negb (log_ok before tip0) then VMismatch 8
      else if negb (log_ok after tip1) then VSpec 1                     (* single chain, numbering *)
      else if negb (extends_chain before tip0 after tip1) then VSpec 3   (* append-only *)
      else if err && negb (opt_id_eqb tip0 tip1) then VSpec 2            (* a failed operation appends nothing *)
      else VOk
  end.

(** ** C17 *)
Definition count_in (c : id) (l : list ent) : nat := List.length (filter (fun x => N.eqb (fst x) c) l).

Definition chain_safe_b (st : store) (tip : option id) (base : nat) (obs : list oobs) : bool :=
  match chain_ids st (S (List.length st)) tip with
  | None => false
  | Some l =>
      forallb (fun o => match o with
                        | OOk c => Nat.eqb (count_in c l) 1
                        | OFail => true
                        | OPanic => false
                        end) obs
      && Nat.eqb (List.length l) (base + List.length (filter (fun o => match o with OOk _ => true | _ => false end) obs))
  end.

(** a failed writer's commit (if it created one) must not be on the chain *)
Definition failed_absent (st : store) (tip : option id) (failed_created : list id) : bool :=
  match chain_ids st (S (List.length st)) tip with
  | None => false
  | Some l => forallb (fun c => Nat.eqb (count_in c l) 0) failed_created
  end.

Inductive c17case :=
| C17 (prefix : list wop) (ops : list wop) (sched : list nat)
      (obs : list oobs) (failed_created : list id) (final : store) (tip : option id)
  (* real git: only the reachable part of the store is observed *)
| C17Real (prefix : list wop) (ops : list wop) (sched : list nat) (obs : list oobs) (reachable : store) (tip : option id).

Definition c17_check (c : c17case) : verdict :=
  match c with
  | C17 prefix ops sched obs failed final tip =>
      let '(s0, _) := run_ops init_state prefix in
      let base := match chain_ids (ls_store s0) (S (List.length (ls_store s0))) (ls_tip s0) with Some l => List.length l | None => 0 end in
      let '(s, ws) := exec s0 ops sched in
      let agree := Nat.eqb (List.length ws) (List.length obs)
                   && forallb (fun p => status_matches (fst p) (snd p)) (combine ws obs)
                   && store_eqb (ls_store s) final && opt_id_eqb (ls_tip s) tip in
      if negb (chain_safe_b final tip base obs && failed_absent final tip failed) then VSpec 1
      else if negb (log_ok final tip) then (if agree then VFinding 3 else VSpec 2)
      else if negb agree then VMismatch 1
      else VOk
  | C17Real prefix ops sched obs reach tip =>
      let '(s0, _) := run_ops init_state prefix in
      let base := match chain_ids (ls_store s0) (S (List.length (ls_store s0))) (ls_tip s0) with Some l => List.length l | None => 0 end in
      let '(s, ws) := exec s0 ops sched in
      let chain_eq :=
        match chain_ids (ls_store s) (S (List.length (ls_store s))) (ls_tip s), chain_ids reach (S (List.length reach)) tip with
        | Some a, Some b => Nat.eqb (List.length a) (List.length b)
                            && forallb (fun p => N.eqb (fst (fst p)) (fst (snd p)) && lentry_eqb (snd (fst p)) (snd (snd p))) (combine a b)
        | _, _ => false
        end in
      let agree := Nat.eqb (List.length ws) (List.length obs)
                   && forallb (fun p => status_matches (fst p) (snd p)) (combine ws obs) && chain_eq && opt_id_eqb (ls_tip s) tip in
      if negb (chain_safe_b reach tip base obs) then VSpec 1
      else if negb (log_ok reach tip) then (if agree then VFinding 3 else VSpec 2)
      else if negb agree then VMismatch 1
      else VOk
  end.
