(** Property C04 — RSL queries match a plain scan of the chain and fail closed on tampering.
    Only statements here; proofs are in RslScanProofs.v. *)
From GV Require Import RslStore RslScan RslScanProofs.

(** The readers of pkg/rsl (stepwise walkers over GetParentForEntry) equal, for every store, tip
    and query, the plain newest-to-oldest scan of the chain ([scan_*] are list programs over
    [chain], the maximal lazy walk with the error that ended it). *)
Theorem C04_latest : forall st tip o fuel,
  snd (chain st tip fuel) <> RFuel -> get_latest st tip o fuel = scan_latest o (chain st tip fuel).
Proof. exact get_latest_scan. Qed.
Print Assumptions C04_latest.

Theorem C04_first : forall st tip r fuel,
  snd (chain st tip fuel) <> RFuel -> get_first_for_ref st tip r fuel = scan_first r (chain st tip fuel).
Proof. exact get_first_scan. Qed.
Print Assumptions C04_first.

Theorem C04_range : forall st tip first last r fuel,
  snd (chain st tip fuel) <> RFuel ->
  get_range st tip first last r fuel = scan_range first last r (chain st tip fuel).
Proof. exact get_range_scan. Qed.
Print Assumptions C04_range.

(** The fuel hypothesis is met by every real log: parents are created before their children. *)
Theorem C04_fuel : forall st tip, parents_older st ->
  forall f, (match tip with Some t => N.to_nat t < f | None => True end) -> snd (chain st tip f) <> RFuel.
Proof. exact chain_fuel. Qed.
Print Assumptions C04_fuel.

(** Fail closed: the walk contains only entries linked by successful single-parent,
    number-checked steps, and a result is always one of them — an answer is never produced from
    beyond a branch, a numbering break or a non-entry. *)
Theorem C04_chain_linked : forall st f it L term,
  chain_from st f it = (L, term) ->
  forall pre x y post, L = pre ++ x :: y :: post -> get_parent st x = ROk y.
Proof. exact chain_from_linked. Qed.
Print Assumptions C04_chain_linked.

Theorem C04_fail_closed : forall st tip o fuel e anns,
  snd (chain st tip fuel) <> RFuel ->
  get_latest st tip o fuel = ROk (e, anns) -> In e (fst (chain st tip fuel)).
Proof.
  intros st tip o fuel e anns Hf H. rewrite get_latest_scan in H by assumption.
  destruct (chain st tip fuel) as [L term]. exact (scan_latest_in o L term e anns H).
Qed.
Print Assumptions C04_fail_closed.

(** What the scan means when no positional bound is set: the result is the newest entry that
    satisfies the conditions, judged against exactly the annotations recorded after it, and the
    annotations returned are exactly those recorded after it that refer to it. *)
Theorem C04_first_match : forall o, o_until_id o = None -> o_until_num o = 0%N ->
  forall L term anns e a, scan_search o L term anns = ROk (e, a) ->
  exists pre post, L = pre ++ e :: post /\
    let seen := anns ++ filter (fun x => is_ann (snd x)) pre in
    matches o seen e = true /\ a = relevant_anns seen (fst e) /\
    (forall pre1 x pre2, pre = pre1 ++ x :: pre2 ->
       matches o (anns ++ filter (fun x => is_ann (snd x)) pre1) x = false).
Proof. exact scan_search_first. Qed.
Print Assumptions C04_first_match.

From Coq Require Import Strings.String.
Definition main_ref : bytes := bs "refs/heads/main"%string.

(** Non-vacuity: a concrete log on which the hypotheses hold and the readers compute. *)
Definition ex_store : store :=
  [ (4%N, {| c_parents := [3%N]; c_entry := Some (LAnn [2%N] true 4%N) |});
    (3%N, {| c_parents := [2%N]; c_entry := Some (LRef main_ref 30%N 3%N) |});
    (2%N, {| c_parents := [1%N]; c_entry := Some (LRef main_ref 20%N 2%N) |});
    (1%N, {| c_parents := []; c_entry := Some (LRef main_ref 10%N 1%N) |}) ].

Example C04_example :
  snd (chain ex_store (Some 4%N) 5) <> RFuel /\
  get_latest ex_store (Some 4%N)
    {| o_ref := main_ref; o_before_id := Some 3%N; o_before_num := 0%N; o_until_id := None;
       o_until_num := 0%N; o_unskipped := true; o_nongittuf := false; o_isref := false; o_prop_repo := [] |} 5
  = ROk ((1%N, LRef main_ref 10%N 1%N), []).
Proof. split; [vm_compute; discriminate|vm_compute; reflexivity]. Qed.
