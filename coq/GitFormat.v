(** C10 byte-level model: the NUL-delimited output of git's plumbing (ls-tree -z, ls-tree -r -z,
    ls-tree/diff-tree --name-only -z), gitinterface's parsers of it (pkg/gitinterface/changes.go,
    tree.go) and the mktree -z input written by TreeBuilder.writeTree. *)
From GV Require Export Bytes.
From Coq Require Import Strings.String.

Definition NUL : byte := x00.
Definition TAB : byte := x09.

(** splitNULTerminated: strings.Split(output, "\x00") minus one trailing empty record *)
Definition split_nul (out : bytes) : list bytes :=
  let rs := split_on NUL out in
  match rev rs with
  | [] :: r => rev r
  | _ => rs
  end.

(** what git prints for a list of names with -z: each name followed by NUL, names verbatim *)
Definition print_names_z (ps : list bytes) : bytes := flat_map (fun p => p ++ [NUL]) ps.

(** GetFilePathsChangedByCommit's reading of such output (empty output: no paths) *)
Definition parse_names_z (out : bytes) : list bytes :=
  match out with [] => [] | _ => split_nul out end.

(** one ls-tree record: <mode> SP <type> SP <object> TAB <path> NUL *)
Record lsent := { ls_mode : bytes; ls_type : bytes; ls_oid : bytes; ls_path : bytes }.

Definition print_lsent (e : lsent) : bytes :=
  ls_mode e ++ SP :: ls_type e ++ SP :: ls_oid e ++ TAB :: ls_path e ++ [NUL].
Definition print_lstree_z (es : list lsent) : bytes := flat_map print_lsent es.

Definition TreeB : bytes := Eval compute in bs "tree"%string.
Definition is_hex (s : bytes) : bool := forallb (fun b => match unhex b with Some _ => true | None => false end) s.
(** NewHash: 40 (SHA-1) or 64 (SHA-256) hex digits *)
Definition valid_oid (s : bytes) : bool := (Nat.eqb (List.length s) 40 || Nat.eqb (List.length s) 64) && is_hex s.

(** GetEntriesInTree / GetAllFilesInTree on one record: (path, object id, is a tree) *)
Definition parse_lsline (l : bytes) : option (bytes * bytes * bool) :=
  match cut TAB l with
  | None => None
  | Some (meta, name) =>
      match split_on SP meta with
      | [_; t; o] => if valid_oid o then Some (name, o, beq t TreeB) else None
      | _ => None
      end
  end.

Fixpoint parse_lslines (ls : list bytes) : option (list (bytes * bytes * bool)) :=
  match ls with
  | [] => Some []
  | l :: ls' =>
      match parse_lsline l, parse_lslines ls' with
      | Some e, Some es => Some (e :: es)
      | _, _ => None
      end
  end.

Definition parse_lstree_z (out : bytes) : option (list (bytes * bytes * bool)) :=
  match out with [] => Some [] | _ => parse_lslines (split_nul out) end.

(** TreeBuilder.writeTree's input to mktree -z: only regular files and subtrees *)
Definition Mode644 : bytes := Eval compute in bs "100644"%string.
Definition Mode040 : bytes := Eval compute in bs "040000"%string.
Definition BlobB : bytes := Eval compute in bs "blob"%string.
Definition mktree_ent (e : bytes * bytes * bool) : lsent :=
  let '(name, oid, is_tree) := e in
  {| ls_mode := if is_tree then Mode040 else Mode644; ls_type := if is_tree then TreeB else BlobB; ls_oid := oid; ls_path := name |}.
Definition mktree_input (es : list (bytes * bytes * bool)) : bytes := print_lstree_z (map mktree_ent es).
