(** C16: case type and checker. *)
From GV Require Export StoreOps Verdict.
From Coq Require Import Strings.String.

Inductive fmode := MFault | MCrash.

(** one injected failure: operation shape, managed ref, whether the ref existed before, mode, the
    call index [k] of [n], the mutating calls observed (with the injected failure marked), and what
    the independent inspection afterwards found *)
Inductive c16case :=
  C16 (o : opshape) (refname : bytes) (prior : bool) (m : fmode) (k n : nat) (trace : list bytes)
      (reported log_ok refs_ok refs_atomic rerun_ok entry_appended : bool).

Definition RslShort : bytes := Eval compute in bs "reference-state-log"%string.
Definition pfx (p : string) (r : bytes) : bytes := (bs p ++ r)%list.

Definition action_name (refname : bytes) (a : action) : bytes :=
  match a with
  | ACommitRef => pfx "commit:" refname
  | ASetRef => pfx "set:" refname
  | AEntry => pfx "commit:" RslShort
  | AReset => pfx "reset:" refname
  | ADelete => pfx "del:" refname
  | ASetBase _ => pfx "set:" refname
  end.

Definition is_fault_mark (t : bytes) : bool := has_prefix (bs "FAULT@") t.

Definition blist_eqb (a b : list bytes) : bool :=
  Nat.eqb (List.length a) (List.length b) && forallb (fun p => beq (fst p) (snd p)) (combine a b).

(** number of mutating calls before the injected failure *)
Fixpoint done_before (trace : list bytes) : nat :=
  match trace with
  | [] => 0
  | t :: trace' => if is_fault_mark t then 0 else S (done_before trace')
  end.

Definition c16_check (c : c16case) : verdict :=
  match c with
  | C16 o refname prior m k n trace reported log_ok refs_ok refs_atomic rerun_ok appended =>
      let old := if prior then Some 0 else None in
      let clean := filter (fun t => negb (is_fault_mark t)) trace in
      match m with
      | MFault =>
          if negb reported then VSpec 1                      (* the operation must report the failure *)
          else if negb log_ok then VSpec 2                   (* valid chain, no partial entry *)
          else if negb refs_ok then VSpec 3                  (* refs unchanged or matching their latest entry *)
          else if negb rerun_ok then VSpec 4                 (* repeating the operation reaches the uninterrupted state *)
          else
            let p := done_before trace in
            if Nat.ltb p (List.length (program o)) then
              if blist_eqb clean (map (action_name refname) (fault_actions o old p)) then VOk else VMismatch 1
            else (if blist_eqb clean (map (action_name refname) (program o)) then VOk else VMismatch 2)
      | MCrash =>
          if negb log_ok then VSpec 5
          else if negb refs_atomic then VSpec 6
          else
            let p := List.length clean in
            if Nat.leb p (List.length (program o)) && blist_eqb clean (map (action_name refname) (crash_actions o p)) then VOk else VMismatch 3
      end
  end.
