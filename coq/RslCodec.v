(** C14 model: the RSL entry codec of pkg/rsl/rsl.go — [createCommitMessage] for the three entry
    kinds and [parseRSLEntryText] with its three state machines, over byte strings. *)
From GV Require Export Bytes.
From Coq Require Import Strings.String.

(** constants of pkg/rsl/rsl.go:24-46 (asserted equal to the Go constants on every run) *)
Definition ReferenceEntryHeader   : bytes := Eval compute in bs "RSL Reference Entry".
Definition AnnotationEntryHeader  : bytes := Eval compute in bs "RSL Annotation Entry".
Definition PropagationEntryHeader : bytes := Eval compute in bs "RSL Propagation Entry".
Definition RefKey                 : bytes := Eval compute in bs "ref".
Definition TargetIDKey            : bytes := Eval compute in bs "targetID".
Definition NumberKey              : bytes := Eval compute in bs "number".
Definition EntryIDKey             : bytes := Eval compute in bs "entryID".
Definition SkipKey                : bytes := Eval compute in bs "skip".
Definition UpstreamRepositoryKey  : bytes := Eval compute in bs "upstreamRepository".
Definition UpstreamEntryIDKey     : bytes := Eval compute in bs "upstreamEntryID".
Definition BeginMessage           : bytes := Eval compute in bs "-----BEGIN MESSAGE-----".
Definition EndMessage             : bytes := Eval compute in bs "-----END MESSAGE-----".
Definition TrueLit                : bytes := Eval compute in bs "true".
Definition FalseLit               : bytes := Eval compute in bs "false".

(** An entry as the Go structs hold it (the commit id is not part of the text and is left out).
    Hashes are raw bytes (20 or 32 when well formed), numbers are uint64 as [N]. *)
Inductive entry :=
| ERef  (ref : bytes) (target : bytes) (num : N)
| EAnn  (ids : list bytes) (skip : bool) (msg : bytes) (num : N)
| EProp (ref : bytes) (target : bytes) (uprepo : bytes) (upentry : bytes) (num : N).

Inductive perr := EInvalid | EHashLen | EHashEnc | ENumber.

Inductive res (A : Type) := Ok (a : A) | Err (e : perr).
Arguments Ok {A} a. Arguments Err {A} e.

(** ** Serialisation: [createCommitMessage(true)] *)
Definition kv (k v : bytes) : bytes := k ++ COLON :: SP :: v.

Definition num_lines (n : N) : list bytes :=
  if (0 <? n)%N then [kv NumberKey (dec_of_N n)] else [].

Section WithPem.
  (** [pem_enc m] = [strings.TrimSpace] of what [pem.Encode] writes for a MESSAGE block with
      bytes [m];  [pem_dec t] = the bytes of the first block [pem.Decode] finds in [t]. *)
  Variable pem_enc : bytes -> bytes.
  Variable pem_dec : bytes -> option bytes.

  Definition ser_lines (e : entry) : list bytes :=
    match e with
    | ERef r t n =>
        [ReferenceEntryHeader; []; kv RefKey r; kv TargetIDKey (hex_encode t)] ++ num_lines n
    | EAnn ids sk m n =>
        [AnnotationEntryHeader; []] ++ map (fun i => kv EntryIDKey (hex_encode i)) ids
          ++ [kv SkipKey (if sk then TrueLit else FalseLit)] ++ num_lines n
          ++ (match m with [] => [] | _ => [pem_enc m] end)
    | EProp r t ur ue n =>
        [PropagationEntryHeader; []; kv RefKey r; kv TargetIDKey (hex_encode t);
         kv UpstreamRepositoryKey ur; kv UpstreamEntryIDKey (hex_encode ue)] ++ num_lines n
    end.

  Definition ser (e : entry) : bytes := join_with LF (ser_lines e).

  (** ** Parsing *)

  (** [githash.NewHash] / [rsl.NewHash]: length 40 or 64, then hex *)
  Definition new_hash (v : bytes) : res bytes :=
    if Nat.eqb (List.length v) 40 || Nat.eqb (List.length v) 64 then
      match hex_decode v with Some h => Ok h | None => Err EHashEnc end
    else Err EHashLen.

  Definition set_number (v : bytes) : res N :=
    match parse_uint64 v with Some n => Ok n | None => Err ENumber end.

  (** [entryBody] *)
  Definition entry_body (text header : bytes) : res (list bytes) :=
    match split_on LF text with
    | l0 :: l1 :: body =>
        if beq l0 header && beq (trim l1) [] then Ok body else Err EInvalid
    | _ => Err EInvalid
    end.

  (** one body line: trim, cut at the first colon, trim both halves *)
  Definition parse_kv (line : bytes) : option (bytes * bytes) :=
    match cut COLON (trim line) with
    | Some (k, v) => Some (trim k, trim v)
    | None => None
    end.

  (** *** reference entry: states expectRef=0, expectTargetID=1, expectNumber=2, done=3 *)
  Record rstate := { rs_st : nat; rs_ref : bytes; rs_tgt : bytes; rs_num : N }.

  Definition ref_step (s : rstate) (line : bytes) : res rstate :=
    match parse_kv line with
    | None => Err EInvalid
    | Some (k, v) =>
        if beq k RefKey then
          if Nat.eqb (rs_st s) 0 then Ok {| rs_st := 1; rs_ref := v; rs_tgt := rs_tgt s; rs_num := rs_num s |}
          else Err EInvalid
        else if beq k TargetIDKey then
          if Nat.eqb (rs_st s) 1 then
            match new_hash v with
            | Ok h => Ok {| rs_st := 2; rs_ref := rs_ref s; rs_tgt := h; rs_num := rs_num s |}
            | Err e => Err e
            end
          else Err EInvalid
        else if beq k NumberKey then
          if Nat.eqb (rs_st s) 2 then
            match set_number v with
            | Ok n => Ok {| rs_st := 3; rs_ref := rs_ref s; rs_tgt := rs_tgt s; rs_num := n |}
            | Err e => Err e
            end
          else Err EInvalid
        else Ok s
    end.

  Fixpoint ref_loop (s : rstate) (body : list bytes) : res rstate :=
    match body with
    | [] => Ok s
    | l :: body' => match ref_step s l with Ok s' => ref_loop s' body' | Err e => Err e end
    end.

  Definition parse_ref (text : bytes) : res entry :=
    match entry_body text ReferenceEntryHeader with
    | Err e => Err e
    | Ok body =>
        match ref_loop {| rs_st := 0; rs_ref := []; rs_tgt := []; rs_num := 0 |} body with
        | Err e => Err e
        | Ok s => if Nat.ltb (rs_st s) 2 then Err EInvalid
                  else Ok (ERef (rs_ref s) (rs_tgt s) (rs_num s))
        end
    end.

  (** *** annotation entry: expectEntryID=0, expectNumber=1, done=2 *)
  Record astate := { as_st : nat; as_ids : list bytes; as_skip : bool; as_num : N }.

  Definition ann_step (s : astate) (k v : bytes) : res astate :=
    if beq k EntryIDKey then
      if Nat.eqb (as_st s) 0 then
        match new_hash v with
        | Ok h => Ok {| as_st := 0; as_ids := as_ids s ++ [h]; as_skip := as_skip s; as_num := as_num s |}
        | Err e => Err e
        end
      else Err EInvalid
    else if beq k SkipKey then
      if Nat.eqb (as_st s) 0 && negb (Nat.eqb (List.length (as_ids s)) 0) then
        if beq v TrueLit then Ok {| as_st := 1; as_ids := as_ids s; as_skip := true; as_num := as_num s |}
        else if beq v FalseLit then Ok {| as_st := 1; as_ids := as_ids s; as_skip := false; as_num := as_num s |}
        else Err EInvalid
      else Err EInvalid
    else if beq k NumberKey then
      if Nat.eqb (as_st s) 1 then
        match set_number v with
        | Ok n => Ok {| as_st := 2; as_ids := as_ids s; as_skip := as_skip s; as_num := n |}
        | Err e => Err e
        end
      else Err EInvalid
    else Ok s.

  Fixpoint ann_loop (s : astate) (body : list bytes) : res astate :=
    match body with
    | [] => Ok s
    | l :: body' =>
        if beq (trim l) BeginMessage then Ok s
        else match parse_kv l with
             | None => Err EInvalid
             | Some (k, v) =>
                 match ann_step s k v with
                 | Ok s' => ann_loop s' body'
                 | Err e => Err e
                 end
             end
    end.

  Definition ann_message (text : bytes) : bytes :=
    if contains BeginMessage text then
      match pem_dec text with Some m => m | None => [] end
    else [].

  Definition parse_ann (text : bytes) : res entry :=
    match entry_body text AnnotationEntryHeader with
    | Err e => Err e
    | Ok body =>
        match ann_loop {| as_st := 0; as_ids := []; as_skip := false; as_num := 0 |} body with
        | Err e => Err e
        | Ok s => if Nat.ltb (as_st s) 1 then Err EInvalid
                  else Ok (EAnn (as_ids s) (as_skip s) (ann_message text) (as_num s))
        end
    end.

  (** *** propagation entry: expectRef=0 … expectNumber=4, done=5 *)
  Record pstate := { ps_st : nat; ps_ref : bytes; ps_tgt : bytes; ps_ur : bytes; ps_ue : bytes; ps_num : N }.

  Definition prop_step (s : pstate) (line : bytes) : res pstate :=
    match parse_kv line with
    | None => Err EInvalid
    | Some (k, v) =>
        if beq k RefKey then
          if Nat.eqb (ps_st s) 0 then
            Ok {| ps_st := 1; ps_ref := v; ps_tgt := ps_tgt s; ps_ur := ps_ur s; ps_ue := ps_ue s; ps_num := ps_num s |}
          else Err EInvalid
        else if beq k TargetIDKey then
          if Nat.eqb (ps_st s) 1 then
            match new_hash v with
            | Ok h => Ok {| ps_st := 2; ps_ref := ps_ref s; ps_tgt := h; ps_ur := ps_ur s; ps_ue := ps_ue s; ps_num := ps_num s |}
            | Err e => Err e
            end
          else Err EInvalid
        else if beq k UpstreamRepositoryKey then
          if Nat.eqb (ps_st s) 2 then
            Ok {| ps_st := 3; ps_ref := ps_ref s; ps_tgt := ps_tgt s; ps_ur := v; ps_ue := ps_ue s; ps_num := ps_num s |}
          else Err EInvalid
        else if beq k UpstreamEntryIDKey then
          if Nat.eqb (ps_st s) 3 then
            match new_hash v with
            | Ok h => Ok {| ps_st := 4; ps_ref := ps_ref s; ps_tgt := ps_tgt s; ps_ur := ps_ur s; ps_ue := h; ps_num := ps_num s |}
            | Err e => Err e
            end
          else Err EInvalid
        else if beq k NumberKey then
          if Nat.eqb (ps_st s) 4 then
            match set_number v with
            | Ok n => Ok {| ps_st := 5; ps_ref := ps_ref s; ps_tgt := ps_tgt s; ps_ur := ps_ur s; ps_ue := ps_ue s; ps_num := n |}
            | Err e => Err e
            end
          else Err EInvalid
        else Ok s
    end.

  Fixpoint prop_loop (s : pstate) (body : list bytes) : res pstate :=
    match body with
    | [] => Ok s
    | l :: body' => match prop_step s l with Ok s' => prop_loop s' body' | Err e => Err e end
    end.

  Definition parse_prop (text : bytes) : res entry :=
    match entry_body text PropagationEntryHeader with
    | Err e => Err e
    | Ok body =>
        match prop_loop {| ps_st := 0; ps_ref := []; ps_tgt := []; ps_ur := []; ps_ue := []; ps_num := 0 |} body with
        | Err e => Err e
        | Ok s => if Nat.ltb (ps_st s) 4 then Err EInvalid
                  else Ok (EProp (ps_ref s) (ps_tgt s) (ps_ur s) (ps_ue s) (ps_num s))
        end
    end.

  (** [parseRSLEntryText] *)
  Definition parse (text : bytes) : res entry :=
    if has_prefix ReferenceEntryHeader text then parse_ref text
    else if has_prefix AnnotationEntryHeader text then parse_ann text
    else if has_prefix PropagationEntryHeader text then parse_prop text
    else Err EInvalid.

  (** ** what can be recorded *)
  Definition wf_val (v : bytes) : bool := trim_stable v && no_byte LF v.
  Definition wf_hash (h : bytes) : bool := Nat.eqb (List.length h) 20 || Nat.eqb (List.length h) 32.
  Definition wf_num (n : N) : bool := (n <? two64)%N.

  Definition wf_entry (e : entry) : bool :=
    match e with
    | ERef r t n => wf_val r && wf_hash t && wf_num n
    | EAnn ids sk m n => negb (Nat.eqb (List.length ids) 0) && forallb wf_hash ids && wf_num n
    | EProp r t ur ue n => wf_val r && wf_hash t && wf_val ur && wf_hash ue && wf_num n
    end.

End WithPem.
