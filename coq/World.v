(** The verifier family (C01, C02, C07, C09, C11; C08/C19 build on it): worlds and the model of
    PolicyVerifier.VerifyRefFull / VerifyRef / VerifyRefFromEntry (internal/policy/verify.go),
    LoadState / State.Verify / VerifyNewState (internal/policy/policy.go).  Signature checking is
    Sig.verify (C05), the delegation walk is Walk.find_verifiers (C06).
    Entries are identified by their position in the log (0-based, oldest first). *)
From GV Require Export Bytes Sig Walk.
From Coq Require Import Strings.String.

(** ** policy states *)
Inductive grule :=
| GThreshold (name : bytes) (pats : list bytes) (k : Z)
| GBlockForce (name : bytes) (pats : list bytes).

Record sfile := { sf_file : rfile; sf_version : N; sf_signers : list key }.

Record pstate := {
  ps_root_version : N;
  ps_root_keys : list key; ps_root_thr : Z;            (* root role *)
  ps_targets_keys : list key; ps_targets_thr : Z;      (* primary-rule-file role *)
  ps_has_targets_role : bool;
  ps_root_signers : list key;                          (* keys that validly signed the root envelope *)
  ps_files : list (bytes * sfile);                     (* "targets" and delegated rule files present in the tree *)
  ps_globals : list grule }.

(** Global rules inherited from controller repositories: the policy tree carries, per controller, a
    copy of the controller's metadata (gittuf-controller/<name>/), and State.preprocess adds the
    global rules of each controller's root to the repository's own; verification checks them all. *)
Definition with_controllers (ps : pstate) (ctl : list (bytes * list grule)) : pstate :=
  {| ps_root_version := ps_root_version ps; ps_root_keys := ps_root_keys ps; ps_root_thr := ps_root_thr ps;
     ps_targets_keys := ps_targets_keys ps; ps_targets_thr := ps_targets_thr ps; ps_has_targets_role := ps_has_targets_role ps;
     ps_root_signers := ps_root_signers ps; ps_files := ps_files ps;
     ps_globals := ps_globals ps ++ flat_map snd ctl |}.

Definition env_of (signers : list key) : option (list sigrec) :=
  Some (map (fun k => {| s_hint := k; s_signer := k; s_valid := true |}) signers).

Definition key_principals (ks : list key) : list principal := map (fun k => {| p_id := k; p_keys := [k] |}) ks.

Definition accepts (v : verifier) (has_git : bool) (g : key) (env : option (list sigrec)) : bool :=
  match verify v has_git g env with VOkSet _ => true | VErr _ _ => false end.

Definition root_verifier (ps : pstate) : verifier :=
  {| v_principals := key_principals (ps_root_keys ps); v_threshold := ps_root_thr ps; v_exhaustive := false |}.

Definition policy_of (ps : pstate) : policy := map (fun nf => (fst nf, sf_file (snd nf))) (ps_files ps).

Definition find_sfile (ps : pstate) (n : bytes) : option sfile :=
  (fix go (l : list (bytes * sfile)) := match l with [] => None | (m, f) :: l' => if beq m n then Some f else go l' end) (ps_files ps).

Definition principals_of (defs : list (N * list N)) (pids : list N) : list principal :=
  map (fun i => {| p_id := i; p_keys := match lookup_def defs i with Some ks => ks | None => [] end |}) pids.

(** State.Verify: root self-signature, primary rule file, reachable delegations (depth first, the
    trailing rule of every file skipped), no dangling rule file *)
Fixpoint verify_delegations (ps : pstate) (fuel : nat) (queue : list rule) (defs : list (N * list N)) (reached : list bytes)
  : option (list bytes) :=
  match fuel with
  | 0 => None
  | S f =>
      match queue with
      | [] | [_] => Some reached
      | d :: ((_ :: _) as q') =>
          match (if beq (r_name d) TargetsRole then None else find_sfile ps (r_name d)) with
          | None => verify_delegations ps f q' defs reached
          | Some sf =>
              let v := {| v_principals := principals_of defs (r_pids d); v_threshold := r_thr d; v_exhaustive := false |} in
              if accepts v false 0%N (env_of (sf_signers sf))
              then verify_delegations ps f (f_rules (sf_file sf) ++ q') (f_defs (sf_file sf) ++ defs) (r_name d :: reached)
              else None
          end
      end
  end.

Definition state_verify (ps : pstate) : bool :=
  accepts (root_verifier ps) false 0%N (env_of (ps_root_signers ps))
  && match find_sfile ps TargetsRole with
     | None => true
     | Some tf =>
         ps_has_targets_role ps
         && accepts {| v_principals := key_principals (ps_targets_keys ps); v_threshold := ps_targets_thr ps; v_exhaustive := false |}
                    false 0%N (env_of (sf_signers tf))
         && match verify_delegations ps (S (List.length (ps_files ps)) * 8) (f_rules (sf_file tf)) (f_defs (sf_file tf)) [] with
            | None => false
            | Some reached =>
                forallb (fun nf => beq (fst nf) TargetsRole || mem_name (fst nf) reached) (ps_files ps)
            end
     end.

(** State.VerifyNewState *)
Definition verify_new_state (cur new : pstate) : bool :=
  accepts (root_verifier cur) false 0%N (env_of (ps_root_signers new))
  && (ps_root_version cur <=? ps_root_version new)%N
  && match find_sfile cur TargetsRole with
     | None => true
     | Some ct =>
         match find_sfile new TargetsRole with
         | None => false
         | Some nt =>
             (sf_version ct <=? sf_version nt)%N
             && forallb (fun nf => beq (fst nf) TargetsRole ||
                           match find_sfile new (fst nf) with
                           | Some nf' => (sf_version (snd nf) <=? sf_version nf')%N
                           | None => false
                           end) (ps_files cur)
         end
     end.

(** ** the world *)
Record authz := { az_ref : bytes; az_from : N; az_to : N;            (* what the signed statement names *)
                  az_path_ref : bytes; az_path_from : N; az_path_to : N;   (* where it is stored *)
                  az_signers : list key }.

Inductive wentry :=
| WEPolicy (ps : pstate)
| WEStaging
| WEAttest (auths : list authz)
| WERef (ref : bytes) (commit : N) (signer : key)
| WEAnn (targets : list nat) (skip : bool)
| WEProp (ref : bytes) (commit : N).

Record cinfo := { ci_tree : N; ci_parents : list N }.
Record world := { w_log : list wentry; w_commits : list (N * cinfo) }.

Definition PolicyRefB : bytes := Eval compute in bs "refs/gittuf/policy"%string.
Definition StagingRefB : bytes := Eval compute in bs "refs/gittuf/policy-staging"%string.
Definition AttestRefB : bytes := Eval compute in bs "refs/gittuf/attestations"%string.
Definition GittufNS : bytes := Eval compute in bs "refs/gittuf/"%string.
Definition GitScheme : bytes := Eval compute in bs "git:"%string.

Definition entry_ref (e : wentry) : option bytes :=
  match e with
  | WEPolicy _ => Some PolicyRefB
  | WEStaging => Some StagingRefB
  | WEAttest _ => Some AttestRefB
  | WERef r _ _ | WEProp r _ => Some r
  | WEAnn _ _ => None
  end.

Definition entry_target (e : wentry) : N :=
  match e with WERef _ c _ | WEProp _ c => c | _ => 0%N end.

Definition is_reference_entry (e : wentry) : bool :=
  match e with WEPolicy _ | WEStaging | WEAttest _ | WERef _ _ _ => true | _ => false end.

Fixpoint lookup_commit (cs : list (N * cinfo)) (c : N) : option cinfo :=
  match cs with [] => None | (d, i) :: cs' => if N.eqb c d then Some i else lookup_commit cs' c end.

(** is [anc] reachable from [c]? *)
Fixpoint knows (cs : list (N * cinfo)) (fuel : nat) (c anc : N) : bool :=
  N.eqb c anc ||
  match fuel with
  | 0 => false
  | S f => match lookup_commit cs c with
           | Some i => existsb (fun p => knows cs f p anc) (ci_parents i)
           | None => false
           end
  end.

Definition nth_entry (w : world) (i : nat) : option wentry := nth_error (w_log w) i.

(** annotations are looked at by position: entry [i] is skipped iff some later annotation with
    skip = true names it *)
Definition skipped (w : world) (i : nat) : bool :=
  existsb (fun je => match snd je with
                     | WEAnn ts true => Nat.ltb i (fst je) && existsb (Nat.eqb i) ts
                     | _ => false
                     end)
          (combine (seq 0 (List.length (w_log w))) (w_log w)).

Definition indexed (w : world) : list (nat * wentry) := combine (seq 0 (List.length (w_log w))) (w_log w).

(** latest / first entries for a ref *)
Definition latest_for (w : world) (ref : bytes) (before : nat) (unskipped_only ref_entry_only : bool) : option (nat * wentry) :=
  let cands := filter (fun ie => Nat.ltb (fst ie) before
                                 && match entry_ref (snd ie) with Some r => beq r ref | None => false end
                                 && (negb ref_entry_only || is_reference_entry (snd ie))
                                 && (negb unskipped_only || negb (is_reference_entry (snd ie) && skipped w (fst ie))))
                      (indexed w) in
  match rev cands with [] => None | x :: _ => Some x end.

Definition first_for (w : world) (ref : bytes) : option (nat * wentry) :=
  match filter (fun ie => match entry_ref (snd ie) with Some r => beq r ref | None => false end) (indexed w) with
  | [] => None | x :: _ => Some x
  end.

(** ** loading policy: LoadState for a policy entry at position [i] *)
Definition policy_entries_upto (w : world) (i : nat) : list (nat * pstate) :=
  flat_map (fun ie => match snd ie with WEPolicy ps => if Nat.leb (fst ie) i then [(fst ie, ps)] else [] | _ => [] end) (indexed w).

Fixpoint chain_ok (cur : pstate) (rest : list (nat * pstate)) : option pstate :=
  match rest with
  | [] => Some cur
  | (_, ps) :: rest' => if verify_new_state cur ps then chain_ok ps rest' else None
  end.

(** LoadState for the policy entry at [i] (TOFU: no pinned root principals) *)
Definition load_state (w : world) (i : nat) : option pstate :=
  match policy_entries_upto w i with
  | [] => None
  | (_, p0) :: rest =>
      match chain_ok p0 rest with
      | Some last => if state_verify last then Some last else None
      | None => None
      end
  end.

(** ** verifying one entry *)
Definition globals_match (path : bytes) (pats : list bytes) : bool := existsb (fun p => fnmatch p path) pats.

(** State.allPrincipals: the key principals of the root metadata (root and primary-rule-file roles)
    and the principals every rule file defines *)
Definition all_principals (ps : pstate) : list principal :=
  key_principals (nodup N.eq_dec (ps_root_keys ps ++ (if ps_has_targets_role ps then ps_targets_keys ps else []))) ++
  flat_map (fun nf => map (fun d => {| p_id := fst d; p_keys := snd d |}) (f_defs (sf_file (snd nf)))) (ps_files ps).

Definition vrec_verifier (v : vrec) : verifier :=
  {| v_principals := map (fun pk => {| p_id := fst pk; p_keys := match snd pk with Some ks => ks | None => [] end |}) (vr_pr v);
     v_threshold := vr_thr v; v_exhaustive := false |}.

(** the attestation state in force and the authorization it holds for a change *)
Definition attest_before (w : world) (i : nat) : option (list authz) :=
  match latest_for w AttestRefB i false false with
  | Some (_, WEAttest a) => Some a
  | _ => None
  end.

Inductive azres := AzNone | AzInvalid | AzEnv (signers : list key).

Definition find_authz (auths : list authz) (ref : bytes) (from to : N) : azres :=
  match filter (fun a => beq (az_path_ref a) ref && N.eqb (az_path_from a) from && N.eqb (az_path_to a) to) auths with
  | [] => AzNone
  | a :: _ => if beq (az_ref a) ref && N.eqb (az_from a) from && N.eqb (az_to a) to then AzEnv (az_signers a) else AzInvalid
  end.

(** first verifier that is satisfied wins (F10-repaired semantics: the exhaustive verifier only
    counts authenticated principals for global rules); returns the accepted principal count *)
Fixpoint first_satisfied (vs : list vrec) (signer : key) (env : option (list sigrec)) : option (list pid) :=
  match vs with
  | [] => None
  | v :: vs' =>
      match verify (vrec_verifier v) true signer env with
      | VOkSet s => Some s
      | VErr EUnmet _ => first_satisfied vs' signer env
      | VErr _ _ => None
      end
  end.

Definition verify_entry (w : world) (ps : pstate) (i : nat) (ref : bytes) (commit : N) (signer : key) : bool :=
  if beq ref PolicyRefB || beq ref AttestRefB then true
  else
    let path := GitScheme ++ ref in
    (* approvals *)
    let az := match attest_before w i with
              | None => AzNone
              | Some auths =>
                  let from := match latest_for w ref i false false with Some (_, e) => entry_target e | None => 0%N end in
                  let to := match lookup_commit (w_commits w) commit with Some c => ci_tree c | None => 0%N end in
                  find_authz auths ref from to
              end in
    match az with
    | AzInvalid => false
    | _ =>
        let env := match az with AzEnv s => env_of s | _ => None end in
        match find_verifiers (policy_of ps) path with
        | WOk vs =>
            let exhaustive_count :=
              match verify {| v_principals := all_principals ps; v_threshold := 1; v_exhaustive := true |} true signer env with
              | VOkSet s => Some (List.length s)
              | VErr _ _ => None
              end in
            match vs, ps_globals ps with
            | [], [] => true                                   (* unprotected *)
            | _, _ =>
                let deleg := match vs with [] => Some [] | _ => first_satisfied vs signer env end in
                match deleg with
                | None => false
                | Some accepted =>
                    match ps_globals ps with
                    | [] => true
                    | gs =>
                        match exhaustive_count with
                        | None => false
                        | Some _ =>
                            let auth_set :=
                              match verify {| v_principals := all_principals ps; v_threshold := 1; v_exhaustive := true |} true signer env with
                              | VOkSet s => s | VErr _ _ => [] end in
                            let count := List.length (nodup N.eq_dec (auth_set ++ accepted)) in
                            forallb (fun g =>
                                       match g with
                                       | GThreshold _ pats k => negb (globals_match path pats) || (k <=? Z.of_nat count)%Z
                                       | GBlockForce _ pats =>
                                           negb (globals_match path pats) ||
                                           match latest_for w ref i true false with
                                           | None => true
                                           | Some (_, prev) => knows (w_commits w) (List.length (w_commits w)) commit (entry_target prev)
                                           end
                                       end) gs
                        end
                    end
                end
            end
        | _ => false
        end
    end.

(** ** the verification loop *)
Inductive verr := VEViolation | VENotSkipped | VELastGoodSkipped | VEPolicy | VENotFound | VEOther.
Inductive vout := VTip (c : N) | VFail (e : verr).

Definition relevant (ref : bytes) (e : wentry) : bool :=
  match entry_ref e with
  | Some r => beq r ref || (has_prefix GittufNS r && negb (beq r StagingRefB))
  | None => false
  end.

Definition tree_of (w : world) (c : N) : option N :=
  match lookup_commit (w_commits w) c with Some i => Some (ci_tree i) | None => None end.

(** search for the fix among the queued entries: returns the new queue or an error *)
Fixpoint look_for_fix (w : world) (ref : bytes) (good_tree : N) (q : list (nat * wentry))
  (newq : list (nat * wentry)) (bad : bool) : option (list (nat * wentry)) * bool :=
  match q with
  | [] => (None, bad)
  | (j, e) :: q' =>
      match e with
      | WERef r c _ =>
          if negb (beq r ref) then look_for_fix w ref good_tree q' (newq ++ [(j, e)]) bad
          else
            let same := match tree_of w c with Some t => N.eqb t good_tree | None => false end in
            if same && negb (skipped w j) then (Some (newq ++ q'), bad)
            else look_for_fix w ref good_tree q' newq (bad || negb (skipped w j))
      | _ => look_for_fix w ref good_tree q' (newq ++ [(j, e)]) bad
      end
  end.

(** what the loop did, for the theorems: [TOk i ps]: reference entry [i] verified under policy [ps];
    [TRecover i g j]: the violation at [i] was tolerated, [g] is the last good entry, [j] the fix;
    [TPol i ps]: the policy in force switched to the state of entry [i] *)
Inductive tev := TOk (i : nat) (ps : pstate) | TRecover (i g j : nat) | TPol (i : nat) (ps : pstate).

(** position of the fix entry found by [look_for_fix] (for the trace only) *)
Fixpoint fix_index (w : world) (ref : bytes) (good_tree : N) (q : list (nat * wentry)) : nat :=
  match q with
  | [] => 0
  | (j, e) :: q' =>
      match e with
      | WERef r c _ =>
          if beq r ref && (match tree_of w c with Some t => N.eqb t good_tree | None => false end) && negb (skipped w j)
          then j else fix_index w ref good_tree q'
      | _ => fix_index w ref good_tree q'
      end
  end.

Fixpoint verify_loop_tr (w : world) (ref : bytes) (first : nat) (fuel : nat) (cur : option pstate)
  (q : list (nat * wentry)) (tr : list tev) : option verr * list tev :=
  match fuel with
  | 0 => (Some VEOther, tr)
  | S f =>
      match q with
      | [] => (None, tr)
      | (i, e) :: q' =>
          match e with
          | WEProp _ _ | WEStaging | WEAnn _ _ => verify_loop_tr w ref first f cur q' tr
          | WEAttest _ => verify_loop_tr w ref first f cur q' tr
          | WEPolicy ps =>
              if Nat.eqb i first then verify_loop_tr w ref first f cur q' tr
              else
                match cur with
                | Some c => if verify_new_state c ps && state_verify ps then verify_loop_tr w ref first f (Some ps) q' (tr ++ [TPol i ps]) else (Some VEPolicy, tr)
                | None => if state_verify ps then verify_loop_tr w ref first f (Some ps) q' (tr ++ [TPol i ps]) else (Some VEPolicy, tr)
                end
          | WERef r c s =>
              match cur with
              | None => (Some VENotFound, tr)
              | Some ps =>
                  if verify_entry w ps i r c s then verify_loop_tr w ref first f cur q' (tr ++ [TOk i ps])
                  else if negb (skipped w i) then (Some VEViolation, tr)
                  else
                    match q' with
                    | [] => (Some VEViolation, tr)
                    | _ =>
                        match latest_for w r i true true with
                        | None => (Some VENotFound, tr)
                        | Some (g, good) =>
                            match tree_of w (entry_target good) with
                            | None => (Some VEOther, tr)
                            | Some gt =>
                                match look_for_fix w r gt q' [] false with
                                | (None, _) => (Some VEViolation, tr)
                                | (Some newq, true) => (Some VENotSkipped, tr)
                                | (Some newq, false) =>
                                    verify_loop_tr w ref first f cur newq (tr ++ [TRecover i g (fix_index w r gt q')])
                                end
                            end
                        end
                    end
              end
          end
      end
  end.

Definition verify_loop (w : world) (ref : bytes) (first : nat) (fuel : nat) (cur : option pstate)
  (q : list (nat * wentry)) : option verr := fst (verify_loop_tr w ref first fuel cur q []).

Definition range_entries (w : world) (ref : bytes) (first last : nat) : list (nat * wentry) :=
  filter (fun ie => Nat.leb first (fst ie) && Nat.leb (fst ie) last && relevant ref (snd ie)) (indexed w).

(** the policy in force at the first entry of the range *)
Definition initial_policy (w : world) (first : nat) : option (option pstate) :=
  match nth_entry w first with
  | Some (WEPolicy _) => match load_state w first with Some ps => Some (Some ps) | None => None end
  | _ =>
      match latest_for w PolicyRefB first false false with
      | None => Some None
      | Some (j, _) => match load_state w j with Some ps => Some (Some ps) | None => None end
      end
  end.

Definition verify_relative (w : world) (ref : bytes) (first last : nat) : option verr :=
  match initial_policy w first with
  | None => Some VEPolicy
  | Some cur =>
      if Nat.ltb last first then Some VENotFound        (* the range reader never meets [first] below [last] *)
      else verify_loop w ref first (S (List.length (w_log w)) * 2) cur (range_entries w ref first last)
  end.

Definition verify_full (w : world) (ref : bytes) : vout :=
  match first_for w ref, latest_for w ref (List.length (w_log w)) false false with
  | Some (f, _), Some (l, le) =>
      match verify_relative w ref f l with None => VTip (entry_target le) | Some e => VFail e end
  | _, _ => VFail VENotFound
  end.

Definition verify_latest (w : world) (ref : bytes) : vout :=
  match latest_for w ref (List.length (w_log w)) false false with
  | Some (l, le) => match verify_relative w ref l l with None => VTip (entry_target le) | Some e => VFail e end
  | None => VFail VENotFound
  end.

Definition verify_from (w : world) (ref : bytes) (from : nat) : vout :=
  match nth_entry w from, latest_for w ref (List.length (w_log w)) false false with
  | Some e, Some (l, le) =>
      if is_reference_entry e then
        match verify_relative w ref from l with None => VTip (entry_target le) | Some e => VFail e end
      else VFail VEOther
  | _, _ => VFail VENotFound
  end.
