(** C20 model, concrete part: the sandbox's environment graph as walked from Go, what a script
    can obtain as a value from it, the closure of that, and the allow-list it is checked against. *)
From GV Require Export Bytes Cap.
From Coq Require Export List Bool Arith ZArith Lia.
From Coq Require Import Strings.String.
Export ListNotations.

Inductive nkind := KTable | KGo | KLua | KUser | KThread.

Record lnode := {
  n_id : nat; n_kind : nkind; n_sym : bytes;
  n_fields : list nat;            (* own field values and object keys *)
  n_index : option nat;           (* metatable.__index when a table *)
  n_index_fn : option nat;        (* metatable.__index when a function *)
  n_meta : option nat;
  n_newindex : bool; n_own : nat;
  n_env : option nat; n_upvals : list nat }.

Definition find_node (g : list lnode) (i : nat) : option lnode := find (fun n => Nat.eqb (n_id n) i) g.

Definition opt_list (o : option nat) : list nat := match o with Some x => [x] | None => [] end.

(** fields obtainable by indexing [i]: its own, and those of its __index chain (the chain tables
    themselves are not obtained) *)
Fixpoint index_fields (g : list lnode) (fuel : nat) (i : nat) : list nat :=
  match find_node g i with
  | None => []
  | Some n =>
      n_fields n ++ opt_list (n_index_fn n) ++
      match fuel, n_index n with
      | S f, Some j => index_fields g f j
      | _, _ => []
      end
  end.

(** values a script holding [i] can obtain from it.  Over-approximations, all on the safe side:
    environments (getfenv) and upvalues/constants of functions are counted as obtainable. *)
Definition succs (g : list lnode) (i : nat) : list nat :=
  match find_node g i with
  | None => []
  | Some n => index_fields g (List.length g) i ++ opt_list (n_env n) ++ n_upvals n
  end.

Definition memn (x : nat) (l : list nat) : bool := existsb (Nat.eqb x) l.

Fixpoint add_all (xs acc : list nat) : list nat :=
  match xs with [] => acc | x :: xs' => if memn x acc then add_all xs' acc else add_all xs' (acc ++ [x]) end.

Fixpoint bfs (g : list lnode) (fuel : nat) (acc : list nat) : list nat :=
  match fuel with
  | 0 => acc
  | S f => let acc' := fold_left (fun a i => add_all (succs g i) a) acc acc in
           if Nat.eqb (List.length acc') (List.length acc) then acc else bfs g f acc'
  end.

Definition closure (g : list lnode) (roots : list nat) : list nat := bfs g (S (List.length g)) (add_all roots []).

(** the closure really is closed (evaluated on the walked graph; the theorem lifts it to all paths) *)
Definition closed (g : list lnode) (S : list nat) : bool :=
  forallb (fun i => forallb (fun j => memn j S) (succs g i)) S.

(** ** the allow-list: Go functions a script may hold, by symbol *)
Definition LuaPkg : bytes := Eval compute in bs "github.com/yuin/gopher-lua."%string.
Definition ApiPkg : bytes := Eval compute in bs "github.com/gittuf/gittuf/internal/luasandbox.(*LuaEnvironment)."%string.
Definition ApiMid : bytes := Eval compute in bs ".api"%string.
Definition ProtectFn : bytes := Eval compute in bs "github.com/gittuf/gittuf/internal/luasandbox.(*LuaEnvironment).protectModule.func1"%string.

Definition allowed_lua_fns : list bytes := Eval compute in map bs [
  (* base: pure or returning only what they are given *)
  "baseAssert"; "baseError"; "baseIpairs"; "ipairsaux"; "baseNext"; "basePairs"; "pairsaux"; "basePCall"; "baseXPCall"; "basePrint"; "baseSelect";
  "baseToNumber"; "baseToString"; "baseType"; "baseUnpack"; "base_PrintRegs"; "baseNewProxy";
  (* environment accessors: return / install environments (counted as edges) *)
  "baseGetFEnv"; "baseSetFEnv";
  (* string *)
  "strByte"; "strChar"; "strFind"; "strFormat"; "strGsub"; "strLen"; "strLower"; "strMatch"; "strReverse"; "strSub"; "strUpper"; "strGmatch"; "strGmatchIter";
  (* table *)
  "tableConcat"; "tableInsert"; "tableMaxN"; "tableRemove"; "tableSort"; "tableGetN";
  (* math *)
  "mathAbs"; "mathAcos"; "mathAsin"; "mathAtan"; "mathAtan2"; "mathCeil"; "mathCos"; "mathCosh"; "mathDeg"; "mathExp"; "mathFloor"; "mathFmod";
  "mathFrexp"; "mathLdexp"; "mathLog"; "mathLog10"; "mathMax"; "mathMin"; "mathMod"; "mathModf"; "mathPow"; "mathRad"; "mathRandom"; "mathSin";
  "mathSinh"; "mathSqrt"; "mathTan"; "mathTanh";
  (* coroutine *)
  "coCreate"; "coYield"; "coResume"; "coRunning"; "coStatus"; "coWrap"; "coWrap.func1" ]%string.

(** gittuf's registered read-only repository APIs *)
Definition allowed_apis : list bytes := Eval compute in map bs [
  "MatchRegex"; "StrSplit"; "GitReadBlob"; "GitGetObjectSize"; "GitGetTagTarget"; "GitGetReference"; "GitGetAbsoluteReference";
  "GitGetSymbolicReferenceTarget"; "GitGetCommitMessage"; "GitGetFilePathsChangedByCommit"; "GitGetRemoteURL"; "GitGetStagedFilePaths" ]%string.

Definition FuncSuffix : bytes := Eval compute in bs ".func"%string.

Definition allowed_sym (s : bytes) : bool :=
  existsb (fun f => beq s (LuaPkg ++ f)) allowed_lua_fns
  || (has_prefix ApiPkg s && existsb (fun a => contains (ApiMid ++ a ++ FuncSuffix) s) allowed_apis)
  || beq s ProtectFn.

Definition node_allowed (g : list lnode) (i : nat) : bool :=
  match find_node g i with
  | Some n => match n_kind n with KGo => allowed_sym (n_sym n) | _ => true end
  | None => false
  end.

(** a library table (any table but the script's own global table that holds Go functions) must not
    be obtainable as a value: scripts could overwrite its existing keys whatever __newindex says *)
Definition holds_go (g : list lnode) (n : lnode) : bool :=
  existsb (fun j => match find_node g j with Some m => match n_kind m with KGo => true | _ => false end | None => false end) (n_fields n).

Definition library_tables_unobtainable (g : list lnode) (root : nat) (S : list nat) : bool :=
  forallb (fun i => Nat.eqb i root ||
                    match find_node g i with
                    | Some n => match n_kind n with KTable => negb (holds_go g n) | _ => true end
                    | None => false
                    end) S.

(** module proxies refuse writes: no own keys to overwrite, __newindex set *)
Definition sandbox_ok (g : list lnode) (roots : list nat) : bool :=
  let S := closure g roots in
  closed g S && forallb (node_allowed g) S && library_tables_unobtainable g (hd 0 roots) S.

(** ** timeouts: the VM consults the deadline between steps; a step (a VM instruction, or a whole
    call into a Go library function) is atomic and takes [d] time units *)
Fixpoint run_until (deadline elapsed : nat) (steps : list nat) : nat :=
  match steps with
  | [] => elapsed
  | d :: rest => if Nat.leb deadline elapsed then elapsed else run_until deadline (elapsed + d) rest
  end.

(** ** exit code of a hook script, and which hooks run for a principal *)
Inductive lret := RNumber (n : Z) | ROther.
Definition exit_code (r : lret) : Z := match r with RNumber n => n | ROther => 1%Z end.

Definition select_hooks (hooks : list (nat * list nat)) (principal : nat) : list nat :=
  map fst (filter (fun h => memn principal (snd h)) hooks).
