(** C16 model: mutating gittuf operations as programs over the storage interface, with a failure
    injected at any point (fault: the call returns an error; crash: the process stops after it). *)
From GV Require Export Bytes.
From Coq Require Import Strings.String.

(** the three shapes of mutating operation in the code:
    - OpEntry: record an entry / annotation (one compare-and-set commit on the log);
    - OpCommitWithEntry: commit a tree to a managed ref, then record the entry for it
      (State.Commit, Attestations.Commit), resetting the ref when the entry cannot be written;
    - OpSetWithEntry: move a managed ref, then record the entry (Apply, ReconcileStaging);
    - OpRebaseWithEntry b: put a managed ref on another base [b], commit a tree on top of it, then
      record the entry for the result (ReconcileStaging when policy and staging have diverged,
      [b] being the applied policy), resetting the ref when any later step fails. *)
Inductive opshape := OpEntry | OpCommitWithEntry | OpSetWithEntry | OpRebaseWithEntry (b : nat).

(** abstract state of the ref the operation manages and of the log *)
Record ostate := { os_ref : option nat;           (* value of the managed ref *)
                   os_latest : option nat;        (* target of the latest log entry for that ref *)
                   os_entries : nat }.            (* number of log entries *)

Inductive action := ACommitRef | ASetRef | AEntry | AReset | ADelete | ASetBase (b : nat).

Definition program (o : opshape) : list action :=
  match o with
  | OpEntry => [AEntry]
  | OpCommitWithEntry => [ACommitRef; AEntry]
  | OpSetWithEntry => [ASetRef; AEntry]
  | OpRebaseWithEntry b => [ASetBase b; ACommitRef; AEntry]
  end.

(** effect of one successful action; [v] is the new value being installed, [old] the value the ref
    had when the operation started *)
Definition apply_action (v : nat) (old : option nat) (s : ostate) (a : action) : ostate :=
  match a with
  | ACommitRef | ASetRef => {| os_ref := Some v; os_latest := os_latest s; os_entries := os_entries s |}
  | AEntry => {| os_ref := os_ref s; os_latest := Some v; os_entries := S (os_entries s) |}
  | AReset => {| os_ref := old; os_latest := os_latest s; os_entries := os_entries s |}
  | ADelete => {| os_ref := None; os_latest := os_latest s; os_entries := os_entries s |}
  | ASetBase b => {| os_ref := Some b; os_latest := os_latest s; os_entries := os_entries s |}
  end.

(** the compensation the code runs when the entry cannot be written after the ref has moved
    (with the F6 repair: a ref that did not exist before is deleted again) *)
Definition compensation (o : opshape) (old : option nat) (done : nat) : list action :=
  match o, done with
  | OpEntry, _ => []
  | _, 0 => []
  | _, _ => match old with Some _ => [AReset] | None => [ADelete] end
  end.

(** run the first [p] mutating actions, then fail: the actions performed, in order *)
Definition fault_actions (o : opshape) (old : option nat) (p : nat) : list action :=
  firstn p (program o) ++ compensation o old p.

Definition crash_actions (o : opshape) (p : nat) : list action := firstn p (program o).

Definition run_actions (v : nat) (old : option nat) (s : ostate) (l : list action) : ostate :=
  fold_left (apply_action v old) l s.

(** the managed ref is unchanged or matches the target of its latest log entry *)
Definition consistent (before s : ostate) : Prop := os_ref s = os_ref before \/ os_ref s = os_latest s.
