(** C10 logic proofs: an accepted entry means every changed path of every new commit was judged,
    and every protected one is covered by a verifier the commit satisfies. *)
From GV Require Import FileRules BytesLemmas.

Section Sound.
Variable pol : policy.
Variable signer : key.
Variable env : option (list sigrec).

(** some verifier of the policy named [n] is satisfied by this object's signature and the approvals *)
Definition Sat (n : bytes) : Prop :=
  exists target vs v s, find_verifiers pol target = WOk vs /\ In v vs /\ vr_name v = n /\
                        verify (vrec_verifier v) true signer env = VOkSet s.

Lemma first_satisfied_name_spec : forall vs n, first_satisfied_name vs signer env = Some n ->
  exists v s, In v vs /\ vr_name v = n /\ verify (vrec_verifier v) true signer env = VOkSet s.
Proof.
  induction vs as [|v vs IH]; intros n H; cbn [first_satisfied_name] in H; [discriminate|].
  destruct (verify (vrec_verifier v) true signer env) as [s|e s] eqn:Hv.
  - injection H as <-. exists v, s. split; [left; reflexivity|]. split; [reflexivity|exact Hv].
  - destruct e; try discriminate. destruct (IH n H) as [v' [s' [Hin Hr]]].
    exists v', s'. split; [right; exact Hin|exact Hr].
Qed.

(** what accepting one path means *)
Definition Covered (p : bytes) : Prop :=
  forall vs, find_verifiers pol (FileScheme ++ p) = WOk vs -> vs <> [] ->
  exists n, (exists v, In v vs /\ vr_name v = n) /\ Sat n.

Lemma verify_path_sound p vu vu' :
  (forall n, vu = Some n -> Sat n) ->
  verify_path pol p signer env vu = Some vu' ->
  Covered p /\ (forall n, vu' = Some n -> Sat n) /\ (exists vs, find_verifiers pol (FileScheme ++ p) = WOk vs).
Proof.
  intros Hvu H. unfold verify_path in H.
  destruct (find_verifiers pol (FileScheme ++ p)) as [vs| |] eqn:Hf; try discriminate.
  destruct vs as [|v0 vs0].
  - injection H as <-. split; [|split; [intros n Hn; discriminate|exists []; reflexivity]].
    intros vs Hvs Hne. rewrite Hf in Hvs. injection Hvs as <-. contradiction.
  - set (vs := v0 :: vs0) in *.
    assert (Hfull : forall r, match first_satisfied_name vs signer env with Some n => Some (Some n) | None => None end = Some r ->
                     exists n, r = Some n /\ (exists v, In v vs /\ vr_name v = n) /\ Sat n).
    { intros r Hr. destruct (first_satisfied_name vs signer env) as [n|] eqn:Hn; [|discriminate].
      injection Hr as <-. destruct (first_satisfied_name_spec vs n Hn) as [v [s [Hin [Hnm Hv]]]].
      exists n. split; [reflexivity|]. split; [exists v; auto|]. exists (FileScheme ++ p), vs, v, s. split; [exact Hf|auto]. }
    assert (Hres : exists n, vu' = Some n /\ (exists v, In v vs /\ vr_name v = n) /\ Sat n).
    { destruct vu as [n|].
      - destruct (existsb (fun v => beq (vr_name v) n) vs) eqn:He.
        + injection H as <-. exists n. split; [reflexivity|]. split; [|apply Hvu; reflexivity].
          apply existsb_exists in He. destruct He as [v [Hin Hb]]. exists v. split; [exact Hin|apply beq_eq, Hb].
        + apply Hfull, H.
      - apply Hfull, H. }
    destruct Hres as [n [-> [Hex Hsat]]].
    split; [|split; [intros m Hm; injection Hm as <-; exact Hsat|exists vs; reflexivity]].
    intros vs' Hvs' _. rewrite Hf in Hvs'. injection Hvs' as <-. exists n. split; assumption.
Qed.

Lemma verify_paths_sound : forall paths vu,
  (forall n, vu = Some n -> Sat n) ->
  verify_paths pol paths signer env vu = true ->
  forall p, In p paths -> Covered p /\ exists vs, find_verifiers pol (FileScheme ++ p) = WOk vs.
Proof.
  induction paths as [|q paths IH]; intros vu Hvu H p Hin; [destruct Hin|].
  cbn [verify_paths] in H. destruct (verify_path pol q signer env vu) as [vu'|] eqn:Hq; [|discriminate].
  destruct (verify_path_sound q vu vu' Hvu Hq) as [Hc [Hvu' Hex]].
  destruct Hin as [<-|Hin]; [split; assumption|]. exact (IH vu' Hvu' H p Hin).
Qed.
End Sound.

(** every changed path of every commit newly introduced by an accepted entry was looked up under
    its verbatim name, and if rules protect it, a verifier named by them is satisfied by the
    commit's own signature together with the approvals for the entry *)
Theorem entry_files_sound ps g env new old :
  has_file_rule ps = true -> entry_files_ok ps g env new old = true ->
  forall c, In c (new_commits g new old) ->
  exists i, glookup g c = Some i /\
    forall p, In p (changed_paths g c) ->
      (exists vs, find_verifiers (policy_of ps) (FileScheme ++ p) = WOk vs) /\
      Covered (policy_of ps) (fc_signer i) env p.
Proof.
  intros Hf H c Hc. unfold entry_files_ok in H. rewrite Hf in H. cbn [negb orb] in H.
  rewrite forallb_forall in H. specialize (H c Hc). unfold verify_commit_files in H.
  destruct (glookup g c) as [i|] eqn:Hg; [|discriminate]. exists i. split; [reflexivity|].
  intros p Hp.
  assert (Hnone : forall n, @None bytes = Some n -> Sat (policy_of ps) (fc_signer i) env n) by (intros n Hn; discriminate).
  destruct (verify_paths_sound (policy_of ps) (fc_signer i) env (changed_paths g c) None Hnone H p Hp) as [Hcov Hex].
  split; assumption.
Qed.

(** ** the changed-path set is complete: nothing added, modified or deleted is left out *)
Lemma In_insert_path x p l : In x (insert_path p l) <-> x = p \/ In x l.
Proof.
  induction l as [|q l IH]; cbn [insert_path].
  - cbn. intuition.
  - destruct (beq p q) eqn:E.
    + apply beq_eq in E. subst q. cbn. intuition.
    + destruct (ble p q); cbn [In]; [intuition|]. rewrite IH. intuition.
Qed.

Lemma In_sort_paths x l : In x (sort_paths l) <-> In x l.
Proof.
  induction l as [|p l IH]; cbn [sort_paths fold_right]; [reflexivity|].
  fold (sort_paths l). rewrite In_insert_path, IH. cbn. intuition.
Qed.

Lemma tlookup_some_in t p b : tlookup t p = Some b -> In p (map fst t).
Proof.
  induction t as [|[q c] t IH]; cbn [tlookup map fst]; [discriminate|].
  destruct (beq p q) eqn:E; intros H.
  - left. symmetry. apply beq_eq, E.
  - right. apply IH, H.
Qed.

Lemma opt_eqb_neq a b : a <> b -> opt_eqb a b = false.
Proof.
  destruct a as [x|], b as [y|]; cbn; intros H; try reflexivity.
  - destruct (N.eqb_spec x y); [subst; contradiction|reflexivity].
  - contradiction.
Qed.

Theorem diff_complete a b p : tlookup a p <> tlookup b p -> In p (diff_paths a b).
Proof.
  intros H. unfold diff_paths. apply In_sort_paths, filter_In. split.
  - apply in_or_app. destruct (tlookup a p) as [x|] eqn:Ea.
    + left. eapply tlookup_some_in, Ea.
    + destruct (tlookup b p) as [y|] eqn:Eb; [right; eapply tlookup_some_in, Eb|contradiction].
  - rewrite (opt_eqb_neq _ _ H). reflexivity.
Qed.

Theorem diff_sound a b p : In p (diff_paths a b) -> tlookup a p <> tlookup b p.
Proof.
  unfold diff_paths. intros H. apply In_sort_paths, filter_In in H. destruct H as [_ H].
  intros E. rewrite E in H. destruct (tlookup b p); cbn in H; [rewrite N.eqb_refl in H|]; discriminate.
Qed.

(** root commit: every file; one parent: every difference; merge: every difference with any parent
    unless the merge result is exactly its last parent's tree *)
Theorem changed_paths_complete g c i :
  glookup g c = Some i ->
  match fc_parents i with
  | [] => forall p b, tlookup (fc_tree i) p = Some b -> In p (changed_paths g c)
  | [q] => forall p, tlookup (tree_of_commit g q) p <> tlookup (fc_tree i) p -> In p (changed_paths g c)
  | qs => diff_paths (tree_of_commit g (last qs 0%N)) (fc_tree i) <> [] ->
          forall q p, In q qs -> tlookup (tree_of_commit g q) p <> tlookup (fc_tree i) p -> In p (changed_paths g c)
  end.
Proof.
  intros Hg. unfold changed_paths. rewrite Hg. destruct (fc_parents i) as [|q [|q' qs]].
  - intros p b Hp. apply In_sort_paths. eapply tlookup_some_in, Hp.
  - intros p Hp. apply diff_complete, Hp.
  - intros Hne q0 p Hq Hp.
    destruct (diff_paths (tree_of_commit g (last (q :: q' :: qs) 0%N)) (fc_tree i)) eqn:E; [contradiction|].
    apply In_sort_paths, in_flat_map. exists q0. split; [exact Hq|apply diff_complete, Hp].
Qed.
