(** Property C09 — approvals count only for the exact change named, once per principal.
    Only statements here; proofs are in WorldProofs.v / SigProofs.v. *)
From GV Require Import Sig SigProofs World WorldProofs.

(** An authorization is used for the change (ref, from, to) only if it is stored for that change
    AND its signed statement names exactly that reference, prior state and resulting tree. *)
Theorem C09_bound_to_exact_change : forall auths ref from to signers,
  find_authz auths ref from to = AzEnv signers ->
  exists a, In a auths /\ az_signers a = signers /\
    az_path_ref a = ref /\ az_path_from a = from /\ az_path_to a = to /\
    az_ref a = ref /\ az_from a = from /\ az_to a = to.
Proof. exact find_authz_bound. Qed.
Print Assumptions C09_bound_to_exact_change.

(** A validly signed statement for another change stored at this change's path is never counted:
    the lookup reports it as invalid and the entry fails. *)
Theorem C09_misplaced_statement_rejected : forall auths ref from to,
  find_authz auths ref from to = AzInvalid ->
  exists a, In a auths /\ az_path_ref a = ref /\ az_path_from a = from /\ az_path_to a = to /\
    ~ (az_ref a = ref /\ az_from a = from /\ az_to a = to).
Proof. exact misbound_statement_rejected. Qed.
Print Assumptions C09_misplaced_statement_rejected.

(** Counting: the entry's own signature and the authorization's signatures are fed to one
    [Sig.verify] call per consulted rule, so by C05 each trusted principal is counted at most once
    whether they signed the log entry, the authorization, or both. *)
Theorem C09_counted_once : forall v hg g env S W,
  verify_w v hg g env = (VOkSet S, W) -> NoDup S /\ NoDup (map snd W).
Proof. intros v hg g env S W H. destruct (verify_sound _ _ _ _ _ _ H) as (_ & H1 & H2 & _). auto. Qed.
Print Assumptions C09_counted_once.

(** C09_code_review_partial.  Code-review (GitHub app) approvals — app trust flag, app-key
    signature, approver-to-principal mapping, dismissed approvers — are not modelled yet; they are
    outside the generated worlds.  Only the attestation state recorded before the entry is used:
    [verify_entry] reads attestations through [attest_before w i], which filters positions < i. *)
