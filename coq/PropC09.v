(** Property C09 — approvals count only for the exact change named, once per principal.
    Only statements here; proofs are in WorldProofs.v / SigProofs.v. *)
From GV Require Import Sig SigProofs World WorldProofs Reviews ReviewsProofs.

(** An authorization is used for the change (ref, from, to) only if it is stored for that change
    AND its signed statement names exactly that reference, prior state and resulting tree. *)
Theorem C09_bound_to_exact_change : forall auths ref from to signers,
  find_authz auths ref from to = AzEnv signers ->
  exists a, In a auths /\ az_signers a = signers /\
    az_path_ref a = ref /\ az_path_from a = from /\ az_path_to a = to /\
    az_ref a = ref /\ az_from a = from /\ az_to a = to.
Proof. exact find_authz_bound. Qed.
Print Assumptions C09_bound_to_exact_change.

(** A validly signed statement for another change stored at this change's path is never counted:
    the lookup reports it as invalid and the entry fails. *)
Theorem C09_misplaced_statement_rejected : forall auths ref from to,
  find_authz auths ref from to = AzInvalid ->
  exists a, In a auths /\ az_path_ref a = ref /\ az_path_from a = from /\ az_path_to a = to /\
    ~ (az_ref a = ref /\ az_from a = from /\ az_to a = to).
Proof. exact misbound_statement_rejected. Qed.
Print Assumptions C09_misplaced_statement_rejected.

(** Counting: the entry's own signature and the authorization's signatures are fed to one
    [Sig.verify] call per consulted rule, so by C05 each trusted principal is counted at most once
    whether they signed the log entry, the authorization, or both. *)
Theorem C09_counted_once : forall v hg g env S W,
  verify_w v hg g env = (VOkSet S, W) -> NoDup S /\ NoDup (map snd W).
Proof. intros v hg g env S W H. destruct (verify_sound _ _ _ _ _ _ H) as (_ & H1 & H2 & _). auto. Qed.
Print Assumptions C09_counted_once.

(** Code-review approvals.  Every approved identity comes from an attestation stored in a trusted
    app's slot for exactly this change, signed by that app's keys to its threshold, whose signed
    statement names exactly this reference, prior state and resulting tree. *)
Theorem C09_review_bound_to_exact_change : forall rs ref from to apps l ident,
  collect_approvers apps rs ref from to = Some l -> In ident l ->
  exists a r, In a apps /\ a_trusted a = true /\ find_review rs (a_name a) ref from to = Some r /\
    statement_matches r ref from to = true /\
    accepts {| v_principals := key_principals (a_keys a); v_threshold := a_thr a; v_exhaustive := false |} false 0%N (env_of (rv_signers r)) = true /\
    In ident (rv_approvers r).
Proof. exact collect_approvers_sound. Qed.
Print Assumptions C09_review_bound_to_exact_change.

(** A principal credited through approvals is a principal of the rule, was not already credited by a
    signature, and registered an approved identity under a trusted app ... *)
Theorem C09_review_credit_justified : forall apps ids approved v used p,
  In p (review_credit apps ids approved v used) ->
  In p (map fst (vr_pr v)) /\ ~ In p used /\
  exists a ident, In a apps /\ a_trusted a = true /\ In (p, a_name a, ident) ids /\ In ident approved.
Proof. exact review_credit_sound. Qed.
Print Assumptions C09_review_credit_justified.

(** ... and is credited once. *)
Theorem C09_review_credit_once : forall apps ids approved v used, NoDup (review_credit apps ids approved v used).
Proof. exact review_credit_once. Qed.
Print Assumptions C09_review_credit_once.

(** An accepted entry: some verifier of the branch reaches its threshold with the principals its
    signatures credit plus the principals its approvals credit. *)
Theorem C09_accepted_with_reviews : forall apps ids approved signer env vs s,
  first_satisfied_r apps ids approved vs signer env = Some s ->
  exists v, In v vs /\
    (verify (vrec_verifier v) true signer env = VOkSet s \/
     exists s0, verify (vrec_verifier v) true signer env = VErr EUnmet s0 /\
                s = s0 ++ review_credit apps ids approved v s0 /\ (vr_thr v <= Z.of_nat (List.length s))%Z).
Proof. exact first_satisfied_r_sound. Qed.
Print Assumptions C09_accepted_with_reviews.

(** C09_partial.  An approved identity is matched against the identities a principal registered for
    ANY trusted app, not only the app that attested it (the implementation does the same); dismissed
    approvers and approval of tags are not modelled.  Only the attestation state recorded before the
    entry is used: [verify_entry] reads attestations through [attest_before w i] (positions < i). *)
