(** C13: case types and checker. *)
From GV Require Export Meta Verdict.

Definition merr_eqb (a b : merr) : bool :=
  match a, b with
  | MPrefix, MPrefix | MPrincipalNotFound, MPrincipalNotFound | MInvalidThreshold, MInvalidThreshold
  | MCannotMeet, MCannotMeet | MDupRule, MDupRule | MRuleNotFound, MRuleNotFound | MMissingRules, MMissingRules
  | MStillInUse, MStillInUse | MInvalidID, MInvalidID | MInvalidRoot, MInvalidRoot | MNoTargetsRole, MNoTargetsRole
  | MOther, MOther => true
  | _, _ => false
  end.

Definition oerr_eqb (a b : option merr) : bool :=
  match a, b with Some x, Some y => merr_eqb x y | None, None => true | _, _ => false end.

Fixpoint nsubset (a b : list N) : bool := match a with [] => true | x :: a' => nmem x b && nsubset a' b end.
Definition nseteq (a b : list N) : bool := nsubset a b && nsubset b a && Nat.eqb (List.length (dedup a)) (List.length (dedup b)).

Definition blist_eqb (a b : list bytes) : bool :=
  Nat.eqb (List.length a) (List.length b) && forallb (fun p => beq (fst p) (snd p)) (combine a b).

Definition trule_eqb (a b : trule) : bool :=
  beq (tr_name a) (tr_name b) && blist_eqb (tr_patterns a) (tr_patterns b) && Bool.eqb (tr_term a) (tr_term b)
  && nseteq (tr_pids a) (tr_pids b) && Z.eqb (tr_thr a) (tr_thr b).

Definition targets_eqb (a b : targets) : bool :=
  Bool.eqb (tg_alloc a) (tg_alloc b) && nseteq (tg_principals a) (tg_principals b)
  && Nat.eqb (List.length (tg_rules a)) (List.length (tg_rules b))
  && forallb (fun p => trule_eqb (fst p) (snd p)) (combine (tg_rules a) (tg_rules b)).

Definition role_eqb (a b : option role) : bool :=
  match a, b with
  | Some x, Some y => nseteq (ro_pids x) (ro_pids y) && Z.eqb (ro_thr x) (ro_thr y)
  | None, None => true
  | _, _ => false
  end.

Definition root_eqb (a b : rootmd) : bool :=
  nseteq (rm_principals a) (rm_principals b) && role_eqb (rm_root a) (rm_root b) && role_eqb (rm_targets a) (rm_targets b).

(** per operation: the error the implementation returned and the metadata it held afterwards *)
Inductive c13case :=
| C13T (ops : list top) (obs : list (option merr * targets)) (roundtrip_ok migrate_ok : bool)
| C13R (ops : list rop) (obs : list (option merr * rootmd)) (roundtrip_ok migrate_ok : bool)
  (* a loaded policy state: per rule file its user rule names; did loading refuse it as holding a
     duplicated rule name; State.HasRuleName for some names *)
| C13Names (files : list (bytes * list bytes)) (refused_dup : bool) (loaded : bool) (queries : list (bytes * bool))
| C13Panic.

Definition all_rule_names (files : list (bytes * list bytes)) : list bytes := flat_map snd files.
Fixpoint has_dup (l : list bytes) : bool :=
  match l with [] => false | x :: l' => existsb (beq x) l' || has_dup l' end.

(** the property on the implementation's own trace: invariant after every step; a refused edit
    leaves the metadata unchanged *)
Fixpoint ttrace_ok (prev : targets) (obs : list (option merr * targets)) : bool :=
  match obs with
  | [] => true
  | (e, t) :: obs' =>
      targets_inv t && (match e with Some _ => targets_eqb t prev | None => true end) && ttrace_ok t obs'
  end.

Fixpoint rtrace_ok (prev : rootmd) (obs : list (option merr * rootmd)) : bool :=
  match obs with
  | [] => true
  | (e, m) :: obs' =>
      root_inv m && (match e with Some _ => root_eqb m prev | None => true end) && rtrace_ok m obs'
  end.

Fixpoint tagree (t : targets) (ops : list top) (obs : list (option merr * targets)) : bool :=
  match ops, obs with
  | [], [] => true
  | o :: ops', (e, t') :: obs' =>
      let '(me, mt) := tstep t o in oerr_eqb me e && targets_eqb mt t' && tagree mt ops' obs'
  | _, _ => false
  end.

Fixpoint ragree (m : rootmd) (ops : list rop) (obs : list (option merr * rootmd)) : bool :=
  match ops, obs with
  | [], [] => true
  | o :: ops', (e, m') :: obs' =>
      let '(me, mm) := rstep m o in oerr_eqb me e && root_eqb mm m' && ragree mm ops' obs'
  | _, _ => false
  end.

Definition c13_check (c : c13case) : verdict :=
  match c with
  | C13Panic => VSpec 9
  | C13Names files refused loaded queries =>
      (* user rule names stay unique across all rule files: a state holding a duplicate is refused;
         a loaded state answers "is this name taken" exactly *)
      let names := all_rule_names files in
      if has_dup names then (if refused then VOk else VSpec 6)
      else if refused then VSpec 6
      else if negb loaded then VMismatch 6
      else if forallb (fun q => Bool.eqb (snd q) (existsb (beq (fst q)) names)) queries then VOk else VSpec 6
  | C13T ops obs rt mg =>
      if negb (ttrace_ok new_targets obs) then VSpec 1
      else if negb rt then VSpec 3 else if negb mg then VSpec 4
      else if negb (tagree new_targets ops obs) then VMismatch 1 else VOk
  | C13R ops obs rt mg =>
      if negb (rtrace_ok new_root obs) then VSpec 2
      else if negb rt then VSpec 3 else if negb mg then VSpec 4
      else if negb (ragree new_root ops obs) then VMismatch 2 else VOk
  end.
