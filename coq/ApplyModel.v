(** C12 model: staging, Apply, Discard and direct tampering of the policy refs
    (internal/policy/policy.go:718-1075), over the policy-state model of World.v. *)
From GV Require Export World.

(** a policy commit: its parent (on the staging line) and the state it holds *)
(** [pc_ctl_ok]: the controller part of State.Verify succeeds for this commit - trivially when the tree
    carries no controller metadata; otherwise every controller repository the root declares must be
    clonable, a propagation entry of this log must vouch for it, and its own root of trust must load.
    The flag is an input of the model: controller repositories themselves are not modelled. *)
Record pcommit := { pc_parent : option N; pc_state : pstate; pc_ctl_ok : bool }.

Record astate := {
  a_policy : option N;                     (* refs/gittuf/policy *)
  a_staging : option N;                    (* refs/gittuf/policy-staging *)
  a_log : list (bool * N);                 (* reference entries for the two refs, oldest first: (is_policy, target) *)
  a_commits : list (N * pcommit);
  a_next : N }.

Definition a_init : astate := {| a_policy := None; a_staging := None; a_log := []; a_commits := []; a_next := 1 |}.

Inductive aop := AStage (ps : pstate) (ctl_ok : bool) | AApply | ADiscard | ATamperPolicy (c : N) | ATamperStaging (c : N).
Inductive aerr := AEInvalidPolicy | AENotAncestor | AENoStaging | AEInvalidState | AEOther.

Fixpoint lookup_pc (cs : list (N * pcommit)) (c : N) : option pcommit :=
  match cs with [] => None | (d, p) :: cs' => if N.eqb c d then Some p else lookup_pc cs' c end.

(** is [anc] reachable from [c] along parents? *)
Fixpoint descends (cs : list (N * pcommit)) (fuel : nat) (c anc : N) : bool :=
  N.eqb c anc ||
  match fuel with
  | 0 => false
  | S f => match lookup_pc cs c with
           | Some {| pc_parent := Some p |} => descends cs f p anc
           | _ => false
           end
  end.

Definition latest_entry_for (log : list (bool * N)) (is_policy : bool) : option N :=
  match rev (filter (fun e => Bool.eqb (fst e) is_policy) log) with [] => None | e :: _ => Some (snd e) end.

Definition ref_consistent (r : option N) (e : option N) : option bool :=   (* Some found / None = ErrInvalidPolicy *)
  match r, e with
  | Some x, Some y => if N.eqb x y then Some true else None
  | None, None => Some false
  | _, _ => None
  end.

(** the policy states recorded by policy entries, oldest first *)
Definition policy_chain (s : astate) : list (nat * pstate) :=
  flat_map (fun e : bool * N => if fst e then match lookup_pc (a_commits s) (snd e) with Some p => [(0, pc_state p)] | None => @nil (nat * pstate) end else @nil (nat * pstate)) (a_log s).

Definition chain_verifies (l : list (nat * pstate)) : option (option pstate) :=
  match l with
  | [] => Some None
  | (_, p0) :: rest => match chain_ok p0 rest with Some last => Some (Some last) | None => None end
  end.

(** ReconcileStaging, for the cases that do not rewrite history *)
Definition reconcile (s : astate) : option aerr * astate :=
  match ref_consistent (a_policy s) (latest_entry_for (a_log s) true),
        ref_consistent (a_staging s) (latest_entry_for (a_log s) false) with
  | None, _ | _, None => (Some AEInvalidPolicy, s)
  | Some false, _ => (None, s)
  | Some true, Some false => (Some AEOther, s)       (* policy applied but no staging at all: KnowsCommit on a zero id fails *)
  | Some true, Some true =>
      match a_policy s, a_staging s with
      | Some p, Some st =>
          let fuel := S (List.length (a_commits s)) in
          if N.eqb p st || descends (a_commits s) fuel st p then (None, s)
          else if descends (a_commits s) fuel p st then
            (None, {| a_policy := a_policy s; a_staging := Some p; a_log := a_log s ++ [(false, p)];
                      a_commits := a_commits s; a_next := a_next s |})
          else (Some AEOther, s)                       (* diverged: rebase, not modelled *)
      | _, _ => (Some AEOther, s)
      end
  end.

Definition astep (s : astate) (o : aop) : option aerr * astate :=
  match o with
  | AStage ps ctl_ok =>
      let c := a_next s in
      (None, {| a_policy := a_policy s; a_staging := Some c; a_log := a_log s ++ [(false, c)];
                a_commits := (c, {| pc_parent := a_staging s; pc_state := ps; pc_ctl_ok := ctl_ok |}) :: a_commits s; a_next := N.succ c |})
  | ADiscard =>
      (None, {| a_policy := a_policy s; a_staging := a_policy s; a_log := a_log s; a_commits := a_commits s; a_next := a_next s |})
  | ATamperPolicy c =>
      (None, {| a_policy := Some c; a_staging := a_staging s; a_log := a_log s; a_commits := a_commits s; a_next := a_next s |})
  | ATamperStaging c =>
      (None, {| a_policy := a_policy s; a_staging := Some c; a_log := a_log s; a_commits := a_commits s; a_next := a_next s |})
  | AApply =>
      match reconcile s with
      | (Some e, s1) => (Some e, s1)
      | (None, s1) =>
          match ref_consistent (a_policy s1) (latest_entry_for (a_log s1) true) with
          | None => (Some AEInvalidPolicy, s1)
          | Some _ =>
              match a_staging s1 with
              | None => (Some AENoStaging, s1)
              | Some st =>
                  if match a_policy s1 with
                     | Some p => negb (descends (a_commits s1) (S (List.length (a_commits s1))) st p)
                     | None => false
                     end
                  then (Some AENotAncestor, s1)
                  else
                    (* LoadCurrentState(staging): the policy entries so far must chain; then the staged state must verify *)
                    match chain_verifies (policy_chain s1), latest_entry_for (a_log s1) false with
                    | Some cur, Some ste =>
                        match lookup_pc (a_commits s1) ste with
                        | Some staged =>
                            if pc_ctl_ok staged
                               && (state_verify (pc_state staged)
                               && match cur with Some c => verify_new_state c (pc_state staged) | None => true end   (* F8 repair *)
                               && match cur with Some c => state_verify c | None => true end)
                            then (None, {| a_policy := Some st; a_staging := a_staging s1; a_log := a_log s1 ++ [(true, st)];
                                           a_commits := a_commits s1; a_next := a_next s1 |})
                            else (Some AEInvalidState, s1)
                        | None => (Some AEOther, s1)
                        end
                    | _, _ => (Some AEInvalidState, s1)
                    end
              end
          end
      end
  end.

Fixpoint arun (s : astate) (ops : list aop) : list (option aerr) * astate :=
  match ops with
  | [] => ([], s)
  | o :: ops' => let '(e, s1) := astep s o in let '(es, s2) := arun s1 ops' in (e :: es, s2)
  end.

(** what subsequent verification does with the published policy: LoadCurrentState(policy) *)
Definition published_loadable (s : astate) : bool :=
  match chain_verifies (policy_chain s) with
  | Some (Some last) => state_verify last
  | Some None => true
  | None => false
  end.
