(** C13 model: the mutators of rule files (internal/tuf/v02/targets.go, v01 likewise) and of the
    root/targets roles in root metadata (internal/tuf/v02/root.go).  Principal ids are numbers
    (0 = the empty string); sets are duplicate-free lists. *)
From GV Require Export Bytes.
From Coq Require Export ZArith.
From Coq Require Import Strings.String.

Definition GittufPrefix : bytes := Eval compute in bs "gittuf-"%string.
Definition AllowRuleName : bytes := Eval compute in bs "gittuf-allow-rule"%string.

Definition nmem (x : N) (l : list N) : bool := existsb (N.eqb x) l.
Fixpoint dedup (l : list N) : list N :=
  match l with [] => [] | x :: l' => if nmem x l' then dedup l' else x :: dedup l' end.
Definition set_add (x : N) (s : list N) : list N := if nmem x s then s else s ++ [x].
Definition set_remove (x : N) (s : list N) : list N := filter (fun y => negb (N.eqb y x)) s.

Record trule := { tr_name : bytes; tr_patterns : list bytes; tr_term : bool; tr_pids : list N; tr_thr : Z }.
(* tg_alloc: the Go principals map has been allocated (nil until the first AddPrincipal) *)
Record targets := { tg_alloc : bool; tg_principals : list N; tg_rules : list trule }.

Definition allow_rule : trule :=
  {| tr_name := AllowRuleName; tr_patterns := [[x2a]]; tr_term := true; tr_pids := []; tr_thr := 1 |}.

Definition new_targets : targets := {| tg_alloc := false; tg_principals := []; tg_rules := [allow_rule] |}.

Inductive merr :=
| MPrefix | MPrincipalNotFound | MInvalidThreshold | MCannotMeet | MDupRule | MRuleNotFound | MMissingRules
| MStillInUse | MInvalidID | MInvalidRoot | MNoTargetsRole | MOther.

Inductive top :=
| TAddRule (name : bytes) (pids : list N) (patterns : list bytes) (thr : Z)
| TUpdateRule (name : bytes) (pids : list N) (patterns : list bytes) (thr : Z)
| TRemoveRule (name : bytes)
| TReorder (names : list bytes)
| TAddPrincipal (p : N)
| TUpdatePrincipal (p : N)
| TRemovePrincipal (p : N).

Definition is_allow (r : trule) : bool := beq (tr_name r) AllowRuleName.

(** the argument checks shared by AddRule and UpdateRule (with the F7 repair: the threshold is
    compared with the number of DISTINCT principal ids) *)
Definition rule_args_check (t : targets) (name : bytes) (pids : list N) (thr : Z) : option merr :=
  if has_prefix GittufPrefix name then Some MPrefix
  else if negb (forallb (fun p => nmem p (tg_principals t)) pids) then Some MPrincipalNotFound
  else if (thr <=? 0)%Z then Some MInvalidThreshold
  else if (Z.of_nat (List.length (dedup pids)) <? thr)%Z then Some MCannotMeet
  else None.

(** UpdateRule rebuilds the list up to the first allow rule *)
Fixpoint update_rules (rs : list trule) (name : bytes) (pids : list N) (patterns : list bytes) (thr : Z) : list trule :=
  match rs with
  | [] => []
  | r :: rs' =>
      if is_allow r then []
      else (if beq (tr_name r) name
            then {| tr_name := tr_name r; tr_patterns := patterns; tr_term := tr_term r; tr_pids := dedup pids; tr_thr := thr |}
            else r) :: update_rules rs' name pids patterns thr
  end.

Fixpoint names_dup (l : list bytes) : bool :=
  match l with [] => false | x :: l' => existsb (beq x) l' || names_dup l' end.

Definition name_in (n : bytes) (l : list bytes) : bool := existsb (beq n) l.

(** the rule a name denotes for ReorderRules: the LAST non-allow rule of that name *)
Fixpoint last_rule_named (rs : list trule) (n : bytes) : option trule :=
  match rs with
  | [] => None
  | r :: rs' =>
      match last_rule_named rs' n with
      | Some x => Some x
      | None => if negb (is_allow r) && beq (tr_name r) n then Some r else None
      end
  end.

Definition tstep (t : targets) (o : top) : option merr * targets :=
  match o with
  | TAddRule name pids patterns thr =>
      match rule_args_check t name pids thr with
      | Some e => (Some e, t)
      | None =>
          let r := {| tr_name := name; tr_patterns := patterns; tr_term := false; tr_pids := dedup pids; tr_thr := thr |} in
          (None, {| tg_alloc := tg_alloc t; tg_principals := tg_principals t; tg_rules := removelast (tg_rules t) ++ [r; allow_rule] |})
      end
  | TUpdateRule name pids patterns thr =>
      match rule_args_check t name pids thr with
      | Some e => (Some e, t)
      | None => (None, {| tg_alloc := tg_alloc t; tg_principals := tg_principals t;
                          tg_rules := update_rules (tg_rules t) name pids patterns thr ++ [allow_rule] |})
      end
  | TRemoveRule name =>
      if has_prefix GittufPrefix name then (Some MPrefix, t)
      else (None, {| tg_alloc := tg_alloc t; tg_principals := tg_principals t;
                     tg_rules := filter (fun r => negb (beq (tr_name r) name)) (tg_rules t) |})
  | TReorder names =>
      let current := map tr_name (filter (fun r => negb (is_allow r)) (tg_rules t)) in
      if names_dup names then (Some MDupRule, t)
      else if negb (forallb (fun n => name_in n current) names) then
        (Some (if name_in AllowRuleName names then MPrefix else MRuleNotFound), t)
      else if negb (forallb (fun n => name_in n names) current) then (Some MMissingRules, t)
      else (None, {| tg_alloc := tg_alloc t; tg_principals := tg_principals t;
                     tg_rules := flat_map (fun n => match last_rule_named (tg_rules t) n with Some r => [r] | None => [] end) names
                                 ++ [allow_rule] |})
  | TAddPrincipal p => (None, {| tg_alloc := true; tg_principals := set_add p (tg_principals t); tg_rules := tg_rules t |})
  | TUpdatePrincipal p => if nmem p (tg_principals t) then (None, t) else (Some MPrincipalNotFound, t)
  | TRemovePrincipal p =>
      if negb (tg_alloc t) then (Some MPrincipalNotFound, t)
      else if N.eqb p 0 then (Some MInvalidID, t)
      else if existsb (fun r => nmem p (tr_pids r)) (tg_rules t) then (Some MStillInUse, t)
      else (None, {| tg_alloc := true; tg_principals := set_remove p (tg_principals t); tg_rules := tg_rules t |})
  end.

Fixpoint trun (t : targets) (ops : list top) : list (option merr) * targets :=
  match ops with
  | [] => ([], t)
  | o :: ops' => let '(e, t1) := tstep t o in let '(es, t2) := trun t1 ops' in (e :: es, t2)
  end.

(** the invariant of the property, as a boolean *)
Definition rule_ok (t : targets) (r : trule) : bool :=
  negb (has_prefix GittufPrefix (tr_name r)) && (1 <=? tr_thr r)%Z
  && (tr_thr r <=? Z.of_nat (List.length (dedup (tr_pids r))))%Z
  && forallb (fun p => nmem p (tg_principals t)) (tr_pids r).

Definition targets_inv (t : targets) : bool :=
  match rev (tg_rules t) with
  | [] => false
  | last :: before => is_allow last && forallb (rule_ok t) before   (* allow rule last and only there: every other name lacks the prefix *)
  end.

(** ** roles in root metadata *)
Record role := { ro_pids : list N; ro_thr : Z }.
Record rootmd := { rm_principals : list N; rm_root : option role; rm_targets : option role }.

Definition new_root : rootmd := {| rm_principals := []; rm_root := None; rm_targets := None |}.

Inductive rop :=
| RAddRoot (p : N) | RDelRoot (p : N) | RAddTargets (p : N) | RDelTargets (p : N)
| RSetRootThr (z : Z) | RSetTargetsThr (z : Z).

Definition add_to_role (ro : option role) (p : N) : option role :=
  match ro with
  | None => Some {| ro_pids := [p]; ro_thr := 1 |}
  | Some r => Some {| ro_pids := set_add p (ro_pids r); ro_thr := ro_thr r |}
  end.

Definition rstep (m : rootmd) (o : rop) : option merr * rootmd :=
  match o with
  | RAddRoot p => (None, {| rm_principals := set_add p (rm_principals m); rm_root := add_to_role (rm_root m) p; rm_targets := rm_targets m |})
  | RAddTargets p => (None, {| rm_principals := set_add p (rm_principals m); rm_root := rm_root m; rm_targets := add_to_role (rm_targets m) p |})
  | RDelRoot p =>
      match rm_root m with
      | None => (Some MInvalidRoot, m)
      | Some r => if (Z.of_nat (List.length (ro_pids r)) <=? ro_thr r)%Z then (Some MCannotMeet, m)
                  else (None, {| rm_principals := rm_principals m; rm_root := Some {| ro_pids := set_remove p (ro_pids r); ro_thr := ro_thr r |}; rm_targets := rm_targets m |})
      end
  | RDelTargets p =>
      if N.eqb p 0 then (Some MInvalidID, m)
      else match rm_targets m with
           | None => (Some MNoTargetsRole, m)
           | Some r => if (Z.of_nat (List.length (ro_pids r)) <=? ro_thr r)%Z then (Some MCannotMeet, m)
                       else (None, {| rm_principals := rm_principals m; rm_root := rm_root m; rm_targets := Some {| ro_pids := set_remove p (ro_pids r); ro_thr := ro_thr r |} |})
           end
  | RSetRootThr z =>
      match rm_root m with
      | None => (Some MInvalidRoot, m)
      | Some r => if (z <=? 0)%Z then (Some MInvalidThreshold, m)
                  else if (Z.of_nat (List.length (ro_pids r)) <? z)%Z then (Some MCannotMeet, m)
                  else (None, {| rm_principals := rm_principals m; rm_root := Some {| ro_pids := ro_pids r; ro_thr := z |}; rm_targets := rm_targets m |})
      end
  | RSetTargetsThr z =>
      match rm_targets m with
      | None => (Some MNoTargetsRole, m)
      | Some r => if (z <=? 0)%Z then (Some MInvalidThreshold, m)
                  else if (Z.of_nat (List.length (ro_pids r)) <? z)%Z then (Some MCannotMeet, m)
                  else (None, {| rm_principals := rm_principals m; rm_root := rm_root m; rm_targets := Some {| ro_pids := ro_pids r; ro_thr := z |} |})
      end
  end.

Fixpoint rrun (m : rootmd) (ops : list rop) : list (option merr) * rootmd :=
  match ops with
  | [] => ([], m)
  | o :: ops' => let '(e, m1) := rstep m o in let '(es, m2) := rrun m1 ops' in (e :: es, m2)
  end.

Fixpoint nodup_n (l : list N) : bool := match l with [] => true | x :: l' => negb (nmem x l') && nodup_n l' end.

Definition role_ok (m : rootmd) (ro : option role) : bool :=
  match ro with
  | None => true
  | Some r => (1 <=? ro_thr r)%Z && (ro_thr r <=? Z.of_nat (List.length (ro_pids r)))%Z && nodup_n (ro_pids r)
              && forallb (fun p => nmem p (rm_principals m)) (ro_pids r)
  end.

Definition root_inv (m : rootmd) : bool := role_ok m (rm_root m) && role_ok m (rm_targets m).
