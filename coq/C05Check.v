(** C05: case type and checker. *)
From GV Require Export Sig Verdict.

Fixpoint subset (a b : list N) : bool :=
  match a with [] => true | x :: a' => mem x b && subset a' b end.
Definition seteq (a b : list N) : bool := subset a b && subset b a.

Definition verr_eqb (a b : verr) : bool :=
  match a, b with
  | EInvalidVerifier, EInvalidVerifier | EUnmet, EUnmet | ENoSignature, ENoSignature | EOtherErr, EOtherErr => true
  | _, _ => false
  end.

Definition vres_eqb (a b : vres) : bool :=
  match a, b with
  | VOkSet s, VOkSet s' => seteq s s'
  | VErr e s, VErr e' s' => verr_eqb e e' && (match e with EUnmet => seteq s s' | _ => true end)
  | _, _ => false
  end.

Inductive c05obs := OV (r : vres) | OPanicV.
Definition c05wrap (r : vres) := OV r.
Coercion c05wrap : vres >-> c05obs.

Inductive c05case := C05 (v : verifier) (has_git : bool) (gitsig : key) (env : option (list sigrec)) (obs : c05obs).

Fixpoint nodup_b (l : list N) : bool := match l with [] => true | x :: l' => negb (mem x l') && nodup_b l' end.

(** the property evaluated on the implementation's answer: an accepted set must be justified by an
    injective assignment of own, validly signing keys (searched by brute force over the small
    instance), with at most one principal justified by the Git signature only *)
Definition signed_env (env : option (list sigrec)) (k : key) : bool :=
  match env with
  | Some sigs => existsb (fun s => N.eqb (s_signer s) k && s_valid s && negb (N.eqb k 0)) sigs
  | None => false
  end.

Definition keys_of (v : verifier) (p : pid) : list key :=
  flat_map (fun pr => if N.eqb (p_id pr) p then p_keys pr else []) (v_principals v).

(** can the principals [ps] be assigned distinct keys, each validly signing; [git_left]: the Git
    signature may still justify one of them *)
Fixpoint assignable (fuel : nat) (v : verifier) (has_git : bool) (gitsig : key) (env : option (list sigrec))
  (ps : list pid) (usedk : list key) (git_left : bool) : bool :=
  match fuel with
  | 0 => false
  | S f =>
      match ps with
      | [] => true
      | p :: ps' =>
          existsb (fun k => negb (mem k usedk) &&
                     ((signed_env env k && assignable f v has_git gitsig env ps' (k :: usedk) git_left)
                      || (git_left && has_git && N.eqb k gitsig && negb (N.eqb k 0)
                          && assignable f v has_git gitsig env ps' (k :: usedk) false)))
                  (keys_of v p)
      end
  end.

Definition accept_justified (v : verifier) (has_git : bool) (gitsig : key) (env : option (list sigrec)) (s : list pid) : bool :=
  nodup_b s && subset s (map p_id (v_principals v))
  && assignable (S (List.length s)) v has_git gitsig env s [] true.

(** exactness when no key is shared: enough signers => satisfied *)
Definition signed_principal (hg : bool) (g : key) (env : option (list sigrec)) (pr : principal) : bool :=
  existsb (fun k => (hg && N.eqb k g && negb (N.eqb k 0))
                    || match env with Some sigs => existsb (provider_accepts k) sigs | None => false end) (p_keys pr).

Definition disjoint_keys_b (v : verifier) : bool :=
  nodup_b (map p_id (v_principals v)) && nodup_b (flat_map p_keys (v_principals v)).

Definition must_accept (v : verifier) (hg : bool) (g : key) (env : option (list sigrec)) : bool :=
  disjoint_keys_b v && (1 <=? v_threshold v)%Z
  && (v_threshold v <=? Z.of_nat (List.length (filter (signed_principal hg g env) (v_principals v))))%Z
  && match env with Some [] => false | _ => true end.

Definition c05_check (c : c05case) : verdict :=
  match c with
  | C05 v hg g env OPanicV => VSpec 9
  | C05 v hg g env (OV r) =>
      let spec_ok :=
        match r with
        | VOkSet s =>
            accept_justified v hg g env s
            && (v_exhaustive v || (v_threshold v <=? Z.of_nat (List.length s))%Z)
            && negb ((v_threshold v <? 1)%Z || Nat.eqb (List.length (v_principals v)) 0)
        | VErr _ _ => true
        end in
      if negb spec_ok then VSpec 1
      else if must_accept v hg g env && (match r with VOkSet _ => false | VErr _ _ => true end) then VSpec 2
      else if negb (vres_eqb (verify v hg g env) r) then VMismatch 1
      else VOk
  end.
