(** C15 model: ReconcileLocalRSLWithRemote (with the re-recording repairs of fix F5) and sync
    (experimental/gittuf/rsl.go) over positional logs: an entry is named by its position in the
    log, annotations name the positions they refer to. *)
From GV Require Export Bytes.
From Coq Require Export List Bool Arith NArith Lia.
Export ListNotations.

Inductive lent :=
| LRef (ref : bytes) (target : N)
| LProp (ref : bytes) (target : N) (uprepo : bytes) (upentry : N)
| LAnn (targets : list nat) (skip : bool).

Definition updater_ref (e : lent) : option bytes :=
  match e with LRef r _ | LProp r _ _ _ => Some r | LAnn _ _ => None end.

Definition mem_ref (r : bytes) (l : list bytes) : bool := existsb (beq r) l.
Definition updated_refs (l : list lent) : list bytes :=
  flat_map (fun e => match updater_ref e with Some r => [r] | None => [] end) l.

(** move an annotation's references: positions at or beyond [p] (local-only entries) are re-recorded
    [k] places later *)
Definition shift (p k : nat) (e : lent) : lent :=
  match e with
  | LAnn ts s => LAnn (map (fun t => if Nat.ltb t p then t else t + k) ts) s
  | _ => e
  end.

Inductive rres := ROk (log : list lent) | RConflict.

(** local = pre ++ ls, remote = pre ++ rs *)
Definition reconcile (pre ls rs : list lent) : rres :=
  match ls, rs with
  | [], _ => ROk (pre ++ rs)                    (* equal or behind: take the remote log *)
  | _, [] => ROk (pre ++ ls)                    (* ahead: nothing to do *)
  | _, _ =>
      if existsb (fun r => mem_ref r (updated_refs rs)) (updated_refs ls) then RConflict
      else ROk (pre ++ rs ++ map (shift (List.length pre) (List.length rs)) ls)
  end.

(** is the entry at position [i] revoked by some annotation of the log? *)
Definition skipped (log : list lent) (i : nat) : bool :=
  existsb (fun e => match e with LAnn ts true => existsb (Nat.eqb i) ts | _ => false end) log.

(** ** sync *)
(** getLatestRefTipsFromRSLEntries over a suffix [suf] of [log] starting at position [p]: the target
    of the newest reference entry of each ref that no annotation of the suffix revokes *)
Fixpoint tips_from (suf_all : list lent) (p : nat) (rev_suf : list (nat * lent)) (acc : list (bytes * N)) : list (bytes * N) :=
  match rev_suf with
  | [] => acc
  | (i, e) :: rest =>
      match e with
      | LRef r t =>
          if existsb (fun rt => beq (fst rt) r) acc then tips_from suf_all p rest acc
          else if skipped suf_all i then tips_from suf_all p rest acc
          else tips_from suf_all p rest (acc ++ [(r, t)])
      | _ => tips_from suf_all p rest acc
      end
  end.

Definition latest_tips (p : nat) (suf : list lent) : list (bytes * N) :=
  tips_from suf p (rev (combine (seq p (List.length suf)) suf)) [].

(** commit ancestry *)
Definition cgraph := list (N * list N).
Fixpoint cparents (g : cgraph) (c : N) : list N :=
  match g with [] => [] | (d, ps) :: g' => if N.eqb c d then ps else cparents g' c end.
Fixpoint knows (g : cgraph) (fuel : nat) (c anc : N) : bool :=
  N.eqb c anc || match fuel with 0 => false | S f => existsb (fun p => knows g f p anc) (cparents g c) end.
Definition descends (g : cgraph) (c anc : N) : bool := knows g (List.length g) c anc.

Fixpoint rlookup (refs : list (bytes * N)) (r : bytes) : option N :=
  match refs with [] => None | (r', v) :: refs' => if beq r r' then Some v else rlookup refs' r end.
Fixpoint rset (refs : list (bytes * N)) (r : bytes) (v : N) : list (bytes * N) :=
  match refs with
  | [] => [(r, v)]
  | (r', v') :: refs' => if beq r r' then (r, v) :: refs' else (r', v') :: rset refs' r v
  end.

Record sstate := { s_llog : list lent; s_lrefs : list (bytes * N); s_rlog : list lent; s_rrefs : list (bytes * N) }.
Inductive sres := SOk (s : sstate) | SDiverged (refs : list bytes) (s : sstate).

Definition RslRefB : list byte := [].   (* stands for the log's own reference in the diverged list *)

(** which local references move when the remote-only suffix [rs] is adopted *)
Definition plan (g : cgraph) (p : nat) (rs : list lent) (lrefs : list (bytes * N)) : list (bytes * N) * list (bytes * N) :=
  fold_left (fun acc rt =>
               match rlookup lrefs (fst rt) with
               | None => acc                                         (* not present locally: left alone *)
               | Some lt => if descends g (snd rt) lt then (fst acc ++ [rt], snd acc) else (fst acc, snd acc ++ [rt])
               end) (latest_tips p rs) ([], []).

Definition apply_sets (refs : list (bytes * N)) (sets : list (bytes * N)) : list (bytes * N) :=
  fold_left (fun acc rt => rset acc (fst rt) (snd rt)) sets refs.

Definition sync (g : cgraph) (pre ls rs : list lent) (s : sstate) (overwrite : bool) : sres :=
  match ls, rs with
  | [], [] => SOk s
  | _ :: _, [] =>
      (* local ahead: publish the log together with the references its unskipped entries name *)
      let pushed := map (fun rt => (fst rt, match rlookup (s_lrefs s) (fst rt) with Some v => v | None => snd rt end))
                        (latest_tips (List.length pre) ls) in
      SOk {| s_llog := s_llog s; s_lrefs := s_lrefs s; s_rlog := pre ++ ls; s_rrefs := apply_sets (s_rrefs s) pushed |}
  | _, _ :: _ =>
      let diverged_log := match ls with [] => false | _ => true end in
      if diverged_log && negb overwrite then SDiverged [RslRefB] s
      else
        let '(ff, dv) := plan g (List.length pre) rs (s_lrefs s) in
        if negb (Nat.eqb (List.length dv) 0) && negb overwrite then SDiverged (map fst dv) s
        else SOk {| s_llog := pre ++ rs; s_lrefs := apply_sets (s_lrefs s) (ff ++ dv); s_rlog := s_rlog s; s_rrefs := s_rrefs s |}
  end.
