(** Property C16 — a storage failure at any step leaves log valid and managed refs consistent.
    Only statements here; proofs are in StoreOpsProofs.v. *)
From GV Require Import StoreOps StoreOpsProofs.

(** Fault.  For every shape of mutating operation (record an entry; commit a managed ref then its
    entry; move a managed ref then its entry; rebase a managed ref then its entry), every starting value of the ref (absent = first-ever,
    present = established) and EVERY abstract fault point before the last mutating action has
    completed: no entry is appended, and after the compensation the code runs the managed ref is
    exactly what it was (hence "unchanged or matching its latest log entry"). *)
Theorem C16_fault : forall o v s p, p < List.length (program o) ->
  let s' := run_actions v (os_ref s) s (fault_actions o (os_ref s) p) in
  os_entries s' = os_entries s /\ os_latest s' = os_latest s /\ os_ref s' = os_ref s.
Proof. exact fault_leaves_consistent. Qed.
Print Assumptions C16_fault.

(** Repeating the operation once the fault clears reaches the state of an uninterrupted run. *)
Theorem C16_rerun : forall o v s p, p < List.length (program o) ->
  let s1 := run_actions v (os_ref s) s (fault_actions o (os_ref s) p) in
  run_actions v (os_ref s1) s1 (program o) = run_actions v (os_ref s) s (program o).
Proof. exact rerun_after_fault. Qed.
Print Assumptions C16_rerun.

(** Crash.  Stopping dead after any number of mutating actions: the log has gained either nothing or
    exactly the operation's one entry (never a partial entry), and the managed ref holds its before-
    or its after-value - except between the first two steps of the staging rebase (ReconcileStaging on
    diverged refs), where policy-staging holds the applied policy's commit [b], an ancestor of the
    after-value, while the log is still the one from before; by C08 (verdicts depend only on the log) every verification verdict is then
    the before- or the after-verdict. *)
Theorem C16_crash : forall o v s p, p <= List.length (program o) ->
  let s' := run_actions v (os_ref s) s (crash_actions o p) in
  (os_entries s' = os_entries s \/ (os_entries s' = S (os_entries s) /\ os_latest s' = Some v)) /\
  (os_ref s' = os_ref s \/ os_ref s' = Some v \/ o = OpEntry \/ (p = 1 /\ exists b, o = OpRebaseWithEntry b /\ os_ref s' = Some b)).
Proof. exact crash_before_or_after. Qed.
Print Assumptions C16_crash.

Example C16_first_ever_commit_rolled_back :
  run_actions 7 None {| os_ref := None; os_latest := None; os_entries := 0 |} (fault_actions OpCommitWithEntry None 1)
  = {| os_ref := None; os_latest := None; os_entries := 0 |}.
Proof. reflexivity. Qed.
