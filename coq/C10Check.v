(** C10: case type and checker. *)
From GV Require Export FileRules GitFormat WorldCheck Verdict.

(** per distinct tree: (a commit carrying it, raw `git ls-tree -r -z`, GetAllFilesInTree sorted by
    path, raw `git ls-tree -z`, GetEntriesInTree, rewritten tree has the same id) *)
Definition treeobs := (N * bytes * list (bytes * bytes) * bytes * list (bytes * bytes * bool) * bool)%type.

Inductive c10case :=
| C10 (fw : fworld) (ref : bytes) (blobs : list (N * bytes))
      (commits_obs : list (N * list bytes)) (trees_obs : list treeobs) (obs : vout).

Fixpoint list_beq (a b : list bytes) : bool :=
  match a, b with
  | [], [] => true
  | x :: a', y :: b' => beq x y && list_beq a' b'
  | _, _ => false
  end.

Definition mem_path (p : bytes) (l : list bytes) : bool := existsb (beq p) l.

Definition blob_oid (blobs : list (N * bytes)) (n : N) : bytes :=
  match find (fun nb => N.eqb (fst nb) n) blobs with Some nb => snd nb | None => [] end.

(** the tree as written, as (path, oid) sorted by path *)
Definition written_files (blobs : list (N * bytes)) (t : ftree) : list (bytes * bytes) :=
  map (fun p => (p, blob_oid blobs (match tlookup t p with Some b => b | None => 0%N end))) (sort_paths (map fst t)).

Fixpoint files_beq (a b : list (bytes * bytes)) : bool :=
  match a, b with
  | [], [] => true
  | (p, o) :: a', (q, o') :: b' => beq p q && beq o o' && files_beq a' b'
  | _, _ => false
  end.

Fixpoint ents_beq (a b : list (bytes * bytes * bool)) : bool :=
  match a, b with
  | [], [] => true
  | (p, o, t) :: a', (q, o', t') :: b' => beq p q && beq o o' && Bool.eqb t t' && ents_beq a' b'
  | _, _ => false
  end.

Definition first_comp (p : bytes) : bytes * bool :=   (* first path component, and whether more follow *)
  match cut x2f p with Some (d, _) => (d, true) | None => (p, false) end.

(** top-level names of the tree as written, with their kinds *)
Definition written_top (t : ftree) : list (bytes * bool) :=
  let comps := map first_comp (map fst t) in
  map (fun n => (n, existsb (fun c => beq (fst c) n && snd c) comps)) (sort_paths (map fst comps)).

(** declarative coverage: every changed path of every new commit of every entry of [ref] that
    rules protect has a verifier the commit's signature and the entry's approvals satisfy *)
Definition path_covered (pol : policy) (signer : key) (env : option (list sigrec)) (p : bytes) : bool :=
  match find_verifiers pol (FileScheme ++ p) with
  | WOk [] => true
  | WOk vs => existsb (fun v => match verify (vrec_verifier v) true signer env with VOkSet _ => true | _ => false end) vs
  | _ => false
  end.

Definition entry_covered (fw : fworld) (ps : pstate) (i : nat) (ref : bytes) (commit : N) : bool :=
  let w := fw_world fw in
  negb (has_file_rule ps) ||
  match entry_env w i ref commit with
  | None => false
  | Some env =>
      let old := match latest_for w ref i false false with Some (_, e) => Some (entry_target e) | None => None end in
      forallb (fun c => match glookup (fw_graph fw) c with
                        | Some ci => forallb (path_covered (policy_of ps) (fc_signer ci) env) (changed_paths (fw_graph fw) c)
                        | None => false
                        end) (new_commits (fw_graph fw) commit old)
  end.

Definition all_covered (fw : fworld) (ref : bytes) : bool :=
  match load_state (fw_world fw) 0 with
  | Some ps => forallb (fun ie => match snd ie with
                                  | WERef r cm _ => negb (beq r ref) || entry_covered fw ps (fst ie) r cm
                                  | _ => true
                                  end) (indexed (fw_world fw))
  | None => false
  end.

Definition tree_check (fw : fworld) (blobs : list (N * bytes)) (o : treeobs) : nat :=
  let '(c, raw_r, impl_files, raw_top, impl_top, same) := o in
  let t := tree_of_commit (fw_graph fw) c in
  let wf := written_files blobs t in
  (* the property, on the implementation's answers *)
  if negb (files_beq impl_files wf) then 2
  else if negb (Nat.eqb (List.length impl_top) (List.length (written_top t))
                && forallb (fun n => mem_path (fst n) (map (fun e => fst (fst e)) impl_top)) (written_top t)
                && forallb (fun e => existsb (fun n => beq (fst n) (fst (fst e)) && Bool.eqb (snd n) (snd e)) (written_top t)) impl_top) then 3
  else if negb same then 4
  (* the tie of the byte-level model: git printed what the model prints, the model parser reads
     the raw bytes as gitinterface did *)
  else if negb (beq raw_r (print_lstree_z (map (fun po => {| ls_mode := Mode644; ls_type := BlobB; ls_oid := snd po; ls_path := fst po |}) wf))) then 14
  else match parse_lstree_z raw_r, parse_lstree_z raw_top with
       | Some er, Some et =>
           if files_beq (map (fun e => (fst (fst e), snd (fst e))) er) impl_files && ents_beq et impl_top then 0 else 13
       | _, _ => 13
       end.

Definition c10_check (c : c10case) : verdict :=
  match c with
  | C10 fw ref blobs cobs tobs obs =>
      if negb (c10_shape (fw_world fw) ref) then VMismatch 9
      else
        (* 1. every changed path reaches the caller verbatim *)
        let missing := existsb (fun co => existsb (fun p => negb (mem_path p (snd co))) (changed_paths (fw_graph fw) (fst co))) cobs in
        if missing then VSpec 1
        else
          match filter (fun n => negb (Nat.eqb n 0)) (map (tree_check fw blobs) tobs) with
          | n :: _ => if Nat.ltb n 10 then VSpec n else VMismatch n
          | [] =>
              (* 2. an accepted history has every protected change covered *)
              if vout_ok obs && negb (all_covered fw ref) then VSpec 5
              else if negb (forallb (fun co => list_beq (snd co) (changed_paths (fw_graph fw) (fst co))) cobs) then VMismatch 2
              else if vout_eqb (verify_full_files fw ref) obs then VOk else VMismatch 1
          end
  end.
