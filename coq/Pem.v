(** Concrete [pem.Encode] for a header-less block (as used for annotation messages), after
    [strings.TrimSpace]: BEGIN line, standard padded base64 in 64-column lines, END line. *)
From GV Require Export RslCodec.
From Coq Require Import Strings.String.

Definition b64_alphabet : bytes :=
  Eval compute in bs "ABCDEFGHIJKLMNOPQRSTUVWXYZabcdefghijklmnopqrstuvwxyz0123456789+/".

Definition b64ch (n : N) : byte := nth (N.to_nat n) b64_alphabet x41.
Definition PAD : byte := x3d.

Fixpoint b64_encode (s : bytes) : bytes :=
  match s with
  | [] => []
  | [a] =>
      let n := (Byte.to_N a * 65536)%N in
      [b64ch (n / 262144); b64ch ((n / 4096) mod 64); PAD; PAD]
  | [a; b] =>
      let n := (Byte.to_N a * 65536 + Byte.to_N b * 256)%N in
      [b64ch (n / 262144); b64ch ((n / 4096) mod 64); b64ch ((n / 64) mod 64); PAD]
  | a :: b :: c :: r =>
      let n := (Byte.to_N a * 65536 + Byte.to_N b * 256 + Byte.to_N c)%N in
      [b64ch (n / 262144); b64ch ((n / 4096) mod 64); b64ch ((n / 64) mod 64); b64ch (n mod 64)]
        ++ b64_encode r
  end.

Fixpoint chunk_lines (fuel n : nat) (s : bytes) : bytes :=
  match fuel with
  | 0 => []
  | S f =>
      match s with
      | [] => []
      | _ => firstn n s ++ LF :: chunk_lines f n (skipn n s)
      end
  end.

Definition pem_enc_c (m : bytes) : bytes :=
  BeginMessage ++ LF :: chunk_lines (S (List.length m * 2)) 64 (b64_encode m) ++ EndMessage.
