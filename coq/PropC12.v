(** Property C12 — policy ref advances only to verified descendants that verification accepts.
    Only statements here; proofs are in ApplyProofs.v. *)
From GV Require Import World ApplyModel ApplyProofs.

(** A successful Apply moves the policy ref exactly to the staged state, which descends from the
    applied policy, passes full internal verification, is a valid successor of the applied policy
    (what later verification demands: the F8 repair), and is recorded in the log by the same
    operation with exactly one policy entry. *)
Theorem C12_apply : forall s s', astep s AApply = (None, s') ->
  exists s1 st staged,
    reconcile s = (None, s1) /\
    a_staging s1 = Some st /\ a_policy s' = Some st /\ a_staging s' = Some st /\
    a_log s' = a_log s1 ++ [(true, st)] /\
    (forall p, a_policy s1 = Some p -> descends (a_commits s1) (S (List.length (a_commits s1))) st p = true) /\
    lookup_pc (a_commits s1) (match latest_entry_for (a_log s1) false with Some e => e | None => st end) = Some staged /\
    state_verify (pc_state staged) = true /\
    (forall cur, chain_verifies (policy_chain s1) = Some (Some cur) -> verify_new_state cur (pc_state staged) = true).
Proof. exact apply_ok_spec. Qed.
Print Assumptions C12_apply.

(** A refused Apply (refs disagreeing with their latest entries, staging not a descendant, staged
    state invalid or not a valid successor) leaves the policy ref and the policy entries untouched. *)
Theorem C12_refused : forall s e s', astep s AApply = (Some e, s') ->
  a_policy s' = a_policy s /\ filter (fun x => fst x) (a_log s') = filter (fun x => fst x) (a_log s).
Proof. exact apply_refused_spec. Qed.
Print Assumptions C12_refused.

Theorem C12_discard : forall s s', astep s ADiscard = (None, s') ->
  a_staging s' = a_policy s /\ a_policy s' = a_policy s /\ a_log s' = a_log s.
Proof. exact discard_spec. Qed.
Print Assumptions C12_discard.

(** For every sequence of operations (stagings of arbitrary - valid or invalid - states, Apply,
    Discard, and direct tampering of the two policy references) on a fresh repository: the policy
    entries the log ends up with form a chain that LoadCurrentState accepts.  What is published can
    always be loaded. *)
Theorem C12_published_always_loadable : forall ops es s,
  arun a_init ops = (es, s) -> published_loadable s = true.
Proof. exact published_always_loadable. Qed.
Print Assumptions C12_published_always_loadable.

(** C12_api_partial.  The refusal of root-of-trust changes for signers who are not root principals
    (experimental/gittuf loadRootMetadata) lives behind gittuf.Repository, which wraps a real git
    repository; it is not modelled or exercised here.  The diverged case of ReconcileStaging
    (history rewrite) is not modelled; generated sequences that reach it are skipped and counted. *)
