(** Property C12 — policy ref advances only to verified descendants that verification accepts.
    Only statements here; proofs are in ApplyProofs.v. *)
From GV Require Import World ApplyModel ApplyProofs RootApi RootApiProofs.

(** A successful Apply moves the policy ref exactly to the staged state, which descends from the
    applied policy, passes full internal verification (including, when its tree carries controller
    metadata, the verification of the declared controller repositories: [pc_ctl_ok]), is a valid successor of the applied policy
    (what later verification demands: the F8 repair), and is recorded in the log by the same
    operation with exactly one policy entry. *)
Theorem C12_apply : forall s s', astep s AApply = (None, s') ->
  exists s1 st staged,
    reconcile s = (None, s1) /\
    a_staging s1 = Some st /\ a_policy s' = Some st /\ a_staging s' = Some st /\
    a_log s' = a_log s1 ++ [(true, st)] /\
    (forall p, a_policy s1 = Some p -> descends (a_commits s1) (S (List.length (a_commits s1))) st p = true) /\
    lookup_pc (a_commits s1) (match latest_entry_for (a_log s1) false with Some e => e | None => st end) = Some staged /\
    state_verify (pc_state staged) = true /\ pc_ctl_ok staged = true /\
    (forall cur, chain_verifies (policy_chain s1) = Some (Some cur) -> verify_new_state cur (pc_state staged) = true).
Proof. exact apply_ok_spec. Qed.
Print Assumptions C12_apply.

(** A refused Apply (refs disagreeing with their latest entries, staging not a descendant, staged
    state invalid or not a valid successor) leaves the policy ref and the policy entries untouched. *)
Theorem C12_refused : forall s e s', astep s AApply = (Some e, s') ->
  a_policy s' = a_policy s /\ filter (fun x => fst x) (a_log s') = filter (fun x => fst x) (a_log s).
Proof. exact apply_refused_spec. Qed.
Print Assumptions C12_refused.

Theorem C12_discard : forall s s', astep s ADiscard = (None, s') ->
  a_staging s' = a_policy s /\ a_policy s' = a_policy s /\ a_log s' = a_log s.
Proof. exact discard_spec. Qed.
Print Assumptions C12_discard.

(** For every sequence of operations (stagings of arbitrary - valid or invalid - states, Apply,
    Discard, and direct tampering of the two policy references) on a fresh repository: the policy
    entries the log ends up with form a chain that LoadCurrentState accepts.  What is published can
    always be loaded. *)
Theorem C12_published_always_loadable : forall ops es s,
  arun a_init ops = (es, s) -> published_loadable s = true.
Proof. exact published_always_loadable. Qed.
Print Assumptions C12_published_always_loadable.

(** API level (experimental/gittuf/root.go).  A mutator call that changes the root of trust succeeds
    only for a signer who is a root principal of the staged state being edited; anybody else is
    refused and nothing changes. *)
Theorem C12_api_edit_needs_root_signer : forall ps signer o ps',
  is_edit o = true -> root_edit ps signer o = inr ps' -> kmem signer (ps_root_keys ps) = true.
Proof. exact edit_needs_root_signer. Qed.
Print Assumptions C12_api_edit_needs_root_signer.

Theorem C12_api_outsider_refused : forall s signer o,
  is_edit o = true -> kmem signer (ps_root_keys (ap_staged s)) = false -> api_step s signer o = (Some EUnauthorized, s).
Proof. exact outsider_refused. Qed.
Print Assumptions C12_api_outsider_refused.

(** InitializeRoot on a repository that already has a root of trust is refused for every caller. *)
Theorem C12_api_reinit_refused : forall s signer, api_step s signer RInit = (Some EReinit, s).
Proof. exact reinit_refused. Qed.
Print Assumptions C12_api_reinit_refused.

(** For every sequence of AddRootKey / RemoveRootKey / UpdateRootThreshold / SignRoot calls by any
    signers, interleaved with Apply, on a repository whose first state verifies: the published
    states chain from the first one (each a valid successor of the one before) and the applied one
    verifies - root rotations over several staged steps included. *)
Theorem C12_api_published_always_loadable : forall steps p0 es s,
  state_verify p0 = true -> api_run (api_init p0) steps = (es, s) ->
  chain_ok p0 (ap_published s) = Some (ap_applied s) /\ state_verify (ap_applied s) = true.
Proof. exact api_published_always_loadable. Qed.
Print Assumptions C12_api_published_always_loadable.

(** C12_partial.  The API model covers the root role (keys, threshold, signatures); the mutators of
    the primary rule file (experimental/gittuf/targets.go), hooks, apps and global rules go through
    the same guard (loadRootMetadata) or its rule-file counterpart and are not exercised.  The
    diverged case of ReconcileStaging (history rewrite) is not modelled here; generated sequences
    that reach it are skipped and counted (its fault points are enumerated by C16). *)
