(** C20: case type and checker. *)
From GV Require Export Sandbox Verdict.
From Coq Require Export ZArith.

(** a script run in the real sandbox: what it was trying ([kind]), and what happened *)
Inductive c20case :=
| CGraph (g : list lnode) (roots : list nat)
| CEscape (obtained : bool)                      (* an escape attempt reported a forbidden value *)
| CWrite (route : nat) (modified : bool)         (* an attempt to modify a library table took effect *)
| CTimeout (family : nat) (limit_ms elapsed_ms : N) (stopped : bool)
| CExit (returns_number : bool) (expected code : Z) (err : bool).

Definition c20_check (c : c20case) : verdict :=
  match c with
  | CGraph g roots =>
      let S := closure g roots in
      if negb (closed g S) then VMismatch 1
      else if negb (forallb (node_allowed g) S) then VSpec 1
      else if negb (library_tables_unobtainable g (hd 0 roots) S) then VSpec 2
      else VOk
  | CEscape obtained => if obtained then VSpec 3 else VOk
  | CWrite route modified =>
      (* route 4: table.insert writes raw integer keys into the module proxy (finding K12) *)
      if negb modified then VOk else if Nat.eqb route 4 then VFinding 12 else VSpec 2
  | CTimeout family limit elapsed stopped =>
      (* family 0: Lua-level non-termination; family 1: time spent inside one Go call of the VM (a library
         function, or building the traceback of an error raised after millions of tail calls) *)
      if stopped && (elapsed <=? limit + 8000)%N then VOk
      else if Nat.eqb family 1 then VFinding 4 else VSpec 4
  | CExit isnum expected code err =>
      if err then VOk else if isnum then (if Z.eqb code expected then VOk else VSpec 5) else (if Z.eqb code 1 then VOk else VSpec 5)
  end.
