(** C20: case type and checker. *)
From GV Require Export Sandbox Verdict.
From Coq Require Export ZArith.

(** a script run in the real sandbox: what it was trying ([kind]), and what happened *)
Inductive c20case :=
| CGraph (g : list lnode) (roots : list nat)
| CEscape (obtained : bool)                      (* an escape attempt reported a forbidden value *)
| CWrite (route : nat) (modified : bool)         (* an attempt to modify a library table took effect *)
| CTimeout (family : nat) (limit_ms elapsed_ms : N) (stopped : bool)
| CExit (returns_number : bool) (expected code : Z) (err : bool)
  (* InvokeHooksForStage: the declared hooks (id, principals, exit code of its script), the principal
     the signer's key belongs to, the outcome (0 ran, 1 no such principal, 2 no hooks for it, 3 other)
     and the hooks that ran with their exit codes *)
| CHooks (hooks : list (nat * list nat * Z)) (principal : option nat) (outcome : nat) (ran : list (nat * Z)).

Definition c20_check (c : c20case) : verdict :=
  match c with
  | CGraph g roots =>
      let S := closure g roots in
      if negb (closed g S) then VMismatch 1
      else if negb (forallb (node_allowed g) S) then VSpec 1
      else if negb (library_tables_unobtainable g (hd 0 roots) S) then VSpec 2
      else VOk
  | CEscape obtained => if obtained then VSpec 3 else VOk
  | CWrite route modified =>
      (* route 4: table.insert writes raw integer keys into the module proxy (finding K12) *)
      if negb modified then VOk else if Nat.eqb route 4 then VFinding 12 else VSpec 2
  | CTimeout family limit elapsed stopped =>
      (* family 0: Lua-level non-termination; family 1: time spent inside one Go call of the VM (a library
         function, or building the traceback of an error raised after millions of tail calls) *)
      if stopped && (elapsed <=? limit + 8000)%N then VOk
      else if Nat.eqb family 1 then VFinding 4 else VSpec 4
  | CHooks hooks principal outcome ran =>
      let assigned := match principal with
                      | Some p => select_hooks (map (fun h => (fst (fst h), snd (fst h))) hooks) p
                      | None => []
                      end in
      (* only hooks assigned to the signer's principal ever run *)
      if negb (forallb (fun r => memn (fst r) assigned) ran) then VSpec 6
      else
        let expect_outcome := match principal, assigned with None, _ => 1 | Some _, [] => 2 | Some _, _ => 0 end in
        if negb (Nat.eqb outcome expect_outcome) then VMismatch 6
        else if Nat.eqb outcome 0
                && negb (Nat.eqb (List.length ran) (List.length assigned)
                         && forallb (fun r => existsb (fun h => Nat.eqb (fst (fst h)) (fst r) && Z.eqb (snd h) (snd r)) hooks) ran) then VMismatch 7
        else VOk
  | CExit isnum expected code err =>
      if err then VOk else if isnum then (if Z.eqb code expected then VOk else VSpec 5) else (if Z.eqb code 1 then VOk else VSpec 5)
  end.
