(** Concrete worlds used as non-vacuity examples and as refutation witnesses (K1, K5). *)
From GV Require Import World.
From Coq Require Import Strings.String.

Definition mainref : bytes := Eval compute in bs "refs/heads/main"%string.
Definition allow_name : bytes := Eval compute in bs "gittuf-allow-rule"%string.
Definition pm_name : bytes := Eval compute in bs "protect-main"%string.
Definition main_pat : bytes := Eval compute in (GitScheme ++ mainref)%list.
Definition allow : rule := {| r_name := allow_name; r_patterns := [[x2a]]; r_term := true; r_pids := []; r_thr := 1 |}.

(** root key 1, primary-rule-file key 2, developer 101 (key 4) may push to main *)
Definition pol1 : pstate :=
  {| ps_root_version := 1%N; ps_root_keys := [1%N]; ps_root_thr := 1; ps_targets_keys := [2%N]; ps_targets_thr := 1;
     ps_has_targets_role := true; ps_root_signers := [1%N];
     ps_files := [(TargetsRole, {| sf_file := {| f_defs := [(101%N, [4%N]); (102%N, [5%N])];
                                                  f_rules := [ {| r_name := pm_name;
                                                                  r_patterns := [main_pat];
                                                                  r_term := false; r_pids := [101%N]; r_thr := 1 |}; allow ] |};
                                     sf_version := 1%N; sf_signers := [2%N] |})];
     ps_globals := [] |}.

Definition commits4 : list (N * cinfo) :=
  [ (1%N, {| ci_tree := 1%N; ci_parents := [] |}); (2%N, {| ci_tree := 2%N; ci_parents := [1%N] |});
    (3%N, {| ci_tree := 3%N; ci_parents := [2%N] |}); (4%N, {| ci_tree := 2%N; ci_parents := [3%N] |}) ].

(** an authorised history *)
Definition w_good : world :=
  {| w_log := [WEPolicy pol1; WERef mainref 2%N 4%N; WERef mainref 3%N 4%N]; w_commits := commits4 |}.

(** the same with the second push made by key 8, which no rule trusts *)
Definition w_bad : world :=
  {| w_log := [WEPolicy pol1; WERef mainref 2%N 4%N; WERef mainref 3%N 8%N]; w_commits := commits4 |}.

(** K1: a propagation entry on the protected branch, recorded by anyone *)
Definition w_k1 : world :=
  {| w_log := [WEPolicy pol1; WERef mainref 2%N 4%N; WEProp mainref 3%N]; w_commits := commits4 |}.

(** K5: the unauthorised push is revoked, and the "fix" is recorded by the same unauthorised key *)
Definition w_k5 : world :=
  {| w_log := [WEPolicy pol1; WERef mainref 2%N 4%N; WERef mainref 3%N 8%N; WEAnn [2] true; WERef mainref 4%N 8%N]; w_commits := commits4 |}.
