(** C16 proofs. *)
From GV Require Import StoreOps.

(** Fault at any abstract point [p] before the last mutating action completes: no entry is
    appended, and the managed ref is back at its old value (or gone again if it did not exist). *)
Theorem fault_leaves_consistent o v s p :
  p < List.length (program o) ->
  let s' := run_actions v (os_ref s) s (fault_actions o (os_ref s) p) in
  os_entries s' = os_entries s /\ os_latest s' = os_latest s /\ os_ref s' = os_ref s.
Proof.
  destruct o; cbn [program List.length]; intros Hp.
  - assert (p = 0) as -> by lia. cbn. auto.
  - destruct p as [|[|p]]; [cbn; auto| |lia]. unfold fault_actions, run_actions. cbn [program firstn compensation app fold_left].
    destruct (os_ref s) eqn:E; cbn; rewrite ?E; auto.
  - destruct p as [|[|p]]; [cbn; auto| |lia]. unfold fault_actions, run_actions. cbn [program firstn compensation app fold_left].
    destruct (os_ref s) eqn:E; cbn; rewrite ?E; auto.
  - destruct p as [|[|[|p]]]; [cbn; auto| | |lia]; unfold fault_actions, run_actions; cbn [program firstn compensation app fold_left];
      destruct (os_ref s) eqn:E; cbn; rewrite ?E; auto.
Qed.

Corollary fault_consistent o v s p :
  p < List.length (program o) ->
  consistent s (run_actions v (os_ref s) s (fault_actions o (os_ref s) p)).
Proof. intros H. left. now destruct (fault_leaves_consistent o v s p H) as (_ & _ & E). Qed.

(** Crash after any number of mutating actions: the log has gained no entry or exactly the one
    entry of the operation (never a partial one), and the managed ref has its before- or its
    after-value. *)
Theorem crash_before_or_after o v s p :
  p <= List.length (program o) ->
  let s' := run_actions v (os_ref s) s (crash_actions o p) in
  (os_entries s' = os_entries s \/ (os_entries s' = S (os_entries s) /\ os_latest s' = Some v)) /\
  (os_ref s' = os_ref s \/ os_ref s' = Some v \/ o = OpEntry \/ (p = 1 /\ exists b, o = OpRebaseWithEntry b /\ os_ref s' = Some b)).
Proof.
  destruct o; cbn [program List.length]; intros Hp; unfold crash_actions, run_actions.
  - destruct p as [|[|p]]; [cbn; auto|cbn; auto|lia].
  - destruct p as [|[|[|p]]]; cbn; auto; lia.
  - destruct p as [|[|[|p]]]; cbn; auto; lia.
  - destruct p as [|[|[|[|p]]]]; cbn [program firstn fold_left apply_action os_ref os_latest os_entries].
    + auto.
    + split; [auto|]. right. right. right. split; [reflexivity|]. exists b. auto.
    + auto.
    + auto.
    + cbn in Hp. lia.
Qed.

(** The uninterrupted run: exactly one entry, ref at the new value (and for OpEntry untouched). *)
Theorem complete_run o v s :
  let s' := run_actions v (os_ref s) s (program o) in
  os_entries s' = S (os_entries s) /\ os_latest s' = Some v /\ (o = OpEntry \/ os_ref s' = Some v).
Proof. destruct o; cbn; auto. Qed.

(** Re-running after a fault reaches the state of the uninterrupted run. *)
Theorem rerun_after_fault o v s p :
  p < List.length (program o) ->
  let s1 := run_actions v (os_ref s) s (fault_actions o (os_ref s) p) in
  run_actions v (os_ref s1) s1 (program o) = run_actions v (os_ref s) s (program o).
Proof.
  intros Hp. destruct (fault_leaves_consistent o v s p Hp) as (E1 & E2 & E3). cbn zeta in *.
  set (s1 := run_actions v (os_ref s) s (fault_actions o (os_ref s) p)) in *.
  destruct s as [r l n], s1 as [r1 l1 n1]. cbn in *. subst. reflexivity.
Qed.
