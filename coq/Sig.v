(** C05 model: SignatureVerifier.Verify (internal/policy/signature.go) and the DSSE envelope
    verifier it calls (internal/third_party/go-securesystemslib/dsse/verify.go), over symbolic
    signatures: a signature is (key-id hint, key that really made it, content it was made over). *)
From Coq Require Export List Bool Arith NArith ZArith Lia.
Export ListNotations.

Definition key := N.   (* 0 = no key / garbage *)
Definition pid := N.

Record principal := { p_id : pid; p_keys : list key }.
Record verifier := { v_principals : list principal; v_threshold : Z; v_exhaustive : bool }.

(** s_hint: the keyid written next to the signature (0 = empty); s_signer: the key whose private
    half produced it (0 = garbage bytes); s_valid: it was made over exactly this envelope's
    PAE(payloadType, payload) *)
Record sigrec := { s_hint : key; s_signer : key; s_valid : bool }.

Inductive verr := EInvalidVerifier | EUnmet | ENoSignature | EOtherErr.
Inductive vres := VOkSet (s : list pid) | VErr (e : verr) (s : list pid).

Definition mem (x : N) (l : list N) : bool := existsb (N.eqb x) l.

(** one provider against one signature *)
Definition provider_accepts (k : key) (s : sigrec) : bool :=
  (N.eqb (s_hint s) 0 || N.eqb (s_hint s) k) && N.eqb (s_signer s) k && s_valid s && negb (N.eqb k 0).

(** first provider (in order) that accepts the signature, with the remaining providers *)
Fixpoint take_provider (provs : list key) (s : sigrec) : option (key * list key) :=
  match provs with
  | [] => None
  | k :: provs' =>
      if provider_accepts k s then Some (k, provs')
      else match take_provider provs' s with
           | Some (k', rest) => Some (k', k :: rest)
           | None => None
           end
  end.

(** EnvelopeVerifier.Verify with distinct provider key ids: accepted keys in signature order *)
Fixpoint dsse_accept (provs : list key) (sigs : list sigrec) : list key :=
  match sigs with
  | [] => []
  | s :: sigs' =>
      match take_provider provs s with
      | Some (k, rest) => k :: dsse_accept rest sigs'
      | None => dsse_accept provs sigs'
      end
  end.

(** Git phase: the first principal (in order) one of whose keys verifies the object's signature *)
Fixpoint git_phase (ps : list principal) (gitsig : key) : option (pid * key) :=
  match ps with
  | [] => None
  | p :: ps' =>
      if negb (N.eqb gitsig 0) && mem gitsig (p_keys p) then Some (p_id p, gitsig)
      else git_phase ps' gitsig
  end.

(** Envelope phase: principals in order; returns the credited (principal, first accepted key)
    pairs added, the used keys, or a hard error *)
Fixpoint env_phase (ps : list principal) (sigs : list sigrec) (used_p : list pid) (used_k : list key)
  (w : list (pid * key)) : option (list pid * list key * list (pid * key)) :=
  match ps with
  | [] => Some (used_p, used_k, w)
  | p :: ps' =>
      if mem (p_id p) used_p then env_phase ps' sigs used_p used_k w
      else
        let provs := filter (fun k => negb (mem k used_k)) (p_keys p) in
        match provs with
        | [] => env_phase ps' sigs used_p used_k w
        | _ =>
            match sigs with
            | [] => None                                   (* ErrNoSignature: a hard error *)
            | _ =>
                match dsse_accept provs sigs with
                | [] => env_phase ps' sigs used_p used_k w
                | k :: ks => env_phase ps' sigs (used_p ++ [p_id p]) (used_k ++ k :: ks) (w ++ [(p_id p, k)])
                end
            end
        end
  end.

(** has_git: a non-zero object id was passed; gitsig: the key that validly signed that object
    (0: unsigned, garbage, or a signature lifted from other content) *)
Definition verify_w (v : verifier) (has_git : bool) (gitsig : key) (env : option (list sigrec))
  : vres * list (pid * key) :=
  if (v_threshold v <? 1)%Z || Nat.eqb (List.length (v_principals v)) 0 then (VErr EInvalidVerifier [], [])
  else
    let g := if has_git then git_phase (v_principals v) gitsig else None in
    let '(up, uk, w) := match g with Some (p, k) => ([p], [k], [(p, k)]) | None => ([], [], []) end in
    if negb (v_exhaustive v) && (v_threshold v =? 1)%Z && (match g with Some _ => true | None => false end)
    then (VOkSet up, w)
    else
      match (match env with
             | None => Some (up, uk, w)
             | Some sigs => env_phase (v_principals v) sigs up uk w
             end) with
      | None => (VErr ENoSignature [], [])
      | Some (up', _, w') =>
          if v_exhaustive v || (v_threshold v <=? Z.of_nat (List.length up'))%Z then (VOkSet up', w')
          else (VErr EUnmet up', w')
      end.

Definition verify (v : verifier) (has_git : bool) (gitsig : key) (env : option (list sigrec)) : vres :=
  fst (verify_w v has_git gitsig env).
