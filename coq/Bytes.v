(** Byte strings as Go sees them: [list byte] with the handful of [strings] functions the
    modelled code uses.  Model only; the lemmas are in BytesLemmas.v. *)
From Coq Require Export List Bool Arith NArith Lia.
From Coq Require Export Init.Byte Strings.Byte.
From Coq Require Import Strings.String.
Export ListNotations.

Definition bytes := list byte.

Definition bs (s : string) : bytes := list_byte_of_string s.

Definition LF : byte := x0a.
Definition SP : byte := x20.
Definition COLON : byte := x3a.

Fixpoint beq (a b : bytes) : bool :=
  match a, b with
  | [], [] => true
  | x :: a', y :: b' => Byte.eqb x y && beq a' b'
  | _, _ => false
  end.

Fixpoint has_prefix (p s : bytes) : bool :=
  match p, s with
  | [], _ => true
  | x :: p', y :: s' => Byte.eqb x y && has_prefix p' s'
  | _ :: _, [] => false
  end.

Fixpoint contains (needle hay : bytes) : bool :=
  has_prefix needle hay ||
  match hay with
  | [] => false
  | _ :: hay' => contains needle hay'
  end.

(** [strings.Split s (string c)] for a one-byte separator: always at least one element. *)
Fixpoint split_on (c : byte) (s : bytes) : list bytes :=
  match s with
  | [] => [[]]
  | x :: s' =>
      if Byte.eqb x c then [] :: split_on c s'
      else match split_on c s' with
           | [] => [[x]]          (* unreachable: split_on never returns [] *)
           | l :: ls => (x :: l) :: ls
           end
  end.

(** [strings.Join ls (string c)] *)
Fixpoint join_with (c : byte) (ls : list bytes) : bytes :=
  match ls with
  | [] => []
  | [l] => l
  | l :: ls' => l ++ c :: join_with c ls'
  end.

(** [strings.Cut s (string c)] *)
Fixpoint cut (c : byte) (s : bytes) : option (bytes * bytes) :=
  match s with
  | [] => None
  | x :: s' =>
      if Byte.eqb x c then Some ([], s')
      else match cut c s' with
           | Some (k, v) => Some (x :: k, v)
           | None => None
           end
  end.

(** ** [strings.TrimSpace]

    Go trims every leading and trailing rune with the Unicode White_Space property.  A rune is
    decoded from the left with DecodeRune and from the right with DecodeLastRune, so on byte
    level the function strips, repeatedly, any of the following byte sequences from the front
    and from the back (everything else, including malformed UTF-8, decodes to a non-space rune). *)
Definition space_tokens : list bytes :=
  [ [x09]; [x0a]; [x0b]; [x0c]; [x0d]; [x20];
    [xc2; x85]; [xc2; xa0];
    [xe1; x9a; x80];
    [xe2; x80; x80]; [xe2; x80; x81]; [xe2; x80; x82]; [xe2; x80; x83]; [xe2; x80; x84];
    [xe2; x80; x85]; [xe2; x80; x86]; [xe2; x80; x87]; [xe2; x80; x88]; [xe2; x80; x89];
    [xe2; x80; x8a]; [xe2; x80; xa8]; [xe2; x80; xa9]; [xe2; x80; xaf];
    [xe2; x81; x9f];
    [xe3; x80; x80] ].

Definition rev_space_tokens : list bytes := Eval compute in map (@rev byte) space_tokens.

(** length of the first token of [toks] that is a prefix of [s]; 0 if none *)
Fixpoint tok_prefix_len (toks : list bytes) (s : bytes) : nat :=
  match toks with
  | [] => 0
  | t :: toks' => if has_prefix t s then List.length t else tok_prefix_len toks' s
  end.

Fixpoint strip_toks (toks : list bytes) (fuel : nat) (s : bytes) : bytes :=
  match fuel with
  | 0 => s
  | S f =>
      match tok_prefix_len toks s with
      | 0 => s
      | n => strip_toks toks f (skipn n s)
      end
  end.

Definition trim_left (s : bytes) : bytes := strip_toks space_tokens (List.length s) s.
Definition trim_right (s : bytes) : bytes :=
  rev (strip_toks rev_space_tokens (List.length s) (rev s)).
Definition trim (s : bytes) : bytes := trim_right (trim_left s).

Definition no_byte (c : byte) (s : bytes) : bool := forallb (fun x => negb (Byte.eqb x c)) s.

(** boolean well-formedness of a value that [trim] leaves alone *)
Definition lstable (s : bytes) : bool := Nat.eqb (tok_prefix_len space_tokens s) 0.
Definition rstable (s : bytes) : bool := Nat.eqb (tok_prefix_len rev_space_tokens (rev s)) 0.
Definition trim_stable (s : bytes) : bool := lstable s && rstable s.

(** ** Lower-case hex, as [hex.EncodeToString] / [hex.DecodeString] *)
Definition hexdigit (n : N) : byte :=
  match n with
  | 0%N => x30 | 1%N => x31 | 2%N => x32 | 3%N => x33 | 4%N => x34 | 5%N => x35 | 6%N => x36
  | 7%N => x37 | 8%N => x38 | 9%N => x39 | 10%N => x61 | 11%N => x62 | 12%N => x63
  | 13%N => x64 | 14%N => x65 | _ => x66
  end.

Definition unhex (b : byte) : option N :=
  match b with
  | x30 => Some 0 | x31 => Some 1 | x32 => Some 2 | x33 => Some 3 | x34 => Some 4
  | x35 => Some 5 | x36 => Some 6 | x37 => Some 7 | x38 => Some 8 | x39 => Some 9
  | x61 | x41 => Some 10 | x62 | x42 => Some 11 | x63 | x43 => Some 12
  | x64 | x44 => Some 13 | x65 | x45 => Some 14 | x66 | x46 => Some 15
  | _ => None
  end%N.

Definition hex_of_byte (b : byte) : bytes :=
  let n := Byte.to_N b in [hexdigit (n / 16); hexdigit (n mod 16)].

Fixpoint hex_encode (s : bytes) : bytes :=
  match s with
  | [] => []
  | b :: s' => hex_of_byte b ++ hex_encode s'
  end.

Definition byte_of_hex2 (h l : byte) : option byte :=
  match unhex h, unhex l with
  | Some a, Some b => Byte.of_N (a * 16 + b)
  | _, _ => None
  end.

Fixpoint hex_decode (s : bytes) : option bytes :=
  match s with
  | [] => Some []
  | h :: l :: s' =>
      match byte_of_hex2 h l, hex_decode s' with
      | Some b, Some r => Some (b :: r)
      | _, _ => None
      end
  | [_] => None
  end.

(** ** Decimal numbers, as [fmt.Sprintf "%d"] and [strconv.ParseUint(s, 10, 64)] *)
Definition digit_byte (d : N) : byte := hexdigit d.   (* only used below 10 *)

Fixpoint dec_of_uint (u : Decimal.uint) : bytes :=
  match u with
  | Decimal.Nil => []
  | Decimal.D0 u => x30 :: dec_of_uint u | Decimal.D1 u => x31 :: dec_of_uint u
  | Decimal.D2 u => x32 :: dec_of_uint u | Decimal.D3 u => x33 :: dec_of_uint u
  | Decimal.D4 u => x34 :: dec_of_uint u | Decimal.D5 u => x35 :: dec_of_uint u
  | Decimal.D6 u => x36 :: dec_of_uint u | Decimal.D7 u => x37 :: dec_of_uint u
  | Decimal.D8 u => x38 :: dec_of_uint u | Decimal.D9 u => x39 :: dec_of_uint u
  end.

Fixpoint uint_of_dec (s : bytes) : option Decimal.uint :=
  match s with
  | [] => Some Decimal.Nil
  | b :: s' =>
      match uint_of_dec s' with
      | None => None
      | Some u =>
          match b with
          | x30 => Some (Decimal.D0 u) | x31 => Some (Decimal.D1 u) | x32 => Some (Decimal.D2 u)
          | x33 => Some (Decimal.D3 u) | x34 => Some (Decimal.D4 u) | x35 => Some (Decimal.D5 u)
          | x36 => Some (Decimal.D6 u) | x37 => Some (Decimal.D7 u) | x38 => Some (Decimal.D8 u)
          | x39 => Some (Decimal.D9 u)
          | _ => None
          end
      end
  end.

(** [%d] of a uint64 *)
Definition dec_of_N (n : N) : bytes := dec_of_uint (N.to_uint n).

Definition two64 : N := 18446744073709551616%N.

(** [strconv.ParseUint(s, 10, 64)]: non-empty, digits only, value below 2^64 *)
Definition parse_uint64 (s : bytes) : option N :=
  match s with
  | [] => None
  | _ =>
      match uint_of_dec s with
      | None => None
      | Some u => let n := N.of_uint u in if (n <? two64)%N then Some n else None
      end
  end.
