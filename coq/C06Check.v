(** C06: case type and checker. *)
From GV Require Export Walk Verdict.
From Coq Require Export ZArith.

Definition nlist_eqb (a b : list N) : bool :=
  Nat.eqb (List.length a) (List.length b) && forallb (fun p => N.eqb (fst p) (snd p)) (combine a b).

Definition pr_eqb (a b : N * option (list N)) : bool :=
  N.eqb (fst a) (fst b) &&
  match snd a, snd b with
  | Some x, Some y => nlist_eqb x y
  | None, None => true
  | _, _ => false
  end.

Definition vrec_eqb (a b : vrec) : bool :=
  beq (vr_name a) (vr_name b) && Z.eqb (vr_thr a) (vr_thr b)
  && Nat.eqb (List.length (vr_pr a)) (List.length (vr_pr b))
  && forallb (fun p => pr_eqb (fst p) (snd p)) (combine (vr_pr a) (vr_pr b)).

Definition wres_eqb (a b : wres) : bool :=
  match a, b with
  | WOk x, WOk y => Nat.eqb (List.length x) (List.length y) && forallb (fun p => vrec_eqb (fst p) (snd p)) (combine x y)
  | WNoPolicy, WNoPolicy => true
  | _, _ => false
  end.

(** independent statement of "reached by the documented walk", by a recursive descent (no queue,
    no seen set; valid for policies with unique rule names that do not reuse a file name): the
    active rules of a file are its rules without the last, cut after the first matching terminating
    rule that has a delegated file *)
Fixpoint active_rules (pol : policy) (path : bytes) (rs : list rule) : list rule :=
  match rs with
  | [] | [_] => []
  | r :: ((_ :: _) as rs') =>
      if rule_matches r path && r_term r && (match find_file pol (r_name r) with Some _ => true | None => false end)
      then [r] else r :: active_rules pol path rs'
  end.

Fixpoint reached (pol : policy) (path : bytes) (fuel : nat) (fname : bytes) : list (bytes * rule) :=
  match fuel with
  | 0 => []
  | S f =>
      match find_file pol fname with
      | None => []
      | Some file =>
          flat_map (fun r => if rule_matches r path then (fname, r) :: reached pol path f (r_name r) else [])
                   (active_rules pol path (f_rules file))
      end
  end.

Definition all_rule_names (pol : policy) : list bytes :=
  flat_map (fun nf => map r_name (removelast (f_rules (snd nf)))) pol.

Fixpoint names_nodup (l : list bytes) : bool :=
  match l with [] => true | x :: l' => negb (mem_name x l') && names_nodup l' end.

Definition unique_names (pol : policy) : bool :=
  names_nodup (TargetsRole :: all_rule_names pol) && names_nodup (map fst pol).

(** same multiset of consulted rule names *)
Fixpoint remove_name (n : bytes) (l : list bytes) : option (list bytes) :=
  match l with
  | [] => None
  | x :: l' => if beq x n then Some l' else match remove_name n l' with Some r => Some (x :: r) | None => None end
  end.
Fixpoint same_names (a b : list bytes) : bool :=
  match a with
  | [] => match b with [] => true | _ => false end
  | x :: a' => match remove_name x b with Some b' => same_names a' b' | None => false end
  end.

(** every consulted rule carries its own principals and threshold, as its own file defines them *)
Definition own_rule_ok (pol : policy) (fr : bytes * rule) (v : vrec) : bool :=
  match find_file pol (fst fr) with
  | None => false
  | Some file =>
      Z.eqb (vr_thr v) (r_thr (snd fr))
      && Nat.eqb (List.length (vr_pr v)) (List.length (r_pids (snd fr)))
      && forallb (fun p => pr_eqb (fst p) (snd p))
           (combine (vr_pr v) (map (fun i => (i, lookup_def (f_defs file) i)) (r_pids (snd fr))))
  end.

Inductive c06obs := OW (r : wres) | OWPanic.
Inductive c06case := C06 (pol : policy) (path : bytes) (obs : c06obs).

Definition c06_check (c : c06case) : verdict :=
  match c with
  | C06 pol path OWPanic => VSpec 9
  | C06 pol path (OW r) =>
      let agree := wres_eqb (find_verifiers pol path) r in
      let '(names_ok, own_ok) :=
        if unique_names pol then
          match r with
          | WOk vs =>
              let rs := reached pol path (S (List.length pol)) TargetsRole in
              (same_names (map vr_name vs) (map (fun fr => r_name (snd fr)) rs),
               forallb (fun v => existsb (fun fr => beq (r_name (snd fr)) (vr_name v) && own_rule_ok pol fr v) rs) vs)
          | WNoPolicy => (match find_file pol TargetsRole with None => true | Some _ => false end, true)
          | WFuel => (false, true)
          end
        else (true, true) in
      if negb names_ok then VSpec 1
      else if negb own_ok then (if agree then VFinding 7 else VSpec 2)
      else if negb agree then VMismatch 1
      else VOk
  end.
