(** C12: case type and checker. *)
From GV Require Export ApplyModel Verdict.

Definition aerr_eqb (a b : aerr) : bool :=
  match a, b with
  | AEInvalidPolicy, AEInvalidPolicy | AENotAncestor, AENotAncestor | AENoStaging, AENoStaging
  | AEInvalidState, AEInvalidState | AEOther, AEOther => true
  | _, _ => false
  end.

Definition optN_eqb (a b : option N) : bool :=
  match a, b with Some x, Some y => N.eqb x y | None, None => true | _, _ => false end.

Definition log_eqb (a b : list (bool * N)) : bool :=
  Nat.eqb (List.length a) (List.length b) && forallb (fun p => Bool.eqb (fst (fst p)) (fst (snd p)) && N.eqb (snd (fst p)) (snd (snd p))) (combine a b).

(** observation after one operation *)
Record aobs := { ob_err : option aerr; ob_policy : option N; ob_staging : option N; ob_log : list (bool * N); ob_loadable : bool }.

Inductive c12case := C12 (ops : list aop) (obs : list aobs) (parents : list (N * option N)) | C12Panic.

Fixpoint obs_descends (ps : list (N * option N)) (fuel : nat) (c anc : N) : bool :=
  N.eqb c anc ||
  match fuel with
  | 0 => false
  | S f => match (fix find (l : list (N * option N)) := match l with [] => None | (d, p) :: l' => if N.eqb c d then p else find l' end) ps with
           | Some p => obs_descends ps f p anc
           | None => false
           end
  end.

Definition policy_entries (l : list (bool * N)) : list N := map snd (filter (fun e => fst e) l).

Definition nlist_eqb (a b : list N) : bool :=
  Nat.eqb (List.length a) (List.length b) && forallb (fun p => N.eqb (fst p) (snd p)) (combine a b).

(** the property on the implementation's own trace *)
Fixpoint trace_spec (ps : list (N * option N)) (prev : aobs) (ops : list aop) (obs : list aobs) : nat :=
  match ops, obs with
  | [], [] => 0
  | o :: ops', ob :: obs' =>
      let bad :=
        match o, ob_err ob with
        | AApply, None =>
            (* moved exactly to the staged state, which descends from the old policy, recorded by the same operation, and loadable *)
            if negb (optN_eqb (ob_policy ob) (ob_staging ob) && match ob_policy ob with Some _ => true | None => false end) then 1
            else if negb (match ob_policy prev, ob_policy ob with
                          | Some p, Some n => obs_descends ps (S (List.length ps)) n p
                          | _, _ => true end) then 2
            else if negb (nlist_eqb (policy_entries (ob_log ob)) (policy_entries (ob_log prev) ++ match ob_policy ob with Some n => [n] | None => [] end)) then 3
            else if negb (ob_loadable ob) then 4
            else 0
        | AApply, Some _ =>
            if negb (optN_eqb (ob_policy ob) (ob_policy prev) && nlist_eqb (policy_entries (ob_log ob)) (policy_entries (ob_log prev))) then 5 else 0
        | ADiscard, None => if negb (optN_eqb (ob_staging ob) (ob_policy prev)) then 6 else 0
        | _, _ => 0
        end in
      match bad with 0 => trace_spec ps ob ops' obs' | n => n end
  | _, _ => 9
  end.

Fixpoint agree (s : astate) (ops : list aop) (obs : list aobs) : bool :=
  match ops, obs with
  | [], [] => true
  | o :: ops', ob :: obs' =>
      let '(e, s1) := astep s o in
      Bool.eqb (match e with Some _ => true | None => false end) (match ob_err ob with Some _ => true | None => false end)
      && optN_eqb (a_policy s1) (ob_policy ob) && optN_eqb (a_staging s1) (ob_staging ob) && log_eqb (a_log s1) (ob_log ob)
      && agree s1 ops' obs'
  | _, _ => false
  end.

Fixpoint agree_errkinds (s : astate) (ops : list aop) (obs : list aobs) : bool :=
  match ops, obs with
  | o :: ops', ob :: obs' =>
      let '(e, s1) := astep s o in
      match e, ob_err ob with Some x, Some y => aerr_eqb x y | None, None => true | _, _ => false end && agree_errkinds s1 ops' obs'
  | _, _ => true
  end.

Definition c12_check (c : c12case) : verdict :=
  match c with
  | C12Panic => VSpec 9
  | C12 ops obs ps =>
      match trace_spec ps {| ob_err := None; ob_policy := None; ob_staging := None; ob_log := []; ob_loadable := true |} ops obs with
      | S n => VSpec (S n)
      | 0 => if negb (agree a_init ops obs) then VMismatch 1
             else if negb (agree_errkinds a_init ops obs) then VMismatch 2 else VOk
      end
  end.
