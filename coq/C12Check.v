(** C12: case type and checker. *)
From GV Require Export ApplyModel RootApi Verdict.

Definition aerr_eqb (a b : aerr) : bool :=
  match a, b with
  | AEInvalidPolicy, AEInvalidPolicy | AENotAncestor, AENotAncestor | AENoStaging, AENoStaging
  | AEInvalidState, AEInvalidState | AEOther, AEOther => true
  | _, _ => false
  end.

Definition optN_eqb (a b : option N) : bool :=
  match a, b with Some x, Some y => N.eqb x y | None, None => true | _, _ => false end.

Definition log_eqb (a b : list (bool * N)) : bool :=
  Nat.eqb (List.length a) (List.length b) && forallb (fun p => Bool.eqb (fst (fst p)) (fst (snd p)) && N.eqb (snd (fst p)) (snd (snd p))) (combine a b).

(** observation after one operation *)
Record aobs := { ob_err : option aerr; ob_policy : option N; ob_staging : option N; ob_log : list (bool * N); ob_loadable : bool }.

(** API level: what is read back after one call - its error (0 none, 1 unauthorized key, 2 cannot meet
    threshold, 3 invalid threshold, 4 Apply refused, 5 cannot reinitialize, 9 anything else), the staged root (principals of
    the root role, threshold, version, key ids of the envelope's signatures), whether the policy
    reference equals the staging reference, and whether LoadCurrentState(policy) succeeds *)
Record apiobs := { ao_err : nat; ao_keys : list key; ao_thr : Z; ao_version : N; ao_signers : list key;
                   ao_applied : bool; ao_loadable : bool }.

Inductive c12case :=
| C12 (ops : list aop) (obs : list aobs) (parents : list (N * option N))
| C12Panic
| C12Api (p0 : pstate) (steps : list (key * rootop * apiobs)).

Definition kset_eqb (a b : list key) : bool := forallb (fun x => kmem x b) a && forallb (fun x => kmem x a) b.

Definition apierr_code (e : option apierr) : nat :=
  match e with None => 0 | Some EUnauthorized => 1 | Some ECannotMeet => 2 | Some EInvalidThreshold => 3 | Some EApplyRefused => 4 | Some EReinit => 5 end.

Definition root_same (ob : apiobs) (keys : list key) (thr : Z) (ver : N) (sg : list key) : bool :=
  kset_eqb (ao_keys ob) keys && (ao_thr ob =? thr)%Z && N.eqb (ao_version ob) ver && kset_eqb (ao_signers ob) sg.

(** the API clauses on the implementation's own trace: a root-of-trust change by a signer who is not a
    root principal of the state being edited is refused and changes nothing; a state Apply publishes
    is loadable *)
Fixpoint api_spec (keys : list key) (thr : Z) (ver : N) (sg : list key) (steps : list (key * rootop * apiobs)) : nat :=
  match steps with
  | [] => 0
  | (signer, o, ob) :: steps' =>
      if is_edit o && negb (kmem signer keys) && (Nat.eqb (ao_err ob) 0 || negb (root_same ob keys thr ver sg)) then 10
      else if (match o with RApply => true | _ => false end) && Nat.eqb (ao_err ob) 0 && negb (ao_applied ob && ao_loadable ob) then 11
      else if (match o with RInit => true | _ => false end) && Nat.eqb (ao_err ob) 0 then 12   (* a second root of trust was initialised *)
      else api_spec (ao_keys ob) (ao_thr ob) (ao_version ob) (ao_signers ob) steps'
  end.

Fixpoint api_agree (s : apistate) (steps : list (key * rootop * apiobs)) : bool :=
  match steps with
  | [] => true
  | (signer, o, ob) :: steps' =>
      let '(e, s1) := api_step s signer o in
      Nat.eqb (apierr_code e) (ao_err ob)
      && root_same ob (ps_root_keys (ap_staged s1)) (ps_root_thr (ap_staged s1)) (ps_root_version (ap_staged s1)) (ps_root_signers (ap_staged s1))
      && api_agree s1 steps'
  end.

Fixpoint obs_descends (ps : list (N * option N)) (fuel : nat) (c anc : N) : bool :=
  N.eqb c anc ||
  match fuel with
  | 0 => false
  | S f => match (fix find (l : list (N * option N)) := match l with [] => None | (d, p) :: l' => if N.eqb c d then p else find l' end) ps with
           | Some p => obs_descends ps f p anc
           | None => false
           end
  end.

Definition policy_entries (l : list (bool * N)) : list N := map snd (filter (fun e => fst e) l).

Definition nlist_eqb (a b : list N) : bool :=
  Nat.eqb (List.length a) (List.length b) && forallb (fun p => N.eqb (fst p) (snd p)) (combine a b).

(** the property on the implementation's own trace *)
Fixpoint trace_spec (ps : list (N * option N)) (prev : aobs) (ops : list aop) (obs : list aobs) : nat :=
  match ops, obs with
  | [], [] => 0
  | o :: ops', ob :: obs' =>
      let bad :=
        match o, ob_err ob with
        | AApply, None =>
            (* moved exactly to the staged state, which descends from the old policy, recorded by the same operation, and loadable *)
            if negb (optN_eqb (ob_policy ob) (ob_staging ob) && match ob_policy ob with Some _ => true | None => false end) then 1
            else if negb (match ob_policy prev, ob_policy ob with
                          | Some p, Some n => obs_descends ps (S (List.length ps)) n p
                          | _, _ => true end) then 2
            else if negb (nlist_eqb (policy_entries (ob_log ob)) (policy_entries (ob_log prev) ++ match ob_policy ob with Some n => [n] | None => [] end)) then 3
            else if negb (ob_loadable ob) then 4
            else 0
        | AApply, Some _ =>
            if negb (optN_eqb (ob_policy ob) (ob_policy prev) && nlist_eqb (policy_entries (ob_log ob)) (policy_entries (ob_log prev))) then 5 else 0
        | ADiscard, None => if negb (optN_eqb (ob_staging ob) (ob_policy prev)) then 6 else 0
        | _, _ => 0
        end in
      match bad with 0 => trace_spec ps ob ops' obs' | n => n end
  | _, _ => 9
  end.

Fixpoint agree (s : astate) (ops : list aop) (obs : list aobs) : bool :=
  match ops, obs with
  | [], [] => true
  | o :: ops', ob :: obs' =>
      let '(e, s1) := astep s o in
      Bool.eqb (match e with Some _ => true | None => false end) (match ob_err ob with Some _ => true | None => false end)
      && optN_eqb (a_policy s1) (ob_policy ob) && optN_eqb (a_staging s1) (ob_staging ob) && log_eqb (a_log s1) (ob_log ob)
      && agree s1 ops' obs'
  | _, _ => false
  end.

Fixpoint agree_errkinds (s : astate) (ops : list aop) (obs : list aobs) : bool :=
  match ops, obs with
  | o :: ops', ob :: obs' =>
      let '(e, s1) := astep s o in
      match e, ob_err ob with Some x, Some y => aerr_eqb x y | None, None => true | _, _ => false end && agree_errkinds s1 ops' obs'
  | _, _ => true
  end.

Definition c12_check (c : c12case) : verdict :=
  match c with
  | C12Panic => VSpec 9
  | C12Api p0 steps =>
      match api_spec (ps_root_keys p0) (ps_root_thr p0) (ps_root_version p0) (ps_root_signers p0) steps with
      | S n => VSpec (S n)
      | 0 => if api_agree (api_init p0) steps then VOk else VMismatch 3
      end
  | C12 ops obs ps =>
      match trace_spec ps {| ob_err := None; ob_policy := None; ob_staging := None; ob_log := []; ob_loadable := true |} ops obs with
      | S n => VSpec (S n)
      | 0 => if negb (agree a_init ops obs) then VMismatch 1
             else if negb (agree_errkinds a_init ops obs) then VMismatch 2 else VOk
      end
  end.
