(** Property C02 — policy takes effect only via an unbroken, rollback-free chain of trust.
    Only statements here; proofs are in WorldProofs.v. *)
From GV Require Import Sig World WorldProofs.

(** Loading the policy state of entry [i] succeeds only if the policy entries up to [i] form a
    chain from the first one (trusted on first use) in which every link passes [verify_new_state],
    and the state returned passes [state_verify] (root self-signature, primary rule file signed by
    the threshold its root names, every reachable delegated file signed as the delegating rule
    requires, no unreachable rule file). *)
Theorem C02_load_state_chain : forall w i ps, load_state w i = Some ps ->
  exists k0 p0 rest, policy_entries_upto w i = (k0, p0) :: rest /\ Chain p0 rest ps /\ state_verify ps = true.
Proof. exact load_state_chain. Qed.
Print Assumptions C02_load_state_chain.

(** One link: the successor's root envelope is accepted by the predecessor's root verifier
    (threshold of distinct root keys, by C05), root and rule-file versions never decrease, rule
    files never disappear. *)
Theorem C02_link : forall cur new, verify_new_state cur new = true ->
  accepts (root_verifier cur) false 0%N (env_of (ps_root_signers new)) = true /\
  (ps_root_version cur <= ps_root_version new)%N /\
  (forall ct, find_sfile cur TargetsRole = Some ct ->
     exists nt, find_sfile new TargetsRole = Some nt /\ (sf_version ct <= sf_version nt)%N /\
       forall n f, In (n, f) (ps_files cur) -> beq n TargetsRole = false ->
         exists f', find_sfile new n = Some f' /\ (sf_version f <= sf_version f')%N).
Proof. exact verify_new_state_spec. Qed.
Print Assumptions C02_link.

(** Every mode: the policy a run starts from heads such a chain, and every policy entry met inside
    the verified range is accepted only if it chains from the current one AND verifies internally
    (the [TPol] steps of C01_sound; the latter half is the F1 repair).  Full, latest-only and
    from-entry verification are the same [verify_relative] with different ranges. *)
Theorem C02_initial_policy : forall w first ps, initial_policy w first = Some (Some ps) ->
  exists j k0 p0 rest, policy_entries_upto w j = (k0, p0) :: rest /\ Chain p0 rest ps /\ state_verify ps = true.
Proof. exact initial_policy_chain. Qed.
Print Assumptions C02_initial_policy.

Theorem C02_modes_share_the_loop : forall w ref,
  (forall l le, latest_for w ref (List.length (w_log w)) false false = Some (l, le) ->
     verify_latest w ref = match verify_relative w ref l l with None => VTip (entry_target le) | Some e => VFail e end).
Proof. intros w ref l le H. unfold verify_latest. now rewrite H. Qed.
