(** C14: case type and per-case checker evaluated on what the implementation returned. *)
From GV Require Export Pem Verdict.

Definition entry_eqb (a b : entry) : bool :=
  match a, b with
  | ERef r t n, ERef r' t' n' => beq r r' && beq t t' && N.eqb n n'
  | EAnn ids sk m n, EAnn ids' sk' m' n' =>
      Nat.eqb (List.length ids) (List.length ids') && forallb (fun p => beq (fst p) (snd p)) (combine ids ids')
      && Bool.eqb sk sk' && beq m m' && N.eqb n n'
  | EProp r t ur ue n, EProp r' t' ur' ue' n' =>
      beq r r' && beq t t' && beq ur ur' && beq ue ue' && N.eqb n n'
  | _, _ => false
  end.

Definition perr_eqb (a b : perr) : bool :=
  match a, b with
  | EInvalid, EInvalid | EHashLen, EHashLen | EHashEnc, EHashEnc | ENumber, ENumber => true
  | _, _ => false
  end.

Definition res_eqb (a b : res entry) : bool :=
  match a, b with
  | Ok x, Ok y => entry_eqb x y
  | Err x, Err y => perr_eqb x y
  | _, _ => false
  end.

(** ** clause 3 as an independent scan of the text: the security-relevant keys that occur in the
    body (for annotations: before the first line that trims to the begin marker), in order, with
    their decoded values, are exactly the canonical sequence for the returned entry. *)
Definition scan_kvs (body : list bytes) : list (bytes * bytes) :=
  flat_map (fun l => match parse_kv l with Some kv => [kv] | None => [] end) body.

Definition known_kvs (keys : list bytes) (body : list bytes) : list (bytes * bytes) :=
  filter (fun kv => existsb (beq (fst kv)) keys) (scan_kvs body).

Fixpoint until_begin (body : list bytes) : list bytes :=
  match body with
  | [] => []
  | l :: body' => if beq (trim l) BeginMessage then [] else l :: until_begin body'
  end.

Definition is_hash_of (v h : bytes) : bool :=
  match new_hash v with Ok h' => beq h h' | Err _ => false end.
Definition is_num_of (v : bytes) (n : N) : bool :=
  match set_number v with Ok n' => N.eqb n n' | Err _ => false end.

Definition num_tail_ok (kvs : list (bytes * bytes)) (n : N) : bool :=
  match kvs with
  | [] => N.eqb n 0
  | [(k, v)] => beq k NumberKey && is_num_of v n
  | _ => false
  end.

Fixpoint ann_ids_ok (kvs : list (bytes * bytes)) (ids : list bytes) (sk : bool) (n : N) : bool :=
  match ids, kvs with
  | i :: ids', (k, v) :: kvs' => beq k EntryIDKey && is_hash_of v i && ann_ids_ok kvs' ids' sk n
  | [], (k, v) :: kvs' =>
      beq k SkipKey && beq v (if sk then TrueLit else FalseLit) && num_tail_ok kvs' n
  | _, _ => false
  end.

Definition unamb_b (text : bytes) (e : entry) : bool :=
  let body := skipn 2 (split_on LF text) in
  match e with
  | ERef r t n =>
      match known_kvs [RefKey; TargetIDKey; NumberKey] body with
      | (k1, v1) :: (k2, v2) :: tl =>
          beq k1 RefKey && beq v1 r && beq k2 TargetIDKey && is_hash_of v2 t && num_tail_ok tl n
      | _ => false
      end
  | EAnn ids sk m n =>
      negb (Nat.eqb (List.length ids) 0) &&
      ann_ids_ok (known_kvs [EntryIDKey; SkipKey; NumberKey] (until_begin body)) ids sk n
  | EProp r t ur ue n =>
      match known_kvs [RefKey; TargetIDKey; UpstreamRepositoryKey; UpstreamEntryIDKey; NumberKey] body with
      | (k1, v1) :: (k2, v2) :: (k3, v3) :: (k4, v4) :: tl =>
          beq k1 RefKey && beq v1 r && beq k2 TargetIDKey && is_hash_of v2 t
          && beq k3 UpstreamRepositoryKey && beq v3 ur && beq k4 UpstreamEntryIDKey && is_hash_of v4 ue
          && num_tail_ok tl n
      | _ => false
      end
  end.

Inductive gores := GRes (r : res entry) | GPanic | GOther.

Inductive c14case :=
| CRound (from_parse : bool) (e : entry) (text : bytes) (pd : option bytes) (r2 : gores)
| CParse (text : bytes) (pd : option bytes) (r : gores).


Definition c14_check (c : c14case) : verdict :=
  match c with
  | CRound fp e text pd r2 =>
      match r2 with
      | GPanic => VSpec 4
      | GOther => VMismatch 9
      | GRes r2 =>
          if (fp || wf_entry e) && negb (res_eqb r2 (Ok e)) then VSpec (if fp then 2 else 1)
          else if negb (beq (ser pem_enc_c e) text) then VMismatch 1
          else if negb (res_eqb (parse (fun _ => pd) text) r2) then VMismatch 2
          else VOk
      end
  | CParse text pd r =>
      match r with
      | GPanic => VSpec 4
      | GOther => VMismatch 9
      | GRes r =>
          if (match r with Ok e => negb (unamb_b text e) | Err _ => false end) then VSpec 3
          else if negb (res_eqb (parse (fun _ => pd) text) r) then VMismatch 2
          else VOk
      end
  end.
