(** C18: case type and checker. *)
From GV Require Export Propagate Verdict.

Definition c18obs := (bool * ftree * nat * list (bytes * ftree * bytes * N))%type.

Inductive c18case :=
| C18 (ups : list uplog) (refs0 : list (bytes * ftree)) (ds : list directive) (obs : list c18obs).

Definition tsame (a b : ftree) : bool := Nat.eqb (List.length a) (List.length b) && teq a b.

Definition ent_same (a b : bytes * ftree * bytes * N) : bool :=
  let '(r1, t1, u1, e1) := a in let '(r2, t2, u2, e2) := b in
  beq r1 r2 && tsame t1 t2 && beq u1 u2 && N.eqb e1 e2.

Fixpoint ents_same (a b : list (bytes * ftree * bytes * N)) : bool :=
  match a, b with
  | [], [] => true
  | x :: a', y :: b' => ent_same x y && ents_same a' b'
  | _, _ => false
  end.

Definition state_of (r : pres) : dstate := match r with POk s => s | PErr s => s end.
Definition is_err (r : pres) : bool := match r with PErr _ => true | POk _ => false end.

Definition obs_matches (ref : bytes) (r : pres) (o : c18obs) : bool :=
  let '(e, t, n, ents) := o in
  Bool.eqb e (is_err r)
  && match ref_tree (ds_refs (state_of r)) ref with Some mt => tsame mt t | None => false end
  && Nat.eqb n (ds_commits (state_of r))
  && ents_same ents (ds_entries (state_of r)).

Fixpoint all_match (ref : bytes) (rs : list pres) (os : list c18obs) : bool :=
  match rs, os with
  | [], [] => true
  | r :: rs', o :: os' => obs_matches ref r o && all_match ref rs' os'
  | _, _ => false
  end.

(** the property on the implementation's answers *)
Definition outside_all (ds : list directive) (p : bytes) : bool :=
  forallb (fun d => negb (replaced (trim_slash (d_downpath d)) p)) ds.

(** do all repetitions see the same upstream log? *)
Fixpoint same_len (ups : list uplog) : bool :=
  match ups with
  | a :: ((b :: _) as r) => Nat.eqb (List.length a) (List.length b) && same_len r
  | _ => true
  end.

Definition spec_check (ups : list uplog) (t0 : ftree) (ds : list directive) (os : list c18obs) : nat :=
  let up := hd [] ups in
  match os with
  | [] => 0
  | (e1, t1, n1, ents1) :: rest =>
      (* 1. whatever lies outside every downstream path is byte-for-byte what it was *)
      if negb (forallb (fun o => let '(_, t, _, _) := o in
                          forallb (fun p => negb (outside_all ds p) || opt_eqb (tlookup t0 p) (tlookup t p)) (map fst t0 ++ map fst t)) os) then 1
      (* 2. after a successful run each downstream path holds exactly the subtree its directive names *)
      else if negb e1 && negb (forallb (fun d =>
                 match latest_unskipped up (d_upref d) with
                 | None => true
                 | Some (_, utree) => match up_subtree utree (d_uppath d) with
                                      | Some usub => tsame (subtree_at t1 (trim_slash (d_downpath d))) usub
                                      | None => true
                                      end
                 end) ds) then 2
      (* 3. entries name the upstream location and the latest unskipped upstream entry *)
      else if negb (forallb (fun en => let '(r, _, u, eid) := en in
                      existsb (fun d => beq r (d_downref d) && beq u (d_uprepo d)
                                        && match latest_unskipped up (d_upref d) with Some (i, _) => N.eqb i eid | None => false end) ds) ents1) then 3
      (* 2b. after the last successful run each path holds what the final upstream log names *)
      else if negb (let '(el, tl, _, _) := last os (e1, t1, n1, ents1) in
                    el || forallb (fun d =>
                            match latest_unskipped (last ups []) (d_upref d) with
                            | None => true
                            | Some (_, utree) => match up_subtree utree (d_uppath d) with
                                                 | Some usub => tsame (subtree_at tl (trim_slash (d_downpath d))) usub
                                                 | None => true
                                                 end
                            end) ds) then 2
      (* 4. repetitions after a successful run change nothing (unchanged upstream): no commit, no entry *)
      else if same_len ups && negb e1 && negb (forallb (fun o => let '(e, t, n, ents) := o in
                                         negb e && tsame t t1 && Nat.eqb n n1 && Nat.eqb (List.length ents) (List.length ents1)) rest) then 4
      else 0
  end.

Definition c18_check (c : c18case) : verdict :=
  match c with
  | C18 ups refs0 ds obs =>
      match refs0 with
      | [(ref, t0)] =>
          match spec_check ups t0 ds obs with
          | 0 =>
              let rs := repeat_propagate_ups ups {| ds_refs := refs0; ds_commits := 0; ds_entries := [] |} ds in
              if all_match ref rs obs then VOk else VMismatch 1
          | n => VSpec n
          end
      | _ => VMismatch 9
      end
  end.
