(** Property C14 — RSL entry text and its parsed form determine each other.
    Only statements here; proofs are in RslCodecProofs.v / RslCodecProofs2.v. *)
From GV Require Import BytesLemmas RslCodec Pem C14Check RslCodecProofs RslCodecProofs2.
From Coq Require Import Strings.String.
Local Open Scope string_scope.

(** What is assumed of Go's encoding/pem (the only part of the codec that is not modelled byte by
    byte): the encoder's output starts with the begin-marker line; decoding the canonical text of
    an annotation returns its message; a canonical annotation text without message has no block. *)
Record PemOK (pem_enc : bytes -> bytes) (pem_dec : bytes -> option bytes) : Prop := {
  pem_enc_begin : forall m, m <> [] -> exists rest, split_on LF (pem_enc m) = BeginMessage :: rest;
  pem_canon : forall ids sk m n, m <> [] -> pem_dec (ser pem_enc (EAnn ids sk m n)) = Some m;
  pem_none : forall ids sk n, pem_dec (ser pem_enc (EAnn ids sk [] n)) = None }.

(** (1) Every entry that can be recorded reads back with the same fields. *)
Theorem C14_roundtrip :
  forall pem_enc pem_dec, PemOK pem_enc pem_dec ->
  forall e, wf_entry e = true -> parse pem_dec (ser pem_enc e) = Ok e.
Proof. intros pe pd [H1 H2 H3]. exact (roundtrip pe pd H1 H2 H3). Qed.
Print Assumptions C14_roundtrip.

(** (2) For every byte string whatsoever: rejected, or the canonical text of the returned entry
    parses to the same entry.  ([parse] is a total function: no input makes it diverge; absence of
    Go panics is observed by the harness.) *)
Theorem C14_idempotent :
  forall pem_enc pem_dec, PemOK pem_enc pem_dec ->
  forall t e, parse pem_dec t = Ok e -> parse pem_dec (ser pem_enc e) = Ok e.
Proof.
  intros pe pd [H1 H2 H3] t e H. apply (roundtrip pe pd H1 H2 H3).
  exact (proj1 (parse_sound pd t e H)).
Qed.
Print Assumptions C14_idempotent.

(** (3) No second interpretation: in an accepted text the security-relevant keys occur exactly
    once, in canonical order, and carry exactly the returned values (for every pem decoder). *)
Theorem C14_unambiguous :
  forall pem_dec t e, parse pem_dec t = Ok e -> unamb_b t e = true.
Proof. intros pd t e H. exact (proj2 (parse_sound pd t e H)). Qed.
Print Assumptions C14_unambiguous.

(** The concrete encoder used by the correspondence check meets the first hypothesis. *)
Lemma pem_enc_c_begin : forall m, m <> [] -> exists rest, split_on LF (pem_enc_c m) = BeginMessage :: rest.
Proof.
  intros m _. unfold pem_enc_c. eexists. apply split_on_app_sep. reflexivity.
Qed.

(** Non-vacuity: concrete recordable entries satisfy the hypotheses, and the statements compute. *)
Example C14_wf_examples :
  wf_entry (ERef (bs "refs/heads/a:b c") (repeat x01 20) 5) = true /\
  wf_entry (EAnn [repeat xab 20; repeat xcd 32] true (bs "-----BEGIN MESSAGE-----") 18446744073709551615) = true /\
  wf_entry (EProp (bs "refs/heads/main") (repeat x00 20) (bs "git@host:org/repo") (repeat xff 20) 0) = true.
Proof. vm_compute. auto. Qed.

Example C14_roundtrip_computes :
  parse (fun _ => Some (bs "hi")) (ser pem_enc_c (EAnn [repeat xab 20] true (bs "hi") 7))
  = Ok (EAnn [repeat xab 20] true (bs "hi") 7).
Proof. vm_compute. reflexivity. Qed.

Example C14_rejects_duplicate_key :
  parse (fun _ => None) (List.app (ser pem_enc_c (ERef (bs "r") (repeat x01 20) 0)) (LF :: kv RefKey (bs "evil"))) = Err EInvalid.
Proof. vm_compute. reflexivity. Qed.
