(** C01, tag references: verification of the entries recorded for a tag reference
    (internal/policy/verify.go verifyTagEntry).  Histories of one policy state (no global rules)
    followed by attestation entries and entries for the tag reference only. *)
From GV Require Export World.

Record tagobj := { tg_target : N; tg_signer : key }.      (* the commit it names; the key that validly signed the tag object *)
Record tworld := { tw_world : world; tw_tags : list (N * tagobj); tw_ref_now : option N }.   (* the tag reference's current value *)

Fixpoint lookup_tag (ts : list (N * tagobj)) (t : N) : option tagobj :=
  match ts with [] => None | (u, o) :: ts' => if N.eqb t u then Some o else lookup_tag ts' t end.

Definition opt_N_eqb (a : option N) (b : N) : bool := match a with Some x => N.eqb x b | None => false end.

(** one entry of the tag reference: the tag object it names, recorded by [signer] *)
Definition verify_tag_entry (tw : tworld) (ps : pstate) (i : nat) (ref : bytes) (target : N) (signer : key) : bool :=
  let w := tw_world tw in
  match lookup_tag (tw_tags tw) target with
  | None => false
  | Some tg =>
      (* the entry names what the tag reference holds (or the tagged commit itself) *)
      (opt_N_eqb (tw_ref_now tw) target || N.eqb target (tg_target tg)) &&
      let from := match latest_for w ref i false false with Some (_, e) => entry_target e | None => 0%N end in
      let az := match attest_before w i with None => AzNone | Some auths => find_authz auths ref from (tg_target tg) end in
      match az with
      | AzInvalid => false
      | _ =>
          let env := match az with AzEnv s => env_of s | _ => None end in
          match find_verifiers (policy_of ps) (GitScheme ++ ref) with
          | WOk [] => true
          | WOk vs =>
              (* the log entry: the rule's full threshold, with approvals *)
              (match first_satisfied vs signer env with Some _ => true | None => false end) &&
              (* the tag object: signed by a key of a principal of some rule that protects the tag *)
              existsb (fun v => match git_phase (v_principals (vrec_verifier v)) (tg_signer tg) with Some _ => true | None => false end) vs
          | _ => false
          end
      end
  end.

Definition tag_shape (w : world) (ref : bytes) : bool :=
  match w_log w with
  | WEPolicy ps :: rest =>
      forallb (fun e => match e with WERef r _ _ => beq r ref | WEAttest _ => true | _ => false end) rest
      && (match ps_globals ps with [] => true | _ => false end)
  | _ => false
  end.

Definition verify_full_tags (tw : tworld) (ref : bytes) : vout :=
  let w := tw_world tw in
  match load_state w 0, latest_for w ref (List.length (w_log w)) false false with
  | Some ps, Some (_, le) =>
      if forallb (fun ie => match snd ie with
                            | WERef r t s => verify_tag_entry tw ps (fst ie) r t s
                            | _ => true
                            end) (indexed w)
      then VTip (entry_target le) else VFail VEViolation
  | None, _ => VFail VEPolicy
  | _, None => VFail VENotFound
  end.
