(** Property C18 — propagation copies exactly the upstream subtree and is idempotent.
    Only statements here; proofs are in PropagateProofs.v. *)
From GV Require Import Propagate PropagateProofs.

(** After a propagating step the downstream path holds exactly the upstream subtree ... *)
Theorem C18_path_holds_upstream_subtree : forall old d up q,
  tlookup (graft old d up) (d ++ SLASH :: q) = tlookup up q.
Proof. exact graft_inside. Qed.
Print Assumptions C18_path_holds_upstream_subtree.

Theorem C18_subtree_is_exactly_upstream : forall old d up, subtree_at (graft old d up) d = up.
Proof. exact subtree_of_graft. Qed.
Print Assumptions C18_subtree_is_exactly_upstream.

(** ... every other path, whatever its name (look-alike siblings such as "dbar/x" or "d x/y"
    included), keeps its blob ... *)
Theorem C18_other_paths_unchanged : forall old d up p,
  replaced d p = false -> tlookup (graft old d up) p = tlookup old p.
Proof. exact graft_outside. Qed.
Print Assumptions C18_other_paths_unchanged.

(** ... and the step records one commit and one entry naming the downstream reference, the
    upstream location and the latest unskipped upstream entry used (or changes nothing at all). *)
Theorem C18_step_effect : forall up s d s1, propagate_one up s d = POk s1 ->
  s1 = s \/
  exists eid utree cur usub,
    latest_unskipped up (d_upref d) = Some (eid, utree) /\ ref_tree (ds_refs s) (d_downref d) = Some cur /\
    up_subtree utree (d_uppath d) = Some usub /\
    let nt := graft cur (trim_slash (d_downpath d)) usub in
    ds_refs s1 = set_ref (ds_refs s) (d_downref d) nt /\ ds_commits s1 = S (ds_commits s) /\
    ds_entries s1 = ds_entries s ++ [(d_downref d, nt, d_uprepo d, eid)].
Proof. exact propagate_one_effect. Qed.
Print Assumptions C18_step_effect.

(** Idempotence: once the downstream path holds the content, propagating the directive again
    creates no commit and no entry, however often it is repeated (upstream tree not empty). *)
Theorem C18_idempotent : forall up s d s1,
  (forall eid utree, latest_unskipped up (d_upref d) = Some (eid, utree) -> utree <> []) ->
  propagate_one up s d = POk s1 -> propagate_one up s1 d = POk s1.
Proof. exact propagate_one_idempotent. Qed.
Print Assumptions C18_idempotent.

Theorem C18_any_number_of_repetitions : forall up d n s s1,
  (forall eid utree, latest_unskipped up (d_upref d) = Some (eid, utree) -> utree <> []) ->
  propagate up s [d] = POk s1 ->
  Forall (fun r => r = POk s1) (repeat_propagate n up s1 [d]).
Proof. exact repeat_single_directive. Qed.
Print Assumptions C18_any_number_of_repetitions.

(** Non-vacuity: a downstream tree with a look-alike sibling and a file at the path itself. *)
Example C18_example :
  let old := [([x64], 1%N); ([x64; x2f; x61], 2%N); ([x64; x62; x2f; x61], 3%N)] in   (* "d", "d/a", "db/a" *)
  let up := [([x78], 9%N)] in                                                          (* "x" *)
  graft old [x64] up = [([x64; x62; x2f; x61], 3%N); ([x64; x2f; x78], 9%N)].
Proof. vm_compute. reflexivity. Qed.
