(** C13 proofs: the metadata invariant is preserved by every mutator for arbitrary arguments, and a
    refused edit returns the metadata unchanged. *)
From GV Require Import BytesLemmas Meta.

Lemma nmem_In x l : nmem x l = true <-> In x l.
Proof.
  unfold nmem. rewrite existsb_exists. split.
  - intros (y & Hy & E). apply N.eqb_eq in E. now subst.
  - intros H. exists x. split; [assumption|apply N.eqb_refl].
Qed.

Lemma dedup_In x l : In x (dedup l) <-> In x l.
Proof.
  induction l as [|y l IH]; [reflexivity|]. cbn. destruct (nmem y l) eqn:E.
  - rewrite IH. split; [auto|]. intros [<-|H]; [now apply nmem_In|assumption].
  - cbn. now rewrite IH.
Qed.

Lemma dedup_nodup l : NoDup (dedup l).
Proof.
  induction l as [|y l IH]; [constructor|]. cbn. destruct (nmem y l) eqn:E; [assumption|].
  constructor; [|assumption]. rewrite dedup_In. intros H. apply nmem_In in H. congruence.
Qed.

Lemma dedup_id l : NoDup l -> dedup l = l.
Proof.
  induction 1 as [|x l Hx Hl IH]; [reflexivity|]. cbn.
  destruct (nmem x l) eqn:E; [apply nmem_In in E; contradiction|]. now rewrite IH.
Qed.

Lemma dedup_idem l : dedup (dedup l) = dedup l.
Proof. apply dedup_id, dedup_nodup. Qed.

Lemma is_allow_prefix r : is_allow r = true -> has_prefix GittufPrefix (tr_name r) = true.
Proof. unfold is_allow. intros H. apply beq_eq in H. rewrite H. reflexivity. Qed.

(** [rule_ok] only depends on which principals are defined *)
Lemma rule_ok_mono ps ps' al al' rs rs' r :
  (forall p, nmem p ps = true -> nmem p ps' = true) ->
  rule_ok {| tg_alloc := al; tg_principals := ps; tg_rules := rs |} r = true ->
  rule_ok {| tg_alloc := al'; tg_principals := ps'; tg_rules := rs' |} r = true.
Proof.
  intros Hm. unfold rule_ok. cbn [tg_principals]. intros H. apply andb_true_iff in H as [H Hd]. rewrite H. cbn.
  rewrite forallb_forall in *. intros x Hx. apply Hm. now apply Hd.
Qed.

(** the invariant in propositional form: rules = before ++ [allow], every rule before is ok *)
Lemma targets_inv_spec t : targets_inv t = true <->
  exists before last, tg_rules t = before ++ [last] /\ is_allow last = true /\ forallb (rule_ok t) before = true.
Proof.
  unfold targets_inv. split.
  - destruct (rev (tg_rules t)) as [|last rb] eqn:E; [discriminate|]. intros H. apply andb_true_iff in H as [H1 H2].
    exists (rev rb), last. repeat split; [|assumption|].
    + rewrite <- (rev_involutive (tg_rules t)), E. reflexivity.
    + rewrite forallb_forall in *. intros x Hx. apply H2. now apply in_rev.
  - intros (before & last & E & H1 & H2). rewrite E, rev_app_distr. cbn. rewrite H1. cbn.
    rewrite forallb_forall in *. intros x Hx. apply H2. now apply in_rev in Hx.
Qed.

Lemma removelast_snoc {A} (l : list A) x : removelast (l ++ [x]) = l.
Proof. apply removelast_last. Qed.

Lemma rule_args_ok t name pids patterns thr term :
  rule_args_check t name pids thr = None ->
  rule_ok t {| tr_name := name; tr_patterns := patterns; tr_term := term; tr_pids := dedup pids; tr_thr := thr |} = true.
Proof.
  unfold rule_args_check, rule_ok. cbn [tr_name tr_thr tr_pids].
  destruct (has_prefix GittufPrefix name); [discriminate|].
  destruct (forallb (fun p => nmem p (tg_principals t)) pids) eqn:Ep; [|discriminate]. cbn [negb].
  destruct (thr <=? 0)%Z eqn:E0; [discriminate|]. destruct (Z.of_nat (List.length (dedup pids)) <? thr)%Z eqn:E1; [discriminate|].
  intros _. rewrite dedup_idem. cbn [negb andb].
  apply Z.leb_gt in E0. apply Z.ltb_ge in E1.
  assert ((1 <=? thr)%Z = true) as -> by (apply Z.leb_le; lia).
  assert ((thr <=? Z.of_nat (List.length (dedup pids)))%Z = true) as -> by (apply Z.leb_le; lia). cbn.
  rewrite forallb_forall in *. intros x Hx. apply Ep. now apply dedup_In.
Qed.

Lemma update_rules_ok t name pids patterns thr : forall rs,
  rule_args_check t name pids thr = None ->
  forallb (fun r => is_allow r || rule_ok t r) rs = true ->
  forallb (rule_ok t) (update_rules rs name pids patterns thr) = true.
Proof.
  intros rs Hc. induction rs as [|r rs IH]; [reflexivity|]. cbn [forallb update_rules]. intros H.
  apply andb_true_iff in H as [H1 H2]. destruct (is_allow r) eqn:Ea; [reflexivity|]. cbn [orb] in H1.
  cbn [forallb]. rewrite IH by assumption. rewrite andb_true_r.
  destruct (beq (tr_name r) name) eqn:En; [|assumption].
  apply beq_eq in En. rewrite En. now apply rule_args_ok.
Qed.

Lemma last_rule_named_ok t : forall rs n r,
  forallb (fun r => is_allow r || rule_ok t r) rs = true -> last_rule_named rs n = Some r -> rule_ok t r = true.
Proof.
  induction rs as [|x rs IH]; cbn; intros n r H; [discriminate|]. apply andb_true_iff in H as [H1 H2].
  destruct (last_rule_named rs n) eqn:E.
  - intros [= <-]. eapply IH; eauto.
  - destruct (negb (is_allow x) && beq (tr_name x) n) eqn:Ex; [|discriminate]. intros [= <-].
    apply andb_true_iff in Ex as [Ex _]. apply negb_true_iff in Ex. rewrite Ex in H1. exact H1.
Qed.

Lemma inv_all_rules t before last :
  tg_rules t = before ++ [last] -> is_allow last = true -> forallb (rule_ok t) before = true ->
  forallb (fun r => is_allow r || rule_ok t r) (tg_rules t) = true.
Proof.
  intros E H1 H2. rewrite E, forallb_app. cbn. rewrite H1. cbn. rewrite andb_true_r.
  rewrite forallb_forall in *. intros x Hx. rewrite (H2 x Hx). apply orb_true_r.
Qed.

(** the main preservation theorem for rule files *)
Theorem tstep_inv t o : targets_inv t = true ->
  let '(e, t') := tstep t o in targets_inv t' = true /\ (e <> None -> t' = t).
Proof.
  intros Hi. pose proof Hi as Hi0. apply targets_inv_spec in Hi as (before & last & E & Hl & Hb).
  pose proof (inv_all_rules _ _ _ E Hl Hb) as Hall.
  destruct o as [name pids pats thr|name pids pats thr|name|names|p|p|p]; cbn [tstep].
  - (* AddRule *)
    destruct (rule_args_check t name pids thr) eqn:Ec; [split; [assumption|reflexivity]|]. split; [|congruence].
    apply targets_inv_spec. exists (before ++ [{| tr_name := name; tr_patterns := pats; tr_term := false; tr_pids := dedup pids; tr_thr := thr |}]), allow_rule.
    cbn [tg_rules]. rewrite E, removelast_snoc, <- app_assoc. repeat split; try reflexivity.
    rewrite forallb_app. cbn [forallb]. rewrite andb_true_r. apply andb_true_iff. split.
    + rewrite forallb_forall in *. intros x Hx. destruct t. eapply rule_ok_mono; [|apply Hb; exact Hx]. auto.
    + destruct t. eapply rule_ok_mono; [|apply rule_args_ok; exact Ec]. auto.
  - (* UpdateRule *)
    destruct (rule_args_check t name pids thr) eqn:Ec; [split; [assumption|reflexivity]|]. split; [|congruence].
    apply targets_inv_spec. exists (update_rules (tg_rules t) name pids pats thr), allow_rule.
    cbn [tg_rules]. repeat split; try reflexivity.
    pose proof (update_rules_ok t name pids pats thr (tg_rules t) Ec Hall) as H.
    rewrite forallb_forall in *. intros x Hx. destruct t. eapply rule_ok_mono; [|apply H; exact Hx]. auto.
  - (* RemoveRule *)
    destruct (has_prefix GittufPrefix name) eqn:Ep; [split; [assumption|reflexivity]|]. split; [|congruence].
    apply targets_inv_spec. exists (filter (fun r => negb (beq (tr_name r) name)) before), last.
    cbn [tg_rules]. rewrite E, filter_app. cbn [filter].
    assert (beq (tr_name last) name = false) as ->.
    { destruct (beq (tr_name last) name) eqn:En; [|reflexivity]. apply beq_eq in En. apply is_allow_prefix in Hl. congruence. }
    cbn [negb]. repeat split; try assumption.
    rewrite forallb_forall in *. intros x Hx. apply filter_In in Hx as [Hx _]. destruct t. eapply rule_ok_mono; [|apply Hb; exact Hx]. auto.
  - (* ReorderRules *)
    destruct (names_dup names); [split; [assumption|reflexivity]|].
    destruct (negb (forallb _ names)); [split; [assumption|reflexivity]|].
    destruct (negb (forallb _ _)); [split; [assumption|reflexivity]|]. split; [|congruence].
    apply targets_inv_spec. eexists _, allow_rule. cbn [tg_rules]. repeat split; try reflexivity.
    rewrite forallb_forall. intros x Hx. apply in_flat_map in Hx as (n & _ & Hx).
    destruct (last_rule_named (tg_rules t) n) as [r|] eqn:El; [|contradiction]. destruct Hx as [<-|[]].
    destruct t. eapply rule_ok_mono; [|eapply last_rule_named_ok; eauto]. auto.
  - (* AddPrincipal *)
    split; [|congruence]. apply targets_inv_spec. exists before, last. cbn [tg_rules]. repeat split; try assumption.
    rewrite forallb_forall in *. intros x Hx. destruct t. eapply rule_ok_mono; [|apply Hb; exact Hx].
    cbn. intros q Hq. unfold set_add. destruct (nmem p tg_principals); [assumption|].
    apply nmem_In. apply in_or_app. left. now apply nmem_In.
  - (* UpdatePrincipal *)
    destruct (nmem p (tg_principals t)); split; try assumption; try reflexivity; congruence.
  - (* RemovePrincipal *)
    destruct (negb (tg_alloc t)); [split; [assumption|reflexivity]|].
    destruct (N.eqb p 0); [split; [assumption|reflexivity]|].
    destruct (existsb (fun r => nmem p (tr_pids r)) (tg_rules t)) eqn:Eu; [split; [assumption|reflexivity]|]. split; [|congruence].
    apply targets_inv_spec. exists before, last. cbn [tg_rules]. repeat split; try assumption.
    rewrite forallb_forall in *. intros x Hx. specialize (Hb x Hx).
    assert (Hnp : nmem p (tr_pids x) = false).
    { destruct (nmem p (tr_pids x)) eqn:En; [|reflexivity].
      assert (existsb (fun r => nmem p (tr_pids r)) (tg_rules t) = true); [|congruence].
      apply existsb_exists. exists x. split; [rewrite E; apply in_or_app; now left|assumption]. }
    unfold rule_ok in *. cbn [tg_principals]. apply andb_true_iff in Hb as [Hb1 Hb2]. rewrite Hb1. cbn.
    rewrite forallb_forall in *. intros q Hq. specialize (Hb2 q Hq). apply nmem_In in Hb2. apply nmem_In.
    unfold set_remove. apply filter_In. split; [assumption|]. apply negb_true_iff, N.eqb_neq. intros ->.
    apply nmem_In in Hq. congruence.
Qed.

Theorem trun_inv : forall ops t, targets_inv t = true -> targets_inv (snd (trun t ops)) = true.
Proof.
  induction ops as [|o ops IH]; intros t Hi; [exact Hi|]. cbn [trun].
  pose proof (tstep_inv t o Hi) as H. destruct (tstep t o) as [e t1]. destruct H as [H _].
  specialize (IH t1 H). destruct (trun t1 ops). exact IH.
Qed.

(** *** roles in root metadata *)
Lemma nodup_n_NoDup l : nodup_n l = true <-> NoDup l.
Proof.
  induction l as [|x l IH]; cbn; [split; [constructor|reflexivity]|]. rewrite andb_true_iff, negb_true_iff, IH. split.
  - intros [H1 H2]. constructor; [|assumption]. intros H. apply nmem_In in H. congruence.
  - intros H. inversion H; subst. split; [|assumption]. destruct (nmem x l) eqn:E; [apply nmem_In in E; contradiction|reflexivity].
Qed.

Lemma set_add_nodup p s : NoDup s -> NoDup (set_add p s).
Proof.
  intros H. unfold set_add. destruct (nmem p s) eqn:E; [assumption|].
  assert (~ In p s) by (intros Hin; apply nmem_In in Hin; congruence).
  clear E. induction H as [|x l Hx Hl IH]; cbn; [repeat constructor; auto|]. constructor.
  - rewrite in_app_iff. intros [Hi|[<-|[]]]; [contradiction|]. apply H0. now left.
  - apply IH. intros Hi. apply H0. now right.
Qed.

Lemma set_add_length p s : List.length s <= List.length (set_add p s).
Proof. unfold set_add. destruct (nmem p s); [lia|]. rewrite app_length. cbn. lia. Qed.

Lemma set_add_mem p q s : nmem q s = true -> nmem q (set_add p s) = true.
Proof. unfold set_add. destruct (nmem p s); [auto|]. intros H. apply nmem_In. apply in_or_app. left. now apply nmem_In. Qed.

Lemma set_add_mem_self p s : nmem p (set_add p s) = true.
Proof. unfold set_add. destruct (nmem p s) eqn:E; [assumption|]. apply nmem_In. apply in_or_app. right. now left. Qed.

Lemma filter_all {A} (f : A -> bool) l : (forall x, In x l -> f x = true) -> filter f l = l.
Proof.
  induction l as [|y l IH]; intros H; [reflexivity|]. cbn. rewrite (H y (or_introl eq_refl)). f_equal.
  apply IH. intros x Hx. apply H. now right.
Qed.

Lemma set_remove_length p s : NoDup s -> List.length s - 1 <= List.length (set_remove p s).
Proof.
  unfold set_remove. induction 1 as [|x l Hx Hl IH]; [cbn; lia|]. cbn [filter List.length].
  destruct (N.eqb_spec x p) as [->|Hne]; cbn [negb].
  - rewrite filter_all; [lia|]. intros y Hy. apply negb_true_iff, N.eqb_neq. intros ->. contradiction.
  - cbn [List.length]. lia.
Qed.

Lemma set_remove_nodup p s : NoDup s -> NoDup (set_remove p s).
Proof. intros H. unfold set_remove. now apply NoDup_filter. Qed.

Lemma role_ok_principals ps ps' r1 r2 r1' r2' ro :
  (forall q, nmem q ps = true -> nmem q ps' = true) ->
  role_ok {| rm_principals := ps; rm_root := r1; rm_targets := r2 |} ro = true ->
  role_ok {| rm_principals := ps'; rm_root := r1'; rm_targets := r2' |} ro = true.
Proof.
  intros Hm. destruct ro as [r|]; [|reflexivity]. unfold role_ok. cbn [rm_principals]. intros H.
  apply andb_true_iff in H as [H Hd]. rewrite H. cbn. rewrite forallb_forall in *. intros x Hx. apply Hm. now apply Hd.
Qed.

Lemma add_to_role_ok ps r1 r2 ro p :
  role_ok {| rm_principals := ps; rm_root := r1; rm_targets := r2 |} ro = true ->
  role_ok {| rm_principals := set_add p ps; rm_root := r1; rm_targets := r2 |} (add_to_role ro p) = true.
Proof.
  destruct ro as [r|]; cbn [add_to_role role_ok rm_principals ro_pids ro_thr].
  - intros H. apply andb_true_iff in H as [H Hd]. apply andb_true_iff in H as [H Hn]. apply andb_true_iff in H as [H1 H2].
    rewrite H1. cbn. apply Z.leb_le in H2. pose proof (set_add_length p (ro_pids r)).
    assert ((ro_thr r <=? Z.of_nat (List.length (set_add p (ro_pids r))))%Z = true) as -> by (apply Z.leb_le; lia). cbn.
    apply nodup_n_NoDup in Hn. assert (nodup_n (set_add p (ro_pids r)) = true) as -> by (apply nodup_n_NoDup; now apply set_add_nodup). cbn.
    rewrite forallb_forall in *. intros x Hx. unfold set_add in Hx. destruct (nmem p (ro_pids r)).
    + apply set_add_mem. now apply Hd.
    + apply in_app_or in Hx as [Hx|[<-|[]]]; [apply set_add_mem; now apply Hd|apply set_add_mem_self].
  - intros _. cbn. now rewrite set_add_mem_self.
Qed.

Theorem rstep_inv m o : root_inv m = true ->
  let '(e, m') := rstep m o in root_inv m' = true /\ (e <> None -> m' = m).
Proof.
  unfold root_inv. intros Hi. apply andb_true_iff in Hi as [Hr Ht]. destruct m as [ps r1 r2]. cbn [rm_root rm_targets rm_principals] in *.
  assert (Hkeep : forall ro ro1 ro2 p, role_ok {| rm_principals := ps; rm_root := r1; rm_targets := r2 |} ro = true ->
            role_ok {| rm_principals := set_add p ps; rm_root := ro1; rm_targets := ro2 |} ro = true).
  { intros. eapply role_ok_principals; [|eassumption]. intros q Hq. now apply set_add_mem. }
  assert (Hdel : forall r p ro1 ro2, role_ok {| rm_principals := ps; rm_root := r1; rm_targets := r2 |} (Some r) = true ->
            (Z.of_nat (List.length (ro_pids r)) <=? ro_thr r)%Z = false ->
            role_ok {| rm_principals := ps; rm_root := ro1; rm_targets := ro2 |} (Some {| ro_pids := set_remove p (ro_pids r); ro_thr := ro_thr r |}) = true).
  { intros r p ro1 ro2 H Hlen. cbn [role_ok rm_principals ro_pids ro_thr] in *.
    apply andb_true_iff in H as [H Hd]. apply andb_true_iff in H as [H Hn]. apply andb_true_iff in H as [H1 H2].
    rewrite H1. cbn. apply Z.leb_gt in Hlen. apply nodup_n_NoDup in Hn. pose proof (set_remove_length p _ Hn).
    assert ((ro_thr r <=? Z.of_nat (List.length (set_remove p (ro_pids r))))%Z = true) as -> by (apply Z.leb_le; lia). cbn.
    assert (nodup_n (set_remove p (ro_pids r)) = true) as -> by (apply nodup_n_NoDup; now apply set_remove_nodup). cbn.
    rewrite forallb_forall in *. intros x Hx. apply filter_In in Hx as [Hx _]. now apply Hd. }
  assert (Hthr : forall r z ro1 ro2, role_ok {| rm_principals := ps; rm_root := r1; rm_targets := r2 |} (Some r) = true ->
            (z <=? 0)%Z = false -> (Z.of_nat (List.length (ro_pids r)) <? z)%Z = false ->
            role_ok {| rm_principals := ps; rm_root := ro1; rm_targets := ro2 |} (Some {| ro_pids := ro_pids r; ro_thr := z |}) = true).
  { intros r z ro1 ro2 H Hz Hl. cbn [role_ok rm_principals ro_pids ro_thr] in *.
    apply andb_true_iff in H as [H Hd]. apply andb_true_iff in H as [H Hn]. rewrite Hn, Hd.
    apply Z.leb_gt in Hz. apply Z.ltb_ge in Hl.
    assert ((1 <=? z)%Z = true) as -> by (apply Z.leb_le; lia).
    assert ((z <=? Z.of_nat (List.length (ro_pids r)))%Z = true) as -> by (apply Z.leb_le; lia). reflexivity. }
  destruct o as [p|p|p|p|z|z]; cbn [rstep rm_root rm_targets rm_principals].
  - split; [|congruence]. cbn [rm_root rm_targets]. rewrite add_to_role_ok by assumption. now rewrite (Hkeep r2).
  - destruct r1 as [r|]; [|split; [apply andb_true_iff; split; assumption|reflexivity]].
    destruct (Z.of_nat (List.length (ro_pids r)) <=? ro_thr r)%Z eqn:El; [split; [apply andb_true_iff; split; assumption|reflexivity]|].
    split; [|congruence]. cbn [rm_root rm_targets]. rewrite Hdel by assumption. cbn.
    eapply role_ok_principals; [|exact Ht]. auto.
  - split; [|congruence]. cbn [rm_root rm_targets]. rewrite (Hkeep r1) by assumption. now rewrite add_to_role_ok.
  - destruct (N.eqb p 0); [split; [apply andb_true_iff; split; assumption|reflexivity]|].
    destruct r2 as [r|]; [|split; [apply andb_true_iff; split; assumption|reflexivity]].
    destruct (Z.of_nat (List.length (ro_pids r)) <=? ro_thr r)%Z eqn:El; [split; [apply andb_true_iff; split; assumption|reflexivity]|].
    split; [|congruence]. cbn [rm_root rm_targets]. rewrite Hdel by assumption. rewrite andb_true_r.
    eapply role_ok_principals; [|exact Hr]. auto.
  - destruct r1 as [r|]; [|split; [apply andb_true_iff; split; assumption|reflexivity]].
    destruct (z <=? 0)%Z eqn:Ez; [split; [apply andb_true_iff; split; assumption|reflexivity]|].
    destruct (Z.of_nat (List.length (ro_pids r)) <? z)%Z eqn:El; [split; [apply andb_true_iff; split; assumption|reflexivity]|].
    split; [|congruence]. cbn [rm_root rm_targets]. rewrite Hthr by assumption. cbn.
    eapply role_ok_principals; [|exact Ht]. auto.
  - destruct r2 as [r|]; [|split; [apply andb_true_iff; split; assumption|reflexivity]].
    destruct (z <=? 0)%Z eqn:Ez; [split; [apply andb_true_iff; split; assumption|reflexivity]|].
    destruct (Z.of_nat (List.length (ro_pids r)) <? z)%Z eqn:El; [split; [apply andb_true_iff; split; assumption|reflexivity]|].
    split; [|congruence]. cbn [rm_root rm_targets]. rewrite Hthr by assumption. rewrite andb_true_r.
    eapply role_ok_principals; [|exact Hr]. auto.
Qed.

Theorem rrun_inv : forall ops m, root_inv m = true -> root_inv (snd (rrun m ops)) = true.
Proof.
  induction ops as [|o ops IH]; intros m Hi; [exact Hi|]. cbn [rrun].
  pose proof (rstep_inv m o Hi) as H. destruct (rstep m o) as [e m1]. destruct H as [H _].
  specialize (IH m1 H). destruct (rrun m1 ops). exact IH.
Qed.
