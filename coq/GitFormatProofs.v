(** C10 byte-level proofs: gitinterface's parsers invert git's NUL-delimited printers for every
    NUL-free path. *)
From GV Require Import GitFormat BytesLemmas.
From Coq Require Import Strings.String.

Lemma split_on_print_names ps : Forall (fun p => no_byte NUL p = true) ps ->
  split_on NUL (print_names_z ps) = ps ++ [[]].
Proof.
  induction 1 as [|p ps Hp _ IH]; [reflexivity|].
  cbn [print_names_z flat_map]. rewrite <- app_assoc. cbn [app].
  rewrite (split_on_app_sep NUL p _ Hp). fold (print_names_z ps). rewrite IH. reflexivity.
Qed.

Lemma split_nul_of_terminated rs out : split_on NUL out = rs ++ [[]] -> split_nul out = rs.
Proof. intros H. unfold split_nul. rewrite H, rev_app_distr. cbn [rev app]. apply rev_involutive. Qed.

Theorem names_roundtrip ps : Forall (fun p => no_byte NUL p = true) ps ->
  parse_names_z (print_names_z ps) = ps.
Proof.
  intros H. unfold parse_names_z. destruct (print_names_z ps) eqn:E.
  - destruct ps as [|p ps']; [reflexivity|]. cbn [print_names_z flat_map] in E.
    destruct p; cbn in E; discriminate.
  - rewrite <- E. apply split_nul_of_terminated, split_on_print_names, H.
Qed.

(** ls-tree records *)
Definition ent_ok (e : lsent) : Prop :=
  no_byte SP (ls_mode e) = true /\ no_byte TAB (ls_mode e) = true /\ no_byte NUL (ls_mode e) = true /\
  no_byte SP (ls_type e) = true /\ no_byte TAB (ls_type e) = true /\ no_byte NUL (ls_type e) = true /\
  valid_oid (ls_oid e) = true /\ no_byte NUL (ls_path e) = true.

Definition ent_result (e : lsent) : bytes * bytes * bool := (ls_path e, ls_oid e, beq (ls_type e) TreeB).

Lemma hex_no_byte c s : is_hex s = true -> unhex c = None -> no_byte c s = true.
Proof.
  intros H Hc. induction s as [|b s IH]; [reflexivity|]. cbn [is_hex forallb] in H.
  apply andb_true_iff in H. destruct H as [Hb Hs]. cbn [no_byte forallb].
  change (forallb (fun x => negb (Byte.eqb x c)) s) with (no_byte c s).
  rewrite (IH Hs), andb_true_r. destruct (Byte.eqb b c) eqn:E; [|reflexivity].
  apply Byte.byte_dec_bl in E. subst b. rewrite Hc in Hb. discriminate.
Qed.

Lemma oid_no_byte c o : valid_oid o = true -> unhex c = None -> no_byte c o = true.
Proof. intros H. apply andb_true_iff in H. destruct H as [_ H]. apply hex_no_byte, H. Qed.

Lemma record_body e : print_lsent e = (ls_mode e ++ SP :: ls_type e ++ SP :: ls_oid e ++ TAB :: ls_path e) ++ [NUL].
Proof. unfold print_lsent. repeat (rewrite <- app_assoc; cbn [app]). reflexivity. Qed.

Lemma parse_record e : ent_ok e ->
  parse_lsline (ls_mode e ++ SP :: ls_type e ++ SP :: ls_oid e ++ TAB :: ls_path e) = Some (ent_result e).
Proof.
  intros (Hm1 & Hm2 & Hm3 & Ht1 & Ht2 & Ht3 & Ho & Hp). unfold parse_lsline.
  assert (Hmeta : no_byte TAB (ls_mode e ++ SP :: ls_type e ++ SP :: ls_oid e) = true).
  { rewrite no_byte_app, Hm2. cbn [andb no_byte forallb Byte.eqb negb]. change (forallb _ ?l) with (no_byte TAB l).
    rewrite no_byte_app, Ht2. cbn [andb no_byte forallb negb]. change (forallb _ ?l) with (no_byte TAB l).
    rewrite (oid_no_byte TAB _ Ho eq_refl). reflexivity. }
  replace (ls_mode e ++ SP :: ls_type e ++ SP :: ls_oid e ++ TAB :: ls_path e)
    with ((ls_mode e ++ SP :: ls_type e ++ SP :: ls_oid e) ++ TAB :: ls_path e)
    by (repeat (rewrite <- app_assoc; cbn [app]); reflexivity).
  rewrite (cut_app TAB _ _ Hmeta).
  rewrite (split_on_app_sep SP _ _ Hm1), (split_on_app_sep SP _ _ Ht1),
          (split_on_nosep SP _ (oid_no_byte SP _ Ho eq_refl)), Ho.
  reflexivity.
Qed.

Lemma record_nul_free e : ent_ok e -> no_byte NUL (ls_mode e ++ SP :: ls_type e ++ SP :: ls_oid e ++ TAB :: ls_path e) = true.
Proof.
  intros (Hm1 & Hm2 & Hm3 & Ht1 & Ht2 & Ht3 & Ho & Hp).
  rewrite no_byte_app, Hm3. cbn [andb no_byte forallb negb]. change (forallb _ ?l) with (no_byte NUL l).
  rewrite no_byte_app, Ht3. cbn [andb no_byte forallb negb]. change (forallb _ ?l) with (no_byte NUL l).
  rewrite no_byte_app, (oid_no_byte NUL _ Ho eq_refl). cbn [andb no_byte forallb negb]. exact Hp.
Qed.

Lemma print_lstree_as_names es :
  print_lstree_z es = print_names_z (map (fun e => ls_mode e ++ SP :: ls_type e ++ SP :: ls_oid e ++ TAB :: ls_path e) es).
Proof.
  induction es as [|e es IH]; [reflexivity|]. cbn [print_lstree_z print_names_z flat_map map].
  rewrite record_body. f_equal. exact IH.
Qed.

Lemma parse_lslines_records es : Forall ent_ok es ->
  parse_lslines (map (fun e => ls_mode e ++ SP :: ls_type e ++ SP :: ls_oid e ++ TAB :: ls_path e) es) = Some (map ent_result es).
Proof.
  induction 1 as [|e es He _ IH]; [reflexivity|]. cbn [map parse_lslines]. rewrite (parse_record e He), IH. reflexivity.
Qed.

Theorem lstree_roundtrip es : Forall ent_ok es -> parse_lstree_z (print_lstree_z es) = Some (map ent_result es).
Proof.
  intros H. unfold parse_lstree_z. destruct (print_lstree_z es) eqn:E.
  - destruct es as [|e es']; [reflexivity|]. cbn [print_lstree_z flat_map] in E. rewrite record_body in E.
    destruct (ls_mode e); cbn in E; discriminate.
  - rewrite <- E, print_lstree_as_names.
    assert (Hn : Forall (fun p => no_byte NUL p = true)
                   (map (fun e => ls_mode e ++ SP :: ls_type e ++ SP :: ls_oid e ++ TAB :: ls_path e) es)).
    { apply Forall_map. eapply Forall_impl; [|exact H]. intros e He. apply record_nul_free, He. }
    rewrite (split_nul_of_terminated _ _ (split_on_print_names _ Hn)).
    apply parse_lslines_records, H.
Qed.

(** TreeBuilder.writeTree's mktree -z input, read back record by record, is the entry list it was
    given: names are taken verbatim whatever bytes (other than NUL) they contain *)
Lemma mktree_ent_ok e : valid_oid (snd (fst e)) = true -> no_byte NUL (fst (fst e)) = true -> ent_ok (mktree_ent e).
Proof.
  destruct e as [[name oid] t]. cbn [fst snd]. intros Ho Hn. unfold ent_ok, mktree_ent.
  destruct t; cbn [ls_mode ls_type ls_oid ls_path]; repeat split; try reflexivity; assumption.
Qed.

Theorem mktree_roundtrip es :
  Forall (fun e => valid_oid (snd (fst e)) = true /\ no_byte NUL (fst (fst e)) = true) es ->
  parse_lstree_z (mktree_input es) = Some es.
Proof.
  intros H. unfold mktree_input. rewrite lstree_roundtrip.
  - f_equal. rewrite map_map. rewrite <- (map_id es) at 2. apply map_ext. intros [[n o] t].
    unfold ent_result, mktree_ent. cbn. destruct t; reflexivity.
  - apply Forall_map. eapply Forall_impl; [|exact H]. intros e [Ho Hn]. apply mktree_ent_ok; assumption.
Qed.

(** the old line-based reading loses exactly such names: the record for "a b" split at spaces has
    four fields and the name is cut at the space (kept here as the replay of the repaired defect) *)
Example old_parser_truncates :
  let line := bs "100644 blob 0123456789012345678901234567890123456789" ++ TAB :: bs "a b" in
  nth 2 (split_on SP line) [] = bs "0123456789012345678901234567890123456789" ++ TAB :: bs "a".
Proof. vm_compute. reflexivity. Qed.
