(** C08: case type and checker (verdict equality across cache configurations, frame). *)
From GV Require Export World WorldCheck Verdict.

Inductive c08case := C08 (baseline : list vout) (configs : list (nat * list vout)) (frame_ok : bool) (from_tip_ok : bool).

Definition vlist_eqb (a b : list vout) : bool :=
  Nat.eqb (List.length a) (List.length b) && forallb (fun p => vout_eqb (fst p) (snd p)) (combine a b).

(** configuration kinds: 0 = strict (cache absent or freshly populated, first run; or repeated runs
    without a cache), 1 = runs that follow a latest-only verification in the same repository
    (checkpoint already set), 2 = cache populated at an earlier point of the log's growth *)
Definition c08case' := c08case.

(** K8 pattern: the only difference is the full verification of the ref whose latest-only
    verification succeeded: full now also reports that tip *)
Definition k8_only (base cfg : list vout) : bool :=
  match base, cfg with
  | [b_full; b_latest; b_other], [c_full; c_latest; c_other] =>
      vout_eqb b_latest c_latest && vout_eqb b_other c_other
      && (vout_eqb b_full c_full || (vout_ok b_latest && vout_eqb c_full b_latest))
  | _, _ => false
  end.

(** K13 pattern: full verification accepts although verification that starts at the reference's
    latest entry does not (an unverified "fix" entry, K5); once the checkpoint sits on that entry a
    repeated full verification starts there and rejects.  Only the full verdict differs. *)
Definition k13_only (base cfg : list vout) (from_tip_ok : bool) : bool :=
  match base, cfg with
  | [b_full; b_latest; b_other], [c_full; c_latest; c_other] =>
      negb from_tip_ok && vout_eqb b_latest c_latest && vout_eqb b_other c_other
      && (vout_eqb b_full c_full || (vout_ok b_full && negb (vout_ok c_full)))
  | _, _ => false
  end.

Definition c08_check (c : c08case) : verdict :=
  match c with
  | C08 base cfgs frame from_tip_ok =>
      if negb frame then VSpec 2
      else if existsb (fun cf => Nat.eqb (fst cf) 0 && negb (vlist_eqb (snd cf) base)) cfgs then VSpec 1
      else if existsb (fun cf => Nat.eqb (fst cf) 1 && negb (vlist_eqb (snd cf) base) && negb (k8_only base (snd cf))
                                 && negb (k13_only base (snd cf) from_tip_ok)) cfgs then VSpec 3
      else if existsb (fun cf => Nat.eqb (fst cf) 1 && negb (vlist_eqb (snd cf) base) && negb (k8_only base (snd cf))) cfgs then VFinding 13
      else if existsb (fun cf => Nat.eqb (fst cf) 2 && negb (vlist_eqb (snd cf) base)) cfgs then VFinding 2
      else if existsb (fun cf => Nat.eqb (fst cf) 1 && negb (vlist_eqb (snd cf) base)) cfgs then VFinding 8
      else VOk
  end.
