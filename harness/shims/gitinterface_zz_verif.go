//go:build verif

package gitinterface

// Export shims for the /verif correspondence harness (add-only, guarded by the verif tag).

// VerifSignGitObject signs contents with a PEM encoded SSH or GPG key, as
// CommitUsingSpecificKey / TagUsingSpecificKey do.
func VerifSignGitObject(contents, pemKeyBytes []byte) (string, error) {
	return signGitObjectUsingKey(contents, pemKeyBytes)
}
