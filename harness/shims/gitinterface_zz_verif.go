//go:build verif

package gitinterface

import (
	"time"

	"github.com/jonboulle/clockwork"
)

type verifHookClock struct {
	clockwork.Clock
	f func()
}

func (h *verifHookClock) Now() time.Time {
	if h.f != nil {
		f := h.f
		h.f = nil
		f()
	}
	return h.Clock.Now()
}

// Export shims for the /verif correspondence harness (add-only, guarded by the verif tag).

// VerifSignGitObject signs contents with a PEM encoded SSH or GPG key, as
// CommitUsingSpecificKey / TagUsingSpecificKey do.
func VerifSignGitObject(contents, pemKeyBytes []byte) (string, error) {
	return signGitObjectUsingKey(contents, pemKeyBytes)
}

// VerifSetNowHook makes the repository's clock call f once, the next time Now() is read (Commit
// reads it between reading the reference tip and creating/compare-and-setting the commit).
func VerifSetNowHook(r *Repository, f func()) {
	r.clock = &verifHookClock{Clock: r.clock, f: f}
}
