//go:build verif

package luasandbox

import lua "github.com/yuin/gopher-lua"

// Export shims for the /verif correspondence harness (add-only, guarded by the verif tag).

// VerifState exposes the sandbox's Lua state so that the harness can walk the environment graph.
func (l *LuaEnvironment) VerifState() *lua.LState { return l.lState }
