//go:build verif

package policy

import (
	"github.com/gittuf/gittuf/internal/tuf"
	"github.com/gittuf/gittuf/pkg/gitstore"
)

// Export shims for the /verif correspondence harness (add-only, guarded by the verif tag).

// VerifNewSignatureVerifier builds a SignatureVerifier with the principals in the given order.
func VerifNewSignatureVerifier(repo gitstore.Storer, name string, principals []tuf.Principal, threshold int, exhaustive bool) *SignatureVerifier {
	return &SignatureVerifier{repository: repo, name: name, principals: principals, threshold: threshold, verifyExhaustively: exhaustive}
}

// VerifVerifierPrincipals exposes the principals a verifier carries (nil entries included).
func VerifVerifierPrincipals(v *SignatureVerifier) []tuf.Principal { return v.principals }

// TrustedPrincipalIDsSafe is TrustedPrincipalIDs tolerating nil principals.
func (v *SignatureVerifier) TrustedPrincipalIDsSafe() []string {
	out := []string{}
	for _, p := range v.principals {
		if p != nil {
			out = append(out, p.ID())
		}
	}
	return out
}
