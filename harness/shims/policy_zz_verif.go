//go:build verif

package policy

import (
	"github.com/gittuf/gittuf/internal/tuf"
	"github.com/gittuf/gittuf/pkg/gitstore"
)

// Export shims for the /verif correspondence harness (add-only, guarded by the verif tag).

// VerifNewSignatureVerifier builds a SignatureVerifier with the principals in the given order.
func VerifNewSignatureVerifier(repo gitstore.Storer, name string, principals []tuf.Principal, threshold int, exhaustive bool) *SignatureVerifier {
	return &SignatureVerifier{repository: repo, name: name, principals: principals, threshold: threshold, verifyExhaustively: exhaustive}
}
