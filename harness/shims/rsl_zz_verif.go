//go:build verif

package rsl

// Export shims for the /verif correspondence harness (add-only, guarded by the verif tag).

// VerifCreateCommitMessage exposes createCommitMessage(true).
func VerifCreateCommitMessage(e Entry) (string, error) { return e.createCommitMessage(true) }

// VerifResetCache drops the process-wide entry/parent cache.
func VerifResetCache() { newRSLCache() }
