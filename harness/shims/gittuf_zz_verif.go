//go:build verif

package gittuf

// Export shims for the /verif correspondence harness (add-only, guarded by the verif tag).

// VerifSync exposes sync (Sync without the propagation step, which needs a policy).
func (r *Repository) VerifSync(remoteName string, overwriteLocalRefs bool) ([]string, error) {
	return r.sync(remoteName, overwriteLocalRefs)
}
