//go:build verif

package main

// C20: the hook sandbox.  The live environment of a fresh sandbox is walked from Go (tables with
// their fields, keys and metatables, functions with their environments, upvalues and constants,
// userdata, the string metatable); the graph goes to Coq, which computes what a script can obtain
// as a value and checks it against the allow-list.  Escape-attempt and non-termination scripts
// then run in the real sandbox.

import (
	"context"
	"errors"
	"fmt"
	"os"
	"path/filepath"
	"reflect"
	"runtime"
	"sort"
	"strings"
	"time"

	gittuf "github.com/gittuf/gittuf/experimental/gittuf"
	"github.com/gittuf/gittuf/internal/luasandbox"
	"github.com/gittuf/gittuf/internal/tuf"
	"github.com/gittuf/gittuf/pkg/rsl"
	sandboxopts "github.com/gittuf/gittuf/internal/luasandbox/options/luasandbox"
	lua "github.com/yuin/gopher-lua"
)

func init() { props["C20"] = runC20 }

type lnode struct {
	id      int
	kind    string // table | gofunc | luafunc | userdata | thread | other
	sym     string
	path    string
	fields  []int // own field values and object keys
	index   int   // metatable.__index when it is a table (-1: none)
	indexFn int   // metatable.__index / __call when functions (-1: none)
	meta    int
	newidx  bool // metatable has __newindex
	nown    int  // number of own keys
	env     int
	upvals  []int
	hasGo   bool // holds a Go function directly
}

type lwalker struct {
	L     *lua.LState
	ids   map[interface{}]int
	nodes []*lnode
}

func (w *lwalker) visit(v lua.LValue, path string) int {
	switch x := v.(type) {
	case *lua.LTable:
		if id, ok := w.ids[x]; ok {
			return id
		}
		n := &lnode{id: len(w.nodes), kind: "table", path: path, index: -1, indexFn: -1, meta: -1, env: -1}
		w.ids[x] = n.id
		w.nodes = append(w.nodes, n)
		type kv struct{ k, v lua.LValue }
		kvs := []kv{}
		x.ForEach(func(k, v lua.LValue) { kvs = append(kvs, kv{k, v}) })
		sort.Slice(kvs, func(i, j int) bool { return kvs[i].k.String() < kvs[j].k.String() })
		n.nown = len(kvs)
		for _, e := range kvs {
			if c := w.visit(e.k, path+".<key>"); c >= 0 {
				n.fields = append(n.fields, c)
			}
			if c := w.visit(e.v, path+"."+e.k.String()); c >= 0 {
				n.fields = append(n.fields, c)
				if w.nodes[c].kind == "gofunc" {
					n.hasGo = true
				}
			}
		}
		if mt, ok := x.Metatable.(*lua.LTable); ok {
			w.metaOf(n, mt, path)
		}
		return n.id
	case *lua.LFunction:
		if id, ok := w.ids[x]; ok {
			return id
		}
		n := &lnode{id: len(w.nodes), path: path, index: -1, indexFn: -1, meta: -1, env: -1}
		w.ids[x] = n.id
		w.nodes = append(w.nodes, n)
		if x.IsG {
			n.kind = "gofunc"
			n.sym = runtime.FuncForPC(reflect.ValueOf(x.GFunction).Pointer()).Name()
		} else {
			n.kind = "luafunc"
			var protos func(p *lua.FunctionProto)
			protos = func(p *lua.FunctionProto) {
				for _, c := range p.Constants {
					if cid := w.visit(c, path+".<const>"); cid >= 0 {
						n.upvals = append(n.upvals, cid)
					}
				}
				for _, q := range p.FunctionPrototypes {
					protos(q)
				}
			}
			protos(x.Proto)
		}
		if x.Env != nil {
			n.env = w.visit(x.Env, path+".<env>")
		}
		for i, uv := range x.Upvalues {
			if uv == nil {
				continue
			}
			if c := w.visit(uv.Value(), fmt.Sprintf("%s.<upvalue %d>", path, i)); c >= 0 {
				n.upvals = append(n.upvals, c)
			}
		}
		return n.id
	case *lua.LUserData:
		if id, ok := w.ids[x]; ok {
			return id
		}
		n := &lnode{id: len(w.nodes), kind: "userdata", path: path, index: -1, indexFn: -1, meta: -1, env: -1}
		w.ids[x] = n.id
		w.nodes = append(w.nodes, n)
		if x.Env != nil {
			n.env = w.visit(x.Env, path+".<env>")
		}
		if mt, ok := x.Metatable.(*lua.LTable); ok {
			w.metaOf(n, mt, path)
		}
		return n.id
	case *lua.LState:
		if id, ok := w.ids[x]; ok {
			return id
		}
		n := &lnode{id: len(w.nodes), kind: "thread", path: path, index: -1, indexFn: -1, meta: -1, env: -1}
		w.ids[x] = n.id
		w.nodes = append(w.nodes, n)
		return n.id
	}
	return -1 // nil, booleans, numbers, strings: inert data (strings: see the string node)
}

func (w *lwalker) metaOf(n *lnode, mt *lua.LTable, path string) {
	n.meta = w.visit(mt, path+".<metatable>")
	switch ix := mt.RawGetString("__index").(type) {
	case *lua.LTable:
		n.index = w.visit(ix, path+".<metatable>.__index")
	case *lua.LFunction:
		n.indexFn = w.visit(ix, path+".<metatable>.__index")
	}
	if mt.RawGetString("__newindex") != lua.LNil {
		n.newidx = true
	}
}

func (n *lnode) coq() string {
	ints := func(xs []int) string {
		out := []string{}
		for _, x := range xs {
			out = append(out, fmt.Sprint(x))
		}
		return coqList(out)
	}
	opt := func(x int) string {
		if x < 0 {
			return "None"
		}
		return fmt.Sprintf("(Some %d)", x)
	}
	kind := map[string]string{"table": "KTable", "gofunc": "KGo", "luafunc": "KLua", "userdata": "KUser", "thread": "KThread"}[n.kind]
	return fmt.Sprintf("{| n_id := %d; n_kind := %s; n_sym := %s; n_fields := %s; n_index := %s; n_index_fn := %s; n_meta := %s; n_newindex := %s; n_own := %d; n_env := %s; n_upvals := %s |}",
		n.id, kind, coqStr(n.sym), ints(n.fields), opt(n.index), opt(n.indexFn), opt(n.meta), coqBool(n.newidx), n.nown, opt(n.env), ints(n.upvals))
}

func walkSandbox() (*lwalker, int, int, error) {
	env, err := luasandbox.NewLuaEnvironment(context.Background(), nil, sandboxopts.WithLuaTimeout(5))
	if err != nil {
		return nil, 0, 0, err
	}
	defer env.Cleanup()
	L := env.VerifState()
	w := &lwalker{L: L, ids: map[interface{}]int{}}
	root := w.visit(L.Get(lua.GlobalsIndex), "_G")
	// every string value carries the string metatable
	strNode := -1
	if mt, ok := L.GetMetatable(lua.LString("")).(*lua.LTable); ok {
		n := &lnode{id: len(w.nodes), kind: "userdata", path: "<any string>", index: -1, indexFn: -1, meta: -1, env: -1}
		w.nodes = append(w.nodes, n)
		w.metaOf(n, mt, "<any string>")
		strNode = n.id
	}
	return w, root, strNode, nil
}

func runC20(c *runCtx) error {
	c.coqImport = "C20Check"
	c.caseType = "c20case"
	c.checkFn = "c20_check"
	c.extra = map[string]interface{}{"exhaustive": true}
	w, root, strNode, err := walkSandbox()
	if err != nil {
		return err
	}
	ns := []string{}
	hum := []string{}
	for _, n := range w.nodes {
		ns = append(ns, n.coq())
		if n.kind == "gofunc" {
			hum = append(hum, fmt.Sprintf("%s = %s", n.path, n.sym))
		}
	}
	sort.Strings(hum)
	c.defs = append(c.defs, fmt.Sprintf("Definition sandbox_graph : list lnode := %s.", coqList(ns)))
	c.add(fmt.Sprintf("(CGraph sandbox_graph [%d; %d])", root, strNode), sideCase{Class: "graph", Nontrivial: true, Key: keyOf(strings.Join(ns, "")),
		Human: map[string]interface{}{"nodes": len(w.nodes), "go_functions": hum}})
	// ---- escape attempts: accessor x wrapper x forbidden name ----
	forbidden := []string{"os", "io", "debug", "package", "require", "module", "load", "loadstring", "loadfile", "dofile", "rawget", "rawset", "rawequal",
		"setmetatable", "getmetatable", "collectgarbage", "_G"}
	accessors := []struct{ name, expr string }{
		{"global", "%s"},
		{"getfenv(0)", "getfenv(0).%s"},
		{"getfenv(1)", "getfenv(1).%s"},
		{"getfenv()", "getfenv().%s"},
		{"getfenv(print)", "getfenv(print).%s"},
		{"getfenv(string.len)", "getfenv(string.len).%s"},
		{"getfenv(strSplit)", "getfenv(strSplit).%s"},
		{"getfenv(coroutine.wrap(f))", "getfenv(coroutine.wrap(function() end)).%s"},
		{"env of fresh function", "getfenv(function() end).%s"},
		{"string method", "(\"\").%s"},
		{"string library member", "string.%s"},
		{"via setfenv(1, getfenv(0))", "(function() setfenv(1, getfenv(0)); return %s end)()"},
	}
	wrappers := []struct{ name, code string }{
		{"plain", "local v = %s\nreturn (v ~= nil) and 1 or 0"},
		{"pcall", "local ok, v = pcall(function() return %s end)\nreturn (ok and v ~= nil) and 1 or 0"},
		{"xpcall", "local ok, v = xpcall(function() return %s end, function(e) return e end)\nreturn (ok and v ~= nil) and 1 or 0"},
		{"coroutine.wrap", "local v = coroutine.wrap(function() return %s end)()\nreturn (v ~= nil) and 1 or 0"},
		{"coroutine.resume", "local co = coroutine.create(function() coroutine.yield(%s) end)\nlocal ok, v = coroutine.resume(co)\nreturn (ok and v ~= nil) and 1 or 0"},
	}
	run := func(script string, timeout int) (int, error, time.Duration, bool) {
		env, err := luasandbox.NewLuaEnvironment(context.Background(), nil, sandboxopts.WithLuaTimeout(timeout))
		if err != nil {
			return 0, err, 0, true
		}
		type res struct {
			code int
			err  error
		}
		ch := make(chan res, 1)
		start := time.Now()
		go func() {
			defer func() {
				if r := recover(); r != nil {
					ch <- res{-2, fmt.Errorf("panic: %v", r)}
				}
			}()
			code, err := env.RunScript(script, lua.LTable{})
			ch <- res{code, err}
		}()
		select {
		case r := <-ch:
			env.Cleanup()
			return r.code, r.err, time.Since(start), true
		case <-time.After(time.Duration(timeout)*time.Second + 14*time.Second):
			return 0, nil, time.Since(start), false // still running: left behind
		}
	}
	extra := []string{"rep", "dump", "__index"} // members removed from / hidden in the string library
	for _, a := range accessors {
		names := forbidden
		if a.name == "string method" || a.name == "string library member" {
			names = extra
		}
		for _, wr := range wrappers {
			for _, f := range names {
				script := fmt.Sprintf(wr.code, fmt.Sprintf(a.expr, f))
				code, err, _, _ := run(script, 5)
				obtained := err == nil && code == 1
				e := "ok"
				if err != nil {
					e = "error: " + strings.SplitN(err.Error(), "\n", 2)[0]
				}
				c.add(fmt.Sprintf("(CEscape %s)", coqBool(obtained)), sideCase{Class: "escape/" + a.name + "/" + wr.name, Nontrivial: true, Key: keyOf(script),
					Human: map[string]interface{}{"script": script, "exit": code, "result": e}})
			}
		}
	}
	// ---- attempts to modify library tables ----
	libs := []struct{ lib, fn, probe string }{
		{"string", "len", "string.len(\"abc\") == 42 or (\"abc\"):len() == 42"},
		{"string", "upper", "string.upper(\"a\") == 42"},
		{"math", "floor", "math.floor(1.5) == 42"},
		{"table", "insert", "table.insert({}, 1) == 42"},
		{"coroutine", "status", "coroutine.status(coroutine.create(function() end)) == 42"},
	}
	routes := []struct{ name, code string }{
		{"assign", "%[1]s.%[2]s = function() return 42 end"},
		{"assign via getfenv(0)", "getfenv(0).%[1]s.%[2]s = function() return 42 end"},
		{"assign via string __index", "local t = (\"\").__index; t.%[2]s = function() return 42 end"},
		{"assign nil", "%[1]s.%[2]s = nil"},
		{"table.insert into library", "table.insert(%[1]s, function() return 42 end)"},
		{"replace library global", "%[1]s = {%[2]s = function() return 42 end}"},
	}
	for _, l := range libs {
		for ri, rt := range routes {
			body := fmt.Sprintf(rt.code, l.lib, l.fn)
			probe := l.probe
			if rt.name == "assign nil" {
				probe = l.lib + "." + l.fn + " == nil"
			}
			if rt.name == "table.insert into library" {
				probe = l.lib + "[1] ~= nil"
			}
			if rt.name == "replace library global" {
				// the script's own global may be rebound; what must not change is what other code sees
				probe = "(\"abc\"):len() == 42"
			}
			script := fmt.Sprintf("pcall(function() %s end)\nlocal ok, r = pcall(function() return %s end)\nreturn (ok and r) and 1 or 0", body, probe)
			code, err, _, _ := run(script, 5)
			modified := err == nil && code == 1
			c.add(fmt.Sprintf("(CWrite %d %s)", ri, coqBool(modified)), sideCase{Class: "write/" + rt.name, Nontrivial: true, Key: keyOf(script),
				Human: map[string]interface{}{"script": script, "exit": code, "err": fmt.Sprint(err)}})
		}
	}
	// ---- non-termination under a 1 s timeout ----
	long := "local s = \"\" for i = 1, 200 do s = s .. \"a\" end\n"
	loops := []struct {
		name   string
		family int
		code   string
	}{
		{"tight loop", 0, "while true do end"},
		{"repeat loop", 0, "local i = 0 repeat i = i + 1 until false"},
		{"counting loop", 0, "for i = 1, 1e18 do end"},
		{"recursion", 0, "local function f(n) return 1 + f(n + 1) end return f(1)"},
		{"tail recursion", 1, "local function f(n) return f(n + 1) end return f(1)"},
		{"coroutine ping-pong", 0, "local co = coroutine.wrap(function() while true do coroutine.yield(1) end end) while true do co() end"},
		{"pcall retry loop", 0, "while true do pcall(function() error(\"x\") end) end"},
		{"string building loop", 0, "local s = \"\" while true do s = s .. \"x\" if #s > 1000 then s = \"\" end end"},
		{"pattern blow-up in string.find", 1, long + "return string.find(s, \".-.-.-.-.-.-.-.-.-.-.-.-b\")"},
		{"pattern blow-up in string.gsub", 1, long + "return (string.gsub(s, \".-.-.-.-.-.-.-.-.-.-.-.-b\", \"\"))"},
		{"table.sort with a looping comparator", 0, "table.sort({3, 2, 1}, function(a, b) while true do end end)"},
	}
	type lres struct {
		code    int
		err     error
		el      time.Duration
		stopped bool
	}
	lrs := make([]lres, len(loops))
	done := make(chan int, len(loops))
	for i := range loops {
		go func(i int) {
			code, err, el, stopped := run(loops[i].code, 1)
			lrs[i] = lres{code, err, el, stopped}
			done <- i
		}(i)
	}
	for range loops {
		<-done
	}
	for i, lp := range loops {
		code, err, el, stopped := lrs[i].code, lrs[i].err, lrs[i].el, lrs[i].stopped
		c.add(fmt.Sprintf("(CTimeout %d 1000%%N %d%%N %s)", lp.family, el.Milliseconds(), coqBool(stopped)), sideCase{Class: "timeout/" + lp.name, Nontrivial: true, Key: keyOf(lp.code),
			Human: map[string]interface{}{"script": lp.code, "timeout_s": 1, "elapsed_ms": el.Milliseconds(), "returned": stopped, "exit": code, "err": fmt.Sprint(err)}})
	}
	// ---- hook selection: a principal is only ever run the hooks the applied policy assigns to it ----
	for hi := 0; hi < 12; hi++ {
		r := c.rng
		nh := 1 + r.Intn(4)
		scratch := newMemStore()
		hooks := []wHook{}
		hterms, hh := []string{}, []string{}
		scripts := map[string]string{}
		for k := 0; k < nh; k++ {
			exit := 10 + k
			// every hook runs in a sandbox of its own: a global set by one hook is not seen by the next
			script := fmt.Sprintf("if leaked ~= nil then return 99 end leaked = 1 return %d", exit)
			if r.Intn(5) == 0 {
				script, exit = "if leaked ~= nil then return 99 end leaked = 1 return \"done\"", 1
			}
			script += fmt.Sprintf(" -- hook %d of case %d", k, hi)
			bid, err := scratch.WriteBlob([]byte(script))
			if err != nil {
				return err
			}
			m := r.Intn(4)
			pids := []int{}
			for _, x := range r.Perm(4)[:m] {
				pids = append(pids, 101+x)
			}
			if r.Intn(6) == 0 {
				pids = append(pids, 199) // a principal nobody defines
			}
			name := fmt.Sprintf("hook%d", k)
			hooks = append(hooks, wHook{Name: name, Pids: pids, BlobID: bid.String(), Timeout: 5})
			scripts[bid.String()] = script
			ps := []string{}
			for _, x := range pids {
				ps = append(ps, fmt.Sprint(x))
			}
			hterms = append(hterms, fmt.Sprintf("(%d, %s, (%d)%%Z)", k, coqList(ps), exit))
			hh = append(hh, fmt.Sprintf("%s principals=%v script=%q", name, pids, script))
		}
		t := &wFile{Version: 1, Signers: []int{2}}
		t.Name = "targets"
		t.Defs = map[int][]int{101: {4}, 102: {5}, 103: {6}, 104: {7}}
		t.Rules = []hRule{{Name: "protect-main", Patterns: []string{"git:" + refMain}, Pids: []int{101}, Thr: 1}}
		pol := &wPolicy{RootVersion: 1, RootKeys: []int{1}, RootThr: 1, TargetsKeys: []int{2}, TargetsThr: 1, HasTargetsRole: true, RootSigners: []int{1},
			Files: []*wFile{t}, Hooks: hooks}
		events := []wEvent{{Kind: "policy", Pol: pol, Signer: 1}}
		staged := r.Intn(2) == 0
		if staged { // a staged, not yet applied policy that assigns every hook to everybody
			sp := *pol
			sp.RootVersion = 2
			sp.Hooks = nil
			for _, h := range hooks {
				h2 := h
				h2.Pids = []int{101, 102, 103, 104}
				sp.Hooks = append(sp.Hooks, h2)
			}
			events = append(events, wEvent{Kind: "staging", Pol: &sp, Signer: 1})
		}
		b, err := buildWorld(&wWorld{Events: events})
		if err != nil {
			return err
		}
		for _, sc := range scripts {
			if _, err := b.m.WriteBlob([]byte(sc)); err != nil {
				return err
			}
		}
		_, dir, err := newRealRepo(c, fmt.Sprintf("c20-%d", hi), true)
		if err != nil {
			return err
		}
		if err := exportObjects(b.m, dir); err != nil {
			return err
		}
		for _, rv := range b.m.listRefs() {
			if _, err := gitOut(dir, "update-ref", rv[0], rv[1]); err != nil {
				return err
			}
		}
		repo, err := gittuf.LoadRepository(dir)
		if err != nil {
			return err
		}
		signerKey := []int{4, 5, 6, 7, 8, 1}[r.Intn(6)] // 8: unknown key; 1: a root key, principal without hooks
		rsl.VerifResetCache()
		codes, herr := repo.InvokeHooksForStage(context.Background(), poolKeyN(signerKey), tuf.HookStagePreCommit)
		os.RemoveAll(filepath.Join(c.outDir, "repos", fmt.Sprintf("c20-%d", hi)))
		res := 0
		switch {
		case herr == nil:
		case errors.Is(herr, tuf.ErrPrincipalNotFound):
			res = 1
		case errors.Is(herr, gittuf.ErrNoHooksFoundForPrincipal):
			res = 2
		default:
			res = 3
		}
		ran := []string{}
		names := []string{}
		for n := range codes {
			names = append(names, n)
		}
		sort.Strings(names)
		for _, n := range names {
			var k int
			fmt.Sscanf(n, "hook%d", &k)
			ran = append(ran, fmt.Sprintf("(%d, (%d)%%Z)", k, codes[n]))
		}
		principal := map[int]int{4: 101, 5: 102, 6: 103, 7: 104}[signerKey]
		pterm := "None"
		if principal != 0 {
			pterm = fmt.Sprintf("(Some %d)", principal)
		}
		if signerKey == 1 {
			pterm = "(Some 1)"
		}
		c.add(fmt.Sprintf("(CHooks %s %s %d %s)", coqList(hterms), pterm, res, coqList(ran)), sideCase{Class: "hooks", Nontrivial: true, Key: keyOf(fmt.Sprint(hh, signerKey)),
			Human: map[string]interface{}{"hooks": hh, "signer_key": signerKey, "result": fmt.Sprint(herr), "exit_codes": fmt.Sprint(codes), "staged_policy_assigns_all_hooks_to_everyone": staged}})
	}
	// ---- each hook is bounded by its own timeout, whatever its siblings declare ----
	{
		scratch := newMemStore()
		loop, quick := "while true do end -- slow hook", "return 0 -- patient sibling"
		b1, _ := scratch.WriteBlob([]byte(loop))
		b2, _ := scratch.WriteBlob([]byte(quick))
		t := &wFile{Version: 1, Signers: []int{2}}
		t.Name = "targets"
		t.Defs = map[int][]int{101: {4}}
		t.Rules = []hRule{{Name: "protect-main", Patterns: []string{"git:" + refMain}, Pids: []int{101}, Thr: 1}}
		pol := &wPolicy{RootVersion: 1, RootKeys: []int{1}, RootThr: 1, TargetsKeys: []int{2}, TargetsThr: 1, HasTargetsRole: true, RootSigners: []int{1}, Files: []*wFile{t},
			Hooks: []wHook{{Name: "slow", Pids: []int{101}, BlobID: b1.String(), Timeout: 1}, {Name: "patient", Pids: []int{101}, BlobID: b2.String(), Timeout: 25}}}
		b, err := buildWorld(&wWorld{Events: []wEvent{{Kind: "policy", Pol: pol, Signer: 1}}})
		if err != nil {
			return err
		}
		b.m.WriteBlob([]byte(loop))
		b.m.WriteBlob([]byte(quick))
		_, dir, err := newRealRepo(c, "c20-timeouts", true)
		if err != nil {
			return err
		}
		if err := exportObjects(b.m, dir); err != nil {
			return err
		}
		for _, rv := range b.m.listRefs() {
			if _, err := gitOut(dir, "update-ref", rv[0], rv[1]); err != nil {
				return err
			}
		}
		repo, err := gittuf.LoadRepository(dir)
		if err != nil {
			return err
		}
		rsl.VerifResetCache()
		start := time.Now()
		type hres struct {
			codes map[string]int
			err   error
		}
		ch := make(chan hres, 1)
		go func() {
			codes, herr := repo.InvokeHooksForStage(context.Background(), poolKeyN(4), tuf.HookStagePreCommit)
			ch <- hres{codes, herr}
		}()
		stopped := true
		var hr hres
		select {
		case hr = <-ch:
		case <-time.After(15 * time.Second):
			stopped = false
		}
		el := time.Since(start)
		os.RemoveAll(filepath.Join(c.outDir, "repos", "c20-timeouts"))
		c.add(fmt.Sprintf("(CTimeout 0 1000%%N %d%%N %s)", el.Milliseconds(), coqBool(stopped)), sideCase{Class: "timeout/hook with a 1 s timeout next to a hook with a 25 s timeout", Nontrivial: true, Key: keyOf("hook-timeouts"),
			Human: map[string]interface{}{"hooks": "slow (timeout 1 s, loops forever), patient (timeout 25 s)", "elapsed_ms": el.Milliseconds(), "returned": stopped, "result": fmt.Sprint(hr.err), "exit_codes": fmt.Sprint(hr.codes)}})
	}
	// ---- exit codes ----
	exits := []struct {
		code   string
		isnum  bool
		expect int
	}{
		{"return 0", true, 0}, {"return 3", true, 3}, {"return 255", true, 255}, {"return -1", true, -1}, {"return 2.0", true, 2},
		{"return \"0\"", false, 0}, {"return {}", false, 0}, {"return nil", false, 0}, {"return true", false, 0}, {"local x = 1", false, 0},
		{"return function() end", false, 0}, {"return 0, \"x\"", false, 0}, {"return \"x\", 0", true, 0},
	}
	for _, ex := range exits {
		code, err, _, _ := run(ex.code, 5)
		c.add(fmt.Sprintf("(CExit %s (%d)%%Z (%d)%%Z %s)", coqBool(ex.isnum), ex.expect, code, coqBool(err != nil)), sideCase{Class: "exit", Nontrivial: true, Key: keyOf(ex.code),
			Human: map[string]interface{}{"script": ex.code, "exit": code, "err": fmt.Sprint(err)}})
	}
	return nil
}
