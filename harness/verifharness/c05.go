//go:build verif

package main

import (
	"context"
	"encoding/base64"
	"errors"
	"fmt"
	"sort"
	"strings"

	"github.com/gittuf/gittuf/internal/policy"
	sslibdsse "github.com/gittuf/gittuf/internal/third_party/go-securesystemslib/dsse"
	"github.com/gittuf/gittuf/internal/tuf"
	tufv02 "github.com/gittuf/gittuf/internal/tuf/v02"
	"github.com/gittuf/gittuf/pkg/githash"
)

func init() { props["C05"] = runC05 }

type c05Principal struct {
	pid  uint64
	keys []int
	obj  tuf.Principal
}

func mkPrincipal(i int, keys []int, asKey bool) c05Principal {
	if asKey && len(keys) == 1 {
		return c05Principal{pid: 100 + uint64(keys[0]), keys: keys, obj: tufv02.NewKeyFromSSLibKey(poolKeyN(keys[0]).SSLib)}
	}
	p := &tufv02.Person{PersonID: fmt.Sprintf("person-%d", i), PublicKeys: map[string]*tufv02.Key{}}
	for _, k := range keys {
		p.PublicKeys[poolKeyN(k).SSLib.KeyID] = tufv02.NewKeyFromSSLibKey(poolKeyN(k).SSLib)
	}
	return c05Principal{pid: 200 + uint64(i), keys: keys, obj: p}
}

type c05Sig struct {
	hint   int  // 0 empty, else key index whose id is written
	signer int  // 0 garbage
	valid  bool // over this envelope's PAE
}

func c05Case(c *runCtx, ps []c05Principal, threshold int, exhaustive bool, gitMode string, gitKey int, env []c05Sig, hasEnv bool, class string) {
	m := newMemStore()
	tree, _ := m.EmptyTree()
	var gitID githash.Hash = githash.ZeroHash
	gitsig := 0
	hasGit := gitMode != "none"
	switch gitMode {
	case "signed":
		gitID, _ = m.createCommit(tree, nil, "object", poolKeyN(gitKey).PEM)
		gitsig = gitKey
	case "unsigned":
		gitID, _ = m.createCommit(tree, nil, "object", nil)
	case "lifted":
		m.signOver = []byte("tree 4b825dc642cb6eb9a060e54bf8d69288fbee4904\nother content\n")
		gitID, _ = m.createCommit(tree, nil, "object", poolKeyN(gitKey).PEM)
		m.signOver = nil
	}
	var envelope *sslibdsse.Envelope
	sigTerms := []string{}
	hs := []string{}
	if hasEnv {
		payload := []byte(`{"verif":"payload"}`)
		other := []byte(`{"verif":"another payload"}`)
		envelope = &sslibdsse.Envelope{PayloadType: "application/vnd.gittuf+json", Payload: base64.StdEncoding.EncodeToString(payload), Signatures: []sslibdsse.Signature{}}
		for _, s := range env {
			var sigBytes []byte
			if s.signer == 0 {
				sigBytes = []byte("-----BEGIN SSH SIGNATURE-----\nZ2FyYmFnZQ==\n-----END SSH SIGNATURE-----\n")
			} else {
				over := payload
				if !s.valid {
					over = other
				}
				sigBytes, _ = poolKeyN(s.signer).Sign(context.Background(), sslibdsse.PAE(envelope.PayloadType, over))
			}
			hint := ""
			if s.hint != 0 {
				hint = poolKeyN(s.hint).SSLib.KeyID
			}
			envelope.Signatures = append(envelope.Signatures, sslibdsse.Signature{KeyID: hint, Sig: base64.StdEncoding.EncodeToString(sigBytes)})
			sigTerms = append(sigTerms, fmt.Sprintf("{| s_hint := %d%%N; s_signer := %d%%N; s_valid := %s |}", s.hint, s.signer, coqBool(s.valid && s.signer != 0)))
			hs = append(hs, fmt.Sprintf("sig(hint=%d signer=%d valid=%v)", s.hint, s.signer, s.valid))
		}
	}
	objs := []tuf.Principal{}
	pTerms := []string{}
	hp := []string{}
	pidOf := map[string]uint64{}
	for _, p := range ps {
		objs = append(objs, p.obj)
		ks := []string{}
		for _, k := range p.keys {
			ks = append(ks, fmt.Sprintf("%d%%N", k))
		}
		pTerms = append(pTerms, fmt.Sprintf("{| p_id := %d%%N; p_keys := %s |}", p.pid, coqList(ks)))
		hp = append(hp, fmt.Sprintf("p%d%v", p.pid, p.keys))
		pidOf[p.obj.ID()] = p.pid
	}
	v := policy.VerifNewSignatureVerifier(m, "rule", objs, threshold, exhaustive)
	// signatures made over other content: in half of the cases that content's own envelope is verified first,
	// in the same process (earlier history is verified before later history in a real run)
	primed := false
	if hasEnv && c.rng.Intn(2) == 0 {
		otherEnv := &sslibdsse.Envelope{PayloadType: "application/vnd.gittuf+json", Payload: base64.StdEncoding.EncodeToString([]byte(`{"verif":"another payload"}`)), Signatures: []sslibdsse.Signature{}}
		for i, s := range env {
			if !s.valid && s.signer != 0 {
				otherEnv.Signatures = append(otherEnv.Signatures, envelope.Signatures[i])
			}
		}
		if len(otherEnv.Signatures) > 0 {
			func() {
				defer func() { _ = recover() }()
				_, _ = v.Verify(context.Background(), githash.ZeroHash, otherEnv)
			}()
			primed = true
		}
	}
	var obsTerm, obsH string
	func() {
		defer func() {
			if rec := recover(); rec != nil {
				obsTerm, obsH = "OPanicV", fmt.Sprint("panic: ", rec)
			}
		}()
		set, err := v.Verify(context.Background(), gitID, envelope)
		ids := []uint64{}
		if set != nil {
			for _, id := range set.Contents() {
				ids = append(ids, pidOf[id])
			}
		}
		sort.Slice(ids, func(i, j int) bool { return ids[i] < ids[j] })
		is := []string{}
		for _, i := range ids {
			is = append(is, fmt.Sprintf("%d%%N", i))
		}
		switch {
		case err == nil:
			obsTerm, obsH = "(VOkSet "+coqList(is)+")", fmt.Sprint("ok ", ids)
		case errors.Is(err, policy.ErrInvalidVerifier):
			obsTerm, obsH = "(VErr EInvalidVerifier "+coqList(is)+")", "invalid verifier"
		case errors.Is(err, policy.ErrVerifierConditionsUnmet):
			obsTerm, obsH = "(VErr EUnmet "+coqList(is)+")", fmt.Sprint("unmet ", ids)
		case errors.Is(err, sslibdsse.ErrNoSignature):
			obsTerm, obsH = "(VErr ENoSignature "+coqList(is)+")", "no signature"
		default:
			obsTerm, obsH = "(VErr EOtherErr "+coqList(is)+")", "other error: "+err.Error()
		}
	}()
	envTerm := "None"
	if hasEnv {
		envTerm = "(Some " + coqList(sigTerms) + ")"
	}
	term := fmt.Sprintf("(C05 {| v_principals := %s; v_threshold := (%d)%%Z; v_exhaustive := %s |} %s %d%%N %s %s)",
		coqList(pTerms), threshold, coqBool(exhaustive), coqBool(hasGit), gitsig, envTerm, obsTerm)
	shared := false
	seen := map[int]bool{}
	for _, p := range ps {
		for _, k := range p.keys {
			if seen[k] {
				shared = true
			}
			seen[k] = true
		}
	}
	nsig := len(env)
	if gitsig != 0 {
		nsig++
	}
	c.add(term, sideCase{Class: class, Nontrivial: nsig >= 2 || shared, Key: keyOf(term),
		Human: map[string]interface{}{"principals": strings.Join(hp, " "), "threshold": threshold, "exhaustive": exhaustive,
			"git": fmt.Sprintf("%s key=%d", gitMode, gitKey), "envelope": hs, "has_envelope": hasEnv, "observed": obsH, "other_content_verified_first": primed}})
}

func runC05(c *runCtx) error {
	c.coqImport = "C05Check"
	c.caseType = "c05case"
	c.checkFn = "c05_check"
	r := c.rng
	const nKeys = 6
	for len(c.cases) < c.n {
		np := r.Intn(5)
		if r.Intn(10) != 0 && np == 0 {
			np = 1 + r.Intn(4)
		}
		sharedMode := r.Intn(3) == 0
		ps := []c05Principal{}
		next := 1
		for i := 0; i < np; i++ {
			nk := 1 + r.Intn(2)
			keys := []int{}
			for j := 0; j < nk; j++ {
				var k int
				if sharedMode || next > nKeys-1 {
					k = 1 + r.Intn(nKeys-1)
				} else {
					k = next
					next++
				}
				dup := false
				for _, x := range keys {
					if x == k {
						dup = true
					}
				}
				if !dup {
					keys = append(keys, k)
				}
			}
			ps = append(ps, mkPrincipal(i, keys, r.Intn(2) == 0))
		}
		// drop duplicate principal ids unless we want that oddity
		if r.Intn(10) != 0 {
			seen := map[uint64]bool{}
			q := []c05Principal{}
			for _, p := range ps {
				if !seen[p.pid] {
					q = append(q, p)
				}
				seen[p.pid] = true
			}
			ps = q
		}
		threshold := r.Intn(6)
		if r.Intn(25) == 0 {
			threshold = -1
		}
		exhaustive := r.Intn(5) == 0
		gitMode := []string{"none", "signed", "signed", "signed", "unsigned", "lifted"}[r.Intn(6)]
		gitKey := 1 + r.Intn(nKeys)
		hasEnv := r.Intn(6) != 0
		env := []c05Sig{}
		if hasEnv {
			ns := r.Intn(5)
			if r.Intn(12) == 0 {
				ns = 0
			}
			for i := 0; i < ns; i++ {
				s := c05Sig{signer: 1 + r.Intn(nKeys), valid: r.Intn(6) != 0}
				s.hint = s.signer
				switch r.Intn(8) {
				case 0:
					s.hint = 0
				case 1:
					s.hint = 1 + r.Intn(nKeys)
				case 2:
					s.signer = 0
				}
				env = append(env, s)
				if r.Intn(8) == 0 {
					env = append(env, s) // repeated signature
				}
			}
		}
		class := "disjoint-keys"
		if sharedMode {
			class = "shared-keys"
		}
		c05Case(c, ps, threshold, exhaustive, gitMode, gitKey, env, hasEnv, class)
	}
	return nil
}
