//go:build verif

package main

// memStore is an in-memory gitstore.Storer with genuine Git object encodings (ids are what git
// would assign) built on go-git's object encoders.  It mirrors the observable conventions of
// pkg/gitinterface (see DESIGN.md Appendix A/B); its fidelity is part of the trusted base and is
// cross-validated against real repositories in the thorough tier.

import (
	"errors"
	"fmt"
	"io"
	"sort"
	"strings"
	"sync"
	"time"

	"github.com/gittuf/gittuf/pkg/githash"
	"github.com/gittuf/gittuf/pkg/gitinterface"
	"github.com/gittuf/gittuf/pkg/gitstore"
	"github.com/go-git/go-git/v6/plumbing"
	"github.com/go-git/go-git/v6/plumbing/filemode"
	"github.com/go-git/go-git/v6/plumbing/object"
	"github.com/go-git/go-git/v6/storage/memory"
)

type memStore struct {
	mu    sync.Mutex
	st    *memory.Storage
	refs  map[string]githash.Hash
	clock time.Time
	// key used when Commit(..., sign=true) is called (nil: unsigned)
	defaultKey []byte
	name       string
	email      string
	// created lists every commit object written, in creation order
	created []githash.Hash
	// signOver, when set, is signed instead of the object's own payload
	signOver []byte
}

func newMemStore() *memStore {
	return &memStore{st: memory.NewStorage(), refs: map[string]githash.Hash{},
		clock: time.Date(2026, 1, 1, 0, 0, 0, 0, time.UTC), name: "Verif", email: "verif@example.com"}
}

var errMemNotFound = errors.New("memstore: object not found")

func ph(h githash.Hash) plumbing.Hash { return plumbing.NewHash(h.String()) }
func gh(h plumbing.Hash) githash.Hash {
	x, _ := githash.NewHash(h.String())
	return x
}

func (m *memStore) tick() time.Time {
	m.clock = m.clock.Add(time.Second)
	return m.clock
}

func (m *memStore) GetReference(refName string) (githash.Hash, error) {
	m.mu.Lock()
	defer m.mu.Unlock()
	h, ok := m.refs[refName]
	if !ok {
		return githash.ZeroHash, gitstore.ErrReferenceNotFound
	}
	return h, nil
}

func (m *memStore) SetReference(refName string, gitID githash.Hash) error {
	m.mu.Lock()
	defer m.mu.Unlock()
	m.refs[refName] = gitID
	return nil
}

func (m *memStore) DeleteReference(refName string) error {
	m.mu.Lock()
	defer m.mu.Unlock()
	delete(m.refs, refName)
	return nil
}

// checkAndSet is gitinterface.CheckAndSetReference: update-ref <ref> <new> <old>; a zero old value
// means "must not exist".
func (m *memStore) checkAndSet(refName string, newID, oldID githash.Hash) error {
	m.mu.Lock()
	defer m.mu.Unlock()
	cur, ok := m.refs[refName]
	if oldID.IsZero() {
		if ok {
			return fmt.Errorf("memstore: reference %s already exists", refName)
		}
	} else if !ok || !cur.Equal(oldID) {
		return fmt.Errorf("memstore: reference %s is not at expected value", refName)
	}
	m.refs[refName] = newID
	return nil
}

func (m *memStore) ReadBlob(blobID githash.Hash) ([]byte, error) {
	b, err := object.GetBlob(m.st, ph(blobID))
	if err != nil {
		return nil, err
	}
	r, err := b.Reader()
	if err != nil {
		return nil, err
	}
	defer r.Close()
	return io.ReadAll(r)
}

func (m *memStore) WriteBlob(contents []byte) (githash.Hash, error) {
	obj := m.st.NewEncodedObject()
	obj.SetType(plumbing.BlobObject)
	w, err := obj.Writer()
	if err != nil {
		return nil, err
	}
	if _, err := w.Write(contents); err != nil {
		return nil, err
	}
	w.Close()
	h, err := m.st.SetEncodedObject(obj)
	if err != nil {
		return nil, err
	}
	return gh(h), nil
}

func (m *memStore) EmptyTree() (githash.Hash, error) { return m.writeTreeObj(nil) }

func (m *memStore) writeTreeObj(entries []object.TreeEntry) (githash.Hash, error) {
	sort.Slice(entries, func(i, j int) bool {
		a, b := entries[i].Name, entries[j].Name
		if entries[i].Mode == filemode.Dir {
			a += "/"
		}
		if entries[j].Mode == filemode.Dir {
			b += "/"
		}
		return a < b
	})
	// raw encoding (go-git's encoder refuses names with control characters, which git itself stores)
	obj := m.st.NewEncodedObject()
	obj.SetType(plumbing.TreeObject)
	w, err := obj.Writer()
	if err != nil {
		return nil, err
	}
	for _, e := range entries {
		fmt.Fprintf(w, "%o %s\x00", uint32(e.Mode), e.Name)
		w.Write(e.Hash.Bytes())
	}
	w.Close()
	h, err := m.st.SetEncodedObject(obj)
	if err != nil {
		return nil, err
	}
	return gh(h), nil
}

type memDir struct {
	blobs map[string]object.TreeEntry
	dirs  map[string]*memDir
}

func newMemDir() *memDir { return &memDir{blobs: map[string]object.TreeEntry{}, dirs: map[string]*memDir{}} }

func (m *memStore) WriteTree(entries []gitstore.TreeEntry) (githash.Hash, error) {
	seen := map[string]bool{}
	root := newMemDir()
	for _, e := range entries {
		if seen[e.Path] {
			return nil, gitstore.ErrDuplicateTreePath
		}
		seen[e.Path] = true
		comps := strings.Split(e.Path, "/")
		d := root
		for _, c := range comps[:len(comps)-1] {
			nd, ok := d.dirs[c]
			if !ok {
				nd = newMemDir()
				d.dirs[c] = nd
			}
			d = nd
		}
		mode := filemode.Regular
		if e.Kind == gitstore.KindSubtree {
			mode = filemode.Dir
		}
		d.blobs[comps[len(comps)-1]] = object.TreeEntry{Name: comps[len(comps)-1], Mode: mode, Hash: ph(e.ID)}
	}
	return m.writeDir(root)
}

func (m *memStore) writeDir(d *memDir) (githash.Hash, error) {
	ents := []object.TreeEntry{}
	for _, e := range d.blobs {
		ents = append(ents, e)
	}
	for name, sd := range d.dirs {
		h, err := m.writeDir(sd)
		if err != nil {
			return nil, err
		}
		ents = append(ents, object.TreeEntry{Name: name, Mode: filemode.Dir, Hash: ph(h)})
	}
	return m.writeTreeObj(ents)
}

func (m *memStore) GetAllFilesInTree(treeID githash.Hash) (map[string]githash.Hash, error) {
	out := map[string]githash.Hash{}
	var walk func(prefix string, id plumbing.Hash) error
	walk = func(prefix string, id plumbing.Hash) error {
		t, err := object.GetTree(m.st, id)
		if err != nil {
			return err
		}
		for _, e := range t.Entries {
			if e.Mode == filemode.Dir {
				if err := walk(prefix+e.Name+"/", e.Hash); err != nil {
					return err
				}
			} else {
				out[prefix+e.Name] = gh(e.Hash)
			}
		}
		return nil
	}
	if err := walk("", ph(treeID)); err != nil {
		return nil, err
	}
	return out, nil
}

func (m *memStore) GetEntriesInTree(treeID githash.Hash) ([]gitstore.TreeEntry, error) {
	t, err := object.GetTree(m.st, ph(treeID))
	if err != nil {
		return nil, err
	}
	out := []gitstore.TreeEntry{}
	for _, e := range t.Entries {
		k := gitstore.KindBlob
		if e.Mode == filemode.Dir {
			k = gitstore.KindSubtree
		}
		out = append(out, gitstore.TreeEntry{Path: e.Name, ID: gh(e.Hash), Kind: k})
	}
	return out, nil
}

func (m *memStore) GetPathIDInTree(treeID githash.Hash, treePath string) (githash.Hash, error) {
	treePath = strings.TrimSuffix(treePath, "/")
	cur := treeID
	for _, c := range strings.Split(treePath, "/") {
		ents, err := m.GetEntriesInTree(cur)
		if err != nil {
			return nil, err
		}
		found := false
		for _, e := range ents {
			if e.Path == c {
				cur, found = e.ID, true
				break
			}
		}
		if !found {
			return nil, fmt.Errorf("%w: %s", gitinterface.ErrTreeDoesNotHavePath, treePath)
		}
	}
	return cur, nil
}

func (m *memStore) commit(id githash.Hash) (*object.Commit, error) {
	c, err := object.GetCommit(m.st, ph(id))
	if err != nil {
		return nil, fmt.Errorf("requested Git ID '%s' is not a commit object", id.String())
	}
	return c, nil
}

func (m *memStore) GetCommitTreeID(commitID githash.Hash) (githash.Hash, error) {
	c, err := m.commit(commitID)
	if err != nil {
		return githash.ZeroHash, err
	}
	return gh(c.TreeHash), nil
}

func (m *memStore) GetCommitMessage(commitID githash.Hash) (string, error) {
	c, err := m.commit(commitID)
	if err != nil {
		return "", err
	}
	return strings.TrimSpace(c.Message), nil
}

func (m *memStore) GetCommitParentIDs(commitID githash.Hash) ([]githash.Hash, error) {
	c, err := m.commit(commitID)
	if err != nil {
		return nil, err
	}
	if len(c.ParentHashes) == 0 {
		return nil, nil
	}
	out := []githash.Hash{}
	for _, p := range c.ParentHashes {
		out = append(out, gh(p))
	}
	return out, nil
}

func (m *memStore) reachable(from githash.Hash) (map[string]bool, error) {
	seen := map[string]bool{}
	todo := []githash.Hash{from}
	for len(todo) > 0 {
		id := todo[len(todo)-1]
		todo = todo[:len(todo)-1]
		if seen[id.String()] {
			continue
		}
		c, err := m.commit(id)
		if err != nil {
			return nil, err
		}
		seen[id.String()] = true
		for _, p := range c.ParentHashes {
			todo = append(todo, gh(p))
		}
	}
	return seen, nil
}

func (m *memStore) GetCommitsBetweenRange(commitNewID, commitOldID githash.Hash) ([]githash.Hash, error) {
	newSet, err := m.reachable(commitNewID)
	if err != nil {
		return nil, err
	}
	if !commitOldID.IsZero() {
		oldSet, err := m.reachable(commitOldID)
		if err != nil {
			return nil, err
		}
		for k := range oldSet {
			delete(newSet, k)
		}
	}
	ids := []string{}
	for k := range newSet {
		ids = append(ids, k)
	}
	sort.Strings(ids)
	out := make([]githash.Hash, 0, len(ids))
	for _, k := range ids {
		h, _ := githash.NewHash(k)
		out = append(out, h)
	}
	return out, nil
}

func (m *memStore) diffPaths(treeA, treeB githash.Hash) ([]string, error) {
	a, err := m.GetAllFilesInTree(treeA)
	if err != nil {
		return nil, err
	}
	b, err := m.GetAllFilesInTree(treeB)
	if err != nil {
		return nil, err
	}
	set := map[string]bool{}
	for p, h := range a {
		if h2, ok := b[p]; !ok || !h.Equal(h2) {
			set[p] = true
		}
	}
	for p := range b {
		if _, ok := a[p]; !ok {
			set[p] = true
		}
	}
	out := []string{}
	for p := range set {
		out = append(out, p)
	}
	sort.Strings(out)
	return out, nil
}

func (m *memStore) GetFilePathsChangedByCommit(commitID githash.Hash) ([]string, error) {
	c, err := m.commit(commitID)
	if err != nil {
		return nil, err
	}
	if len(c.ParentHashes) == 0 {
		files, err := m.GetAllFilesInTree(gh(c.TreeHash))
		if err != nil {
			return nil, err
		}
		out := []string{}
		for p := range files {
			out = append(out, p)
		}
		sort.Strings(out)
		if len(out) == 0 {
			return []string{""}, nil // strings.Split("", "\n")
		}
		return out, nil
	}
	if len(c.ParentHashes) > 1 {
		last, err := m.commit(gh(c.ParentHashes[len(c.ParentHashes)-1]))
		if err != nil {
			return nil, err
		}
		d, err := m.diffPaths(gh(last.TreeHash), gh(c.TreeHash))
		if err != nil {
			return nil, err
		}
		if len(d) == 0 {
			return nil, nil
		}
		set := map[string]bool{}
		for _, p := range c.ParentHashes {
			pc, err := m.commit(gh(p))
			if err != nil {
				return nil, err
			}
			d, err := m.diffPaths(gh(pc.TreeHash), gh(c.TreeHash))
			if err != nil {
				return nil, err
			}
			for _, x := range d {
				set[x] = true
			}
		}
		out := []string{}
		for p := range set {
			out = append(out, p)
		}
		sort.Strings(out)
		return out, nil
	}
	pc, err := m.commit(gh(c.ParentHashes[0]))
	if err != nil {
		return nil, err
	}
	d, err := m.diffPaths(gh(pc.TreeHash), gh(c.TreeHash))
	if err != nil {
		return nil, err
	}
	if len(d) == 0 {
		return nil, nil
	}
	return d, nil
}

func (m *memStore) KnowsCommit(commitID, ancestorID githash.Hash) (bool, error) {
	if _, err := m.commit(commitID); err != nil {
		return false, err
	}
	if _, err := m.commit(ancestorID); err != nil {
		return false, err
	}
	set, err := m.reachable(commitID)
	if err != nil {
		return false, err
	}
	return set[ancestorID.String()], nil
}

func (m *memStore) mergeBase(a, b githash.Hash) (githash.Hash, bool) {
	sa, err := m.reachable(a)
	if err != nil {
		return nil, false
	}
	// breadth-first from b: first commit also reachable from a
	todo := []githash.Hash{b}
	seen := map[string]bool{}
	for len(todo) > 0 {
		id := todo[0]
		todo = todo[1:]
		if seen[id.String()] {
			continue
		}
		seen[id.String()] = true
		if sa[id.String()] {
			return id, true
		}
		c, err := m.commit(id)
		if err != nil {
			return nil, false
		}
		for _, p := range c.ParentHashes {
			todo = append(todo, gh(p))
		}
	}
	return nil, false
}

// GetMergeTree: fast-forward or per-path three-way merge (conflicts are reported as errors; the
// generators do not produce them).
func (m *memStore) GetMergeTree(commitAID, commitBID githash.Hash) (githash.Hash, error) {
	cb, err := m.commit(commitBID)
	if err != nil {
		return githash.ZeroHash, err
	}
	if commitAID.IsZero() {
		return gh(cb.TreeHash), nil
	}
	ca, err := m.commit(commitAID)
	if err != nil {
		return githash.ZeroHash, err
	}
	base, ok := m.mergeBase(commitAID, commitBID)
	baseFiles := map[string]githash.Hash{}
	if ok {
		bc, _ := m.commit(base)
		baseFiles, err = m.GetAllFilesInTree(gh(bc.TreeHash))
		if err != nil {
			return githash.ZeroHash, err
		}
	}
	fa, err := m.GetAllFilesInTree(gh(ca.TreeHash))
	if err != nil {
		return githash.ZeroHash, err
	}
	fb, err := m.GetAllFilesInTree(gh(cb.TreeHash))
	if err != nil {
		return githash.ZeroHash, err
	}
	paths := map[string]bool{}
	for p := range fa {
		paths[p] = true
	}
	for p := range fb {
		paths[p] = true
	}
	for p := range baseFiles {
		paths[p] = true
	}
	eq := func(x, y githash.Hash, okx, oky bool) bool {
		if okx != oky {
			return false
		}
		return !okx || x.Equal(y)
	}
	out := []gitstore.TreeEntry{}
	for p := range paths {
		o, oko := baseFiles[p]
		a, oka := fa[p]
		b, okb := fb[p]
		var pickV githash.Hash
		var pickOk bool
		switch {
		case eq(a, b, oka, okb):
			pickV, pickOk = a, oka
		case eq(o, a, oko, oka):
			pickV, pickOk = b, okb
		case eq(o, b, oko, okb):
			pickV, pickOk = a, oka
		default:
			return githash.ZeroHash, fmt.Errorf("memstore: merge conflict at %s", p)
		}
		if pickOk {
			out = append(out, gitstore.TreeEntry{Path: p, ID: pickV, Kind: gitstore.KindBlob})
		}
	}
	return m.WriteTree(out)
}

func (m *memStore) GetTagTarget(tagID githash.Hash) (githash.Hash, error) {
	t, err := object.GetTag(m.st, ph(tagID))
	if err != nil {
		// `git rev-list -n 1 <commit>` answers the commit itself
		if _, cerr := m.commit(tagID); cerr == nil {
			return tagID, nil
		}
		return githash.ZeroHash, fmt.Errorf("unable to resolve tag's target ID: %w", err)
	}
	return gh(t.Target), nil
}

func (m *memStore) GetObjectSignature(objectID githash.Hash) ([]byte, []byte, error) {
	if c, err := object.GetCommit(m.st, ph(objectID)); err == nil {
		enc := memory.NewStorage().NewEncodedObject()
		if err := c.EncodeWithoutSignature(enc); err != nil {
			return nil, nil, err
		}
		r, _ := enc.Reader()
		payload, _ := io.ReadAll(r)
		return payload, []byte(c.Signature), nil
	}
	if t, err := object.GetTag(m.st, ph(objectID)); err == nil {
		enc := memory.NewStorage().NewEncodedObject()
		if err := t.EncodeWithoutSignature(enc); err != nil {
			return nil, nil, err
		}
		r, _ := enc.Reader()
		payload, _ := io.ReadAll(r)
		return payload, []byte(t.Signature), nil
	}
	return nil, nil, gitinterface.ErrNotCommitOrTag
}

// createCommit writes a commit object without touching any reference.
func (m *memStore) createCommit(treeID githash.Hash, parents []githash.Hash, message string, key []byte) (githash.Hash, error) {
	m.mu.Lock()
	when := m.tick()
	m.mu.Unlock()
	sig := object.Signature{Name: m.name, Email: m.email, When: when}
	c := &object.Commit{Author: sig, Committer: sig, TreeHash: ph(treeID), Message: message}
	for _, p := range parents {
		c.ParentHashes = append(c.ParentHashes, ph(p))
	}
	if key != nil {
		enc := memory.NewStorage().NewEncodedObject()
		if err := c.EncodeWithoutSignature(enc); err != nil {
			return nil, err
		}
		r, _ := enc.Reader()
		payload, _ := io.ReadAll(r)
		if m.signOver != nil { // test hook: sign other content (a "lifted" signature)
			payload = m.signOver
		}
		s, err := gitinterface.VerifSignGitObject(payload, key)
		if err != nil {
			return nil, err
		}
		c.Signature = s
	}
	obj := m.st.NewEncodedObject()
	if err := c.Encode(obj); err != nil {
		return nil, err
	}
	h, err := m.st.SetEncodedObject(obj)
	if err != nil {
		return nil, err
	}
	m.mu.Lock()
	m.created = append(m.created, gh(h))
	m.mu.Unlock()
	return gh(h), nil
}

func (m *memStore) commitOnRef(treeID githash.Hash, targetRef, message string, key []byte) (githash.Hash, error) {
	cur, err := m.GetReference(targetRef)
	if err != nil && !errors.Is(err, gitstore.ErrReferenceNotFound) {
		return githash.ZeroHash, err
	}
	var parents []githash.Hash
	if !cur.IsZero() {
		parents = []githash.Hash{cur}
	}
	id, err := m.createCommit(treeID, parents, message, key)
	if err != nil {
		return githash.ZeroHash, err
	}
	return id, m.checkAndSet(targetRef, id, cur)
}

func (m *memStore) Commit(treeID githash.Hash, targetRef, message string, sign bool) (githash.Hash, error) {
	var key []byte
	if sign {
		key = m.defaultKey
	}
	return m.commitOnRef(treeID, targetRef, message, key)
}

func (m *memStore) CommitUsingSpecificKey(treeID githash.Hash, targetRef, message string, signingKeyPEMBytes []byte) (githash.Hash, error) {
	return m.commitOnRef(treeID, targetRef, message, signingKeyPEMBytes)
}

// createTag writes an annotated tag object (optionally signed) and returns its id.
func (m *memStore) createTag(target githash.Hash, name, message string, key []byte) (githash.Hash, error) {
	m.mu.Lock()
	when := m.tick()
	m.mu.Unlock()
	if !strings.HasSuffix(message, "\n") {
		message += "\n"
	}
	tt := plumbing.CommitObject
	if _, err := object.GetCommit(m.st, ph(target)); err != nil {
		tt = plumbing.TagObject
	}
	t := &object.Tag{Name: name, Tagger: object.Signature{Name: m.name, Email: m.email, When: when}, Message: message,
		TargetType: tt, Target: ph(target)}
	if key != nil {
		enc := memory.NewStorage().NewEncodedObject()
		if err := t.EncodeWithoutSignature(enc); err != nil {
			return nil, err
		}
		r, _ := enc.Reader()
		payload, _ := io.ReadAll(r)
		s, err := gitinterface.VerifSignGitObject(payload, key)
		if err != nil {
			return nil, err
		}
		t.Signature = s
	}
	obj := m.st.NewEncodedObject()
	if err := t.Encode(obj); err != nil {
		return nil, err
	}
	h, err := m.st.SetEncodedObject(obj)
	if err != nil {
		return nil, err
	}
	return gh(h), nil
}

func (m *memStore) ZeroHash() githash.Hash { return githash.ZeroHash }

func (m *memStore) LookupConfig(key gitstore.ConfigKey) (string, bool, error) {
	switch key {
	case gitstore.ConfigUserName:
		return m.name, true, nil
	case gitstore.ConfigUserEmail:
		return m.email, true, nil
	}
	return "", false, nil
}

func (m *memStore) ResetDueToError(cause error, refName string, commitID githash.Hash) error {
	if err := m.SetReference(refName, commitID); err != nil {
		return fmt.Errorf("unable to reset %s to %s, caused by following error: %w", refName, commitID.String(), cause)
	}
	return cause
}

// listRefs returns a sorted snapshot of all references.
func (m *memStore) listRefs() [][2]string {
	m.mu.Lock()
	defer m.mu.Unlock()
	out := [][2]string{}
	for k, v := range m.refs {
		out = append(out, [2]string{k, v.String()})
	}
	sort.Slice(out, func(i, j int) bool { return out[i][0] < out[j][0] })
	return out
}

var _ gitstore.Storer = (*memStore)(nil)
