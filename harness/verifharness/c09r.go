//go:build verif

package main

// C09, code-review approvals: latest-only verification of a push whose approvals come (partly) from
// pull-request approval attestations of code-review apps.

import (
	"context"
	"fmt"
	"math/rand"
	"sort"
	"strings"

	"github.com/gittuf/gittuf/internal/policy"
)

var c09Apps = []string{"github-a", "github-b"}

func appNum(name string) int {
	for i, a := range c09Apps {
		if a == name {
			return i + 1
		}
	}
	return 0
}

func identNum(id string) int {
	var n int
	if _, err := fmt.Sscanf(id, "user%d", &n); err != nil {
		fmt.Sscanf(id, "p%d", &n) // a person's policy id used as a code-review login
	}
	return n
}

func genReviewCase(c *runCtx, r *rand.Rand, idx int) error {
	// policy: persons 101..104 (keys 4..7) with identities; apps a (key 9) and b (key 10)
	t := &wFile{Version: 2, Signers: []int{2}}
	t.Name = "targets"
	t.Defs = map[int][]int{101: {4}, 102: {5}, 103: {6}, 104: {7}}
	t.Idents = map[int]map[string]string{}
	identTerms := []string{}
	m := 1 + r.Intn(4)
	pids := []int{}
	inRule := map[int]bool{}
	for _, x := range r.Perm(4)[:m] {
		pids = append(pids, 101+x)
		inRule[101+x] = true
	}
	// several principals may claim one identity - but not two principals of the rule under test: one approval
	// counts for one principal, and which of the claimants that is follows Go's map order over the rule's
	// principal set (as with shared keys, that is left out of the generated histories)
	heldInRule := map[string]int{}
	for pid := 101; pid <= 104; pid++ {
		for ai, a := range c09Apps {
			if r.Intn(3) != 0 {
				id := fmt.Sprintf("user%d", 200+pid-100+10*ai)
				if r.Intn(8) == 0 {
					id = "user201"
				}
				if inRule[pid] {
					if other, held := heldInRule[id]; held && other != pid {
						id = fmt.Sprintf("user%d", 220+pid-100+10*ai) // an identity nobody else has
					}
					heldInRule[id] = pid
				}
				if t.Idents[pid] == nil {
					t.Idents[pid] = map[string]string{}
				}
				t.Idents[pid][a] = id
				identTerms = append(identTerms, fmt.Sprintf("(%d%%N, %d%%N, %d%%N)", pid, ai+1, identNum(id)))
			}
		}
	}
	thr := 1 + r.Intn(min(3, m))
	t.Rules = []hRule{{Name: "protect-main", Patterns: []string{"git:" + refMain}, Pids: pids, Thr: thr}}
	apps := []wApp{{Name: c09Apps[0], Trusted: r.Intn(5) != 0, Key: 9}}
	if r.Intn(2) == 0 {
		apps = append(apps, wApp{Name: c09Apps[1], Trusted: r.Intn(2) == 0, Key: 10})
	}
	t0 := &wFile{Version: 1, Signers: []int{2}}
	t0.Name = "targets"
	t0.Defs = map[int][]int{101: {4}}
	t0.Rules = []hRule{{Name: "protect-main", Patterns: []string{"git:" + refMain}, Pids: []int{101}, Thr: 1}}
	p0 := &wPolicy{RootVersion: 1, RootKeys: []int{1}, RootThr: 1, TargetsKeys: []int{2}, TargetsThr: 1, HasTargetsRole: true, RootSigners: []int{1}, Files: []*wFile{t0}}
	p1 := &wPolicy{RootVersion: 2, RootKeys: []int{1}, RootThr: 1, TargetsKeys: []int{2}, TargetsThr: 1, HasTargetsRole: true, RootSigners: []int{1}, Files: []*wFile{t}, Apps: apps}
	w := &wWorld{Commits: []wCommit{{ID: 1, Tree: 1}, {ID: 2, Tree: 2, Parents: []int{1}}, {ID: 3, Tree: 3, Parents: []int{2}}, {ID: 4, Tree: 4, Parents: []int{2}}}}
	w.Events = append(w.Events, wEvent{Kind: "policy", Pol: p0, Signer: 1}, wEvent{Kind: "ref", Ref: refMain, Commit: 2, Signer: 4}, wEvent{Kind: "policy", Pol: p1, Signer: 1})
	// approvals for the change main: c2 -> tree 3
	auths := []wAuthz{}
	if r.Intn(2) == 0 {
		ns := r.Intn(3)
		signers := []int{}
		for _, x := range r.Perm(4)[:ns] {
			signers = append(signers, 4+x)
		}
		auths = append(auths, wAuthz{Ref: refMain, From: 2, To: 3, PathRef: refMain, PathFrom: 2, PathTo: 3, Signers: signers})
	}
	reviews := []wReview{}
	revTerms, hrev := []string{}, []string{}
	for _, a := range apps {
		if r.Intn(4) == 0 {
			continue
		}
		na := 1 + r.Intn(3)
		approvers := []string{}
		reg := []string{} // identities the rule's principals registered, under whichever app
		for _, pid := range pids {
			for _, an := range c09Apps {
				if id, ok := t.Idents[pid][an]; ok {
					reg = append(reg, id)
				}
			}
		}
		sort.Strings(reg)
		for _, x := range r.Perm(8)[:na] {
			id := fmt.Sprintf("user%d", []int{201, 202, 203, 204, 211, 212, 213, 299}[x])
			if len(reg) > 0 && r.Intn(3) != 0 {
				id = reg[r.Intn(len(reg))]
			}
			if r.Intn(4) == 0 { // a login that happens to equal a person's policy id (preferably one who registered nothing for this app)
				cand := pids[r.Intn(len(pids))]
				for _, pid := range pids {
					if _, ok := t.Idents[pid][a.Name]; !ok {
						cand = pid
					}
				}
				id = personID(cand)
			}
			dup := false
			for _, y := range approvers {
				dup = dup || y == id
			}
			if !dup {
				approvers = append(approvers, id)
			}
		}
		rv := wReview{App: a.Name, Ref: refMain, From: 2, To: 3, PathRef: refMain, PathFrom: 2, PathTo: 3, Approvers: approvers, Signers: []int{a.Key}}
		switch r.Intn(9) {
		case 0: // an approval of another change, stored under this change
			rv.To = 4
		case 1:
			rv.From = 1
		case 2:
			rv.Ref = refFeat
		case 3: // stored under another change: not found for this one
			rv.PathTo = 4
		case 4: // signed by somebody else
			rv.Signers = []int{4 + r.Intn(4)}
		case 5: // signed by the other app's key, stored in this app's slot
			rv.Signers = []int{19 - a.Key}
		case 6:
			rv.Signers = nil
		}
		reviews = append(reviews, rv)
		at := []string{}
		for _, x := range rv.Approvers {
			at = append(at, fmt.Sprintf("%d%%N", identNum(x)))
		}
		revTerms = append(revTerms, fmt.Sprintf("{| rv_app := %d%%N; rv_ref := %s; rv_from := %d%%N; rv_to := %d%%N; rv_path_ref := %s; rv_path_from := %d%%N; rv_path_to := %d%%N; rv_approvers := %s; rv_signers := %s |}",
			appNum(rv.App), coqStr(rv.Ref), rv.From, rv.To, coqStr(rv.PathRef), rv.PathFrom, rv.PathTo, coqList(at), coqKeys(rv.Signers)))
		hrev = append(hrev, fmt.Sprintf("%+v", rv))
	}
	if len(auths) > 0 || len(reviews) > 0 {
		w.Events = append(w.Events, wEvent{Kind: "attest", Auths: auths, Reviews: reviews, Signer: 4})
	}
	signer := []int{4, 5, 6, 7, 8, 0}[r.Intn(6)]
	w.Events = append(w.Events, wEvent{Kind: "ref", Ref: refMain, Commit: 3, Signer: signer})
	b, err := buildWorld(w)
	if err != nil {
		return err
	}
	var obs, oh string
	func() {
		defer func() {
			if rec := recover(); rec != nil {
				obs, oh = "VPanic", fmt.Sprint("panic: ", rec)
			}
		}()
		tip, err := policy.NewPolicyVerifier(b.m).VerifyRef(context.Background(), refMain)
		obs, oh = b.voutOf(tip, err)
	}()
	appTerms := []string{}
	for _, a := range apps {
		appTerms = append(appTerms, fmt.Sprintf("{| a_name := %d%%N; a_trusted := %s; a_keys := [%d%%N]; a_thr := 1%%Z |}", appNum(a.Name), coqBool(a.Trusted), a.Key))
	}
	sort.Strings(identTerms)
	def := fmt.Sprintf("rw%d", idx)
	c.defs = append(c.defs, fmt.Sprintf("Definition %s : rworld := {| rw_world := %s; rw_apps := %s; rw_idents := %s; rw_reviews := %s |}.",
		def, w.coq(), coqList(appTerms), coqList(identTerms), coqList(revTerms)))
	term := fmt.Sprintf("(WReview %s %s %s)", def, coqStr(refMain), obs)
	c.add(term, sideCase{Class: "C09/reviews/" + strings.Split(strings.Trim(obs, "()"), " ")[0], Nontrivial: len(reviews) > 0, Key: keyOf(fmt.Sprint(w.human(), hrev, signer)),
		Human: map[string]interface{}{"world": w.human(), "rule": fmt.Sprintf("protect-main pids=%v thr=%d", pids, thr), "apps": fmt.Sprintf("%+v", apps),
			"identities": fmt.Sprint(t.Idents), "reviews": hrev, "push_signer": signer, "observed": oh}})
	return nil
}
