//go:build verif

package main

// C12, API level: the root-of-trust mutators of experimental/gittuf (AddRootKey, RemoveRootKey,
// UpdateRootThreshold, SignRoot) called by signers inside and outside the root role of the state being
// edited, interleaved with Apply, on a real repository.  After every call the staged root is read back.

import (
	"context"
	"errors"
	"fmt"
	"os"
	"path/filepath"
	"sort"

	gittuf "github.com/gittuf/gittuf/experimental/gittuf"
	trustpolicyopts "github.com/gittuf/gittuf/experimental/gittuf/options/trustpolicy"
	"github.com/gittuf/gittuf/internal/policy"
	policyopts "github.com/gittuf/gittuf/internal/policy/options/policy"
	sshsv "github.com/gittuf/gittuf/internal/signerverifier/ssh"
	"github.com/gittuf/gittuf/internal/tuf"
	"github.com/gittuf/gittuf/pkg/rsl"
)

func c12ApiCase(c *runCtx, ci int) error {
	r := c.rng
	ctx := context.Background()
	gi, dir, err := newRealRepo(c, fmt.Sprintf("c12api-%d", ci), true)
	if err != nil {
		return err
	}
	defer os.RemoveAll(dir)
	keyIdx := map[string]int{}
	for k := 1; k <= 8; k++ {
		keyIdx[poolKeyN(k).SSLib.KeyID] = k
	}
	// initial state: root role over a subset of keys {1,3,5}, signed by all of them
	rootPool := []int{1, 3, 5}
	nk := 1 + r.Intn(2)
	p0 := &wPolicy{RootVersion: 1, TargetsKeys: []int{2}, TargetsThr: 1, HasTargetsRole: true}
	for _, i := range r.Perm(3)[:nk] {
		p0.RootKeys = append(p0.RootKeys, rootPool[i])
	}
	sort.Ints(p0.RootKeys)
	p0.RootThr = 1 + r.Intn(nk)
	p0.RootSigners = append([]int{}, p0.RootKeys...)
	md, err := p0.stateMetadata()
	if err != nil {
		return err
	}
	rsl.VerifResetCache()
	defer rsl.VerifResetCache()
	if err := (&policy.State{Metadata: md}).Commit(gi, "initial", true, false); err != nil {
		return err
	}
	if err := policy.Apply(ctx, gi, false); err != nil {
		return err
	}
	repo, err := gittuf.LoadRepository(dir)
	if err != nil {
		return err
	}
	steps, human := []string{}, []string{}
	lastObs := ""
	outsiderEdits, refusedOutsiders, applies, appliesOK := 0, 0, 0, 0
	nOps := 4 + r.Intn(6)
	for k := 0; k < nOps; k++ {
		signer := []int{1, 3, 5, 6, 1, 3}[r.Intn(6)]
		sv := poolKeyN(signer)
		var op, h string
		var opErr error
		pt, _ := gi.GetReference(policy.PolicyRef)
		st, _ := gi.GetReference(policy.PolicyStagingRef)
		x := r.Intn(12)
		if x >= 8 && pt.Equal(st) {
			x = r.Intn(8) // nothing staged: Apply would only re-record the same state
		}
		rsl.VerifResetCache()
		switch {
		case x < 3:
			nk := rootPool[r.Intn(3)]
			op, h = fmt.Sprintf("(RAddKey %d%%N)", nk), fmt.Sprintf("AddRootKey(%d) by %d", nk, signer)
			opErr = repo.AddRootKey(ctx, sv, keyPrincipal(nk), false, trustpolicyopts.WithRSLEntry())
		case x < 5:
			rk := rootPool[r.Intn(3)]
			op, h = fmt.Sprintf("(RRemoveKey %d%%N)", rk), fmt.Sprintf("RemoveRootKey(%d) by %d", rk, signer)
			opErr = repo.RemoveRootKey(ctx, sv, poolKeyN(rk).SSLib.KeyID, false, trustpolicyopts.WithRSLEntry())
		case x < 7:
			t := r.Intn(4)
			op, h = fmt.Sprintf("(RSetThreshold (%d)%%Z)", t), fmt.Sprintf("UpdateRootThreshold(%d) by %d", t, signer)
			opErr = repo.UpdateRootThreshold(ctx, sv, t, false, trustpolicyopts.WithRSLEntry())
		case x < 8:
			op, h = "RSign", fmt.Sprintf("SignRoot by %d", signer)
			opErr = repo.SignRoot(ctx, sv, false, trustpolicyopts.WithRSLEntry())
		default:
			op, h = "RApply", "Apply"
			opErr = policy.Apply(ctx, gi, false)
			applies++
			if opErr == nil {
				appliesOK++
			}
		}
		rsl.VerifResetCache()
		code := 0
		switch {
		case opErr == nil:
		case errors.Is(opErr, gittuf.ErrUnauthorizedKey):
			code = 1
		case errors.Is(opErr, tuf.ErrCannotMeetThreshold):
			code = 2
		case errors.Is(opErr, tuf.ErrInvalidThreshold):
			code = 3
		case op == "RApply":
			code = 4
		default:
			code = 9
		}
		// read the staged root back
		staged, err := policy.LoadCurrentState(ctx, gi, policy.PolicyStagingRef, policyopts.BypassRSL())
		if err != nil {
			return fmt.Errorf("reading staged state: %w", err)
		}
		rm, err := staged.GetRootMetadata(false)
		if err != nil {
			return err
		}
		prs, err := rm.GetRootPrincipals()
		if err != nil {
			return err
		}
		keys := []int{}
		for _, p := range prs {
			keys = append(keys, keyIdx[p.ID()])
		}
		sort.Ints(keys)
		thr, err := rm.GetRootThreshold()
		if err != nil {
			return err
		}
		sigs := []int{}
		for _, s := range staged.Metadata.RootEnvelope.Signatures {
			sigs = append(sigs, keyIdx[s.KeyID])
		}
		sort.Ints(sigs)
		pt, _ = gi.GetReference(policy.PolicyRef)
		st, _ = gi.GetReference(policy.PolicyStagingRef)
		_, lerr := policy.LoadCurrentState(ctx, gi, policy.PolicyRef)
		rsl.VerifResetCache()
		lastObs = fmt.Sprintf("ao_keys := %s; ao_thr := (%d)%%Z; ao_version := %d%%N; ao_signers := %s; ao_applied := %s; ao_loadable := %s |}",
			coqKeys(keys), thr, rm.GetVersion(), coqKeys(sigs), coqBool(pt.Equal(st)), coqBool(lerr == nil))
		steps = append(steps, fmt.Sprintf("(%d%%N, %s, {| ao_err := %d; %s)", signer, op, code, lastObs))
		human = append(human, fmt.Sprintf("%s => %v | staged root: keys %v threshold %d version %d signatures %v; policy==staging %v; policy loadable %v", h, opErr, keys, thr, rm.GetVersion(), sigs, pt.Equal(st), lerr == nil))
		if code == 1 {
			refusedOutsiders++
		}
		if op != "RSign" && op != "RApply" {
			outsiderEdits++
		}
	}
	// one case in three ends with InitializeRoot on the initialised repository, by a root key or by an outsider,
	// half of the time after the staging reference has been deleted (tampering; a clone that fetched only the
	// applied policy looks the same)
	reinit := ""
	if r.Intn(3) == 0 && lastObs != "" {
		signer := []int{1, 3, 5, 6, 6}[r.Intn(5)]
		keyPath := filepath.Join(c.outDir, fmt.Sprintf("c12api-key-%d", signer))
		if err := os.WriteFile(keyPath, poolKeyN(signer).PEM, 0o600); err != nil {
			return err
		}
		defer os.Remove(keyPath)
		sshSigner, err := sshsv.NewSignerFromFile(keyPath)
		if err != nil {
			return fmt.Errorf("ssh signer: %w", err)
		}
		deleted := r.Intn(2) == 0
		if deleted {
			if _, err := gitOut(dir, "update-ref", "-d", policy.PolicyStagingRef); err != nil {
				return err
			}
		}
		rsl.VerifResetCache()
		ierr := repo.InitializeRoot(ctx, sshSigner, false)
		rsl.VerifResetCache()
		code := 9
		switch {
		case ierr == nil:
			code = 0
		case errors.Is(ierr, gittuf.ErrCannotReinitialize):
			code = 5
		}
		steps = append(steps, fmt.Sprintf("(%d%%N, RInit, {| ao_err := %d; %s)", signer, code, lastObs))
		reinit = fmt.Sprintf("InitializeRoot by %d (staging reference deleted first: %v) => %v", signer, deleted, ierr)
		human = append(human, reinit)
	}
	term := fmt.Sprintf("(C12Api %s %s)", p0.coq(), coqList(steps))
	c.add(term, sideCase{Class: "api-root-mutators", Nontrivial: refusedOutsiders > 0 || appliesOK > 0, Key: keyOf(term),
		Human: map[string]interface{}{"initial_root": fmt.Sprintf("keys %v threshold %d", p0.RootKeys, p0.RootThr), "calls": human,
			"refused_as_unauthorized": refusedOutsiders, "applies": applies, "applies_succeeded": appliesOK}})
	return nil
}
