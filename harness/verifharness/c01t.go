//go:build verif

package main

// C01, tag references: a tag reference with 1-3 recorded entries (annotated, signed or unsigned tag
// objects), a rule over refs/tags/* with threshold 1-3, approvals for tags, verified in full.

import (
	"context"
	"fmt"
	"math/rand"
	"strings"

	"github.com/gittuf/gittuf/internal/policy"
)

const refTag = "refs/tags/v1"

func genTagCase(c *runCtx, r *rand.Rand, idx int) error { return genTagCaseG(c, r, idx, false) }

// genTagCaseG: with mono, the same history is also verified under the policy plus 1-2 global rules (C11).
func genTagCaseG(c *runCtx, r *rand.Rand, idx int, mono bool) error {
	m := 1 + r.Intn(4)
	pids := []int{}
	for _, x := range r.Perm(4)[:m] {
		pids = append(pids, 101+x)
	}
	thr := 1 + r.Intn(min(3, m))
	t := &wFile{Version: 1, Signers: []int{2}}
	t.Name = "targets"
	t.Defs = map[int][]int{101: {4}, 102: {5}, 103: {6}, 104: {7}}
	pat := []string{"git:refs/tags/*", "git:" + refTag}[r.Intn(2)]
	t.Rules = []hRule{{Name: "protect-tags", Patterns: []string{pat}, Pids: pids, Thr: thr}}
	pol := &wPolicy{RootVersion: 1, RootKeys: []int{1}, RootThr: 1, TargetsKeys: []int{2}, TargetsThr: 1, HasTargetsRole: true, RootSigners: []int{1}, Files: []*wFile{t}}
	w := &wWorld{Commits: []wCommit{{ID: 1, Tree: 1}, {ID: 2, Tree: 2, Parents: []int{1}}, {ID: 3, Tree: 3, Parents: []int{2}}}}
	// lightweight tags: the entries name commits (signed like tag objects would be), so a moved tag
	// reference does not by itself invalidate the older entries
	light := r.Intn(2) == 0
	for i := range w.Commits {
		w.Commits[i].Files = map[string]int{"f": i + 1}
	}
	w.Events = append(w.Events, wEvent{Kind: "policy", Pol: pol, Signer: 1})
	n := 1 + r.Intn(3)
	prev := 0
	tagTerms := []string{}
	var auths []wAuthz
	lastTag := 0
	authKeys := []int{}
	for _, p := range pids {
		authKeys = append(authKeys, devKey(p))
	}
	// half of the cases are mostly well formed: every entry but possibly the last is fully approved
	tidy := r.Intn(2) == 0
	if tidy && n == 1 {
		n = 2
	}
	for k := 0; k < n; k++ {
		tagNum := 1000 + k
		commit := 1 + r.Intn(3)
		tagSigner := []int{authKeys[r.Intn(len(authKeys))], authKeys[r.Intn(len(authKeys))], 4 + r.Intn(5), 0}[r.Intn(4)]
		// approvals: how many further authorised principals approve this tag
		na := r.Intn(len(authKeys) + 1)
		if tidy {
			tagSigner = authKeys[r.Intn(len(authKeys))]
			na = len(authKeys)
			if k == n-1 {
				na = r.Intn(len(authKeys) + 1)
			}
			if mono && k == n-1 && r.Intn(2) == 0 {
				// a fully approved entry recorded by an authorised key, for a tag object that nobody trusted signed
				tagSigner, na = []int{8, 0}[r.Intn(2)], len(authKeys)
			}
		}
		signers := []int{}
		for _, x := range r.Perm(len(authKeys))[:na] {
			signers = append(signers, authKeys[x])
		}
		if !tidy && r.Intn(6) == 0 {
			signers = append(signers, 8)
		}
		if len(signers) > 0 {
			a := wAuthz{ForTag: true, Ref: refTag, From: prev, To: commit, PathRef: refTag, PathFrom: prev, PathTo: commit, Signers: signers}
			if !tidy && r.Intn(8) == 0 {
				a.To = 1 + commit%3 // for another commit, stored at this one's path
			}
			auths = append([]wAuthz{a}, auths...)
			w.Events = append(w.Events, wEvent{Kind: "attest", Auths: auths, Signer: 4})
		}
		signer := []int{authKeys[r.Intn(len(authKeys))], authKeys[r.Intn(len(authKeys))], authKeys[r.Intn(len(authKeys))], 8, 0}[r.Intn(5)]
		if tidy {
			signer = authKeys[r.Intn(len(authKeys))]
		}
		if light {
			commit = 1 + k // distinct commits, each signed like the tag object would be
			w.Commits[commit-1].Signer = tagSigner
			if len(signers) > 0 { // re-address the approval: from = the previously tagged commit
				ev := &w.Events[len(w.Events)-1]
				ev.Auths[0].From, ev.Auths[0].PathFrom = prev, prev
				if ev.Auths[0].To != ev.Auths[0].PathTo {
					ev.Auths[0].To = 1 + commit%3
				} else {
					ev.Auths[0].To = commit
				}
				ev.Auths[0].PathTo = commit
			}
			w.Events = append(w.Events, wEvent{Kind: "ref", Ref: refTag, Commit: commit, Signer: signer})
			tagTerms = append(tagTerms, fmt.Sprintf("(%d%%N, {| tg_target := %d%%N; tg_signer := %d%%N |})", commit, commit, tagSigner))
			prev = commit
			lastTag = commit
			continue
		}
		w.Events = append(w.Events, wEvent{Kind: "tag", Ref: refTag, TagNum: tagNum, Commit: commit, TagSigner: tagSigner, Signer: signer, NoSetRef: !tidy && k < n-1 && r.Intn(4) == 0})
		tagTerms = append(tagTerms, fmt.Sprintf("(%d%%N, {| tg_target := %d%%N; tg_signer := %d%%N |})", tagNum, commit, tagSigner))
		prev = tagNum
		if !w.Events[len(w.Events)-1].NoSetRef {
			lastTag = tagNum
		}
	}
	b, err := buildWorld(w)
	if err != nil {
		return err
	}
	var obs, oh string
	func() {
		defer func() {
			if rec := recover(); rec != nil {
				obs, oh = "VPanic", fmt.Sprint("panic: ", rec)
			}
		}()
		tip, err := policy.NewPolicyVerifier(b.m).VerifyRefFull(context.Background(), refTag)
		obs, oh = b.voutOf(tip, err)
	}()
	now := "None"
	if lastTag != 0 {
		now = fmt.Sprintf("(Some %d%%N)", lastTag)
	}
	def := fmt.Sprintf("tw%d", idx)
	c.defs = append(c.defs, fmt.Sprintf("Definition %s : tworld := {| tw_world := %s; tw_tags := %s; tw_ref_now := %s |}.", def, w.coq(), coqList(tagTerms), now))
	term := fmt.Sprintf("(WTags %s %s %s)", def, coqStr(refTag), obs)
	if mono {
		wg := &wWorld{Commits: w.Commits}
		for _, e := range w.Events {
			e2 := e
			if e.Pol != nil {
				e2.Pol = clonePolicy(e.Pol)
				e2.Pol.Globals = genGlobals(r, 1+r.Intn(2), "")
			}
			wg.Events = append(wg.Events, e2)
		}
		bg, err := buildWorld(wg)
		if err != nil {
			return err
		}
		var obsG, ohG string
		func() {
			defer func() {
				if rec := recover(); rec != nil {
					obsG, ohG = "VPanic", fmt.Sprint("panic: ", rec)
				}
			}()
			tip, err := policy.NewPolicyVerifier(bg.m).VerifyRefFull(context.Background(), refTag)
			obsG, ohG = bg.voutOf(tip, err)
		}()
		term = fmt.Sprintf("(WTagsMono %s %s %s %s)", def, coqStr(refTag), obsG, obs)
		c.add(term, sideCase{Class: "C11/tags/" + strings.Split(strings.Trim(obsG, "()"), " ")[0] + "-vs-" + strings.Split(strings.Trim(obs, "()"), " ")[0], Nontrivial: true, Key: keyOf(fmt.Sprint(wg.human())),
			Human: map[string]interface{}{"world": w.human(), "rule": fmt.Sprintf("protect-tags %s pids=%v thr=%d", pat, pids, thr), "global_rules_added": fmt.Sprint(wg.Events[0].Pol.Globals),
				"observed_with_global_rules": ohG, "observed_without": oh}})
		return nil
	}
	c.add(term, sideCase{Class: "C01/tags/" + strings.Split(strings.Trim(obs, "()"), " ")[0], Nontrivial: n >= 2 || strings.HasPrefix(obs, "(VFail"), Key: keyOf(fmt.Sprint(w.human())),
		Human: map[string]interface{}{"world": w.human(), "rule": fmt.Sprintf("protect-tags %s pids=%v thr=%d", pat, pids, thr), "observed": oh}})
	return nil
}
