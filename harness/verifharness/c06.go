//go:build verif

package main

import (
	"errors"
	"fmt"
	"math/rand"
	"sort"
	"strings"

	"github.com/gittuf/gittuf/internal/common/set"
	"github.com/gittuf/gittuf/internal/policy"
	"github.com/gittuf/gittuf/internal/signerverifier/dsse"
	sslibdsse "github.com/gittuf/gittuf/internal/third_party/go-securesystemslib/dsse"
	"github.com/gittuf/gittuf/internal/tuf"
	tufv02 "github.com/gittuf/gittuf/internal/tuf/v02"
)

func init() { props["C06"] = runC06 }

type hRule struct {
	Name     string
	Patterns []string
	Term     bool
	Pids     []int
	Thr      int
}

type hFile struct {
	Name  string
	Defs  map[int][]int // principal id -> key indices
	Rules []hRule       // without the allow rule
	NoAllow bool        // hand-built oddity: file without trailing allow rule
	Idents  map[int]map[string]string // principal id -> app name -> identity registered for that app
}

func personID(i int) string { return fmt.Sprintf("p%d", i) }

func (f *hFile) metadata() *tufv02.TargetsMetadata {
	t := tufv02.NewTargetsMetadata()
	t.Delegations = &tufv02.Delegations{Principals: map[string]tuf.Principal{}, Roles: []*tufv02.Delegation{}}
	for pid, keys := range f.Defs {
		p := &tufv02.Person{PersonID: personID(pid), PublicKeys: map[string]*tufv02.Key{}}
		if ids, ok := f.Idents[pid]; ok {
			p.AssociatedIdentities = map[string]string{}
			for a, i := range ids {
				p.AssociatedIdentities[a] = i
			}
		}
		for _, k := range keys {
			p.PublicKeys[poolKeyN(k).SSLib.KeyID] = tufv02.NewKeyFromSSLibKey(poolKeyN(k).SSLib)
		}
		t.Delegations.Principals[personID(pid)] = p
	}
	for _, r := range f.Rules {
		ids := []string{}
		for _, p := range r.Pids {
			ids = append(ids, personID(p))
		}
		t.Delegations.Roles = append(t.Delegations.Roles, &tufv02.Delegation{Name: r.Name, Paths: r.Patterns, Terminating: r.Term,
			Role: tufv02.Role{PrincipalIDs: set.NewSetFromItems(ids...), Threshold: r.Thr}})
	}
	if !f.NoAllow {
		t.Delegations.Roles = append(t.Delegations.Roles, tufv02.AllowRule())
	}
	return t
}

func (f *hFile) coq() string {
	defs := []string{}
	pids := []int{}
	for p := range f.Defs {
		pids = append(pids, p)
	}
	sort.Ints(pids)
	for _, p := range pids {
		ks := append([]int{}, f.Defs[p]...)
		sort.Ints(ks)
		kt := []string{}
		for _, k := range ks {
			kt = append(kt, fmt.Sprintf("%d%%N", k))
		}
		defs = append(defs, fmt.Sprintf("(%d%%N, %s)", p, coqList(kt)))
	}
	rules := []string{}
	for _, r := range f.Rules {
		ps := append([]int{}, r.Pids...)
		sort.Ints(ps)
		pt := []string{}
		for _, p := range ps {
			pt = append(pt, fmt.Sprintf("%d%%N", p))
		}
		pats := []string{}
		for _, p := range r.Patterns {
			pats = append(pats, coqStr(p))
		}
		rules = append(rules, fmt.Sprintf("{| r_name := %s; r_patterns := %s; r_term := %s; r_pids := %s; r_thr := (%d)%%Z |}",
			coqStr(r.Name), coqList(pats), coqBool(r.Term), coqList(pt), r.Thr))
	}
	if !f.NoAllow {
		rules = append(rules, fmt.Sprintf("{| r_name := %s; r_patterns := [%s]; r_term := true; r_pids := []; r_thr := 1%%Z |}", coqStr(tuf.AllowRuleName), coqStr("*")))
	}
	return fmt.Sprintf("(%s, {| f_defs := %s; f_rules := %s |})", coqStr(f.Name), coqList(defs), coqList(rules))
}

var c06Patterns = []string{"git:refs/heads/main", "git:refs/heads/*", "*", "file:src/*", "file:*", "git:refs/heads/m?in", "git:refs/tags/*",
	"git:*", "file:docs/*", "git:refs/heads/feat*", "**", "git:refs/heads/\\main", "file:src/*.go", "git:refs/heads/ma*n", "", "?it:*"}
var c06Paths = []string{"git:refs/heads/main", "git:refs/heads/feature", "git:refs/tags/v1", "file:src/a.go", "file:docs/x", "file:src/sub/b.txt", "git:refs/heads/main2", "",
	// near misses of the prefix patterns: the bare prefix and look-alike siblings
	"file:src", "file:src-old/main.go", "file:src.bak/docs/x", "file:srcs/a.go", "git:refs/heads", "git:refs/heads-archive/main", "git:refs/tagsx/v1", "file:docs", "file:docsx/y",
	"git:refs/heads/", "file:src/", "git:refs/heads/feat", "GIT:refs/heads/main", "file:src/a.go/", "git:refs/heads/main/sub"}

func genPolicy(r *rand.Rand, oddities bool) []*hFile {
	nFiles := 1 + r.Intn(4)
	names := []string{"targets"}
	ruleCounter := 0
	files := []*hFile{}
	pidCounter := 1
	// rule names are allocated first so that later files can be named after rules of earlier ones
	for fi := 0; fi < nFiles; fi++ {
		f := &hFile{Name: names[fi], Defs: map[int][]int{}}
		nRules := r.Intn(4)
		nDefs := 1 + r.Intn(3)
		for d := 0; d < nDefs; d++ {
			pid := pidCounter
			pidCounter++
			if oddities && r.Intn(6) == 0 && pid > 1 {
				pid = 1 + r.Intn(pid-1) // redefine an id another file uses
			}
			nk := 1 + r.Intn(2)
			keys := []int{}
			for k := 0; k < nk; k++ {
				keys = append(keys, 1+r.Intn(6))
			}
			sort.Ints(keys)
			if len(keys) == 2 && keys[0] == keys[1] {
				keys = keys[:1]
			}
			f.Defs[pid] = keys
		}
		defIDs := []int{}
		for p := range f.Defs {
			defIDs = append(defIDs, p)
		}
		sort.Ints(defIDs)
		for ri := 0; ri < nRules; ri++ {
			ruleCounter++
			name := fmt.Sprintf("r%d", ruleCounter)
			if oddities {
				switch r.Intn(10) {
				case 0:
					name = names[r.Intn(len(names))] // cycle: a rule named like a file (incl. "targets")
				case 1:
					if ruleCounter > 1 {
						name = fmt.Sprintf("r%d", 1+r.Intn(ruleCounter-1)) // duplicate rule name (diamond)
					}
				}
			}
			np := 1 + r.Intn(len(defIDs))
			perm := r.Perm(len(defIDs))[:np]
			pids := []int{}
			for _, i := range perm {
				pids = append(pids, defIDs[i])
			}
			npat := 1 + r.Intn(2)
			pats := []string{}
			for k := 0; k < npat; k++ {
				pats = append(pats, c06Patterns[r.Intn(len(c06Patterns))])
			}
			f.Rules = append(f.Rules, hRule{Name: name, Patterns: pats, Term: r.Intn(3) == 0, Pids: pids, Thr: 1 + r.Intn(np)})
			if len(names) < nFiles && r.Intn(2) == 0 {
				dup := false
				for _, n := range names {
					if n == name {
						dup = true
					}
				}
				if !dup {
					names = append(names, name)
				}
			}
		}
		if oddities && r.Intn(12) == 0 {
			f.NoAllow = true
		}
		files = append(files, f)
		if len(names) <= fi+1 && fi+1 < nFiles {
			// no rule delegated: name the next file after some future/unknown rule (unreachable file)
			names = append(names, fmt.Sprintf("orphan%d", fi))
		}
	}
	if oddities && r.Intn(15) == 0 {
		files = files[1:] // no targets role at all
	}
	return files
}

func runC06(c *runCtx) error {
	c.coqImport = "C06Check"
	c.caseType = "c06case"
	c.checkFn = "c06_check"
	c.consts = append(c.consts, fmt.Sprintf("beq TargetsRole %s", coqStr(policy.TargetsRoleName)))
	r := c.rng
	pi := 0
	directed := [][]*hFile{
		{ // a delegated file redefines a principal id that a later rule of the parent file names
			{Name: "targets", Defs: map[int][]int{1: {1}, 2: {2}}, Rules: []hRule{
				{Name: "r1", Patterns: []string{"file:docs/*"}, Pids: []int{2}, Thr: 1},
				{Name: "r2", Patterns: []string{"file:*"}, Pids: []int{1}, Thr: 1}}},
			{Name: "r1", Defs: map[int][]int{1: {3}}, Rules: []hRule{{Name: "r3", Patterns: []string{"file:docs/*"}, Pids: []int{1}, Thr: 1}}},
		},
	}
	for len(c.cases) < c.n {
		odd := r.Intn(4) == 0
		files := genPolicy(r, odd)
		if pi < len(directed) {
			files, odd = directed[pi], false
		}
		meta := &policy.StateMetadata{DelegationEnvelopes: map[string]*sslibdsse.Envelope{}}
		polTerms := []string{}
		hfiles := []string{}
		for _, f := range files {
			env, err := dsse.CreateEnvelope(f.metadata())
			if err != nil {
				return err
			}
			if f.Name == "targets" {
				meta.TargetsEnvelope = env
			} else if _, dup := meta.DelegationEnvelopes[f.Name]; !dup {
				meta.DelegationEnvelopes[f.Name] = env
			} else {
				continue
			}
			polTerms = append(polTerms, f.coq())
			rs := []string{}
			for _, x := range f.Rules {
				rs = append(rs, fmt.Sprintf("%s%v term=%v thr=%d pids=%v", x.Name, x.Patterns, x.Term, x.Thr, x.Pids))
			}
			hfiles = append(hfiles, fmt.Sprintf("%s defs=%v rules=[%s] noallow=%v", f.Name, f.Defs, strings.Join(rs, "; "), f.NoAllow))
		}
		polDef := fmt.Sprintf("pol%d", pi)
		pi++
		c.defs = append(c.defs, fmt.Sprintf("Definition %s : policy := %s.", polDef, coqList(polTerms)))
		keyIdx := map[string]int{}
		for k := 1; k <= 6; k++ {
			keyIdx[poolKeyN(k).SSLib.KeyID] = k
		}
		for _, path := range c06Paths {
			if len(c.cases) >= c.n {
				break
			}
			state := &policy.State{Metadata: meta}
			var obs, oh string
			func() {
				defer func() {
					if rec := recover(); rec != nil {
						obs, oh = "OWPanic", fmt.Sprint("panic: ", rec)
					}
				}()
				vs, err := state.FindVerifiersForPath(path)
				if err != nil {
					if errors.Is(err, policy.ErrMetadataNotFound) {
						obs, oh = "(OW WNoPolicy)", "no policy"
					} else {
						obs, oh = "(OW WFuel)", "error: "+err.Error()
					}
					return
				}
				vt, vh := []string{}, []string{}
				for _, v := range vs {
					prs := []string{}
					type pk struct {
						id   int
						keys []int
						def  bool
					}
					list := []pk{}
					for _, p := range policy.VerifVerifierPrincipals(v) {
						if p == nil {
							list = append(list, pk{id: -1})
							continue
						}
						var id int
						fmt.Sscanf(p.ID(), "p%d", &id)
						ks := []int{}
						for _, k := range p.Keys() {
							ks = append(ks, keyIdx[k.KeyID])
						}
						sort.Ints(ks)
						list = append(list, pk{id: id, keys: ks, def: true})
					}
					// undefined principals: recover their ids from the trusted id set
					ids := v.TrustedPrincipalIDsSafe()
					_ = ids
					sort.Slice(list, func(i, j int) bool { return list[i].id < list[j].id })
					for _, p := range list {
						kt := []string{}
						for _, k := range p.keys {
							kt = append(kt, fmt.Sprintf("%d%%N", k))
						}
						prs = append(prs, fmt.Sprintf("(%d%%N, Some %s)", p.id, coqList(kt)))
					}
					vt = append(vt, fmt.Sprintf("{| vr_name := %s; vr_thr := (%d)%%Z; vr_pr := %s |}", coqStr(v.Name()), v.Threshold(), coqList(prs)))
					vh = append(vh, fmt.Sprintf("%s(thr %d, %d principals)", v.Name(), v.Threshold(), len(list)))
				}
				obs, oh = "(OW (WOk "+coqList(vt)+"))", strings.Join(vh, " ")
			}()
			term := fmt.Sprintf("(C06 %s %s %s)", polDef, coqStr(path), obs)
			cls := "unique-names"
			if odd {
				cls = "oddities(cycles/diamonds/redefinitions)"
			}
			c.add(term, sideCase{Class: cls, Nontrivial: len(files) >= 2, Key: keyOf(fmt.Sprint(hfiles) + path),
				Human: map[string]interface{}{"files": hfiles, "path": path, "observed": oh}})
		}
	}
	return nil
}
