//go:build verif

package main

import (
	"context"
	"fmt"
	"strings"

	"github.com/gittuf/gittuf/internal/cache"
	"github.com/gittuf/gittuf/internal/policy"
	"github.com/gittuf/gittuf/pkg/rsl"
)

func init() { props["C08"] = runC08 }

type c08Query struct {
	ref  string
	mode string
}

var c08Queries = []c08Query{{refMain, "full"}, {refMain, "latest"}, {refFeat, "full"}}

func c08Verify(b *builtWorld, q c08Query) string {
	rsl.VerifResetCache()
	v := policy.NewPolicyVerifier(b.m)
	var obs string
	func() {
		defer func() {
			if rec := recover(); rec != nil {
				obs = "(VFail VEOther)"
			}
		}()
		if q.mode == "full" {
			tip, err := v.VerifyRefFull(context.Background(), q.ref)
			obs, _ = b.voutOf(tip, err)
		} else {
			tip, err := v.VerifyRef(context.Background(), q.ref)
			obs, _ = b.voutOf(tip, err)
		}
	}()
	// only accept/reject and the tip are the verdict
	if strings.HasPrefix(obs, "(VFail") {
		return "(VFail VEOther)"
	}
	return obs
}

func refsExceptCache(b *builtWorld) string {
	out := []string{}
	for _, kv := range b.m.listRefs() {
		if kv[0] != cache.Ref {
			out = append(out, kv[0]+"="+kv[1])
		}
	}
	return strings.Join(out, ",")
}

func runC08(c *runCtx) error {
	c.coqImport = "C08Check"
	c.caseType = "c08case"
	c.checkFn = "c08_check"
	r := c.rng
	for len(c.cases) < c.n {
		w := genWorld(r, "C08")
		n := len(w.Events)
		// baseline: no cache at all
		b0, err := buildWorld(w)
		if err != nil {
			return err
		}
		base := []string{}
		for _, q := range c08Queries {
			base = append(base, c08Verify(b0, q))
		}
		// without any cache: does verification that starts at the reference's latest entry accept it?
		fromTipOK := true
		for i := len(w.Events) - 1; i >= 0; i-- {
			if (w.Events[i].Kind == "ref" || w.Events[i].Kind == "prop") && w.Events[i].Ref == refMain {
				func() {
					defer func() {
						if rec := recover(); rec != nil {
							fromTipOK = false
						}
					}()
					_, ferr := policy.NewPolicyVerifier(b0.m).VerifyRefFromEntry(context.Background(), refMain, b0.entryIDs[i])
					fromTipOK = ferr == nil
				}()
				break
			}
		}
		frameOK := true
		type cfg struct {
			name  string
			kind  int
			obs   []string
		}
		cfgs := []cfg{}
		run := func(name string, kind int, b *builtWorld, order []int, repeat int) {
			before := refsExceptCache(b)
			obs := make([]string, len(c08Queries))
			for rep := 0; rep < repeat; rep++ {
				for _, qi := range order {
					obs[qi] = c08Verify(b, c08Queries[qi])
				}
			}
			if refsExceptCache(b) != before {
				frameOK = false
			}
			cfgs = append(cfgs, cfg{name, kind, obs})
		}
		// freshly populated, verified twice (second run goes through checkpoints and the advanced cache)
		if b, err := buildWorld(w); err == nil {
			if cache.PopulatePersistentCache(b.m) == nil {
				run("fresh", 0, b, []int{0, 2, 1}, 1)
				run("fresh-repeated", 1, b, []int{0, 1, 2}, 1)
			}
		}
		if b, err := buildWorld(w); err == nil {
			if cache.PopulatePersistentCache(b.m) == nil {
				run("fresh-other-order", 1, b, []int{2, 1, 0}, 2)
			}
		}
		// no cache but verified repeatedly in one repository
		if b, err := buildWorld(w); err == nil {
			run("none-repeated", 0, b, []int{0, 1, 2}, 2)
		}
		// populated at an earlier point of the log's growth
		for t := 0; t < 2 && n > 2; t++ {
			k := 1 + r.Intn(n-1)
			b, err := buildWorldHook(w, func(i int, b *builtWorld) error {
				if i == k-1 {
					_ = cache.PopulatePersistentCache(b.m)
				}
				return nil
			})
			if err != nil {
				return err
			}
			order := []int{0, 2, 1} // full verifications before the latest-only one (which would set a checkpoint: that is K8, not K2)
			if t == 1 {
				order = []int{2, 0, 1}
			}
			run(fmt.Sprintf("stale-at-%d-of-%d", k, n), 2, b, order, 1)
		}
		ct := []string{}
		hc := []string{}
		for _, cf := range cfgs {
			ct = append(ct, fmt.Sprintf("(%d, %s)", cf.kind, coqList(cf.obs)))
			hc = append(hc, fmt.Sprintf("%s: %v", cf.name, cf.obs))
		}
		term := fmt.Sprintf("(C08 %s %s %s %s)", coqList(base), coqList(ct), coqBool(frameOK), coqBool(fromTipOK))
		nFail := 0
		for _, o := range base {
			if strings.HasPrefix(o, "(VFail") {
				nFail++
			}
		}
		c.add(term, sideCase{Class: fmt.Sprintf("rejecting-verdicts-%d", nFail), Nontrivial: nFail > 0 || n > 8, Key: keyOf(fmt.Sprint(w.human()) + term),
			Human: map[string]interface{}{"world": w.human(), "baseline(no cache)": base, "configurations": hc, "only_cache_ref_changed": frameOK, "verification_from_the_tip_entry_accepts(no cache)": fromTipOK}})
	}
	return nil
}
