//go:build verif

package main

// C15: reconcile and sync never drop, reorder, un-revoke or invent log entries.  A "remote" and a
// "local" bare repository share a recorded prefix and then diverge; ReconcileLocalRSLWithRemote
// and sync run on copies of the local one; logs and refs are read back by the independent walker.

import (
	"context"
	"errors"
	"fmt"
	"os"
	"os/exec"
	"path/filepath"
	"sort"
	"strings"

	gittuf "github.com/gittuf/gittuf/experimental/gittuf"
	"github.com/gittuf/gittuf/pkg/githash"
	"github.com/gittuf/gittuf/pkg/gitinterface"
	"github.com/gittuf/gittuf/pkg/rsl"
)

func init() { props["C15"] = runC15 }

type mEnt struct {
	kind    string // ref | prop | ann
	ref     string
	target  int
	targets []int // positions in the recording side's own log
	skip    bool
	uprepo  string
	upentry int
}

func (e mEnt) coq() string {
	switch e.kind {
	case "ref":
		return fmt.Sprintf("(LRef %s %d%%N)", coqStr(e.ref), e.target)
	case "prop":
		return fmt.Sprintf("(LProp %s %d%%N %s %d%%N)", coqStr(e.ref), e.target, coqStr(e.uprepo), e.upentry)
	}
	ts := []string{}
	for _, t := range e.targets {
		ts = append(ts, fmt.Sprint(t))
	}
	return fmt.Sprintf("(LAnn %s %s)", coqList(ts), coqBool(e.skip))
}

func (e mEnt) human() string {
	switch e.kind {
	case "ref":
		return fmt.Sprintf("ref %s -> c%d", e.ref, e.target)
	case "prop":
		return fmt.Sprintf("propagation %s -> c%d from %s #%d", e.ref, e.target, e.uprepo, e.upentry)
	}
	return fmt.Sprintf("annotation of positions %v skip=%v", e.targets, e.skip)
}

func coqEnts(es []mEnt) string {
	out := []string{}
	for _, e := range es {
		out = append(out, e.coq())
	}
	return coqList(out)
}

func humanEnts(es []mEnt) []string {
	out := []string{}
	for _, e := range es {
		out = append(out, e.human())
	}
	return out
}

type c15World struct {
	commits  map[int]githash.Hash
	commitOf map[string]int
	graph    map[int][]int
	next     int
}

func (w *c15World) newCommit(dir string, parents []int) (int, error) {
	args := []string{"-C", dir, "commit-tree", "4b825dc642cb6eb9a060e54bf8d69288fbee4904", "-m", fmt.Sprintf("commit %d", w.next)}
	for _, p := range parents {
		args = append(args, "-p", w.commits[p].String())
	}
	cmd := exec.Command("git", args...)
	cmd.Env = append(os.Environ(), "GIT_AUTHOR_DATE=2026-01-01T00:00:00Z", "GIT_COMMITTER_DATE=2026-01-01T00:00:00Z")
	out, err := cmd.Output()
	if err != nil {
		return 0, fmt.Errorf("commit-tree: %w", err)
	}
	h, err := githash.NewHash(strings.TrimSpace(string(out)))
	if err != nil {
		return 0, err
	}
	n := w.next
	w.next++
	w.commits[n] = h
	w.commitOf[h.String()] = n
	w.graph[n] = parents
	return n, nil
}

type c15Side struct {
	gi   *gitinterface.Repository
	dir  string
	ids  []githash.Hash
	ents []mEnt
	refs map[string]int
}

func (s *c15Side) record(w *c15World, e mEnt) error {
	var ent rsl.Entry
	switch e.kind {
	case "ref":
		ent = rsl.NewReferenceEntry(e.ref, w.commits[e.target])
	case "prop":
		ent = rsl.NewPropagationEntry(e.ref, w.commits[e.target], e.uprepo, w.commits[e.upentry])
	default:
		ids := []githash.Hash{}
		for _, t := range e.targets {
			ids = append(ids, s.ids[t])
		}
		// the message is unique per recording: two repositories recording byte-identical entries on the same
		// parent within one second would produce one and the same commit, i.e. a shared entry
		ent = rsl.NewAnnotationEntry(ids, e.skip, fmt.Sprintf("note %s %d", filepath.Base(s.dir), len(s.ents)))
	}
	rsl.VerifResetCache()
	if err := ent.Commit(s.gi, false); err != nil {
		return err
	}
	tip, err := s.gi.GetReference(rsl.Ref)
	if err != nil {
		return err
	}
	s.ids = append(s.ids, tip)
	s.ents = append(s.ents, e)
	if e.kind != "ann" {
		s.refs[e.ref] = e.target
		if _, err := gitOut(s.dir, "update-ref", e.ref, w.commits[e.target].String()); err != nil {
			return err
		}
	}
	return nil
}

// c15Scripted records the given steps on side s for reference ref.
func c15Scripted(w *c15World, s *c15Side, script []string, ref string) error {
	mine := []int{}
	for _, st := range script {
		switch st {
		case "ref", "prop":
			parents := []int{}
			if cur, ok := s.refs[ref]; ok {
				parents = []int{cur}
			}
			cn, err := w.newCommit(s.dir, parents)
			if err != nil {
				return err
			}
			e := mEnt{kind: "ref", ref: ref, target: cn}
			if st == "prop" {
				e = mEnt{kind: "prop", ref: ref, target: cn, uprepo: "https://example.com/up", upentry: cn}
			}
			if err := s.record(w, e); err != nil {
				return err
			}
			mine = append(mine, len(s.ents)-1)
		case "skiplast":
			if err := s.record(w, mEnt{kind: "ann", targets: mine[len(mine)-1:], skip: true}); err != nil {
				return err
			}
		case "skipboth":
			if err := s.record(w, mEnt{kind: "ann", targets: mine, skip: true}); err != nil {
				return err
			}
		}
	}
	return nil
}

var c15Refs = []string{"refs/heads/main", "refs/heads/feature", "refs/heads/rel"}

// genSuffix records n random entries on side s over the given refs.
func c15GenSuffix(c *runCtx, w *c15World, s *c15Side, refs []string, n int, from int) error {
	r := c.rng
	for k := 0; k < n; k++ {
		switch x := r.Intn(10); {
		case x < 6 || len(s.ents) == 0: // reference entry
			ref := refs[r.Intn(len(refs))]
			parents := []int{}
			if cur, ok := s.refs[ref]; ok {
				parents = []int{cur}
			}
			cn, err := w.newCommit(s.dir, parents)
			if err != nil {
				return err
			}
			if err := s.record(w, mEnt{kind: "ref", ref: ref, target: cn}); err != nil {
				return err
			}
		case x < 7: // propagation entry
			ref := refs[r.Intn(len(refs))]
			parents := []int{}
			if cur, ok := s.refs[ref]; ok {
				parents = []int{cur}
			}
			cn, err := w.newCommit(s.dir, parents)
			if err != nil {
				return err
			}
			if err := s.record(w, mEnt{kind: "prop", ref: ref, target: cn, uprepo: "https://example.com/up", upentry: cn}); err != nil {
				return err
			}
		default: // annotation of 1-2 earlier non-annotation entries, own-side-only ones preferred
			cands := []int{}
			for i, e := range s.ents {
				if e.kind != "ann" && (i >= from || r.Intn(3) == 0) {
					cands = append(cands, i)
				}
			}
			if len(cands) == 0 {
				k--
				if len(s.ents) == 0 {
					continue
				}
				cands = []int{0}
				if s.ents[0].kind == "ann" {
					continue
				}
			}
			ts := []int{cands[r.Intn(len(cands))]}
			if len(cands) > 1 && r.Intn(3) == 0 {
				t2 := cands[r.Intn(len(cands))]
				if t2 != ts[0] {
					ts = append(ts, t2)
				}
			}
			if err := s.record(w, mEnt{kind: "ann", targets: ts, skip: r.Intn(4) != 0}); err != nil {
				return err
			}
		}
	}
	return nil
}

// observeLog reads a repository's log positionally through the independent walker.
func c15ObserveLog(w *c15World, gi *gitinterface.Repository) (string, []string, error) {
	tip, err := gi.GetReference(rsl.Ref)
	if err != nil {
		return "", nil, err
	}
	g, err := walkGraph(gi, tip)
	if err != nil {
		return "", nil, err
	}
	pos := map[string]int{}
	for i, gc := range g {
		pos[gc.ID.String()] = i
	}
	out, hum := []string{}, []string{}
	for _, gc := range g {
		e := gc.Entry
		var m mEnt
		switch {
		case e == nil:
			m = mEnt{kind: "ref", ref: "?unparsed", target: 0}
		case e.Kind == "ref":
			m = mEnt{kind: "ref", ref: e.Ref, target: w.commitOf[e.Target.String()]}
		case e.Kind == "prop":
			m = mEnt{kind: "prop", ref: e.Ref, target: w.commitOf[e.Target.String()], uprepo: e.UpRepo, upentry: w.commitOf[e.UpEntry.String()]}
		default:
			m = mEnt{kind: "ann", skip: e.Skip}
			for _, t := range e.Targets {
				p, ok := pos[t.String()]
				if !ok {
					p = 999 // refers to something that is not in this log
				}
				m.targets = append(m.targets, p)
			}
		}
		out = append(out, m.coq())
		hum = append(hum, m.human())
	}
	return coqList(out), hum, nil
}

func c15Refs2Coq(w *c15World, dir string) (string, string) {
	out, hum := []string{}, []string{}
	for _, ref := range c15Refs {
		b, err := gitOut(dir, "rev-parse", "--verify", "-q", ref)
		if err != nil {
			continue
		}
		n := w.commitOf[strings.TrimSpace(string(b))]
		out = append(out, fmt.Sprintf("(%s, %d%%N)", coqStr(ref), n))
		hum = append(hum, fmt.Sprintf("%s=c%d", ref, n))
	}
	return coqList(out), strings.Join(hum, " ")
}

func copyDir(src, dst string) error {
	return exec.Command("cp", "-a", src, dst).Run()
}

func runC15(c *runCtx) error {
	c.coqImport = "C15Check"
	c.caseType = "c15case"
	c.checkFn = "c15_check"
	r := c.rng
	for ci := 0; len(c.cases) < c.n; ci++ {
		w := &c15World{commits: map[int]githash.Hash{}, commitOf: map[string]int{}, graph: map[int][]int{}, next: 1}
		rgi, rdir, err := newRealRepo(c, fmt.Sprintf("c15-%d-remote", ci), true)
		if err != nil {
			return err
		}
		lgi, ldir, err := newRealRepo(c, fmt.Sprintf("c15-%d-local", ci), true)
		if err != nil {
			return err
		}
		remote := &c15Side{gi: rgi, dir: rdir, refs: map[string]int{}}
		// shared prefix, recorded on the remote and mirrored
		if err := c15GenSuffix(c, w, remote, c15Refs, 2+r.Intn(3), 0); err != nil {
			return err
		}
		if _, err := gitOut(ldir, "remote", "add", "origin", rdir); err != nil {
			return err
		}
		if _, err := gitOut(ldir, "fetch", "-q", "origin", "+refs/heads/*:refs/heads/*", "+refs/gittuf/*:refs/gittuf/*"); err != nil {
			return fmt.Errorf("mirror fetch: %w", err)
		}
		local := &c15Side{gi: lgi, dir: ldir, refs: map[string]int{}, ids: append([]githash.Hash{}, remote.ids...), ents: append([]mEnt{}, remote.ents...)}
		for k, v := range remote.refs {
			local.refs[k] = v
		}
		np := len(remote.ents)
		// divergence: which refs each side touches
		shape := []string{"diverged-disjoint", "diverged-disjoint", "diverged-overlap", "remote-ahead", "local-ahead", "equal",
			"diverged-overlap-via-propagation", "diverged-overlap-via-revoked", "remote-ahead-newest-revoked"}[r.Intn(9)]
		lrefs, rrefs := c15Refs, c15Refs
		if shape == "diverged-disjoint" {
			p := r.Perm(3)
			lrefs, rrefs = []string{c15Refs[p[0]]}, []string{c15Refs[p[1]], c15Refs[p[2]]}
			if r.Intn(2) == 0 {
				lrefs, rrefs = rrefs, lrefs
			}
		}
		nl, nr := 1+r.Intn(4), 1+r.Intn(4)
		switch shape {
		case "remote-ahead":
			nl = 0
		case "local-ahead":
			nr = 0
		case "equal":
			nl, nr = 0, 0
		}
		// directed shapes: the shared reference is touched on the remote side only by a propagation entry, or only
		// by entries that the same suffix revokes; or the newest remote-only entry of a reference is revoked and
		// an older one of the same suffix is not
		x := c15Refs[r.Intn(3)]
		others := []string{}
		for _, ref := range c15Refs {
			if ref != x {
				others = append(others, ref)
			}
		}
		switch shape {
		case "diverged-overlap-via-propagation":
			if err := c15Scripted(w, remote, []string{"prop"}, x); err != nil {
				return err
			}
			lrefs, rrefs, nl, nr = []string{x}, others, 1+r.Intn(2), r.Intn(2)
		case "diverged-overlap-via-revoked":
			script := []string{"ref", "skiplast"}
			if r.Intn(2) == 0 {
				script = []string{"ref", "ref", "skipboth"}
			}
			if err := c15Scripted(w, remote, script, x); err != nil {
				return err
			}
			lrefs, rrefs, nl, nr = []string{x}, others, 1+r.Intn(2), r.Intn(2)
		case "remote-ahead-newest-revoked":
			if err := c15Scripted(w, remote, []string{"ref", "ref", "skiplast"}, x); err != nil {
				return err
			}
			rrefs, nl, nr = others, 0, r.Intn(2)
		}
		if err := c15GenSuffix(c, w, remote, rrefs, nr, np); err != nil {
			return err
		}
		if err := c15GenSuffix(c, w, local, lrefs, nl, np); err != nil {
			return err
		}
		pre, ls, rs := remote.ents[:np], local.ents[np:], remote.ents[np:]
		// ---- reconcile on a copy ----
		l1dir := filepath.Join(c.outDir, "repos", fmt.Sprintf("c15-%d-l1", ci))
		if err := copyDir(ldir, l1dir); err != nil {
			return err
		}
		g1, err := gittuf.LoadRepository(l1dir)
		if err != nil {
			return err
		}
		l1gi, _ := gitinterface.LoadRepository(l1dir)
		rsl.VerifResetCache()
		rerr := g1.ReconcileLocalRSLWithRemote(context.Background(), "origin", false)
		rsl.VerifResetCache()
		rlog, hrlog, err := c15ObserveLog(w, l1gi)
		if err != nil {
			return err
		}
		// ---- sync on a copy whose refs are put in chosen states ----
		l2dir := filepath.Join(c.outDir, "repos", fmt.Sprintf("c15-%d-l2", ci))
		if err := copyDir(ldir, l2dir); err != nil {
			return err
		}
		states := []string{}
		if len(ls) == 0 { // local refs may hold unrecorded work
			for _, ref := range c15Refs {
				cur, has := local.refs[ref]
				st := []string{"asis", "asis", "ahead", "diverged", "absent", "at-remote"}[r.Intn(6)]
				switch st {
				case "ahead": // on top of the remote's tip when known, else of the current one
					base, ok := remote.refs[ref]
					if !ok {
						break
					}
					if _, err := gitOut(l2dir, "fetch", "-q", "origin", remote.commitsRef(w, base)); err != nil {
						return err
					}
					cn, err := w.newCommit(l2dir, []int{base})
					if err != nil {
						return err
					}
					gitOut(l2dir, "update-ref", ref, w.commits[cn].String())
				case "diverged":
					if !has {
						break
					}
					cn, err := w.newCommit(l2dir, []int{cur})
					if err != nil {
						return err
					}
					gitOut(l2dir, "update-ref", ref, w.commits[cn].String())
				case "absent":
					gitOut(l2dir, "update-ref", "-d", ref)
				case "at-remote":
					base, ok := remote.refs[ref]
					if !ok {
						break
					}
					if _, err := gitOut(l2dir, "fetch", "-q", "origin", remote.commitsRef(w, base)); err != nil {
						return err
					}
					gitOut(l2dir, "update-ref", ref, w.commits[base].String())
				}
				states = append(states, ref+":"+st)
			}
		}
		overwrite := r.Intn(3) == 0
		lrefsBefore, hlb := c15Refs2Coq(w, l2dir)
		rrefsBefore, hrb := c15Refs2Coq(w, rdir)
		g2, err := gittuf.LoadRepository(l2dir)
		if err != nil {
			return err
		}
		l2gi, _ := gitinterface.LoadRepository(l2dir)
		rsl.VerifResetCache()
		div, serr := g2.VerifSync("origin", overwrite)
		rsl.VerifResetCache()
		slog2, hslog, err := c15ObserveLog(w, l2gi)
		if err != nil {
			return err
		}
		lrefsAfter, hla := c15Refs2Coq(w, l2dir)
		rrefsAfter, hra := c15Refs2Coq(w, rdir)
		rlogAfter, hrlogAfter, err := c15ObserveLog(w, rgi)
		if err != nil {
			return err
		}
		sres := "0"
		switch {
		case serr == nil:
		case errors.Is(serr, gittuf.ErrDivergedRefs):
			sres = "1"
		default:
			sres = "2"
		}
		sort.Strings(div)
		dv := []string{}
		for _, d := range div {
			if d == rsl.Ref {
				d = ""
			}
			dv = append(dv, coqStr(d))
		}
		for _, d := range []string{"remote", "local", "l1", "l2"} {
			os.RemoveAll(filepath.Join(c.outDir, "repos", fmt.Sprintf("c15-%d-%s", ci, d)))
		}
		// ---- the case ----
		gr := []string{}
		ns := []int{}
		for n := range w.graph {
			ns = append(ns, n)
		}
		sort.Ints(ns)
		for _, n := range ns {
			gr = append(gr, fmt.Sprintf("(%d%%N, %s)", n, coqKeys(w.graph[n])))
		}
		term := fmt.Sprintf("(C15 %s %s %s %s %s %s %s %s %s %s %s %s %s %s)", coqEnts(pre), coqEnts(ls), coqEnts(rs),
			coqBool(rerr != nil), rlog, coqList(gr), lrefsBefore, rrefsBefore, coqBool(overwrite), sres, coqList(dv), slog2+" "+lrefsAfter, rlogAfter, rrefsAfter)
		e1 := "ok"
		if rerr != nil {
			e1 = "error: " + rerr.Error()
		}
		e2 := "ok"
		if serr != nil {
			e2 = "error: " + serr.Error()
		}
		hasAnnLocal, hasProp := false, false
		for _, e := range ls {
			if e.kind == "ann" {
				for _, t := range e.targets {
					if t >= np {
						hasAnnLocal = true
					}
				}
			}
			if e.kind == "prop" {
				hasProp = true
			}
		}
		c.add(term, sideCase{Class: shape, Nontrivial: shape != "equal", Key: keyOf(term),
			Human: map[string]interface{}{"prefix": humanEnts(pre), "local_only": humanEnts(ls), "remote_only": humanEnts(rs),
				"reconcile": e1, "local_log_after_reconcile": hrlog,
				"sync": map[string]interface{}{"overwrite": overwrite, "local_ref_states": states, "local_refs_before": hlb, "remote_refs_before": hrb, "result": e2, "diverged": div,
					"local_log_after": hslog, "local_refs_after": hla, "remote_refs_after": hra, "remote_log_after": hrlogAfter},
				"annotation_of_local_only_entry": hasAnnLocal, "propagation_entry_in_local_suffix": hasProp}})
	}
	return nil
}

// commitsRef names a commit for `git fetch` (the remote allows fetching reachable objects by id).
func (s *c15Side) commitsRef(w *c15World, n int) string { return w.commits[n].String() }
