//go:build verif

package main

// C10: file rules see every changed path verbatim.  Histories are built in the in-memory store
// (real object encodings and signatures), every object is then written as a loose object into a
// real repository, and verification runs on a store whose path/commit enumeration goes through
// the real pkg/gitinterface (and the git binary).  What gitinterface returns is compared with the
// trees as written and with raw `git ls-tree -z` output read by the harness itself.

import (
	"bytes"
	"compress/zlib"
	"context"
	"fmt"
	"io"
	"math/rand"
	"os"
	"path/filepath"
	"sort"
	"strings"

	"github.com/gittuf/gittuf/internal/policy"
	"github.com/gittuf/gittuf/pkg/githash"
	"github.com/gittuf/gittuf/pkg/gitinterface"
	"github.com/gittuf/gittuf/pkg/gitstore"
	"github.com/go-git/go-git/v6/plumbing"
)

func init() { props["C10"] = runC10 }

var c10Comps = []string{"a", "b", "src", "docs", "a b", " lead", "trail ", "t\tab", "q\"uote", "back\\slash", "\u00e9", "\u65e5\u672c",
	"star*", "qm?", "br[x]", "\x01ctl", "\x7f", "-dash", ".hidden", "name.txt", "x:y", "a'b", "{brace}", "#hash", "~tilde", "a\rb", "\u00e9t\u00e9 1", "sp  two",
	"w\\in", "a\\*b", "\\lead", "back\\slash"}

// hybridStore: everything from the in-memory store except path and commit enumeration, which go
// through pkg/gitinterface on the mirrored real repository.
type hybridStore struct {
	*memStore
	real *gitinterface.Repository
}

func (h *hybridStore) GetFilePathsChangedByCommit(id githash.Hash) ([]string, error) {
	return h.real.GetFilePathsChangedByCommit(id)
}
func (h *hybridStore) GetCommitsBetweenRange(n, o githash.Hash) ([]githash.Hash, error) {
	return h.real.GetCommitsBetweenRange(n, o)
}
func (h *hybridStore) GetAllFilesInTree(t githash.Hash) (map[string]githash.Hash, error) {
	return h.real.GetAllFilesInTree(t)
}
func (h *hybridStore) GetEntriesInTree(t githash.Hash) ([]gitstore.TreeEntry, error) {
	return h.real.GetEntriesInTree(t)
}

// exportObjects writes every object of the in-memory store as a loose object of the repository.
func exportObjects(m *memStore, gitDir string) error {
	it, err := m.st.IterEncodedObjects(plumbing.AnyObject)
	if err != nil {
		return err
	}
	return it.ForEach(func(o plumbing.EncodedObject) error {
		r, err := o.Reader()
		if err != nil {
			return err
		}
		content, err := io.ReadAll(r)
		r.Close()
		if err != nil {
			return err
		}
		id := o.Hash().String()
		dir := filepath.Join(gitDir, "objects", id[:2])
		if err := os.MkdirAll(dir, 0o755); err != nil {
			return err
		}
		var buf bytes.Buffer
		zw := zlib.NewWriter(&buf)
		fmt.Fprintf(zw, "%s %d\x00", o.Type().String(), len(content))
		zw.Write(content)
		zw.Close()
		return os.WriteFile(filepath.Join(dir, id[2:]), buf.Bytes(), 0o444)
	})
}

func c10Path(r *rand.Rand) string {
	n := 1 + r.Intn(3)
	parts := []string{}
	for i := 0; i < n; i++ {
		if i < n-1 && r.Intn(2) == 0 {
			parts = append(parts, []string{"src", "docs", "a b", "\u00e9", "star*"}[r.Intn(5)])
		} else {
			if r.Intn(8) == 0 {
				parts = append(parts, []string{"w\\in", "\\lead", "back\\slash"}[r.Intn(3)])
			} else {
				parts = append(parts, c10Comps[r.Intn(len(c10Comps))])
			}
		}
	}
	return strings.Join(parts, "/")
}

// conflicts reports whether p cannot coexist with the paths of files (file/directory clash).
func c10Conflicts(files map[string]int, p string) bool {
	for q := range files {
		if q == p || strings.HasPrefix(q, p+"/") || strings.HasPrefix(p, q+"/") {
			return true
		}
	}
	return false
}

func c10TreeKey(files map[string]int) string {
	ks := []string{}
	for p, b := range files {
		ks = append(ks, fmt.Sprintf("%q=%d", p, b))
	}
	sort.Strings(ks)
	return strings.Join(ks, ",")
}

func coqFTree(files map[string]int) string {
	ps := []string{}
	for p := range files {
		ps = append(ps, p)
	}
	sort.Strings(ps)
	out := []string{}
	for _, p := range ps {
		out = append(out, fmt.Sprintf("(%s, %d%%N)", coqStr(p), files[p]))
	}
	return coqList(out)
}

func runC10(c *runCtx) error {
	c.coqImport = "C10Check"
	c.caseType = "c10case"
	c.checkFn = "c10_check"
	r := c.rng
	wi := 0
	for len(c.cases) < c.n {
		// ---- commits ----
		nc := 3 + r.Intn(5)
		w := &wWorld{}
		treeNum := map[string]int{}
		nextBlob := 1
		allPaths := map[string]bool{}
		for k := 1; k <= nc; k++ {
			cm := wCommit{ID: k}
			files := map[string]int{}
			switch {
			case k == 1 || r.Intn(10) == 0: // root commit
			case k > 2 && r.Intn(6) == 0: // merge
				p1, p2 := 1+r.Intn(k-1), 1+r.Intn(k-1)
				if p1 == p2 {
					p2 = 1 + (p1 % (k - 1))
				}
				cm.Parents = []int{p1, p2}
			default:
				cm.Parents = []int{k - 1}
				if r.Intn(4) == 0 {
					cm.Parents = []int{1 + r.Intn(k-1)}
				}
			}
			if len(cm.Parents) > 0 {
				for p, b := range w.Commits[cm.Parents[len(cm.Parents)-1]-1].Files {
					files[p] = b
				}
			}
			edits := 1 + r.Intn(3)
			if len(cm.Parents) == 2 && r.Intn(2) == 0 {
				edits = 0 // merge result identical to its last parent
			}
			if len(files) == 0 && edits == 0 {
				edits = 1
			}
			for e := 0; e < edits; e++ {
				ps := []string{}
				for p := range files {
					ps = append(ps, p)
				}
				sort.Strings(ps)
				switch x := r.Intn(4); {
				case x == 0 && len(ps) > 1: // delete
					delete(files, ps[r.Intn(len(ps))])
				case x == 1 && len(ps) > 0: // modify
					files[ps[r.Intn(len(ps))]] = nextBlob
					nextBlob++
				default: // add
					for try := 0; try < 10; try++ {
						p := c10Path(r)
						if !c10Conflicts(files, p) {
							files[p] = nextBlob
							nextBlob++
							break
						}
					}
				}
			}
			if len(files) == 0 {
				files["a"] = nextBlob
				nextBlob++
			}
			cm.Files = files
			for p := range files {
				allPaths[p] = true
			}
			key := c10TreeKey(files)
			if _, ok := treeNum[key]; !ok {
				treeNum[key] = len(treeNum) + 1
			}
			cm.Tree = treeNum[key]
			switch x := r.Intn(10); {
			case x == 0:
				cm.Signer = 0
			case x == 1:
				cm.Signer = 8
			default:
				cm.Signer = 4 + r.Intn(4)
			}
			w.Commits = append(w.Commits, cm)
		}
		pathList := []string{}
		for p := range allPaths {
			pathList = append(pathList, p)
		}
		sort.Strings(pathList)
		// ---- policy with file rules over those paths ----
		t := &wFile{Version: 1, Signers: []int{2}}
		t.Name = "targets"
		t.Defs = map[int][]int{101: {4}, 102: {5}, 103: {6}, 104: {7}}
		t.Rules = []hRule{{Name: "protect-main", Patterns: []string{"git:" + refMain}, Pids: []int{101, 102, 103, 104}, Thr: 1}}
		nr := 1 + r.Intn(3)
		for i := 0; i < nr; i++ {
			pats := []string{}
			for j := 0; j < 1+r.Intn(2); j++ {
				p := pathList[r.Intn(len(pathList))]
				sel := r.Intn(7)
				if strings.ContainsAny(p, "\\*?[") && r.Intn(2) == 0 {
					sel = 6
				}
				switch sel {
				case 6: // the exact path, with the pattern language's special characters escaped
					p = strings.NewReplacer("\\", "\\\\", "*", "\\*", "?", "\\?", "[", "\\[").Replace(p)
				case 0:
					if k := strings.LastIndex(p, "/"); k >= 0 {
						p = p[:k] + "/*"
					}
				case 1:
					p = "*"
				case 2:
					if rs := []rune(p); len(rs) > 2 {
						p = "*" + string(rs[1:])
					}
				}
				pats = append(pats, "file:"+p)
			}
			m := 1 + r.Intn(3)
			pids := []int{}
			for _, x := range r.Perm(4)[:m] {
				pids = append(pids, 101+x)
			}
			thr := 1
			if m > 1 && r.Intn(3) == 0 {
				thr = 2
			}
			t.Rules = append(t.Rules, hRule{Name: fmt.Sprintf("f%d", i+1), Patterns: pats, Pids: pids, Thr: thr, Term: r.Intn(4) == 0})
		}
		// a path with a backslash can only be named exactly by writing the backslash twice
		for _, p := range pathList {
			if strings.Contains(p, "\\") && !strings.ContainsAny(p, "*?[") && r.Intn(2) == 0 {
				t.Rules = append(t.Rules, hRule{Name: fmt.Sprintf("f%d", len(t.Rules)+1), Patterns: []string{"file:" + strings.ReplaceAll(p, "\\", "\\\\")},
					Pids: []int{101 + r.Intn(4)}, Thr: 1})
				break
			}
		}
		pol := &wPolicy{RootVersion: 1, RootKeys: []int{1}, RootThr: 1, TargetsKeys: []int{2}, TargetsThr: 1, HasTargetsRole: true,
			RootSigners: []int{1}, Files: []*wFile{t}}
		w.Events = append(w.Events, wEvent{Kind: "policy", Pol: pol, Signer: 1})
		// ---- pushes (distinct trees per ref), sometimes with approvals ----
		usedTree := map[int]bool{}
		prev := 0
		np := 1 + r.Intn(3)
		for i := 0; i < np; i++ {
			k := 1 + r.Intn(nc)
			if usedTree[w.Commits[k-1].Tree] {
				continue
			}
			usedTree[w.Commits[k-1].Tree] = true
			if r.Intn(3) == 0 {
				ns := 1 + r.Intn(2)
				signers := []int{}
				for _, x := range r.Perm(4)[:ns] {
					signers = append(signers, 4+x)
				}
				tr := w.Commits[k-1].Tree
				w.Events = append(w.Events, wEvent{Kind: "attest", Signer: 4,
					Auths: []wAuthz{{Ref: refMain, From: prev, To: tr, PathRef: refMain, PathFrom: prev, PathTo: tr, Signers: signers}}})
			}
			w.Events = append(w.Events, wEvent{Kind: "ref", Ref: refMain, Commit: k, Signer: 4 + r.Intn(4)})
			prev = k
		}
		if prev == 0 {
			continue
		}
		// ---- materialise, mirror into a real repository ----
		b, err := buildWorld(w)
		if err != nil {
			return err
		}
		repoName := fmt.Sprintf("c10-%d", wi)
		real, dir, err := newRealRepo(c, repoName, true)
		if err != nil {
			return err
		}
		if err := exportObjects(b.m, dir); err != nil {
			return err
		}
		hs := &hybridStore{memStore: b.m, real: real}
		// ---- observe ----
		blobNum := map[string]int{}
		for n, h := range b.blobs {
			blobNum[h.String()] = n
		}
		commitObs, hCommits := []string{}, []string{}
		for _, cm := range w.Commits {
			paths, err := real.GetFilePathsChangedByCommit(b.commits[cm.ID])
			if err != nil {
				return fmt.Errorf("GetFilePathsChangedByCommit: %w", err)
			}
			ps := []string{}
			for _, p := range paths {
				ps = append(ps, coqStr(p))
			}
			commitObs = append(commitObs, fmt.Sprintf("(%d%%N, %s)", cm.ID, coqList(ps)))
			hCommits = append(hCommits, fmt.Sprintf("c%d parents=%v signer=%d tree=%q changed(impl)=%q", cm.ID, cm.Parents, cm.Signer, c10TreeKey(cm.Files), paths))
		}
		treeObs := []string{}
		seenTree := map[int]bool{}
		for _, cm := range w.Commits {
			if seenTree[cm.Tree] {
				continue
			}
			seenTree[cm.Tree] = true
			tid := b.trees[cm.Tree]
			rawR, err := gitOut(dir, "ls-tree", "-r", "-z", tid.String())
			if err != nil {
				return err
			}
			rawTop, err := gitOut(dir, "ls-tree", "-z", tid.String())
			if err != nil {
				return err
			}
			files, err := real.GetAllFilesInTree(tid)
			if err != nil {
				return fmt.Errorf("GetAllFilesInTree: %w", err)
			}
			fps := []string{}
			for p := range files {
				fps = append(fps, p)
			}
			sort.Strings(fps)
			fl, ents := []string{}, []gitstore.TreeEntry{}
			for _, p := range fps {
				fl = append(fl, fmt.Sprintf("(%s, %s)", coqStr(p), coqStr(files[p].String())))
				ents = append(ents, gitstore.TreeEntry{Path: p, ID: files[p], Kind: gitstore.KindBlob})
			}
			top, err := real.GetEntriesInTree(tid)
			if err != nil {
				return fmt.Errorf("GetEntriesInTree: %w", err)
			}
			tl := []string{}
			for _, e := range top {
				tl = append(tl, fmt.Sprintf("(%s, %s, %s)", coqStr(e.Path), coqStr(e.ID.String()), coqBool(e.Kind == gitstore.KindSubtree)))
			}
			// read back and rewritten
			same := false
			if nt, err := gitinterface.NewTreeBuilder(real).WriteTreeFromEntries(ents); err == nil {
				same = nt.Equal(tid)
			}
			treeObs = append(treeObs, fmt.Sprintf("(%d%%N, %s, %s, %s, %s, %s)", cm.ID, coqBytes(rawR), coqList(fl), coqBytes(rawTop), coqList(tl), coqBool(same)))
		}
		blobs := []string{}
		bn := []int{}
		for n := range b.blobs {
			bn = append(bn, n)
		}
		sort.Ints(bn)
		for _, n := range bn {
			blobs = append(blobs, fmt.Sprintf("(%d%%N, %s)", n, coqStr(b.blobs[n].String())))
		}
		tip, verr := policy.NewPolicyVerifier(hs).VerifyRefFull(context.Background(), refMain)
		vo, vh := b.voutOf(tip, verr)
		os.RemoveAll(filepath.Join(c.outDir, "repos", repoName))
		// ---- the case ----
		g := []string{}
		for _, cm := range w.Commits {
			g = append(g, fmt.Sprintf("(%d%%N, {| fc_tree := %s; fc_parents := %s; fc_signer := %d%%N |})", cm.ID, coqFTree(cm.Files), coqKeys(cm.Parents), cm.Signer))
		}
		def := fmt.Sprintf("w%d", wi)
		wi++
		c.defs = append(c.defs, fmt.Sprintf("Definition %s : fworld := {| fw_world := %s; fw_graph := %s |}.", def, w.coq(), coqList(g)))
		term := fmt.Sprintf("(C10 %s %s %s %s %s %s)", def, coqStr(refMain), coqList(blobs), coqList(commitObs), coqList(treeObs), vo)
		odd := 0
		for _, p := range pathList {
			if strings.ContainsAny(p, " \t\"\\*?[\x01\x7f\r") || !isASCII(p) {
				odd++
			}
		}
		cls := "accept"
		if verr != nil {
			cls = "reject"
		}
		rules := []string{}
		for _, ru := range t.Rules {
			rules = append(rules, fmt.Sprintf("%s %q pids=%v thr=%d term=%v", ru.Name, ru.Patterns, ru.Pids, ru.Thr, ru.Term))
		}
		c.add(term, sideCase{Class: cls, Nontrivial: odd > 0, Key: keyOf(term),
			Human: map[string]interface{}{"rules": rules, "commits": hCommits, "events": w.human(), "verdict": vh, "odd_paths": odd}})
	}
	return nil
}

func isASCII(s string) bool {
	for i := 0; i < len(s); i++ {
		if s[i] >= 0x80 {
			return false
		}
	}
	return true
}
