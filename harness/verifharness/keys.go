//go:build verif

package main

// A pool of deterministic ed25519 keys: as gittuf metadata keys, as commit-signing PEM, and as
// in-process DSSE signers (ssh signature format, namespace "git", as internal/signerverifier/ssh).

import (
	"bytes"
	"context"
	"crypto"
	"crypto/ed25519"
	"crypto/sha256"
	"encoding/base64"
	"encoding/pem"
	"fmt"

	"github.com/hiddeco/sshsig"
	"github.com/secure-systems-lab/go-securesystemslib/signerverifier"
	"golang.org/x/crypto/ssh"
)

type poolKey struct {
	Index  int // 1-based; the Coq model's key number
	SSLib  *signerverifier.SSLibKey
	Signer ssh.Signer
	PEM    []byte
}

func (k *poolKey) KeyID() (string, error) { return k.SSLib.KeyID, nil }

// Sign implements the DSSE signer interface used by dsse.SignEnvelope.
func (k *poolKey) Sign(_ context.Context, data []byte) ([]byte, error) {
	sig, err := sshsig.Sign(bytes.NewReader(data), k.Signer, sshsig.HashSHA512, "git")
	if err != nil {
		return nil, err
	}
	return sshsig.Armor(sig), nil
}

// Verify and Public complete the dsse.SignerVerifier interface the experimental/gittuf API takes.
func (k *poolKey) Verify(_ context.Context, data, sig []byte) error {
	signature, err := sshsig.Unarmor(sig)
	if err != nil {
		return err
	}
	return sshsig.Verify(bytes.NewReader(data), signature, k.Signer.PublicKey(), sshsig.HashSHA512, "git")
}

func (k *poolKey) Public() crypto.PublicKey { return k.Signer.PublicKey() }

var keyPool []*poolKey

func poolKeyN(i int) *poolKey { // 1-based
	for len(keyPool) < i {
		n := len(keyPool) + 1
		seed := sha256.Sum256([]byte(fmt.Sprintf("verif-key-%d", n)))
		priv := ed25519.NewKeyFromSeed(seed[:])
		signer, err := ssh.NewSignerFromKey(priv)
		if err != nil {
			panic(err)
		}
		blk, err := ssh.MarshalPrivateKey(priv, "")
		if err != nil {
			panic(err)
		}
		pub := signer.PublicKey()
		k := &poolKey{Index: n, Signer: signer, PEM: pem.EncodeToMemory(blk),
			SSLib: &signerverifier.SSLibKey{KeyID: ssh.FingerprintSHA256(pub), KeyType: "ssh", Scheme: pub.Type(),
				KeyVal: signerverifier.KeyVal{Public: base64.StdEncoding.EncodeToString(pub.Marshal())}}}
		keyPool = append(keyPool, k)
	}
	return keyPool[i-1]
}
