//go:build verif

package main

import (
	"encoding/json"
	"errors"
	"fmt"
	"math/rand"
	"reflect"
	"sort"
	"strings"

	"context"

	"github.com/gittuf/gittuf/internal/policy"
	"github.com/gittuf/gittuf/internal/tuf"
	"github.com/gittuf/gittuf/internal/tuf/migrations"
	tufv01 "github.com/gittuf/gittuf/internal/tuf/v01"
	tufv02 "github.com/gittuf/gittuf/internal/tuf/v02"
	"github.com/secure-systems-lab/go-securesystemslib/signerverifier"
)

func init() { props["C13"] = runC13 }

func pName(i int) string {
	if i == 0 {
		return ""
	}
	return fmt.Sprintf("p%d", i)
}

func pNum(s string) int {
	if s == "" {
		return 0
	}
	var n int
	fmt.Sscanf(s, "p%d", &n)
	return n
}

func fakeKey(i int) *tufv02.Key {
	return tufv02.NewKeyFromSSLibKey(&signerverifier.SSLibKey{KeyID: pName(i), KeyType: "ssh", Scheme: "ssh-ed25519", KeyVal: signerverifier.KeyVal{Public: fmt.Sprintf("AAAA%d", i)}})
}

func merrEnum(err error) string {
	switch {
	case err == nil:
		return "None"
	case errors.Is(err, tuf.ErrCannotManipulateRulesWithGittufPrefix):
		return "(Some MPrefix)"
	case errors.Is(err, tuf.ErrPrincipalNotFound):
		return "(Some MPrincipalNotFound)"
	case errors.Is(err, tuf.ErrInvalidThreshold):
		return "(Some MInvalidThreshold)"
	case errors.Is(err, tuf.ErrCannotMeetThreshold):
		return "(Some MCannotMeet)"
	case errors.Is(err, tuf.ErrDuplicatedRuleName):
		return "(Some MDupRule)"
	case errors.Is(err, tuf.ErrRuleNotFound):
		return "(Some MRuleNotFound)"
	case errors.Is(err, tuf.ErrMissingRules):
		return "(Some MMissingRules)"
	case errors.Is(err, tuf.ErrPrincipalStillInUse):
		return "(Some MStillInUse)"
	case errors.Is(err, tuf.ErrInvalidPrincipalID):
		return "(Some MInvalidID)"
	case errors.Is(err, tuf.ErrInvalidRootMetadata):
		return "(Some MInvalidRoot)"
	case errors.Is(err, tuf.ErrPrimaryRuleFileInformationNotFoundInRoot):
		return "(Some MNoTargetsRole)"
	}
	return "(Some MOther)"
}

func coqNs(xs []int) string {
	ys := append([]int{}, xs...)
	sort.Ints(ys)
	out := []string{}
	for _, x := range ys {
		out = append(out, fmt.Sprintf("%d%%N", x))
	}
	return coqList(out)
}

// dumpTargets renders a rule file through the query interface only.
func dumpTargets(t tuf.TargetsMetadata) string {
	ps := []int{}
	for id := range t.GetPrincipals() {
		ps = append(ps, pNum(id))
	}
	rules := []string{}
	for _, r := range t.GetRules() {
		ids := []int{}
		if r.GetPrincipalIDs() != nil {
			for _, id := range r.GetPrincipalIDs().Contents() {
				ids = append(ids, pNum(id))
			}
		}
		pats := []string{}
		for _, p := range r.GetProtectedNamespaces() {
			pats = append(pats, coqStr(p))
		}
		rules = append(rules, fmt.Sprintf("{| tr_name := %s; tr_patterns := %s; tr_term := %s; tr_pids := %s; tr_thr := (%d)%%Z |}",
			coqStr(r.ID()), coqList(pats), coqBool(r.IsLastTrustedInRuleFile()), coqNs(ids), r.GetThreshold()))
	}
	return fmt.Sprintf("{| tg_alloc := %s; tg_principals := %s; tg_rules := %s |}", coqBool(t.GetPrincipals() != nil && allocated(t)), coqNs(ps), coqList(rules))
}

func dumpTargetsNoAlloc(t tuf.TargetsMetadata) string {
	d := dumpTargets(t)
	return strings.Replace(strings.Replace(d, "tg_alloc := true", "tg_alloc := _", 1), "tg_alloc := false", "tg_alloc := _", 1)
}

func dumpRoot(r tuf.RootMetadata) string {
	ps := []int{}
	for id := range r.GetPrincipals() {
		ps = append(ps, pNum(id))
	}
	role := func(prs []tuf.Principal, thr int, err1, err2 error) string {
		if err1 != nil || err2 != nil {
			return "None"
		}
		ids := []int{}
		for _, p := range prs {
			ids = append(ids, pNum(p.ID()))
		}
		return fmt.Sprintf("(Some {| ro_pids := %s; ro_thr := (%d)%%Z |})", coqNs(ids), thr)
	}
	rp, e1 := r.GetRootPrincipals()
	rt, e2 := r.GetRootThreshold()
	tp, e3 := r.GetPrimaryRuleFilePrincipals()
	tt, e4 := r.GetPrimaryRuleFileThreshold()
	return fmt.Sprintf("{| rm_principals := %s; rm_root := %s; rm_targets := %s |}", coqNs(ps), role(rp, rt, e1, e2), role(tp, tt, e3, e4))
}

// dumpRootExtra renders, through the query interface, the parts of a root of trust that the Coq model
// does not carry.
func dumpRootExtra(r tuf.RootMetadata) string {
	repos := func(l []tuf.OtherRepository) string {
		out := []string{}
		for _, o := range l {
			out = append(out, fmt.Sprintf("%s@%s/%d", o.GetName(), o.GetLocation(), len(o.GetInitialRootPrincipals())))
		}
		sort.Strings(out)
		return strings.Join(out, ",")
	}
	gs := []string{}
	for _, g := range r.GetGlobalRules() {
		gs = append(gs, g.GetName())
	}
	ds := []string{}
	for _, d := range r.GetPropagationDirectives() {
		ds = append(ds, d.GetName()+">"+d.GetUpstreamRepository()+">"+d.GetDownstreamPath())
	}
	sort.Strings(ds)
	return fmt.Sprintf("controller=%v controllers=[%s] network=[%s] location=%q globals=%v directives=%v", r.IsController(), repos(r.GetControllerRepositories()), repos(r.GetNetworkRepositories()),
		r.GetRepositoryLocation(), gs, ds)
}

// allocated reports whether the principals map of a v02 rule file has been allocated.
func allocated(t tuf.TargetsMetadata) bool {
	if v, ok := t.(*tufv02.TargetsMetadata); ok {
		return v.Delegations != nil && v.Delegations.Principals != nil
	}
	if v, ok := t.(*tufv01.TargetsMetadata); ok {
		return v.Delegations != nil && v.Delegations.Keys != nil
	}
	return true
}

var c13Names = []string{"r1", "r2", "r3", "gittuf-x", "gittuf-allow-rule", "", "protect-main"}
var c13Pats = [][]string{{"git:refs/heads/main"}, {"file:*"}, {"git:*", "file:docs/*"}, {}}

func runC13(c *runCtx) error {
	c.coqImport = "C13Check"
	c.caseType = "c13case"
	c.checkFn = "c13_check"
	c.consts = append(c.consts, fmt.Sprintf("beq GittufPrefix %s", coqStr(tuf.GittufPrefix)), fmt.Sprintf("beq AllowRuleName %s", coqStr(tuf.AllowRuleName)))
	r := c.rng
	for len(c.cases) < c.n {
		switch x := r.Intn(8); {
		case x == 0:
			if err := c13NamesCase(c, r); err != nil {
				return err
			}
		case x < 6:
			c13Targets(c, r)
		default:
			c13Root(c, r)
		}
	}
	return nil
}

// c13NamesCase loads a policy state with several rule files and asks it which rule names are taken
// (State.HasRuleName is what Repository.AddDelegation / UpdateDelegation consult to keep rule names
// unique across all rule files).
func c13NamesCase(c *runCtx, r *rand.Rand) error {
	pool := []string{"a", "b", "c", "d", "e", "f"}
	pats := [][]string{{"git:refs/heads/main"}, {"file:src/*"}, {"git:refs/heads/feature", "file:docs/*"}, {"git:refs/tags/*"}}
	mk := func(name string, version int) *wFile {
		f := &wFile{Version: version, Signers: []int{4}}
		f.Name = name
		f.Defs = map[int][]int{101: {4}}
		return f
	}
	t := mk("targets", 1)
	t.Signers = []int{2}
	files := []*wFile{t}
	avail := append([]string{}, pool...)
	r.Shuffle(len(avail), func(i, j int) { avail[i], avail[j] = avail[j], avail[i] })
	take := func() string { // mostly fresh names, sometimes a repeat
		if r.Intn(7) == 0 || len(avail) == 0 {
			return pool[r.Intn(len(pool))]
		}
		n := avail[0]
		avail = avail[1:]
		return n
	}
	for i := 0; i < 1+r.Intn(3); i++ {
		t.Rules = append(t.Rules, hRule{Name: take(), Patterns: pats[r.Intn(len(pats))], Pids: []int{101}, Thr: 1})
	}
	// delegated rule files, each named after a rule of an earlier file
	for fi := 0; fi < r.Intn(3); fi++ {
		parent := files[r.Intn(len(files))]
		if len(parent.Rules) == 0 {
			continue
		}
		name := parent.Rules[r.Intn(len(parent.Rules))].Name
		dupFile := false
		for _, f := range files {
			if f.Name == name {
				dupFile = true
			}
		}
		if dupFile {
			continue
		}
		d := mk(name, 1)
		for i := 0; i < 1+r.Intn(2); i++ {
			d.Rules = append(d.Rules, hRule{Name: take(), Patterns: pats[r.Intn(len(pats))], Pids: []int{101}, Thr: 1})
		}
		files = append(files, d)
	}
	pol := &wPolicy{RootVersion: 1, RootKeys: []int{1}, RootThr: 1, TargetsKeys: []int{2}, TargetsThr: 1, HasTargetsRole: true, RootSigners: []int{1}, Files: files}
	w := &wWorld{Events: []wEvent{{Kind: "policy", Pol: pol, Signer: 1}}}
	b, err := buildWorld(w)
	if err != nil {
		return err
	}
	st, lerr := policy.LoadCurrentState(context.Background(), b.m, policy.PolicyRef)
	ft, hf := []string{}, []string{}
	for _, f := range files {
		ns := []string{}
		for _, ru := range f.Rules {
			ns = append(ns, ru.Name)
		}
		ft = append(ft, fmt.Sprintf("(%s, %s)", coqStr(f.Name), coqStrs(ns)))
		hf = append(hf, fmt.Sprintf("%s: %v", f.Name, f.Rules))
	}
	qs, hq := []string{}, []string{}
	if lerr == nil {
		for _, n := range append(append([]string{}, pool...), "targets", "gittuf-allow-rule-x") {
			has := st.HasRuleName(n)
			qs = append(qs, fmt.Sprintf("(%s, %s)", coqStr(n), coqBool(has)))
			hq = append(hq, fmt.Sprintf("%s=%v", n, has))
		}
	}
	term := fmt.Sprintf("(C13Names %s %s %s %s)", coqList(ft), coqBool(errors.Is(lerr, tuf.ErrDuplicatedRuleName)), coqBool(lerr == nil), coqList(qs))
	c.add(term, sideCase{Class: "names", Nontrivial: len(files) > 1, Key: keyOf(term),
		Human: map[string]interface{}{"rule_files": hf, "load": fmt.Sprint(lerr), "HasRuleName": hq}})
	return nil
}

func genPids(r *rand.Rand) []int {
	n := r.Intn(4)
	out := []int{}
	for i := 0; i < n; i++ {
		out = append(out, r.Intn(6)) // 0 = "", also undefined ones
	}
	if n > 0 && r.Intn(5) == 0 {
		out = append(out, out[0]) // duplicate id
	}
	return out
}

func c13Targets(c *runCtx, r *rand.Rand) {
	t2 := tufv02.NewTargetsMetadata()
	t1 := tufv01.NewTargetsMetadata()
	nOps := 1 + r.Intn(14)
	ops, obs, hops := []string{}, []string{}, []string{}
	v1agree := true
	_ = v1agree
	defer func() {
		if rec := recover(); rec != nil {
			c.add("C13Panic", sideCase{Class: "targets/panic", Nontrivial: true, Key: keyOf(fmt.Sprint(hops)), Human: map[string]interface{}{"ops": hops, "panic": fmt.Sprint(rec)}})
		}
	}()
	nRef := 0
	// half of the sequences are mostly valid: arguments name defined principals and meetable thresholds,
	// so that rule files with several live rules are reached
	valid := r.Intn(2) == 0
	defined := func() []int {
		out := []int{}
		for id := range t2.GetPrincipals() {
			for i := 1; i <= 5; i++ {
				if pName(i) == id {
					out = append(out, i)
				}
			}
		}
		sort.Ints(out)
		return out
	}
	validArgs := func() ([]int, int) {
		d := defined()
		if len(d) == 0 {
			return genPids(r), r.Intn(5) - 1
		}
		n := 1 + r.Intn(len(d))
		pids := []int{}
		for _, i := range r.Perm(len(d))[:n] {
			pids = append(pids, d[i])
		}
		return pids, 1 + r.Intn(n)
	}
	for k := 0; k < nOps; k++ {
		var op, h string
		var e2, e1 error
		strs := func(ids []int) []string {
			out := []string{}
			for _, i := range ids {
				out = append(out, pName(i))
			}
			return out
		}
		x := r.Intn(12)
		forcedP, forcedName := 0, ""
		if valid { // prelude: a few principals, then rules with distinct names; afterwards removals are frequent
			np := 2 + (nOps % 3)
			switch {
			case k < np:
				x, forcedP = 0, k+1
			case k < np+3 && k-np < len(c13Names):
				x, forcedName = 3, c13Names[(k-np+nOps)%len(c13Names)]
			case r.Intn(3) == 0:
				x = 10
			}
		}
		switch {
		case x < 3:
			p := 1 + r.Intn(5)
			if forcedP != 0 {
				p = forcedP
			}
			op, h = fmt.Sprintf("(TAddPrincipal %d%%N)", p), fmt.Sprintf("AddPrincipal p%d", p)
			e2, e1 = t2.AddPrincipal(fakeKey(p)), t1.AddPrincipal(fakeKey(p))
		case x < 6:
			name, pids, pats, thr := c13Names[r.Intn(len(c13Names))], genPids(r), c13Pats[r.Intn(len(c13Pats))], r.Intn(5)-1
			if valid && r.Intn(5) != 0 {
				pids, thr = validArgs()
			}
			if forcedName != "" {
				name = forcedName
				if len(pats) == 0 {
					pats = []string{"git:refs/heads/" + name}
				}
			}
			op, h = fmt.Sprintf("(TAddRule %s %s %s (%d)%%Z)", coqStr(name), coqNsOrdered(pids), coqStrs(pats), thr), fmt.Sprintf("AddRule %q %v thr=%d", name, pids, thr)
			e2, e1 = t2.AddRule(name, strs(pids), pats, thr), t1.AddRule(name, strs(pids), pats, thr)
		case x < 8:
			name, pids, pats, thr := c13Names[r.Intn(len(c13Names))], genPids(r), c13Pats[r.Intn(len(c13Pats))], r.Intn(5)-1
			if valid && r.Intn(5) != 0 {
				pids, thr = validArgs()
			}
			op, h = fmt.Sprintf("(TUpdateRule %s %s %s (%d)%%Z)", coqStr(name), coqNsOrdered(pids), coqStrs(pats), thr), fmt.Sprintf("UpdateRule %q %v thr=%d", name, pids, thr)
			e2, e1 = t2.UpdateRule(name, strs(pids), pats, thr), t1.UpdateRule(name, strs(pids), pats, thr)
		case x < 9:
			name := c13Names[r.Intn(len(c13Names))]
			op, h = fmt.Sprintf("(TRemoveRule %s)", coqStr(name)), fmt.Sprintf("RemoveRule %q", name)
			e2, e1 = t2.RemoveRule(name), t1.RemoveRule(name)
		case x < 10:
			cur := []string{}
			for _, rl := range t2.GetRules() {
				if rl.ID() != tuf.AllowRuleName {
					cur = append(cur, rl.ID())
				}
			}
			r.Shuffle(len(cur), func(i, j int) { cur[i], cur[j] = cur[j], cur[i] })
			switch r.Intn(6) {
			case 0:
				cur = append(cur, c13Names[r.Intn(len(c13Names))])
			case 1:
				if len(cur) > 0 {
					cur = cur[1:]
				}
			case 2:
				cur = dedupStrings(cur)
			}
			op, h = fmt.Sprintf("(TReorder %s)", coqStrs(cur)), fmt.Sprintf("ReorderRules %v", cur)
			e2, e1 = t2.ReorderRules(cur), t1.ReorderRules(cur)
		case x < 11:
			p := r.Intn(6)
			op, h = fmt.Sprintf("(TRemovePrincipal %d%%N)", p), fmt.Sprintf("RemovePrincipal p%d", p)
			e2, e1 = t2.RemovePrincipal(pName(p)), t1.RemovePrincipal(pName(p))
		default:
			p := 1 + r.Intn(5)
			op, h = fmt.Sprintf("(TUpdatePrincipal %d%%N)", p), fmt.Sprintf("UpdatePrincipal p%d", p)
			e2, e1 = t2.UpdatePrincipal(fakeKey(p)), t1.UpdatePrincipal(fakeKey(p))
		}
		if e2 != nil {
			nRef++
		}
		ops = append(ops, op)
		obs = append(obs, fmt.Sprintf("(%s, %s)", merrEnum(e2), dumpTargets(t2)))
		hops = append(hops, fmt.Sprintf("%s => %v", h, e2))
		_ = e1
	}
	// serialise + reload, and migrate the legacy schema: every query must answer identically
	rt := true
	if b, err := json.Marshal(t2); err != nil {
		rt = false
	} else {
		back := &tufv02.TargetsMetadata{}
		if err := json.Unmarshal(b, back); err != nil || dumpTargetsNoAlloc(back) != dumpTargetsNoAlloc(t2) {
			rt = false
		}
	}
	if b, err := json.Marshal(t1); err != nil {
		rt = false
	} else {
		back := &tufv01.TargetsMetadata{}
		if err := json.Unmarshal(b, back); err != nil || dumpTargetsNoAlloc(back) != dumpTargetsNoAlloc(t1) {
			rt = false
		}
	}
	mg := dumpTargetsNoAlloc(migrations.MigrateTargetsMetadataV01ToV02(t1)) == dumpTargetsNoAlloc(t1)
	_ = v1agree
	for _, path := range []string{"git:refs/heads/main", "file:docs/a", "file:x"} {
		m2 := migrations.MigrateTargetsMetadataV01ToV02(t1)
		for i, rl := range t1.GetRules() {
			if rl.Matches(path) != m2.GetRules()[i].Matches(path) {
				mg = false
			}
		}
	}
	term := fmt.Sprintf("(C13T %s %s %s %s)", coqList(ops), coqList(obs), coqBool(rt), coqBool(mg))
	cls := "targets"
	if nRef > 0 {
		cls = "targets+refusals"
	}
	c.add(term, sideCase{Class: cls, Nontrivial: nOps >= 3, Key: keyOf(term), Human: map[string]interface{}{"ops": hops, "roundtrip_ok": rt, "migration_ok": mg}})
}

func dedupStrings(xs []string) []string {
	seen := map[string]bool{}
	out := []string{}
	for _, x := range xs {
		if !seen[x] {
			out = append(out, x)
		}
		seen[x] = true
	}
	return out
}

func coqStrs(xs []string) string {
	out := []string{}
	for _, x := range xs {
		out = append(out, coqStr(x))
	}
	return coqList(out)
}

func coqNsOrdered(xs []int) string {
	out := []string{}
	for _, x := range xs {
		out = append(out, fmt.Sprintf("%d%%N", x))
	}
	return coqList(out)
}

func c13Root(c *runCtx, r *rand.Rand) {
	m2 := tufv02.NewRootMetadata()
	m1 := tufv01.NewRootMetadata()
	nOps := 1 + r.Intn(12)
	ops, obs, hops := []string{}, []string{}, []string{}
	v1agree := true
	defer func() {
		if rec := recover(); rec != nil {
			c.add("C13Panic", sideCase{Class: "root/panic", Nontrivial: true, Key: keyOf(fmt.Sprint(hops)), Human: map[string]interface{}{"ops": hops, "panic": fmt.Sprint(rec)}})
		}
	}()
	nRef := 0
	// edits of the parts of the root of trust the model does not carry (multi-repository data, location,
	// global rules, propagation directives): applied to both objects between the modelled edits; they
	// must survive serialisation and migration like everything else
	extras := []string{}
	extra := func() {
		var ea, eb error
		var h string
		switch r.Intn(8) {
		case 0:
			h, ea, eb = "EnableController", m2.EnableController(), m1.EnableController()
		case 1:
			h, ea, eb = "DisableController", m2.DisableController(), m1.DisableController()
		case 2:
			n := fmt.Sprintf("ctl%d", r.Intn(3))
			h, ea, eb = "AddControllerRepository "+n, m2.AddControllerRepository(n, "https://example.com/"+n, nil), m1.AddControllerRepository(n, "https://example.com/"+n, nil)
		case 3:
			n := fmt.Sprintf("net%d", r.Intn(3))
			h, ea, eb = "AddNetworkRepository "+n, m2.AddNetworkRepository(n, "https://example.com/"+n, nil), m1.AddNetworkRepository(n, "https://example.com/"+n, nil)
		case 4:
			loc := fmt.Sprintf("https://example.com/self%d", r.Intn(3))
			m2.SetRepositoryLocation(loc)
			m1.SetRepositoryLocation(loc)
			h = "SetRepositoryLocation " + loc
		case 5:
			g := tufv01.NewGlobalRuleThreshold(fmt.Sprintf("g%d", r.Intn(3)), []string{"git:refs/heads/*"}, 1+r.Intn(2))
			h, ea, eb = "AddGlobalRule "+g.GetName(), m2.AddGlobalRule(g), m1.AddGlobalRule(g)
		case 6:
			d := tufv01.NewPropagationDirective(fmt.Sprintf("d%d", r.Intn(3)), "https://example.com/up", "refs/heads/main", "", "refs/heads/main", "up")
			d2 := tufv02.NewPropagationDirective(d.GetName(), "https://example.com/up", "refs/heads/main", "", "refs/heads/main", "up")
			h, ea, eb = "AddPropagationDirective "+d.GetName(), m2.AddPropagationDirective(d2), m1.AddPropagationDirective(d)
		default:
			return
		}
		extras = append(extras, fmt.Sprintf("%s => v02:%v v01:%v", h, ea, eb))
	}
	for k := 0; k < nOps; k++ {
		if r.Intn(3) == 0 {
			extra()
		}
		var op, h string
		var e2, e1 error
		switch x := r.Intn(10); {
		case x < 3:
			p := 1 + r.Intn(5)
			op, h = fmt.Sprintf("(RAddRoot %d%%N)", p), fmt.Sprintf("AddRootPrincipal p%d", p)
			e2, e1 = m2.AddRootPrincipal(fakeKey(p)), m1.AddRootPrincipal(fakeKey(p))
		case x < 5:
			p := 1 + r.Intn(5)
			op, h = fmt.Sprintf("(RAddTargets %d%%N)", p), fmt.Sprintf("AddPrimaryRuleFilePrincipal p%d", p)
			e2, e1 = m2.AddPrimaryRuleFilePrincipal(fakeKey(p)), m1.AddPrimaryRuleFilePrincipal(fakeKey(p))
		case x < 6:
			p := r.Intn(6)
			op, h = fmt.Sprintf("(RDelRoot %d%%N)", p), fmt.Sprintf("DeleteRootPrincipal p%d", p)
			e2, e1 = m2.DeleteRootPrincipal(pName(p)), m1.DeleteRootPrincipal(pName(p))
		case x < 7:
			p := r.Intn(6)
			op, h = fmt.Sprintf("(RDelTargets %d%%N)", p), fmt.Sprintf("DeletePrimaryRuleFilePrincipal p%d", p)
			e2, e1 = m2.DeletePrimaryRuleFilePrincipal(pName(p)), m1.DeletePrimaryRuleFilePrincipal(pName(p))
		case x < 9:
			z := r.Intn(6) - 1
			op, h = fmt.Sprintf("(RSetRootThr (%d)%%Z)", z), fmt.Sprintf("UpdateRootThreshold %d", z)
			e2, e1 = m2.UpdateRootThreshold(z), m1.UpdateRootThreshold(z)
		default:
			z := r.Intn(6) - 1
			op, h = fmt.Sprintf("(RSetTargetsThr (%d)%%Z)", z), fmt.Sprintf("UpdatePrimaryRuleFileThreshold %d", z)
			e2, e1 = m2.UpdatePrimaryRuleFileThreshold(z), m1.UpdatePrimaryRuleFileThreshold(z)
		}
		if e2 != nil {
			nRef++
		}
		ops = append(ops, op)
		obs = append(obs, fmt.Sprintf("(%s, %s)", merrEnum(e2), dumpRoot(m2)))
		hops = append(hops, fmt.Sprintf("%s => %v", h, e2))
		_ = e1
	}
	rt := true
	if b, err := json.Marshal(m2); err != nil {
		rt = false
	} else {
		back := &tufv02.RootMetadata{}
		if err := json.Unmarshal(b, back); err != nil || dumpRoot(back) != dumpRoot(m2) || dumpRootExtra(back) != dumpRootExtra(m2) {
			rt = false
		}
	}
	if b, err := json.Marshal(m1); err != nil {
		rt = false
	} else {
		back := &tufv01.RootMetadata{}
		if err := json.Unmarshal(b, back); err != nil || dumpRoot(back) != dumpRoot(m1) || dumpRootExtra(back) != dumpRootExtra(m1) {
			rt = false
		}
	}
	mig := migrations.MigrateRootMetadataV01ToV02(m1)
	_ = v1agree
	mg := dumpRoot(mig) == dumpRoot(m1) && reflect.DeepEqual(len(mig.GetGlobalRules()), len(m1.GetGlobalRules())) && dumpRootExtra(mig) == dumpRootExtra(m1)
	term := fmt.Sprintf("(C13R %s %s %s %s)", coqList(ops), coqList(obs), coqBool(rt), coqBool(mg))
	cls := "root"
	if nRef > 0 {
		cls = "root+refusals"
	}
	c.add(term, sideCase{Class: cls, Nontrivial: nOps >= 3, Key: keyOf(term), Human: map[string]interface{}{"ops": hops, "unmodelled_edits": extras, "roundtrip_ok": rt, "migration_ok": mg, "extra_v01": dumpRootExtra(m1), "extra_migrated": dumpRootExtra(mig)}})
	_ = strings.Join
}
