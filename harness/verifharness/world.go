//go:build verif

package main

// World builder for the verifier family: materialises an abstract world (policy states, pushes,
// approvals, annotations, propagation entries over a small commit graph) in an in-memory Storer
// with real signatures, and prints the same world as a Coq term (World.v).

import (
	"context"
	"encoding/base64"
	"encoding/json"
	"errors"
	"fmt"
	"sort"
	"strings"

	"github.com/gittuf/gittuf/internal/attestations"
	ita "github.com/in-toto/attestation/go/v1"
	"github.com/gittuf/gittuf/internal/attestations/authorizations"
	"github.com/gittuf/gittuf/internal/common/set"
	"github.com/gittuf/gittuf/internal/policy"
	"github.com/gittuf/gittuf/internal/signerverifier/dsse"
	sslibdsse "github.com/gittuf/gittuf/internal/third_party/go-securesystemslib/dsse"
	"github.com/gittuf/gittuf/internal/tuf"
	tufv01 "github.com/gittuf/gittuf/internal/tuf/v01"
	tufv02 "github.com/gittuf/gittuf/internal/tuf/v02"
	"github.com/gittuf/gittuf/pkg/githash"
	"github.com/gittuf/gittuf/pkg/gitstore"
	"github.com/gittuf/gittuf/pkg/rsl"
)

type wGlobal struct {
	Kind  string // threshold | blockforce
	Name  string
	Pats  []string
	K     int
}

// wController: a controller repository's metadata as carried in the policy tree
// (gittuf-controller/<name>/root.json), with the global rules its root declares.
type wController struct {
	Name    string
	Globals []wGlobal
}

type wFile struct {
	hFile
	Version int
	Signers []int
}

type wPolicy struct {
	RootVersion    int
	RootKeys       []int
	RootThr        int
	TargetsKeys    []int
	TargetsThr     int
	HasTargetsRole bool
	RootSigners    []int
	Files          []*wFile // "targets" first when present
	Globals        []wGlobal
	Controllers    []wController
	// controller repositories the root of trust declares (name, location); State.Verify clones and
	// verifies each of them whenever the tree carries controller metadata
	DeclaredControllers [][2]string
	Hooks          []wHook // C20: pre-commit hooks declared in the root of trust
	Apps           []wApp  // C09: code-review apps declared in the root of trust
	// the root envelope carries no signature of its own: its signature block is copied verbatim from
	// this other state's root envelope (signatures over other content)
	RootSigsLiftedFrom *wPolicy
}

type wApp struct {
	Name    string
	Trusted bool
	Key     int
}

// wReview is a pull-request approval attestation: the app slot and path it is stored under, the
// change its signed statement names, the identities it lists and the keys that sign it.
type wReview struct {
	App                        string
	Ref                        string
	From, To                   int
	PathRef                    string
	PathFrom, PathTo           int
	Approvers                  []string
	Signers                    []int
}

type wHook struct {
	Name    string
	Pids    []int
	BlobID  string
	Timeout int
}

type wAuthz struct {
	ForTag            bool // an authorization for a tag: To / PathTo are commits, From / PathFrom tag objects
	Ref               string
	From, To          int // commit number / tree number as named by the signed statement (From: commit, To: tree)
	PathRef           string
	PathFrom, PathTo  int
	Signers           []int
}

type wEvent struct {
	Kind    string // policy | staging | attest | ref | ann | prop
	Pol     *wPolicy
	Auths   []wAuthz
	Reviews []wReview
	Ref     string
	Commit  int
	Signer  int // 0: unsigned entry
	Targets []int
	Skip    bool
	// Kind "tag": an annotated tag object TagNum (numbered from 1000) on Commit, signed by TagSigner
	// (0: unsigned), recorded for Ref by Signer; NoSetRef: the tag reference is not moved to it
	TagNum    int
	TagSigner int
	NoSetRef  bool
}

type wCommit struct {
	ID      int
	Tree    int
	Parents []int
	// C10: the tree's regular files (path -> blob number; nil: the default single file) and the
	// key that signs the commit object (0: unsigned)
	Files  map[string]int
	Signer int
}

type wWorld struct {
	Commits []wCommit
	Events  []wEvent
}

// ---- Coq printing ---------------------------------------------------------------------------

func coqKeys(ks []int) string {
	out := []string{}
	for _, k := range ks {
		out = append(out, fmt.Sprintf("%d%%N", k))
	}
	return coqList(out)
}

func (f *wFile) coqS() string {
	// (name, sfile)
	inner := f.hFile.coq() // (name, rfile)
	i := strings.Index(inner, ", {|")
	name, rfile := inner[1:i], inner[i+2:len(inner)-1]
	return fmt.Sprintf("(%s, {| sf_file := %s; sf_version := %d%%N; sf_signers := %s |})", name, rfile, f.Version, coqKeys(f.Signers))
}

func (p *wPolicy) coq() string {
	files := []string{}
	for _, f := range p.Files {
		files = append(files, f.coqS())
	}
	coqGlobals := func(l []wGlobal) []string {
		gs := []string{}
		for _, g := range l {
			if g.Kind == "threshold" {
				gs = append(gs, fmt.Sprintf("(GThreshold %s %s (%d)%%Z)", coqStr(g.Name), coqStrs(g.Pats), g.K))
			} else {
				gs = append(gs, fmt.Sprintf("(GBlockForce %s %s)", coqStr(g.Name), coqStrs(g.Pats)))
			}
		}
		return gs
	}
	gs := coqGlobals(p.Globals)
	if len(p.Controllers) > 0 {
		cs := []string{}
		for _, ct := range p.Controllers {
			cs = append(cs, fmt.Sprintf("(%s, %s)", coqStr(ct.Name), coqList(coqGlobals(ct.Globals))))
		}
		q := *p
		q.Controllers = nil
		return fmt.Sprintf("(with_controllers %s %s)", q.coq(), coqList(cs))
	}
	return fmt.Sprintf("{| ps_root_version := %d%%N; ps_root_keys := %s; ps_root_thr := (%d)%%Z; ps_targets_keys := %s; ps_targets_thr := (%d)%%Z; ps_has_targets_role := %s; ps_root_signers := %s; ps_files := %s; ps_globals := %s |}",
		p.RootVersion, coqKeys(p.RootKeys), p.RootThr, coqKeys(p.TargetsKeys), p.TargetsThr, coqBool(p.HasTargetsRole), coqKeys(p.validRootSigners()), coqList(files), coqList(gs))
}

func (e *wEvent) coq() string {
	switch e.Kind {
	case "policy":
		return "(WEPolicy " + e.Pol.coq() + ")"
	case "staging":
		return "WEStaging"
	case "attest":
		as := []string{}
		for _, a := range e.Auths {
			as = append(as, fmt.Sprintf("{| az_ref := %s; az_from := %d%%N; az_to := %d%%N; az_path_ref := %s; az_path_from := %d%%N; az_path_to := %d%%N; az_signers := %s |}",
				coqStr(a.Ref), a.From, a.To, coqStr(a.PathRef), a.PathFrom, a.PathTo, coqKeys(a.Signers)))
		}
		return "(WEAttest " + coqList(as) + ")"
	case "ref":
		return fmt.Sprintf("(WERef %s %d%%N %d%%N)", coqStr(e.Ref), e.Commit, e.Signer)
	case "tag":
		return fmt.Sprintf("(WERef %s %d%%N %d%%N)", coqStr(e.Ref), e.TagNum, e.Signer)
	case "ann":
		ts := []string{}
		for _, t := range e.Targets {
			ts = append(ts, fmt.Sprint(t))
		}
		return fmt.Sprintf("(WEAnn %s %s)", coqList(ts), coqBool(e.Skip))
	}
	return fmt.Sprintf("(WEProp %s %d%%N)", coqStr(e.Ref), e.Commit)
}

func (w *wWorld) coq() string {
	cs := []string{}
	for _, c := range w.Commits {
		cs = append(cs, fmt.Sprintf("(%d%%N, {| ci_tree := %d%%N; ci_parents := %s |})", c.ID, c.Tree, coqKeys(c.Parents)))
	}
	es := []string{}
	for _, e := range w.Events {
		es = append(es, e.coq())
	}
	return fmt.Sprintf("{| w_log := %s; w_commits := %s |}", coqList(es), coqList(cs))
}

func (w *wWorld) human() []string {
	out := []string{}
	for i, e := range w.Events {
		switch e.Kind {
		case "policy":
			fs := []string{}
			for _, f := range e.Pol.Files {
				rs := []string{}
				for _, r := range f.Rules {
					rs = append(rs, fmt.Sprintf("%s%v thr=%d pids=%v term=%v", r.Name, r.Patterns, r.Thr, r.Pids, r.Term))
				}
				fs = append(fs, fmt.Sprintf("%s v%d signed%v defs=%v [%s]", f.Name, f.Version, f.Signers, f.Defs, strings.Join(rs, "; ")))
			}
			out = append(out, fmt.Sprintf("%d policy rootv%d rootkeys=%v/%d targetskeys=%v/%d signed%v globals=%v controllers=%v files: %s", i, e.Pol.RootVersion, e.Pol.RootKeys, e.Pol.RootThr, e.Pol.TargetsKeys, e.Pol.TargetsThr, e.Pol.RootSigners, e.Pol.Globals, e.Pol.Controllers, strings.Join(fs, " | ")))
		case "ref":
			out = append(out, fmt.Sprintf("%d push %s -> c%d signed by key %d", i, e.Ref, e.Commit, e.Signer))
		case "tag":
			out = append(out, fmt.Sprintf("%d tag %s -> tag object t%d (on c%d, signed by key %d) recorded by key %d, ref moved=%v", i, e.Ref, e.TagNum, e.Commit, e.TagSigner, e.Signer, !e.NoSetRef))
		case "ann":
			out = append(out, fmt.Sprintf("%d annotation %v skip=%v", i, e.Targets, e.Skip))
		case "attest":
			out = append(out, fmt.Sprintf("%d attestations %+v", i, e.Auths))
		default:
			out = append(out, fmt.Sprintf("%d %s %s c%d", i, e.Kind, e.Ref, e.Commit))
		}
	}
	cs := []string{}
	for _, c := range w.Commits {
		cs = append(cs, fmt.Sprintf("c%d(tree %d, parents %v)", c.ID, c.Tree, c.Parents))
	}
	return append(out, "commits: "+strings.Join(cs, " "))
}

// ---- materialisation ------------------------------------------------------------------------

type builtWorld struct {
	m        *memStore
	commits  map[int]githash.Hash
	commitOf map[string]int
	trees    map[int]githash.Hash
	blobs    map[int]githash.Hash
	entryIDs []githash.Hash // RSL entry id per event
}

func keyPrincipal(k int) *tufv02.Key { return tufv02.NewKeyFromSSLibKey(poolKeyN(k).SSLib) }

func signedEnvelope(v any, signers []int) (*sslibdsse.Envelope, error) {
	env, err := dsse.CreateEnvelope(v)
	if err != nil {
		return nil, err
	}
	for _, s := range signers {
		env, err = dsse.SignEnvelope(context.Background(), env, poolKeyN(s))
		if err != nil {
			return nil, err
		}
	}
	return env, nil
}

// validRootSigners: the keys whose signature over this root is valid (none when the block was lifted)
func (p *wPolicy) validRootSigners() []int {
	if p.RootSigsLiftedFrom != nil {
		return nil
	}
	return p.RootSigners
}

func (p *wPolicy) rootMetadata() *tufv02.RootMetadata {
	r := tufv02.NewRootMetadata()
	r.Version = uint64(p.RootVersion)
	r.Principals = map[string]tuf.Principal{}
	r.Roles = map[string]tufv02.Role{}
	ids := []string{}
	for _, k := range p.RootKeys {
		r.Principals[poolKeyN(k).SSLib.KeyID] = keyPrincipal(k)
		ids = append(ids, poolKeyN(k).SSLib.KeyID)
	}
	r.Roles[tuf.RootRoleName] = tufv02.Role{PrincipalIDs: set.NewSetFromItems(ids...), Threshold: p.RootThr}
	if p.HasTargetsRole {
		tids := []string{}
		for _, k := range p.TargetsKeys {
			r.Principals[poolKeyN(k).SSLib.KeyID] = keyPrincipal(k)
			tids = append(tids, poolKeyN(k).SSLib.KeyID)
		}
		r.Roles[tuf.TargetsRoleName] = tufv02.Role{PrincipalIDs: set.NewSetFromItems(tids...), Threshold: p.TargetsThr}
	}
	for _, dc := range p.DeclaredControllers {
		if err := r.AddControllerRepository(dc[0], dc[1], []tuf.Principal{keyPrincipal(1)}); err != nil {
			panic(err)
		}
	}
	for _, a := range p.Apps {
		if err := r.AddGitHubAppPrincipal(a.Name, keyPrincipal(a.Key)); err != nil {
			panic(err)
		}
		if a.Trusted {
			r.EnableGitHubAppApprovals(a.Name)
		}
	}
	for _, h := range p.Hooks {
		ids := []string{}
		for _, i := range h.Pids {
			ids = append(ids, personID(i))
		}
		if _, err := r.AddHook([]tuf.HookStage{tuf.HookStagePreCommit}, h.Name, ids, map[string]string{"gitBlob": h.BlobID}, tuf.HookEnvironmentLua, h.Timeout); err != nil {
			panic(err)
		}
	}
	for _, g := range p.Globals {
		if g.Kind == "threshold" {
			r.GlobalRules = append(r.GlobalRules, tufv01.NewGlobalRuleThreshold(g.Name, g.Pats, g.K))
		} else {
			br, err := tufv01.NewGlobalRuleBlockForcePushes(g.Name, g.Pats)
			if err == nil {
				r.GlobalRules = append(r.GlobalRules, br)
			}
		}
	}
	return r
}

func (p *wPolicy) stateMetadata() (*policy.StateMetadata, error) {
	md := &policy.StateMetadata{DelegationEnvelopes: map[string]*sslibdsse.Envelope{}}
	var err error
	md.RootEnvelope, err = signedEnvelope(p.rootMetadata(), p.RootSigners)
	if err != nil {
		return nil, err
	}
	if p.RootSigsLiftedFrom != nil {
		md.RootEnvelope, err = signedEnvelope(p.rootMetadata(), nil)
		if err != nil {
			return nil, err
		}
		other, err := signedEnvelope(p.RootSigsLiftedFrom.rootMetadata(), p.RootSigsLiftedFrom.RootSigners)
		if err != nil {
			return nil, err
		}
		md.RootEnvelope.Signatures = other.Signatures
	}
	for _, f := range p.Files {
		t := f.metadata()
		t.Version = uint64(f.Version)
		env, err := signedEnvelope(t, f.Signers)
		if err != nil {
			return nil, err
		}
		if f.Name == "targets" {
			md.TargetsEnvelope = env
		} else {
			md.DelegationEnvelopes[f.Name] = env
		}
	}
	return md, nil
}

func (b *builtWorld) recordSigned(e rsl.Entry, signer int) error {
	if signer == 0 {
		return e.Commit(b.m, false)
	}
	b.m.defaultKey = poolKeyN(signer).PEM
	defer func() { b.m.defaultKey = nil }()
	return e.Commit(b.m, true)
}

func buildWorld(w *wWorld) (*builtWorld, error) { return buildWorldHook(w, nil) }

// buildWorldHook calls hook(i, b) after event i has been recorded.
func buildWorldHook(w *wWorld, hook func(i int, b *builtWorld) error) (*builtWorld, error) {
	b := &builtWorld{m: newMemStore(), commits: map[int]githash.Hash{}, commitOf: map[string]int{}, trees: map[int]githash.Hash{}}
	rsl.VerifResetCache()
	for _, c := range w.Commits {
		if _, ok := b.trees[c.Tree]; !ok && c.Files != nil {
			ents := []gitstore.TreeEntry{}
			for path, num := range c.Files {
				blob, err := b.m.WriteBlob([]byte(fmt.Sprintf("blob %d\n", num)))
				if err != nil {
					return nil, err
				}
				if b.blobs == nil {
					b.blobs = map[int]githash.Hash{}
				}
				b.blobs[num] = blob
				ents = append(ents, gitstore.TreeEntry{Path: path, ID: blob, Kind: gitstore.KindBlob})
			}
			t, err := b.m.WriteTree(ents)
			if err != nil {
				return nil, err
			}
			b.trees[c.Tree] = t
		}
		if _, ok := b.trees[c.Tree]; !ok {
			blob, err := b.m.WriteBlob([]byte(fmt.Sprintf("content of tree %d\n", c.Tree)))
			if err != nil {
				return nil, err
			}
			t, err := b.m.WriteTree([]gitstore.TreeEntry{{Path: "file.txt", ID: blob, Kind: gitstore.KindBlob}})
			if err != nil {
				return nil, err
			}
			b.trees[c.Tree] = t
		}
		parents := []githash.Hash{}
		for _, p := range c.Parents {
			parents = append(parents, b.commits[p])
		}
		var ckey []byte
		if c.Signer != 0 {
			ckey = poolKeyN(c.Signer).PEM
		}
		id, err := b.m.createCommit(b.trees[c.Tree], parents, fmt.Sprintf("commit %d", c.ID), ckey)
		if err != nil {
			return nil, err
		}
		b.commits[c.ID] = id
		b.commitOf[id.String()] = c.ID
	}
	zero := strings.Repeat("0", 40)
	commitStr := func(n int) string {
		if n == 0 {
			return zero
		}
		return b.commits[n].String()
	}
	for evIdx, e := range w.Events {
		switch e.Kind {
		case "policy", "staging":
			ref := policy.PolicyRef
			var root githash.Hash
			if e.Kind == "staging" {
				ref = policy.PolicyStagingRef
			}
			if e.Kind == "staging" && e.Pol == nil {
				root, _ = b.m.EmptyTree()
			} else {
				md, err := e.Pol.stateMetadata()
				if err != nil {
					return nil, err
				}
				st, err := md.WriteTree(b.m)
				if err != nil {
					return nil, err
				}
				top := []gitstore.TreeEntry{{Path: "metadata", ID: st, Kind: gitstore.KindSubtree}}
				for _, ct := range e.Pol.Controllers {
					// the controller's own root of trust: one root key, version 1, its global rules
					cmd, err := (&wPolicy{RootVersion: 1, RootKeys: []int{1}, RootThr: 1, RootSigners: []int{1}, Globals: ct.Globals}).stateMetadata()
					if err != nil {
						return nil, err
					}
					cst, err := cmd.WriteTree(b.m)
					if err != nil {
						return nil, err
					}
					top = append(top, gitstore.TreeEntry{Path: tuf.GittufControllerPrefix + "/" + ct.Name, ID: cst, Kind: gitstore.KindSubtree})
				}
				root, err = b.m.WriteTree(top)
				if err != nil {
					return nil, err
				}
			}
			cid, err := b.m.Commit(root, ref, "policy", false)
			if err != nil {
				return nil, err
			}
			if err := b.recordSigned(rsl.NewReferenceEntry(ref, cid), e.Signer); err != nil {
				return nil, err
			}
		case "attest":
			ents := []gitstore.TreeEntry{}
			for _, a := range e.Auths {
				toStr, pathToStr := "", ""
				if a.ForTag {
					toStr, pathToStr = commitStr(a.To), commitStr(a.PathTo)
				} else {
					toStr, pathToStr = b.trees[a.To].String(), b.trees[a.PathTo].String()
				}
				var stmt *ita.Statement
				var err error
				if a.ForTag {
					stmt, err = attestations.NewReferenceAuthorizationForTag(a.Ref, commitStr(a.From), toStr)
				} else {
					stmt, err = attestations.NewReferenceAuthorizationForCommit(a.Ref, commitStr(a.From), toStr)
				}
				if err != nil {
					return nil, err
				}
				env, err := signedEnvelope(stmt, a.Signers)
				if err != nil {
					return nil, err
				}
				eb, _ := json.Marshal(env)
				blob, err := b.m.WriteBlob(eb)
				if err != nil {
					return nil, err
				}
				ents = append(ents, gitstore.TreeEntry{Path: "reference-authorizations/" + attestations.ReferenceAuthorizationPath(a.PathRef, commitStr(a.PathFrom), pathToStr), ID: blob, Kind: gitstore.KindBlob})
			}
			for _, rv := range e.Reviews {
				stmt, err := attestations.NewGitHubPullRequestApprovalAttestation(rv.Ref, commitStr(rv.From), b.trees[rv.To].String(), rv.Approvers, nil)
				if err != nil {
					return nil, err
				}
				env, err := signedEnvelope(stmt, rv.Signers)
				if err != nil {
					return nil, err
				}
				eb, _ := json.Marshal(env)
				blob, err := b.m.WriteBlob(eb)
				if err != nil {
					return nil, err
				}
				ents = append(ents, gitstore.TreeEntry{Path: "code-review-approvals/" + attestations.GitHubPullRequestApprovalAttestationPath(rv.PathRef, commitStr(rv.PathFrom), b.trees[rv.PathTo].String()) +
					"/" + base64.URLEncoding.EncodeToString([]byte(rv.App)), ID: blob, Kind: gitstore.KindBlob})
			}
			tree, err := b.m.WriteTree(ents)
			if err != nil {
				return nil, err
			}
			cid, err := b.m.Commit(tree, attestations.Ref, "attestations", false)
			if err != nil {
				return nil, err
			}
			if err := b.recordSigned(rsl.NewReferenceEntry(attestations.Ref, cid), e.Signer); err != nil {
				return nil, err
			}
		case "ref":
			if err := b.m.SetReference(e.Ref, b.commits[e.Commit]); err != nil {
				return nil, err
			}
			if err := b.recordSigned(rsl.NewReferenceEntry(e.Ref, b.commits[e.Commit]), e.Signer); err != nil {
				return nil, err
			}
		case "tag":
			if _, ok := b.commits[e.TagNum]; !ok {
				var key []byte
				if e.TagSigner != 0 {
					key = poolKeyN(e.TagSigner).PEM
				}
				tid, err := b.m.createTag(b.commits[e.Commit], fmt.Sprintf("t%d", e.TagNum), "tag", key)
				if err != nil {
					return nil, err
				}
				b.commits[e.TagNum] = tid
				b.commitOf[tid.String()] = e.TagNum
			}
			if !e.NoSetRef {
				if err := b.m.SetReference(e.Ref, b.commits[e.TagNum]); err != nil {
					return nil, err
				}
			}
			if err := b.recordSigned(rsl.NewReferenceEntry(e.Ref, b.commits[e.TagNum]), e.Signer); err != nil {
				return nil, err
			}
		case "ann":
			ids := []githash.Hash{}
			for _, t := range e.Targets {
				ids = append(ids, b.entryIDs[t])
			}
			if err := b.recordSigned(rsl.NewAnnotationEntry(ids, e.Skip, ""), e.Signer); err != nil {
				return nil, err
			}
		case "prop":
			if err := b.recordSigned(rsl.NewPropagationEntry(e.Ref, b.commits[e.Commit], "https://example.com/upstream", b.commits[e.Commit]), e.Signer); err != nil {
				return nil, err
			}
		}
		tip, _ := b.m.GetReference(rsl.Ref)
		b.entryIDs = append(b.entryIDs, tip)
		if hook != nil {
			if err := hook(evIdx, b); err != nil {
				return nil, err
			}
		}
	}
	return b, nil
}

// voutOf renders (tip, err) of a verification call as a Coq [vout].
func (b *builtWorld) voutOf(tip githash.Hash, err error) (string, string) {
	if err == nil {
		n := b.commitOf[tip.String()]
		return fmt.Sprintf("(VTip %d%%N)", n), fmt.Sprintf("ok tip=c%d", n)
	}
	cls := "VEOther"
	switch {
	case errors.Is(err, policy.ErrInvalidEntryNotSkipped):
		cls = "VENotSkipped"
	case errors.Is(err, policy.ErrLastGoodEntryIsSkipped):
		cls = "VELastGoodSkipped"
	case errors.Is(err, policy.ErrVerificationFailed), errors.Is(err, authorizations.ErrInvalidAuthorization):
		cls = "VEViolation"
	case errors.Is(err, policy.ErrVerifierConditionsUnmet), errors.Is(err, policy.ErrMetadataRollbackDetected),
		errors.Is(err, policy.ErrDanglingDelegationMetadata), errors.Is(err, policy.ErrInvalidVerifier), errors.Is(err, sslibdsse.ErrNoSignature):
		cls = "VEPolicy"
	case errors.Is(err, rsl.ErrRSLEntryNotFound), errors.Is(err, policy.ErrPolicyNotFound):
		cls = "VENotFound"
	}
	return "(VFail " + cls + ")", cls + ": " + err.Error()
}

func sortedInts(m map[int]bool) []int {
	out := []int{}
	for k := range m {
		out = append(out, k)
	}
	sort.Ints(out)
	return out
}
