//go:build verif

package main

import (
	"context"
	"errors"
	"fmt"
	"strings"

	"github.com/gittuf/gittuf/internal/policy"
	"github.com/gittuf/gittuf/pkg/githash"
	"github.com/gittuf/gittuf/pkg/gitstore"
	"github.com/gittuf/gittuf/pkg/rsl"
)

func init() { props["C12"] = runC12 }

func aerrEnum(err error) string {
	switch {
	case err == nil:
		return "None"
	case errors.Is(err, policy.ErrInvalidPolicy):
		return "(Some AEInvalidPolicy)"
	case errors.Is(err, policy.ErrNotAncestor):
		return "(Some AENotAncestor)"
	case errors.Is(err, gitstore.ErrReferenceNotFound) && strings.Contains(err.Error(), "staging"):
		return "(Some AENoStaging)"
	case strings.Contains(err.Error(), "failed to load current state"), strings.Contains(err.Error(), "staged policy is invalid"),
		strings.Contains(err.Error(), "failed to load applied policy"), strings.Contains(err.Error(), "not a valid successor"):
		return "(Some AEInvalidState)"
	}
	return "(Some AEOther)"
}

func runC12(c *runCtx) error {
	c.coqImport = "C12Check"
	c.caseType = "c12case"
	c.checkFn = "c12_check"
	r := c.rng
	skippedDiverged := 0
	defer func() { c.extra["sequences_skipped_because_staging_diverged"] = skippedDiverged }()
	for len(c.cases) < c.n {
		m := newMemStore()
		rsl.VerifResetCache()
		num := map[string]uint64{} // policy/staging commit -> number
		numOf := func(h githash.Hash) string {
			if h.IsZero() {
				return "None"
			}
			if n, ok := num[h.String()]; ok {
				return fmt.Sprintf("(Some %d%%N)", n)
			}
			return "(Some 999%N)"
		}
		var staged []githash.Hash
		cur := basePolicy(r, "C12")
		cur.Globals = nil
		cur.Controllers = nil
		nOps := 2 + r.Intn(9)
		ops, obs, hops := []string{}, []string{}, []string{}
		parents := []string{}
		panicked := false
		for k := 0; k < nOps && !panicked; k++ {
			var op, h string
			var err error
			func() {
				defer func() {
					if rec := recover(); rec != nil {
						panicked = true
						h = fmt.Sprint("panic: ", rec)
					}
				}()
				x := r.Intn(100)
				if k == 0 {
					x = 0
				}
				switch {
				case x < 45:
					np := cur
					kind := "initial"
					if k > 0 {
						np, kind = mutatePolicy(r, cur, r.Intn(3) == 0)
					}
					np.Globals = nil
					np.Controllers = nil
					cur = np
					md, e := np.stateMetadata()
					if e != nil {
						err = e
						return
					}
					prev, _ := m.GetReference(policy.PolicyStagingRef)
					err = (&policy.State{Metadata: md}).Commit(m, "stage", true, false)
					tip, _ := m.GetReference(policy.PolicyStagingRef)
					if err == nil {
						num[tip.String()] = uint64(len(staged) + 1)
						staged = append(staged, tip)
						par := "None"
						if !prev.IsZero() {
							par = numOf(prev)
						}
						parents = append(parents, fmt.Sprintf("(%d%%N, %s)", len(staged), par))
					}
					op, h = "(AStage "+np.coq()+")", "stage "+kind
				case x < 80:
					err = policy.Apply(context.Background(), m, false)
					op, h = "AApply", "apply"
				case x < 90:
					err = policy.Discard(m)
					op, h = "ADiscard", "discard"
				default:
					if len(staged) == 0 {
						err = policy.Discard(m)
						op, h = "ADiscard", "discard"
						return
					}
					t := staged[r.Intn(len(staged))]
					if r.Intn(2) == 0 {
						err = m.SetReference(policy.PolicyRef, t)
						op, h = fmt.Sprintf("(ATamperPolicy %d%%N)", num[t.String()]), fmt.Sprintf("tamper policy ref -> %d", num[t.String()])
					} else {
						err = m.SetReference(policy.PolicyStagingRef, t)
						op, h = fmt.Sprintf("(ATamperStaging %d%%N)", num[t.String()]), fmt.Sprintf("tamper staging ref -> %d", num[t.String()])
					}
				}
			}()
			if panicked {
				break
			}
			rsl.VerifResetCache()
			pt, _ := m.GetReference(policy.PolicyRef)
			st, _ := m.GetReference(policy.PolicyStagingRef)
			tip, _ := m.GetReference(rsl.Ref)
			g, gerr := walkGraph(m, tip)
			if gerr != nil {
				return gerr
			}
			logt := []string{}
			hasPolicyEntry := false
			for _, gc := range g {
				if gc.Entry != nil && gc.Entry.Kind == "ref" && (gc.Entry.Ref == policy.PolicyRef || gc.Entry.Ref == policy.PolicyStagingRef) {
					isPol := gc.Entry.Ref == policy.PolicyRef
					hasPolicyEntry = hasPolicyEntry || isPol
					n := "999%N"
					if v, ok := num[gc.Entry.Target.String()]; ok {
						n = fmt.Sprintf("%d%%N", v)
					}
					logt = append(logt, fmt.Sprintf("(%s, %s)", coqBool(isPol), n))
				}
			}
			loadable := true
			if hasPolicyEntry {
				_, lerr := policy.LoadCurrentState(context.Background(), m, policy.PolicyRef)
				loadable = lerr == nil
			}
			ops = append(ops, op)
			obs = append(obs, fmt.Sprintf("{| ob_err := %s; ob_policy := %s; ob_staging := %s; ob_log := %s; ob_loadable := %s |}", aerrEnum(err), numOf(pt), numOf(st), coqList(logt), coqBool(loadable)))
			hops = append(hops, fmt.Sprintf("%s => %v | policy=%s staging=%s loadable=%v", h, err, numOf(pt), numOf(st), loadable))
		}
		if panicked {
			c.add("C12Panic", sideCase{Class: "panic", Nontrivial: true, Key: keyOf(fmt.Sprint(hops)), Human: map[string]interface{}{"ops": hops}})
			continue
		}
		term := fmt.Sprintf("(C12 %s %s %s)", coqList(ops), coqList(obs), coqList(parents))
		if strings.Contains(term, "999%N") {
			// ReconcileStaging rewrote a diverged staging line (new commits): outside the modelled cases
			skippedDiverged++
			continue
		}
		c.add(term, sideCase{Class: "apply-sequences", Nontrivial: nOps >= 4, Key: keyOf(term), Human: map[string]interface{}{"ops": hops}})
	}
	return nil
}
