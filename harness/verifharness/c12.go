//go:build verif

package main

import (
	"context"
	"encoding/base64"
	"errors"
	"fmt"
	"os"
	"path/filepath"
	"strings"

	"github.com/gittuf/gittuf/internal/policy"
	"github.com/gittuf/gittuf/pkg/githash"
	"github.com/gittuf/gittuf/pkg/gitstore"
	"github.com/gittuf/gittuf/pkg/rsl"
)

func init() { props["C12"] = runC12 }

func aerrEnum(err error) string {
	switch {
	case err == nil:
		return "None"
	case errors.Is(err, policy.ErrInvalidPolicy):
		return "(Some AEInvalidPolicy)"
	case errors.Is(err, policy.ErrNotAncestor):
		return "(Some AENotAncestor)"
	case errors.Is(err, gitstore.ErrReferenceNotFound) && strings.Contains(err.Error(), "staging"):
		return "(Some AENoStaging)"
	case strings.Contains(err.Error(), "failed to load current state"), strings.Contains(err.Error(), "staged policy is invalid"),
		strings.Contains(err.Error(), "failed to load applied policy"), strings.Contains(err.Error(), "not a valid successor"):
		return "(Some AEInvalidState)"
	}
	return "(Some AEOther)"
}

// c12Controller creates a real controller repository with an applied policy and returns its location.
func c12Controller(c *runCtx) (string, error) {
	gi, dir, err := newRealRepo(c, "c12-controller", true)
	if err != nil {
		return "", err
	}
	md, err := (&wPolicy{RootVersion: 1, RootKeys: []int{1}, RootThr: 1, RootSigners: []int{1}}).stateMetadata()
	if err != nil {
		return "", err
	}
	rsl.VerifResetCache()
	defer rsl.VerifResetCache()
	if err := (&policy.State{Metadata: md}).Commit(gi, "controller policy", true, false); err != nil {
		return "", err
	}
	return dir, policy.Apply(context.Background(), gi, false)
}

func runC12(c *runCtx) error {
	c.coqImport = "C12Check"
	c.caseType = "c12case"
	c.checkFn = "c12_check"
	r := c.rng
	skippedDiverged, nCtl := 0, 0
	controllerDir := ""
	defer func() {
		c.extra["sequences_skipped_because_staging_diverged"] = skippedDiverged
		c.extra["stagings_with_unverifiable_controller_metadata"] = nCtl
		if controllerDir != "" {
			os.RemoveAll(controllerDir)
		}
	}()
	// API level first: one case in forty
	nApi := c.n / 40
	if nApi < 8 {
		nApi = 8
	}
	for ci := 0; ci < nApi && len(c.cases) < c.n; ci++ {
		if err := c12ApiCase(c, ci); err != nil {
			return err
		}
	}
	for len(c.cases) < c.n {
		m := newMemStore()
		rsl.VerifResetCache()
		num := map[string]uint64{} // policy/staging commit -> number
		numOf := func(h githash.Hash) string {
			if h.IsZero() {
				return "None"
			}
			if n, ok := num[h.String()]; ok {
				return fmt.Sprintf("(Some %d%%N)", n)
			}
			return "(Some 999%N)"
		}
		var staged []githash.Hash
		cur := basePolicy(r, "C12")
		cur.Globals = nil
		cur.Controllers = nil
		nOps := 2 + r.Intn(9)
		ops, obs, hops := []string{}, []string{}, []string{}
		parents := []string{}
		panicked := false
		for k := 0; k < nOps && !panicked; k++ {
			var op, h string
			var err error
			func() {
				defer func() {
					if rec := recover(); rec != nil {
						panicked = true
						h = fmt.Sprint("panic: ", rec)
					}
				}()
				x := r.Intn(100)
				if k == 0 {
					x = 0
				}
				switch {
				case x < 45:
					np := cur
					kind := "initial"
					if k > 0 {
						np, kind = mutatePolicy(r, cur, r.Intn(3) == 0)
					}
					np.Globals = nil
					np.Controllers = nil
					// a staged tree with controller metadata for a controller repository the root declares, which
					// cannot be verified: nothing at its location, or a sound controller repository that no
					// propagation entry of this log vouches for.  Apply must refuse it.
					ctlOK := true
					st := &policy.State{}
					if r.Intn(6) == 0 {
						loc := filepath.Join(c.outDir, "repos", "c12-no-such-controller")
						kind += "+controller(absent)"
						if r.Intn(2) == 0 {
							if controllerDir == "" {
								if controllerDir, err = c12Controller(c); err != nil {
									return
								}
							}
							loc = controllerDir
							kind = strings.TrimSuffix(kind, "(absent)") + "(unvouched)"
						}
						name := "ctl-" + base64.URLEncoding.EncodeToString([]byte(loc))
						np.DeclaredControllers = [][2]string{{"ctl", loc}}
						cmd, e := (&wPolicy{RootVersion: 1, RootKeys: []int{1}, RootThr: 1, RootSigners: []int{1}}).stateMetadata()
						if e != nil {
							err = e
							return
						}
						st.ControllerMetadata = map[string]*policy.StateMetadata{name: cmd}
						ctlOK = false
						nCtl++
					}
					cur = np
					md, e := np.stateMetadata()
					if e != nil {
						err = e
						return
					}
					st.Metadata = md
					prev, _ := m.GetReference(policy.PolicyStagingRef)
					err = st.Commit(m, "stage", true, false)
					tip, _ := m.GetReference(policy.PolicyStagingRef)
					if err == nil {
						num[tip.String()] = uint64(len(staged) + 1)
						staged = append(staged, tip)
						par := "None"
						if !prev.IsZero() {
							par = numOf(prev)
						}
						parents = append(parents, fmt.Sprintf("(%d%%N, %s)", len(staged), par))
					}
					op, h = "(AStage "+np.coq()+" "+coqBool(ctlOK)+")", "stage "+kind
				case x < 80:
					err = policy.Apply(context.Background(), m, false)
					op, h = "AApply", "apply"
				case x < 90:
					err = policy.Discard(m)
					op, h = "ADiscard", "discard"
				default:
					if len(staged) == 0 {
						err = policy.Discard(m)
						op, h = "ADiscard", "discard"
						return
					}
					t := staged[r.Intn(len(staged))]
					if r.Intn(2) == 0 {
						err = m.SetReference(policy.PolicyRef, t)
						op, h = fmt.Sprintf("(ATamperPolicy %d%%N)", num[t.String()]), fmt.Sprintf("tamper policy ref -> %d", num[t.String()])
					} else {
						err = m.SetReference(policy.PolicyStagingRef, t)
						op, h = fmt.Sprintf("(ATamperStaging %d%%N)", num[t.String()]), fmt.Sprintf("tamper staging ref -> %d", num[t.String()])
					}
				}
			}()
			if panicked {
				break
			}
			rsl.VerifResetCache()
			pt, _ := m.GetReference(policy.PolicyRef)
			st, _ := m.GetReference(policy.PolicyStagingRef)
			tip, _ := m.GetReference(rsl.Ref)
			g, gerr := walkGraph(m, tip)
			if gerr != nil {
				return gerr
			}
			logt := []string{}
			hasPolicyEntry := false
			for _, gc := range g {
				if gc.Entry != nil && gc.Entry.Kind == "ref" && (gc.Entry.Ref == policy.PolicyRef || gc.Entry.Ref == policy.PolicyStagingRef) {
					isPol := gc.Entry.Ref == policy.PolicyRef
					hasPolicyEntry = hasPolicyEntry || isPol
					n := "999%N"
					if v, ok := num[gc.Entry.Target.String()]; ok {
						n = fmt.Sprintf("%d%%N", v)
					}
					logt = append(logt, fmt.Sprintf("(%s, %s)", coqBool(isPol), n))
				}
			}
			loadable := true
			if hasPolicyEntry {
				_, lerr := policy.LoadCurrentState(context.Background(), m, policy.PolicyRef)
				loadable = lerr == nil
			}
			ops = append(ops, op)
			obs = append(obs, fmt.Sprintf("{| ob_err := %s; ob_policy := %s; ob_staging := %s; ob_log := %s; ob_loadable := %s |}", aerrEnum(err), numOf(pt), numOf(st), coqList(logt), coqBool(loadable)))
			hops = append(hops, fmt.Sprintf("%s => %v | policy=%s staging=%s loadable=%v", h, err, numOf(pt), numOf(st), loadable))
		}
		if panicked {
			c.add("C12Panic", sideCase{Class: "panic", Nontrivial: true, Key: keyOf(fmt.Sprint(hops)), Human: map[string]interface{}{"ops": hops}})
			continue
		}
		term := fmt.Sprintf("(C12 %s %s %s)", coqList(ops), coqList(obs), coqList(parents))
		if strings.Contains(term, "999%N") {
			// ReconcileStaging rewrote a diverged staging line (new commits): outside the modelled cases
			skippedDiverged++
			continue
		}
		c.add(term, sideCase{Class: "apply-sequences", Nontrivial: nOps >= 4, Key: keyOf(term), Human: map[string]interface{}{"ops": hops}})
	}
	return nil
}
