//go:build verif

package main

import (
	"fmt"
	"math/rand"
	"os"
	"strings"

	"github.com/gittuf/gittuf/pkg/githash"
	"github.com/gittuf/gittuf/pkg/gitinterface"
	"github.com/gittuf/gittuf/pkg/gitstore"
	"github.com/gittuf/gittuf/pkg/rsl"
)

func init() { props["C17"] = runC17 }

// scheduler serialises the semantic storage steps of concurrent writers in a chosen order.
type scheduler struct {
	grant   []chan struct{}
	arrived []chan bool // true: at a yield point, false: finished
}

func newScheduler(n int) *scheduler {
	s := &scheduler{}
	for i := 0; i < n; i++ {
		s.grant = append(s.grant, make(chan struct{}))
		s.arrived = append(s.arrived, make(chan bool, 1))
	}
	return s
}

func (s *scheduler) yield(w int) {
	s.arrived[w] <- true
	<-s.grant[w]
}

// schedStore is the Storer a writer sees: the shared memStore with yield points before the numbering
// read of the log tip and before each of the three sub-steps of Commit.
type schedStore struct {
	*memStore
	w       int
	s       *scheduler
	created []githash.Hash
}

func (x *schedStore) GetReference(refName string) (githash.Hash, error) {
	if refName == rsl.Ref {
		x.s.yield(x.w)
	}
	return x.memStore.GetReference(refName)
}

func (x *schedStore) commitSteps(treeID githash.Hash, targetRef, message string, key []byte) (githash.Hash, error) {
	x.s.yield(x.w)
	cur, err := x.memStore.GetReference(targetRef)
	if err != nil && err != gitstore.ErrReferenceNotFound {
		return githash.ZeroHash, err
	}
	var parents []githash.Hash
	if !cur.IsZero() {
		parents = []githash.Hash{cur}
	}
	x.s.yield(x.w)
	id, err := x.memStore.createCommit(treeID, parents, message, key)
	if err != nil {
		return githash.ZeroHash, err
	}
	x.created = append(x.created, id)
	x.s.yield(x.w)
	return id, x.memStore.checkAndSet(targetRef, id, cur)
}

func (x *schedStore) Commit(treeID githash.Hash, targetRef, message string, sign bool) (githash.Hash, error) {
	return x.commitSteps(treeID, targetRef, message, nil)
}

func (x *schedStore) CommitUsingSpecificKey(treeID githash.Hash, targetRef, message string, key []byte) (githash.Hash, error) {
	return x.commitSteps(treeID, targetRef, message, key)
}

// interleavings enumerates all merges of the step counts (exhaustive) or samples them.
func interleavings(counts []int, r *rand.Rand, limit int) [][]int {
	total := 0
	for _, c := range counts {
		total += c
	}
	out := [][]int{}
	var rec func(rem []int, cur []int)
	rec = func(rem []int, cur []int) {
		if limit > 0 && len(out) >= limit {
			return
		}
		if len(cur) == total {
			out = append(out, append([]int{}, cur...))
			return
		}
		for i := range rem {
			if rem[i] > 0 {
				rem[i]--
				rec(rem, append(cur, i))
				rem[i]++
			}
		}
	}
	rec(append([]int{}, counts...), nil)
	return out
}

func randomInterleaving(counts []int, r *rand.Rand) []int {
	pool := []int{}
	for i, c := range counts {
		for k := 0; k < c; k++ {
			pool = append(pool, i)
		}
	}
	r.Shuffle(len(pool), func(i, j int) { pool[i], pool[j] = pool[j], pool[i] })
	return pool
}

type c17Scenario struct {
	prefix  []*logOp
	writers []*logOp
}

func runC17Scenario(c *runCtx, sc *c17Scenario, tgtSeed int64, sched []int, class string) error {
	m := newMemStore()
	ids := newFixedIDs()
	rsl.VerifResetCache()
	// targets are regenerated deterministically so that every schedule of a scenario sees the same ops
	tr := rand.New(rand.NewSource(tgtSeed))
	prefixTerms := []string{}
	mk := func(o *logOp) *logOp {
		cp := *o
		fresh := func() githash.Hash { h := randHash(tr); ids.target(h); return h }
		if cp.Kind == "ref" || cp.Kind == "prop" {
			cp.Target = fresh()
		}
		if cp.Kind == "prop" {
			cp.UpEntry = fresh()
		}
		if cp.Kind == "ann" {
			ts := []githash.Hash{}
			for range cp.Targets {
				ts = append(ts, m.created[tr.Intn(len(m.created))])
			}
			cp.Targets = ts
		}
		return &cp
	}
	for _, o := range sc.prefix {
		op := mk(o)
		if err := op.apply(m); err != nil {
			return fmt.Errorf("prefix op failed: %w", err)
		}
		for _, h := range m.created {
			ids.of(h)
		}
		prefixTerms = append(prefixTerms, op.coq(ids.idMap))
	}
	ws := []*logOp{}
	for _, o := range sc.writers {
		ws = append(ws, mk(o))
	}
	n := len(ws)
	s := newScheduler(n)
	errs := make([]error, n)
	stores := make([]*schedStore, n)
	for i := 0; i < n; i++ {
		stores[i] = &schedStore{memStore: m, w: i, s: s}
		go func(i int) {
			defer func() {
				if rec := recover(); rec != nil {
					errs[i] = fmt.Errorf("panic: %v", rec)
				}
				s.arrived[i] <- false
			}()
			errs[i] = ws[i].apply(stores[i])
		}(i)
	}
	done := make([]bool, n)
	for i := 0; i < n; i++ { // every writer runs up to its first yield point
		if !<-s.arrived[i] {
			done[i] = true
		}
	}
	for _, i := range sched {
		if done[i] {
			continue
		}
		s.grant[i] <- struct{}{}
		if !<-s.arrived[i] {
			done[i] = true
		}
	}
	for i := 0; i < n; i++ { // drain (a complete schedule leaves nothing to do)
		for !done[i] {
			s.grant[i] <- struct{}{}
			if !<-s.arrived[i] {
				done[i] = true
			}
			sched = append(sched, i)
		}
	}
	for _, h := range m.created {
		ids.of(h)
	}
	opTerms, obs, failed, hw := []string{}, []string{}, []string{}, []string{}
	nOk := 0
	for i := 0; i < n; i++ {
		opTerms = append(opTerms, ws[i].coq(ids.idMap))
		switch {
		case errs[i] != nil && strings.HasPrefix(errs[i].Error(), "panic"):
			obs = append(obs, "OPanic")
		case errs[i] != nil:
			obs = append(obs, "OFail")
			for _, h := range stores[i].created {
				failed = append(failed, ids.coq(h))
			}
		default:
			nOk++
			if len(stores[i].created) != 1 {
				obs = append(obs, "OPanic")
			} else {
				obs = append(obs, "(OOk "+ids.coq(stores[i].created[0])+")")
			}
		}
		hw = append(hw, fmt.Sprintf("w%d: %s => ok=%v", i, ws[i].human(ids.idMap), errs[i] == nil))
	}
	// every commit ever created, newest first (orphans of failed writers included)
	g := []*graphCommit{}
	for _, h := range m.created {
		parents, _ := m.GetCommitParentIDs(h)
		msg, _ := m.GetCommitMessage(h)
		gc := &graphCommit{ID: h, Parents: parents, Message: msg}
		if e, ok := indepParse(msg); ok {
			gc.Entry = e
		}
		g = append(g, gc)
	}
	tip, _ := m.GetReference(rsl.Ref)
	tipTerm := "None"
	if !tip.IsZero() {
		tipTerm = "(Some " + ids.coq(tip) + ")"
	}
	ss := []string{}
	for _, i := range sched {
		ss = append(ss, fmt.Sprint(i))
	}
	term := fmt.Sprintf("(C17 %s %s [%s] %s %s %s %s)", coqList(prefixTerms), coqList(opTerms), strings.Join(ss, ";"),
		coqList(obs), coqList(failed), coqStore(g, ids.idMap), tipTerm)
	// is the walk of the real readers still possible?
	_, _, ferr := rsl.GetFirstEntry(m)
	readable := ferr == nil || tip.IsZero()
	c.add(term, sideCase{Class: class, Nontrivial: n >= 2 && nOk >= 1, Key: keyOf(term),
		Human: map[string]interface{}{"prefix": len(sc.prefix), "writers": hw, "schedule": strings.Join(ss, ""), "log": humanStore(g, ids.idMap),
			"readers_can_walk": readable}})
	return nil
}

func genScenario(r *rand.Rand, nWriters int) *c17Scenario {
	sc := &c17Scenario{}
	legacy := r.Intn(4) == 0
	np := r.Intn(4)
	if legacy && np == 0 {
		np = 1
	}
	for k := 0; k < np; k++ {
		sc.prefix = append(sc.prefix, &logOp{Kind: "ref", Ref: c04Refs[r.Intn(len(c04Refs))], Numbered: !legacy})
	}
	for k := 0; k < nWriters; k++ {
		switch x := r.Intn(10); {
		case x < 5 || np == 0:
			numbered := true
			if legacy && r.Intn(2) == 0 {
				numbered = false
			}
			sc.writers = append(sc.writers, &logOp{Kind: "ref", Ref: c04Refs[r.Intn(len(c04Refs))], Numbered: numbered})
		case x < 8:
			sc.writers = append(sc.writers, &logOp{Kind: "ann", Targets: make([]githash.Hash, 1+r.Intn(2)), Skip: r.Intn(2) == 0, Numbered: true})
		default:
			sc.writers = append(sc.writers, &logOp{Kind: "prop", Ref: c04Refs[r.Intn(2)], UpRepo: c04Repos[r.Intn(2)], Numbered: true})
		}
	}
	return sc
}

func stepCount(o *logOp) int {
	if o.Numbered {
		return 4
	}
	return 3
}

func runC17(c *runCtx) error {
	c.coqImport = "C03Check"
	c.caseType = "c17case"
	c.checkFn = "c17_check"
	r := c.rng
	exhaustive2 := 0
	// two writers: every interleaving of their semantic steps, for several scenarios
	nScen := 3
	if c.tier == "thorough" {
		nScen = 12
	}
	for k := 0; k < nScen; k++ {
		sc := genScenario(r, 2)
		counts := []int{stepCount(sc.writers[0]), stepCount(sc.writers[1])}
		seed := r.Int63()
		for _, sched := range interleavings(counts, r, 0) {
			if err := runC17Scenario(c, sc, seed, sched, "2-writers/all-interleavings"); err != nil {
				return err
			}
			exhaustive2++
		}
	}
	// three writers: random interleavings (thorough: all of them for one scenario)
	if c.tier == "thorough" {
		sc := genScenario(r, 3)
		counts := []int{stepCount(sc.writers[0]), stepCount(sc.writers[1]), stepCount(sc.writers[2])}
		seed := r.Int63()
		for _, sched := range interleavings(counts, r, 0) {
			if err := runC17Scenario(c, sc, seed, sched, "3-writers/all-interleavings"); err != nil {
				return err
			}
		}
	}
	for len(c.cases) < c.n {
		nw := 2 + r.Intn(2)
		sc := genScenario(r, nw)
		counts := []int{}
		for _, w := range sc.writers {
			counts = append(counts, stepCount(w))
		}
		if err := runC17Scenario(c, sc, r.Int63(), randomInterleaving(counts, r), fmt.Sprintf("%d-writers/random", nw)); err != nil {
			return err
		}
	}
	c.extra["two_writer_interleavings_enumerated"] = exhaustive2
	// real git, real gitinterface.Repository.Commit: writer B runs entirely inside writer A's window
	// between reading the tip and compare-and-setting the ref
	nReal := 0
	for _, np := range []int{0, 0, 1, 2} {
		for _, kinds := range [][2]string{{"ref", "ref"}, {"ref", "ann"}, {"ann", "ref"}} {
			if np == 0 && (kinds[0] == "ann" || kinds[1] == "ann") {
				continue
			}
			if err := runC17Real(c, np, kinds, nReal); err != nil {
				return err
			}
			nReal++
		}
	}
	c.extra["real_git_preemption_scenarios"] = nReal
	return nil
}

func runC17Real(c *runCtx, np int, kinds [2]string, n int) error {
	repoA, dir, err := newRealRepo(c, fmt.Sprintf("c17-%d", n), false)
	if err != nil {
		return err
	}
	defer os.RemoveAll(dir)
	repoB, err := gitinterface.LoadRepository(dir)
	if err != nil {
		return err
	}
	rsl.VerifResetCache()
	ids := newFixedIDs()
	tr := rand.New(rand.NewSource(int64(n) + 77))
	tgt := func() githash.Hash { h := randHash(tr); ids.target(h); return h }
	chain := []githash.Hash{}
	prefixTerms := []string{}
	for k := 0; k < np; k++ {
		op := &logOp{Kind: "ref", Ref: c04Refs[k%len(c04Refs)], Target: tgt(), Numbered: true}
		if err := op.apply(repoA); err != nil {
			return err
		}
		tip, _ := repoA.GetReference(rsl.Ref)
		chain = append(chain, tip)
		ids.of(tip)
		prefixTerms = append(prefixTerms, op.coq(ids.idMap))
	}
	mk := func(kind string) *logOp {
		if kind == "ann" {
			return &logOp{Kind: "ann", Targets: []githash.Hash{chain[tr.Intn(len(chain))]}, Skip: true, Numbered: true}
		}
		return &logOp{Kind: "ref", Ref: c04Refs[tr.Intn(len(c04Refs))], Target: tgt(), Numbered: true}
	}
	opA, opB := mk(kinds[0]), mk(kinds[1])
	var errA, errB error
	var tipAfterB githash.Hash
	gitinterface.VerifSetNowHook(repoA, func() {
		errB = opB.apply(repoB)
		tipAfterB, _ = repoB.GetReference(rsl.Ref)
	})
	errA = opA.apply(repoA)
	rsl.VerifResetCache()
	tip, _ := repoA.GetReference(rsl.Ref)
	g, err := walkGraph(repoA, tip)
	if err != nil {
		return err
	}
	obs := func(e error, t githash.Hash) string {
		if e != nil {
			return "OFail"
		}
		return "(OOk " + ids.coq(t) + ")"
	}
	// B's commit is created before A's: number it first, as the model allocates ids
	if errB == nil {
		ids.of(tipAfterB)
	}
	tipTerm := "None"
	if !tip.IsZero() {
		tipTerm = "(Some " + ids.coq(tip) + ")"
	}
	aTip := tip
	if errA != nil {
		aTip = githash.ZeroHash
	}
	term := fmt.Sprintf("(C17Real %s %s [0;0;1;1;1;1;0;0] %s %s %s)", coqList(prefixTerms), coqList([]string{opA.coq(ids.idMap), opB.coq(ids.idMap)}),
		coqList([]string{obs(errA, aTip), obs(errB, tipAfterB)}), coqStore(g, ids.idMap), tipTerm)
	_, _, ferr := rsl.GetFirstEntry(repoA)
	c.add(term, sideCase{Class: "real-git/B-inside-A's-commit-window", Nontrivial: true, Key: keyOf(term),
		Human: map[string]interface{}{"prefix": np, "writer A": fmt.Sprintf("%s => ok=%v", opA.human(ids.idMap), errA == nil), "writer B (runs between A's tip read and A's update-ref)": fmt.Sprintf("%s => ok=%v", opB.human(ids.idMap), errB == nil),
			"log": humanStore(g, ids.idMap), "readers_can_walk": ferr == nil}})
	return nil
}
