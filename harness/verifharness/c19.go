//go:build verif

package main

import (
	"context"
	"errors"
	"fmt"
	"math/rand"
	"os"
	"path/filepath"

	gittuf "github.com/gittuf/gittuf/experimental/gittuf"
	verifymergeableopts "github.com/gittuf/gittuf/experimental/gittuf/options/verifymergeable"
	"github.com/gittuf/gittuf/pkg/rsl"

	"github.com/gittuf/gittuf/internal/policy"
)

func init() { props["C19"] = runC19 }

func c19Policy(r *rand.Rand, version int, thr int, pids []int, globals []wGlobal, shared bool) *wPolicy {
	t := &wFile{Version: version, Signers: []int{2}}
	t.Name = "targets"
	t.Defs = map[int][]int{101: {4}, 102: {5}, 103: {6}, 104: {7}}
	if shared {
		t.Defs = map[int][]int{101: {4, 5, 6}, 102: {5}, 103: {6}, 104: {7}}
	}
	t.Rules = []hRule{{Name: "protect-main", Patterns: []string{"git:" + refMain}, Pids: pids, Thr: thr}}
	return &wPolicy{RootVersion: version, RootKeys: []int{1}, RootThr: 1, TargetsKeys: []int{2}, TargetsThr: 1, HasTargetsRole: true,
		RootSigners: []int{1}, Files: []*wFile{t}, Globals: globals}
}

func runC19(c *runCtx) error {
	c.coqImport = "C19Check"
	c.caseType = "c19case"
	c.checkFn = "c19_check"
	r := c.rng
	wi := 0
	for len(c.cases) < c.n {
		if r.Intn(4) == 0 {
			if err := c19FilesCase(c, r, wi); err != nil {
				return err
			}
			wi++
			continue
		}
		// main history under a simple first policy, then the policy under test
		m := 1 + r.Intn(4)
		perm := r.Perm(4)
		pids := []int{}
		for _, i := range perm[:m] {
			pids = append(pids, 101+i)
		}
		thr := 1 + r.Intn(min(3, m))
		// who approves this merge (decided first, so that global thresholds can be placed around the count)
		var approvers []int
		if r.Intn(8) != 0 {
			for _, i := range r.Perm(5)[:1+r.Intn(4)] {
				approvers = append(approvers, []int{4, 5, 6, 7, 1}[i])
			}
		}
		counted := 0 // approvers that are principals of the branch rule
		for _, a := range approvers {
			for _, p := range pids {
				if devKey(p) == a {
					counted++
				}
			}
		}
		var globals []wGlobal
		if r.Intn(3) == 0 {
			pats := [][]string{{"git:" + refMain}, {"git:refs/heads/nomatch"}, {"git:*"}}[r.Intn(3)]
			k := 1 + r.Intn(3)
			if r.Intn(2) == 0 { // at, or one above, what the approvals already give
				k = counted + r.Intn(2)
				if k < 1 {
					k = 1
				}
			}
			globals = []wGlobal{{Kind: "threshold", Name: "g", Pats: pats, K: k}}
		}
		// principals sharing keys are left to the verifier-level model (C05 correspondence): the order in which
		// State.allPrincipals lists principals is a map order and matters once keys are shared
		shared := false
		w := &wWorld{Commits: []wCommit{{ID: 1, Tree: 1, Parents: nil}, {ID: 2, Tree: 2, Parents: []int{1}}}}
		w.Events = append(w.Events, wEvent{Kind: "policy", Pol: c19Policy(r, 1, 1, []int{101}, nil, false), Signer: 1})
		w.Events = append(w.Events, wEvent{Kind: "ref", Ref: refMain, Commit: 2, Signer: 4})
		w.Events = append(w.Events, wEvent{Kind: "policy", Pol: c19Policy(r, 2, thr, pids, globals, shared), Signer: 1})
		// feature history on top of main's tip
		nf := 1 + r.Intn(3)
		parent := 2
		for k := 0; k < nf; k++ {
			id := len(w.Commits) + 1
			w.Commits = append(w.Commits, wCommit{ID: id, Tree: id, Parents: []int{parent}})
			parent = id
		}
		featTip := parent
		w.Events = append(w.Events, wEvent{Kind: "ref", Ref: refFeat, Commit: featTip, Signer: 4 + r.Intn(4)})
		mergeTree := featTip // fast-forward: the feature tip's tree
		// approvals for exactly this merge (or, sometimes, for something else)
		if len(approvers) > 0 {
			signers := approvers
			a := wAuthz{Ref: refMain, From: 2, To: mergeTree, PathRef: refMain, PathFrom: 2, PathTo: mergeTree, Signers: signers}
			if r.Intn(8) == 0 {
				a.To, a.PathTo = 2, 2 // approvals for a different result
			}
			w.Events = append(w.Events, wEvent{Kind: "attest", Auths: []wAuthz{a}, Signer: 4})
		}
		// how the merge is recorded: the feature commit itself, or a merge commit carrying the predicted tree
		mergeCommit := featTip
		if r.Intn(2) == 0 {
			id := len(w.Commits) + 1
			w.Commits = append(w.Commits, wCommit{ID: id, Tree: mergeTree, Parents: []int{2, featTip}})
			mergeCommit = id
		}
		b, err := buildWorld(w)
		if err != nil {
			return err
		}
		var obs, oh string
		panicked := false
		func() {
			defer func() {
				if rec := recover(); rec != nil {
					panicked = true
					oh = fmt.Sprint("panic: ", rec)
				}
			}()
			need, err := policy.NewPolicyVerifier(b.m).VerifyMergeable(context.Background(), refMain, refFeat)
			switch {
			case err == nil:
				obs, oh = fmt.Sprintf("(MPossible %s)", coqBool(need)), fmt.Sprintf("possible, signature needed=%v", need)
			case errors.Is(err, policy.ErrVerificationFailed):
				obs, oh = "MNotPossible", "not possible"
			default:
				obs, oh = "MNotPossible", "not possible (error: "+err.Error()+")"
			}
		}()
		if panicked {
			c.add("C19Panic", sideCase{Class: "panic", Nontrivial: true, Key: keyOf(fmt.Sprint(w.human())), Human: map[string]interface{}{"world": w.human(), "panic": oh}})
			continue
		}
		// record the merge by each candidate and verify
		recs, hr := []string{}, []string{}
		for _, k := range []int{4, 5, 6, 7, 1, 0} {
			w2 := &wWorld{Commits: w.Commits, Events: append(append([]wEvent{}, w.Events...), wEvent{Kind: "ref", Ref: refMain, Commit: mergeCommit, Signer: k})}
			b2, err := buildWorld(w2)
			if err != nil {
				return err
			}
			tip, verr := policy.NewPolicyVerifier(b2.m).VerifyRefFull(context.Background(), refMain)
			vo, vh := b2.voutOf(tip, verr)
			recs = append(recs, fmt.Sprintf("(%d%%N, %d%%N, %s)", k, mergeCommit, vo))
			hr = append(hr, fmt.Sprintf("recorded by key %d: %s", k, vh))
		}
		def := fmt.Sprintf("w%d", wi)
		wi++
		c.defs = append(c.defs, fmt.Sprintf("Definition %s : world := %s.", def, w.coq()))
		if r.Intn(8) == 0 { // the public API on a real repository holding the same history
			viaLog, direct, err := c19Wrapper(c, b, wi)
			if err != nil {
				return err
			}
			c.add(fmt.Sprintf("(C19W %s %s %d%%N %s %s %s)", def, coqStr(refMain), mergeTree, obs, viaLog, direct), sideCase{Class: "wrapper/" + oh[:min(len(oh), 28)], Nontrivial: true,
				Key: keyOf(fmt.Sprint(w.human()) + "wrapper"), Human: map[string]interface{}{"world": w.human(), "internal": oh, "Repository.VerifyMergeable": viaLog, "with WithBypassRSLForFeatureRef": direct}})
			continue
		}
		term := fmt.Sprintf("(C19 %s %s %d%%N %s %s)", def, coqStr(refMain), mergeTree, obs, coqList(recs))
		c.add(term, sideCase{Class: "mergeable/" + oh[:min(len(oh), 28)], Nontrivial: true, Key: keyOf(fmt.Sprint(w.human()) + term),
			Human: map[string]interface{}{"world": w.human(), "rule": fmt.Sprintf("protect-main thr=%d pids=%v globals=%v sharedkeys=%v", thr, pids, globals, shared), "VerifyMergeable": oh, "recorders": hr}})
	}
	return nil
}

// c19FilesCase: the same question for a policy that also has a file rule; the commits the feature
// branch brings in touch protected and unprotected paths and are signed by various keys.
func c19FilesCase(c *runCtx, r *rand.Rand, wi int) error {
	m := 1 + r.Intn(4)
	pids := []int{}
	for _, i := range r.Perm(4)[:m] {
		pids = append(pids, 101+i)
	}
	thr := 1 + r.Intn(min(2, m))
	fm := 1 + r.Intn(3)
	fpids := []int{}
	for _, i := range r.Perm(4)[:fm] {
		fpids = append(fpids, 101+i)
	}
	fpat := []string{"file:src/*", "file:*", "file:src/a b"}[r.Intn(3)]
	t := &wFile{Version: 1, Signers: []int{2}}
	t.Name = "targets"
	t.Defs = map[int][]int{101: {4}, 102: {5}, 103: {6}, 104: {7}}
	t.Rules = []hRule{{Name: "protect-main", Patterns: []string{"git:" + refMain}, Pids: pids, Thr: thr},
		{Name: "files", Patterns: []string{fpat}, Pids: fpids, Thr: 1}}
	if r.Intn(4) == 0 { // no rule protects the branch itself: only the file rule stands between a change and main
		t.Rules = t.Rules[1:]
		thr = 1
	}
	pol := &wPolicy{RootVersion: 1, RootKeys: []int{1}, RootThr: 1, TargetsKeys: []int{2}, TargetsThr: 1, HasTargetsRole: true, RootSigners: []int{1}, Files: []*wFile{t}}
	fileKey := devKey(fpids[0])
	w := &wWorld{}
	nextBlob := 1
	trees := map[string]int{}
	add := func(files map[string]int, parents []int, signer int) int {
		id := len(w.Commits) + 1
		key := c10TreeKey(files)
		if _, ok := trees[key]; !ok {
			trees[key] = len(trees) + 1
		}
		cp := map[string]int{}
		for k, v := range files {
			cp[k] = v
		}
		w.Commits = append(w.Commits, wCommit{ID: id, Tree: trees[key], Parents: parents, Files: cp, Signer: signer})
		return id
	}
	files := map[string]int{"README": nextBlob}
	nextBlob++
	add(files, nil, fileKey)
	files["src/a b"] = nextBlob
	nextBlob++
	mainTip := add(files, []int{1}, fileKey)
	w.Events = append(w.Events, wEvent{Kind: "policy", Pol: pol, Signer: 1})
	// the first push to main: approved as far as the branch rule needs
	if thr > 1 {
		w.Events = append(w.Events, wEvent{Kind: "attest", Signer: 4, Auths: []wAuthz{{Ref: refMain, From: 0, To: w.Commits[mainTip-1].Tree,
			PathRef: refMain, PathFrom: 0, PathTo: w.Commits[mainTip-1].Tree, Signers: []int{devKey(pids[1])}}}})
	}
	w.Events = append(w.Events, wEvent{Kind: "ref", Ref: refMain, Commit: mainTip, Signer: devKey(pids[0])})
	// feature commits
	parent := mainTip
	for k := 0; k < 1+r.Intn(3); k++ {
		p := []string{"src/a b", "src/new", "docs/x", "README", "src/\u00e9"}[r.Intn(5)]
		files[p] = nextBlob
		nextBlob++
		signer := []int{fileKey, fileKey, 4 + r.Intn(4), 8, 0}[r.Intn(5)]
		parent = add(files, []int{parent}, signer)
	}
	featTip := parent
	mergeTree := w.Commits[featTip-1].Tree
	w.Events = append(w.Events, wEvent{Kind: "ref", Ref: refFeat, Commit: featTip, Signer: 4 + r.Intn(4)})
	prevAuths := []wAuthz{}
	for _, e := range w.Events {
		if e.Kind == "attest" {
			prevAuths = e.Auths
		}
	}
	if r.Intn(6) != 0 {
		ns := 1 + r.Intn(3)
		signers := []int{}
		for _, i := range r.Perm(5)[:ns] {
			signers = append(signers, []int{4, 5, 6, 7, 1}[i])
		}
		a := wAuthz{Ref: refMain, From: mainTip, To: mergeTree, PathRef: refMain, PathFrom: mainTip, PathTo: mergeTree, Signers: signers}
		w.Events = append(w.Events, wEvent{Kind: "attest", Auths: append([]wAuthz{a}, prevAuths...), Signer: 4})
	}
	mergeCommit := featTip
	if r.Intn(2) == 0 {
		mergeCommit = add(files, []int{mainTip, featTip}, 0)
	}
	b, err := buildWorld(w)
	if err != nil {
		return err
	}
	var obs, oh string
	need, verr := policy.NewPolicyVerifier(b.m).VerifyMergeable(context.Background(), refMain, refFeat)
	switch {
	case verr == nil:
		obs, oh = fmt.Sprintf("(MPossible %s)", coqBool(need)), fmt.Sprintf("possible, signature needed=%v", need)
	case errors.Is(verr, policy.ErrVerificationFailed):
		obs, oh = "MNotPossible", "not possible"
	default:
		obs, oh = "MNotPossible", "not possible (error: "+verr.Error()+")"
	}
	recs, hr := []string{}, []string{}
	for _, k := range []int{4, 5, 6, 7, 1, 0} {
		w2 := &wWorld{Commits: w.Commits, Events: append(append([]wEvent{}, w.Events...), wEvent{Kind: "ref", Ref: refMain, Commit: mergeCommit, Signer: k})}
		b2, err := buildWorld(w2)
		if err != nil {
			return err
		}
		tip, e2 := policy.NewPolicyVerifier(b2.m).VerifyRefFull(context.Background(), refMain)
		vo, vh := b2.voutOf(tip, e2)
		recs = append(recs, fmt.Sprintf("(%d%%N, %d%%N, %s)", k, mergeCommit, vo))
		hr = append(hr, fmt.Sprintf("recorded by key %d: %s", k, vh))
	}
	g := []string{}
	hc := []string{}
	for _, cm := range w.Commits {
		g = append(g, fmt.Sprintf("(%d%%N, {| fc_tree := %s; fc_parents := %s; fc_signer := %d%%N |})", cm.ID, coqFTree(cm.Files), coqKeys(cm.Parents), cm.Signer))
		hc = append(hc, fmt.Sprintf("c%d parents=%v signer=%d tree=%s", cm.ID, cm.Parents, cm.Signer, c10TreeKey(cm.Files)))
	}
	def := fmt.Sprintf("fw%d", wi)
	c.defs = append(c.defs, fmt.Sprintf("Definition %s : fworld := {| fw_world := %s; fw_graph := %s |}.", def, w.coq(), coqList(g)))
	term := fmt.Sprintf("(C19F %s %s %d%%N %d%%N %s %s)", def, coqStr(refMain), mergeTree, featTip, obs, coqList(recs))
	c.add(term, sideCase{Class: "mergeable+files/" + oh[:min(len(oh), 28)], Nontrivial: true, Key: keyOf(fmt.Sprint(w.human()) + term),
		Human: map[string]interface{}{"world": w.human(), "commits": hc, "rules": fmt.Sprintf("protect-main thr=%d pids=%v; files %s pids=%v", thr, pids, fpat, fpids),
			"VerifyMergeable": oh, "recorders": hr}})
	return nil
}

// c19Wrapper mirrors the built history into a real repository and asks experimental/gittuf's
// Repository.VerifyMergeable, with and without WithBypassRSLForFeatureRef.
func c19Wrapper(c *runCtx, b *builtWorld, idx int) (string, string, error) {
	name := fmt.Sprintf("c19-%d", idx)
	_, dir, err := newRealRepo(c, name, true)
	if err != nil {
		return "", "", err
	}
	defer os.RemoveAll(filepath.Join(c.outDir, "repos", name))
	if err := exportObjects(b.m, dir); err != nil {
		return "", "", err
	}
	for _, rv := range b.m.listRefs() {
		if _, err := gitOut(dir, "update-ref", rv[0], rv[1]); err != nil {
			return "", "", err
		}
	}
	repo, err := gittuf.LoadRepository(dir)
	if err != nil {
		return "", "", err
	}
	ask := func(opts ...verifymergeableopts.Option) string {
		rsl.VerifResetCache()
		need, err := repo.VerifyMergeable(context.Background(), refMain, refFeat, opts...)
		if err != nil {
			return "MNotPossible"
		}
		return fmt.Sprintf("(MPossible %s)", coqBool(need))
	}
	return ask(), ask(verifymergeableopts.WithBypassRSLForFeatureRef()), nil
}
