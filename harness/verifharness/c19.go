//go:build verif

package main

import (
	"context"
	"errors"
	"fmt"
	"math/rand"

	"github.com/gittuf/gittuf/internal/policy"
)

func init() { props["C19"] = runC19 }

func c19Policy(r *rand.Rand, version int, thr int, pids []int, globals []wGlobal, shared bool) *wPolicy {
	t := &wFile{Version: version, Signers: []int{2}}
	t.Name = "targets"
	t.Defs = map[int][]int{101: {4}, 102: {5}, 103: {6}, 104: {7}}
	if shared {
		t.Defs = map[int][]int{101: {4, 5, 6}, 102: {5}, 103: {6}, 104: {7}}
	}
	t.Rules = []hRule{{Name: "protect-main", Patterns: []string{"git:" + refMain}, Pids: pids, Thr: thr}}
	return &wPolicy{RootVersion: version, RootKeys: []int{1}, RootThr: 1, TargetsKeys: []int{2}, TargetsThr: 1, HasTargetsRole: true,
		RootSigners: []int{1}, Files: []*wFile{t}, Globals: globals}
}

func runC19(c *runCtx) error {
	c.coqImport = "C19Check"
	c.caseType = "c19case"
	c.checkFn = "c19_check"
	r := c.rng
	wi := 0
	for len(c.cases) < c.n {
		// main history under a simple first policy, then the policy under test
		m := 1 + r.Intn(4)
		perm := r.Perm(4)
		pids := []int{}
		for _, i := range perm[:m] {
			pids = append(pids, 101+i)
		}
		thr := 1 + r.Intn(min(3, m))
		var globals []wGlobal
		if r.Intn(4) == 0 {
			pats := [][]string{{"git:" + refMain}, {"git:refs/heads/nomatch"}, {"git:*"}}[r.Intn(3)]
			globals = []wGlobal{{Kind: "threshold", Name: "g", Pats: pats, K: 1 + r.Intn(3)}}
		}
		// principals sharing keys are left to the verifier-level model (C05 correspondence): the order in which
		// State.allPrincipals lists principals is a map order and matters once keys are shared
		shared := false
		w := &wWorld{Commits: []wCommit{{ID: 1, Tree: 1, Parents: nil}, {ID: 2, Tree: 2, Parents: []int{1}}}}
		w.Events = append(w.Events, wEvent{Kind: "policy", Pol: c19Policy(r, 1, 1, []int{101}, nil, false), Signer: 1})
		w.Events = append(w.Events, wEvent{Kind: "ref", Ref: refMain, Commit: 2, Signer: 4})
		w.Events = append(w.Events, wEvent{Kind: "policy", Pol: c19Policy(r, 2, thr, pids, globals, shared), Signer: 1})
		// feature history on top of main's tip
		nf := 1 + r.Intn(3)
		parent := 2
		for k := 0; k < nf; k++ {
			id := len(w.Commits) + 1
			w.Commits = append(w.Commits, wCommit{ID: id, Tree: id, Parents: []int{parent}})
			parent = id
		}
		featTip := parent
		w.Events = append(w.Events, wEvent{Kind: "ref", Ref: refFeat, Commit: featTip, Signer: 4 + r.Intn(4)})
		mergeTree := featTip // fast-forward: the feature tip's tree
		// approvals for exactly this merge (or, sometimes, for something else)
		if r.Intn(8) != 0 {
			ns := 1 + r.Intn(4)
			signers := []int{}
			for _, i := range r.Perm(5)[:ns] {
				signers = append(signers, []int{4, 5, 6, 7, 1}[i])
			}
			a := wAuthz{Ref: refMain, From: 2, To: mergeTree, PathRef: refMain, PathFrom: 2, PathTo: mergeTree, Signers: signers}
			if r.Intn(8) == 0 {
				a.To, a.PathTo = 2, 2 // approvals for a different result
			}
			w.Events = append(w.Events, wEvent{Kind: "attest", Auths: []wAuthz{a}, Signer: 4})
		}
		// how the merge is recorded: the feature commit itself, or a merge commit carrying the predicted tree
		mergeCommit := featTip
		if r.Intn(2) == 0 {
			id := len(w.Commits) + 1
			w.Commits = append(w.Commits, wCommit{ID: id, Tree: mergeTree, Parents: []int{2, featTip}})
			mergeCommit = id
		}
		b, err := buildWorld(w)
		if err != nil {
			return err
		}
		var obs, oh string
		panicked := false
		func() {
			defer func() {
				if rec := recover(); rec != nil {
					panicked = true
					oh = fmt.Sprint("panic: ", rec)
				}
			}()
			need, err := policy.NewPolicyVerifier(b.m).VerifyMergeable(context.Background(), refMain, refFeat)
			switch {
			case err == nil:
				obs, oh = fmt.Sprintf("(MPossible %s)", coqBool(need)), fmt.Sprintf("possible, signature needed=%v", need)
			case errors.Is(err, policy.ErrVerificationFailed):
				obs, oh = "MNotPossible", "not possible"
			default:
				obs, oh = "MNotPossible", "not possible (error: "+err.Error()+")"
			}
		}()
		if panicked {
			c.add("C19Panic", sideCase{Class: "panic", Nontrivial: true, Key: keyOf(fmt.Sprint(w.human())), Human: map[string]interface{}{"world": w.human(), "panic": oh}})
			continue
		}
		// record the merge by each candidate and verify
		recs, hr := []string{}, []string{}
		for _, k := range []int{4, 5, 6, 7, 1, 0} {
			w2 := &wWorld{Commits: w.Commits, Events: append(append([]wEvent{}, w.Events...), wEvent{Kind: "ref", Ref: refMain, Commit: mergeCommit, Signer: k})}
			b2, err := buildWorld(w2)
			if err != nil {
				return err
			}
			tip, verr := policy.NewPolicyVerifier(b2.m).VerifyRefFull(context.Background(), refMain)
			vo, vh := b2.voutOf(tip, verr)
			recs = append(recs, fmt.Sprintf("(%d%%N, %d%%N, %s)", k, mergeCommit, vo))
			hr = append(hr, fmt.Sprintf("recorded by key %d: %s", k, vh))
		}
		def := fmt.Sprintf("w%d", wi)
		wi++
		c.defs = append(c.defs, fmt.Sprintf("Definition %s : world := %s.", def, w.coq()))
		term := fmt.Sprintf("(C19 %s %s %d%%N %s %s)", def, coqStr(refMain), mergeTree, obs, coqList(recs))
		c.add(term, sideCase{Class: "mergeable/" + oh[:min(len(oh), 28)], Nontrivial: true, Key: keyOf(fmt.Sprint(w.human()) + term),
			Human: map[string]interface{}{"world": w.human(), "rule": fmt.Sprintf("protect-main thr=%d pids=%v globals=%v sharedkeys=%v", thr, pids, globals, shared), "VerifyMergeable": oh, "recorders": hr}})
	}
	return nil
}
