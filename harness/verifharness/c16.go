//go:build verif

package main

import (
	"context"
	"errors"
	"fmt"
	"strings"

	"github.com/gittuf/gittuf/internal/attestations"
	"github.com/gittuf/gittuf/internal/policy"
	"github.com/gittuf/gittuf/pkg/githash"
	"github.com/gittuf/gittuf/pkg/gitstore"
	"github.com/gittuf/gittuf/pkg/rsl"
)

func init() { props["C16"] = runC16 }

var errInjected = errors.New("verif: injected storage failure")

type crashSignal struct{}

// faultStore counts every Storer call and fails (fault) or abandons the operation right after
// (crash) the k-th one.  It also records the mutating calls for the trace comparison.
type faultStore struct {
	gitstore.Storer
	n      int
	faultK int // fail the k-th call (0: never)
	crashK int // stop dead after the k-th call (0: never)
	trace  []string
}

func (f *faultStore) tick(name string) error {
	f.n++
	if f.faultK == f.n {
		f.trace = append(f.trace, "FAULT@"+name)
		return errInjected
	}
	return nil
}

func (f *faultStore) after() {
	if f.crashK == f.n {
		panic(crashSignal{})
	}
}

func shortRef(r string) string { return strings.TrimPrefix(strings.TrimPrefix(r, "refs/gittuf/"), "refs/heads/") }

func (f *faultStore) GetReference(r string) (githash.Hash, error) {
	if err := f.tick("GetReference"); err != nil {
		return nil, err
	}
	defer f.after()
	return f.Storer.GetReference(r)
}
func (f *faultStore) SetReference(r string, id githash.Hash) error {
	if err := f.tick("SetReference"); err != nil {
		return err
	}
	defer f.after()
	f.trace = append(f.trace, "set:"+shortRef(r))
	return f.Storer.SetReference(r, id)
}
func (f *faultStore) DeleteReference(r string) error {
	if err := f.tick("DeleteReference"); err != nil {
		return err
	}
	defer f.after()
	f.trace = append(f.trace, "del:"+shortRef(r))
	return f.Storer.DeleteReference(r)
}
func (f *faultStore) ReadBlob(id githash.Hash) ([]byte, error) {
	if err := f.tick("ReadBlob"); err != nil {
		return nil, err
	}
	defer f.after()
	return f.Storer.ReadBlob(id)
}
func (f *faultStore) WriteBlob(b []byte) (githash.Hash, error) {
	if err := f.tick("WriteBlob"); err != nil {
		return nil, err
	}
	defer f.after()
	return f.Storer.WriteBlob(b)
}
func (f *faultStore) EmptyTree() (githash.Hash, error) {
	if err := f.tick("EmptyTree"); err != nil {
		return nil, err
	}
	defer f.after()
	return f.Storer.EmptyTree()
}
func (f *faultStore) WriteTree(e []gitstore.TreeEntry) (githash.Hash, error) {
	if err := f.tick("WriteTree"); err != nil {
		return nil, err
	}
	defer f.after()
	return f.Storer.WriteTree(e)
}
func (f *faultStore) GetAllFilesInTree(id githash.Hash) (map[string]githash.Hash, error) {
	if err := f.tick("GetAllFilesInTree"); err != nil {
		return nil, err
	}
	defer f.after()
	return f.Storer.GetAllFilesInTree(id)
}
func (f *faultStore) GetEntriesInTree(id githash.Hash) ([]gitstore.TreeEntry, error) {
	if err := f.tick("GetEntriesInTree"); err != nil {
		return nil, err
	}
	defer f.after()
	return f.Storer.GetEntriesInTree(id)
}
func (f *faultStore) GetPathIDInTree(id githash.Hash, p string) (githash.Hash, error) {
	if err := f.tick("GetPathIDInTree"); err != nil {
		return nil, err
	}
	defer f.after()
	return f.Storer.GetPathIDInTree(id, p)
}
func (f *faultStore) GetCommitTreeID(id githash.Hash) (githash.Hash, error) {
	if err := f.tick("GetCommitTreeID"); err != nil {
		return nil, err
	}
	defer f.after()
	return f.Storer.GetCommitTreeID(id)
}
func (f *faultStore) GetCommitMessage(id githash.Hash) (string, error) {
	if err := f.tick("GetCommitMessage"); err != nil {
		return "", err
	}
	defer f.after()
	return f.Storer.GetCommitMessage(id)
}
func (f *faultStore) GetCommitParentIDs(id githash.Hash) ([]githash.Hash, error) {
	if err := f.tick("GetCommitParentIDs"); err != nil {
		return nil, err
	}
	defer f.after()
	return f.Storer.GetCommitParentIDs(id)
}
func (f *faultStore) KnowsCommit(a, b githash.Hash) (bool, error) {
	if err := f.tick("KnowsCommit"); err != nil {
		return false, err
	}
	defer f.after()
	return f.Storer.KnowsCommit(a, b)
}
func (f *faultStore) GetObjectSignature(id githash.Hash) ([]byte, []byte, error) {
	if err := f.tick("GetObjectSignature"); err != nil {
		return nil, nil, err
	}
	defer f.after()
	return f.Storer.GetObjectSignature(id)
}
func (f *faultStore) Commit(tree githash.Hash, ref, msg string, sign bool) (githash.Hash, error) {
	if err := f.tick("Commit"); err != nil {
		return nil, err
	}
	defer f.after()
	f.trace = append(f.trace, "commit:"+shortRef(ref))
	return f.Storer.Commit(tree, ref, msg, sign)
}
func (f *faultStore) LookupConfig(k gitstore.ConfigKey) (string, bool, error) {
	if err := f.tick("LookupConfig"); err != nil {
		return "", false, err
	}
	defer f.after()
	return f.Storer.LookupConfig(k)
}
func (f *faultStore) ResetDueToError(cause error, ref string, id githash.Hash) error {
	if err := f.tick("ResetDueToError"); err != nil {
		return err
	}
	defer f.after()
	f.trace = append(f.trace, "reset:"+shortRef(ref))
	return f.Storer.ResetDueToError(cause, ref, id)
}

// ---- scenario set-up ------------------------------------------------------------------------

type c16Op struct {
	name  string
	start string // empty | first | established
	setup func(m *memStore) error
	run   func(s gitstore.Storer) error
}

func c16Policy(version int) *wPolicy {
	p := simplePolicy()
	p.Files[0].Version = version
	return p
}

func stageAndApply(m *memStore, version int) error {
	md, err := c16Policy(version).stateMetadata()
	if err != nil {
		return err
	}
	st := &policy.State{Metadata: md}
	if err := st.Commit(m, "stage", true, false); err != nil {
		return err
	}
	return policy.Apply(context.Background(), m, false)
}

func c16Ops() []c16Op {
	stateCommit := func(version int) func(s gitstore.Storer) error {
		return func(s gitstore.Storer) error {
			md, err := c16Policy(version).stateMetadata()
			if err != nil {
				return err
			}
			return (&policy.State{Metadata: md}).Commit(s, "stage", true, false)
		}
	}
	attCommit := func(s gitstore.Storer) error {
		a, err := attestations.LoadCurrentAttestations(s)
		if err != nil {
			return err
		}
		return a.Commit(s, "attest", true, false)
	}
	mainTarget := func() githash.Hash { b := make([]byte, 20); b[0] = 7; return githash.Hash(b) }
	ops := []c16Op{}
	for _, start := range []string{"empty", "established"} {
		start := start
		setup := func(m *memStore) error {
			if start == "established" {
				if err := stageAndApply(m, 1); err != nil {
					return err
				}
				return rsl.NewReferenceEntry("refs/heads/main", mainTarget()).Commit(m, false)
			}
			return nil
		}
		ops = append(ops,
			c16Op{"record-reference-entry", start, setup, func(s gitstore.Storer) error {
				return rsl.NewReferenceEntry("refs/heads/feature", mainTarget()).Commit(s, false)
			}},
			c16Op{"commit-staged-policy", start, setup, stateCommit(2)},
			c16Op{"commit-attestations", start, setup, attCommit},
		)
	}
	// staging already ahead of the applied policy (an earlier staged, recorded, unapplied change)
	ops = append(ops, c16Op{"commit-staged-policy", "staged-ahead", func(m *memStore) error {
		if err := stageAndApply(m, 1); err != nil {
			return err
		}
		md, err := c16Policy(2).stateMetadata()
		if err != nil {
			return err
		}
		return (&policy.State{Metadata: md}).Commit(m, "stage", true, false)
	}, stateCommit(3)})
	// annotation needs an entry to annotate
	ops = append(ops, c16Op{"record-annotation", "established", func(m *memStore) error {
		if err := stageAndApply(m, 1); err != nil {
			return err
		}
		return rsl.NewReferenceEntry("refs/heads/main", mainTarget()).Commit(m, false)
	}, func(s gitstore.Storer) error {
		tip, err := s.GetReference(rsl.Ref)
		if err != nil {
			return err
		}
		return rsl.NewAnnotationEntry([]githash.Hash{tip}, true, "note").Commit(s, false)
	}})
	// apply: first ever, and on top of an applied policy
	ops = append(ops, c16Op{"apply-policy", "first", func(m *memStore) error {
		md, err := c16Policy(1).stateMetadata()
		if err != nil {
			return err
		}
		return (&policy.State{Metadata: md}).Commit(m, "stage", true, false)
	}, func(s gitstore.Storer) error { return policy.Apply(context.Background(), s, false) }})
	ops = append(ops, c16Op{"apply-policy", "established", func(m *memStore) error {
		if err := stageAndApply(m, 1); err != nil {
			return err
		}
		md, err := c16Policy(2).stateMetadata()
		if err != nil {
			return err
		}
		return (&policy.State{Metadata: md}).Commit(m, "stage", true, false)
	}, func(s gitstore.Storer) error { return policy.Apply(context.Background(), s, false) }})
	// attestations with a prior commit
	ops = append(ops, c16Op{"commit-attestations", "second", func(m *memStore) error {
		if err := stageAndApply(m, 1); err != nil {
			return err
		}
		a, err := attestations.LoadCurrentAttestations(m)
		if err != nil {
			return err
		}
		return a.Commit(m, "attest", true, false)
	}, attCommit})
	// reconcile staging: policy strictly ahead of staging (a change landed directly in policy)
	ops = append(ops, c16Op{"reconcile-staging", "policy-ahead", func(m *memStore) error {
		if err := stageAndApply(m, 1); err != nil {
			return err
		}
		md, err := c16Policy(2).stateMetadata()
		if err != nil {
			return err
		}
		st, err := md.WriteTree(m)
		if err != nil {
			return err
		}
		root, err := m.WriteTree([]gitstore.TreeEntry{{Path: "metadata", ID: st, Kind: gitstore.KindSubtree}})
		if err != nil {
			return err
		}
		cid, err := m.Commit(root, policy.PolicyRef, "direct", false)
		if err != nil {
			return err
		}
		return rsl.NewReferenceEntry(policy.PolicyRef, cid).Commit(m, false)
	}, func(s gitstore.Storer) error { return policy.ReconcileStaging(s, false) }})
	// reconcile staging: diverged (an unapplied staged change, and a change that landed directly in policy)
	ops = append(ops, c16Op{"reconcile-staging", "diverged", func(m *memStore) error {
		if err := stageAndApply(m, 1); err != nil {
			return err
		}
		md3, err := c16Policy(3).stateMetadata()
		if err != nil {
			return err
		}
		if err := (&policy.State{Metadata: md3}).Commit(m, "stage", true, false); err != nil {
			return err
		}
		md, err := c16Policy(2).stateMetadata()
		if err != nil {
			return err
		}
		st, err := md.WriteTree(m)
		if err != nil {
			return err
		}
		root, err := m.WriteTree([]gitstore.TreeEntry{{Path: "metadata", ID: st, Kind: gitstore.KindSubtree}})
		if err != nil {
			return err
		}
		cid, err := m.Commit(root, policy.PolicyRef, "direct", false)
		if err != nil {
			return err
		}
		return rsl.NewReferenceEntry(policy.PolicyRef, cid).Commit(m, false)
	}, func(s gitstore.Storer) error { return policy.ReconcileStaging(s, false) }})
	return ops
}

// snapshot: the managed refs (by the tree they point to, so that runs can be compared) and the log.
type c16Snap struct {
	refs    map[string]string // ref -> commit id
	refTree map[string]string
	log     []string // "ref->tree" per reference entry, oldest first
	logOK   bool
	latest  map[string]string // ref -> target commit of its latest log entry
	nEntries int
}

var managedRefs = []string{policy.PolicyRef, policy.PolicyStagingRef, attestations.Ref}

func snapC16(m *memStore) c16Snap {
	s := c16Snap{refs: map[string]string{}, refTree: map[string]string{}, latest: map[string]string{}, logOK: true}
	for _, r := range managedRefs {
		if id, err := m.GetReference(r); err == nil {
			s.refs[r] = id.String()
			if t, err := m.GetCommitTreeID(id); err == nil {
				s.refTree[r] = t.String()
			}
		}
	}
	tip, _ := m.GetReference(rsl.Ref)
	g, err := walkGraph(m, tip)
	if err != nil {
		s.logOK = false
		return s
	}
	var prevNum uint64
	for i, c := range g {
		if c.Entry == nil || len(c.Parents) > 1 || (i > 0 && (len(c.Parents) != 1 || !c.Parents[0].Equal(g[i-1].ID))) {
			s.logOK = false
		}
		if c.Entry != nil {
			if c.Entry.Number != prevNum+1 {
				s.logOK = false
			}
			prevNum = c.Entry.Number
			if c.Entry.Kind == "ref" {
				tree := ""
				if t, err := m.GetCommitTreeID(c.Entry.Target); err == nil {
					tree = t.String()
				}
				s.log = append(s.log, c.Entry.Ref+"->"+tree)
				s.latest[c.Entry.Ref] = c.Entry.Target.String()
			} else {
				s.log = append(s.log, "annotation")
			}
		}
	}
	s.nEntries = len(g)
	return s
}

func isPrefix(a, b []string) bool {
	if len(a) > len(b) {
		return false
	}
	for i := range a {
		if a[i] != b[i] {
			return false
		}
	}
	return true
}

func sameStrings(a, b []string) bool { return len(a) == len(b) && isPrefix(a, b) }

func runC16(c *runCtx) error {
	c.coqImport = "C16Check"
	c.caseType = "c16case"
	c.checkFn = "c16_check"
	total := 0
	for _, op := range c16Ops() {
		fresh := func() (*memStore, error) {
			m := newMemStore()
			rsl.VerifResetCache()
			if err := op.setup(m); err != nil {
				return nil, fmt.Errorf("setup %s/%s: %w", op.name, op.start, err)
			}
			rsl.VerifResetCache()
			return m, nil
		}
		// uninterrupted run
		m0, err := fresh()
		if err != nil {
			return err
		}
		before := snapC16(m0)
		f0 := &faultStore{Storer: m0}
		if err := op.run(f0); err != nil {
			return fmt.Errorf("unfaulted %s/%s failed: %w", op.name, op.start, err)
		}
		after := snapC16(m0)
		nCalls := f0.n
		opTerm := map[string]string{"record-reference-entry": "OpEntry", "record-annotation": "OpEntry", "commit-staged-policy": "OpCommitWithEntry",
			"commit-attestations": "OpCommitWithEntry", "apply-policy": "OpSetWithEntry", "reconcile-staging": "OpSetWithEntry"}[op.name]
		if op.start == "diverged" {
			opTerm = "(OpRebaseWithEntry 1)"
		}
		prior := before.refs[map[string]string{"commit-staged-policy": policy.PolicyStagingRef, "commit-attestations": attestations.Ref,
			"apply-policy": policy.PolicyRef, "reconcile-staging": policy.PolicyStagingRef}[op.name]] != ""
		for k := 1; k <= nCalls; k++ {
			for _, mode := range []string{"fault", "crash"} {
				m, err := fresh()
				if err != nil {
					return err
				}
				f := &faultStore{Storer: m}
				if mode == "fault" {
					f.faultK = k
				} else {
					f.crashK = k
				}
				var opErr error
				crashed := false
				func() {
					defer func() {
						if rec := recover(); rec != nil {
							if _, ok := rec.(crashSignal); ok {
								crashed = true
							} else {
								opErr = fmt.Errorf("panic: %v", rec)
							}
						}
					}()
					opErr = op.run(f)
				}()
				rsl.VerifResetCache()
				mid := snapC16(m)
				// observations
				reported := opErr != nil
				refsOK := true // each managed ref unchanged or equal to the target of its latest log entry
				refsAtomic := true // each managed ref has its before- or after-value (by tree)
				for _, r := range managedRefs {
					if mid.refs[r] != before.refs[r] && mid.refs[r] != mid.latest[r] {
						refsOK = false
					}
					if mid.refTree[r] != before.refTree[r] && mid.refTree[r] != after.refTree[r] {
						// the staging rebase passes through the applied policy's commit (theorem C16_crash, p = 1)
						if !(op.start == "diverged" && r == policy.PolicyStagingRef && len(f.trace) == 1 && mid.refs[r] == before.refs[policy.PolicyRef]) {
							refsAtomic = false
						}
					}
				}
				noPartial := mid.logOK && isPrefix(before.log, mid.log) && isPrefix(mid.log, after.log)
				// a failure that the operation absorbed is harmless only if the outcome is that of the uninterrupted run
				if !reported && !crashed && mode == "fault" {
					masked := mid.logOK && sameStrings(mid.log, after.log)
					for _, r := range managedRefs {
						if mid.refTree[r] != after.refTree[r] {
							masked = false
						}
					}
					if masked {
						continue // nothing to judge: the injected call was optional (e.g. loading the cache) and the result is complete
					}
				}
				rerunOK := true
				if mode == "fault" {
					f.faultK, f.crashK = 0, 0
					if err := op.run(m); err != nil {
						rerunOK = false
					} else {
						rsl.VerifResetCache()
						fin := snapC16(m)
						if !fin.logOK || !sameStrings(fin.log, after.log) {
							rerunOK = false
						}
						for _, r := range managedRefs {
							if fin.refTree[r] != after.refTree[r] {
								rerunOK = false
							}
						}
					}
				}
				trace := []string{}
				for _, t := range f.trace {
					trace = append(trace, coqStr(t))
				}
				refShort := map[string]string{"commit-staged-policy": "policy-staging", "commit-attestations": "attestations", "apply-policy": "policy", "reconcile-staging": "policy-staging"}[op.name]
				term := fmt.Sprintf("(C16 %s %s %s %s %d %d %s %s %s %s %s %s %s)", opTerm, coqStr(refShort), coqBool(prior), map[string]string{"fault": "MFault", "crash": "MCrash"}[mode], k, nCalls,
					coqList(trace), coqBool(reported || crashed), coqBool(noPartial), coqBool(refsOK), coqBool(refsAtomic), coqBool(rerunOK), coqBool(len(mid.log) > len(before.log)))
				c.add(term, sideCase{Class: op.name + "/" + op.start + "/" + mode, Nontrivial: true, Key: keyOf(fmt.Sprint(op.name, op.start, mode, k)),
					Human: map[string]interface{}{"operation": op.name, "start": op.start, "mode": mode, "k": k, "calls": nCalls, "mutating_calls": f.trace,
						"error_reported": reported, "log_valid_no_partial_entry": noPartial, "refs_unchanged_or_match_latest_entry": refsOK,
						"refs_before_or_after": refsAtomic, "rerun_reaches_uninterrupted_state": rerunOK}})
				total++
			}
		}
	}
	c.extra["exhaustive"] = true
	c.extra["fault_points_enumerated"] = total
	return nil
}
