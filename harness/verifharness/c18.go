//go:build verif

package main

// C18: propagation copies exactly the upstream subtree and is idempotent.  Two real repositories
// (upstream, downstream); trees, commits and the upstream log are written by the harness, the
// downstream state is read back with NUL-delimited plumbing parsed here, not by gitinterface.

import (
	"bytes"
	"fmt"
	"math/rand"
	"os"
	"path/filepath"
	"sort"
	"strings"

	"github.com/gittuf/gittuf/internal/propagation"
	"github.com/gittuf/gittuf/internal/tuf"
	tufv01 "github.com/gittuf/gittuf/internal/tuf/v01"
	"github.com/gittuf/gittuf/pkg/githash"
	"github.com/gittuf/gittuf/pkg/gitstore"
	"github.com/gittuf/gittuf/pkg/rsl"
)

func init() { props["C18"] = runC18 }

type c18Blobs struct {
	num  map[string]int // blob id -> number
	next int
}

func (b *c18Blobs) write(m *memStore, n int) (githash.Hash, error) {
	h, err := m.WriteBlob([]byte(fmt.Sprintf("blob %d\n", n)))
	if err == nil {
		b.num[h.String()] = n
	}
	return h, err
}

func c18Commit(m *memStore, bl *c18Blobs, files map[string]int, parents []githash.Hash) (githash.Hash, error) {
	ents := []gitstore.TreeEntry{}
	for p, n := range files {
		h, err := bl.write(m, n)
		if err != nil {
			return nil, err
		}
		ents = append(ents, gitstore.TreeEntry{Path: p, ID: h, Kind: gitstore.KindBlob})
	}
	t, err := m.WriteTree(ents)
	if err != nil {
		return nil, err
	}
	return m.createCommit(t, parents, "c", nil)
}

// readFlatTree lists a commit's tree with `git ls-tree -r -z`, parsed here.
func readFlatTree(dir, rev string, bl *c18Blobs) (map[string]int, bool, error) {
	raw, err := gitOut(dir, "ls-tree", "-r", "-z", rev)
	if err != nil {
		return nil, false, err
	}
	out := map[string]int{}
	plain := true
	for _, rec := range bytes.Split(raw, []byte{0}) {
		if len(rec) == 0 {
			continue
		}
		tab := bytes.IndexByte(rec, '\t')
		meta := strings.Split(string(rec[:tab]), " ")
		if meta[0] != "100644" || meta[1] != "blob" {
			plain = false
		}
		n, ok := bl.num[meta[2]]
		if !ok {
			n = 9999
		}
		out[string(rec[tab+1:])] = n
	}
	return out, plain, nil
}

func c18Files(r *rand.Rand, bl *c18Blobs, must []string, n int) map[string]int {
	files := map[string]int{}
	for _, d := range must {
		for k := 0; k < 1+r.Intn(2); k++ {
			p := d + "/" + c10Path(r)
			if !c10Conflicts(files, p) {
				files[p] = bl.next
				bl.next++
			}
		}
	}
	for k := 0; k < n; k++ {
		p := c10Path(r)
		if !c10Conflicts(files, p) {
			files[p] = bl.next
			bl.next++
		}
	}
	return files
}

func runC18(c *runCtx) error {
	c.coqImport = "C18Check"
	c.caseType = "c18case"
	c.checkFn = "c18_check"
	r := c.rng
	upPaths := []string{"", "", "metadata", "sub dir", "sub dir/", "missing"}
	downPaths := []string{"d", "d/", "a b/c", "é", "vendor/up stream", "q\"x", "foo"}
	for ci := 0; len(c.cases) < c.n; ci++ {
		bl := &c18Blobs{num: map[string]int{}, next: 1}
		mu, md := newMemStore(), newMemStore()
		// ---- upstream ----
		u1 := c18Files(r, bl, []string{"metadata", "sub dir"}, 1+r.Intn(3))
		u2 := map[string]int{}
		for p, n := range u1 {
			u2[p] = n
		}
		for p := range c18Files(r, bl, []string{"metadata"}, 1) {
			if c10Conflicts(u2, p) { // a file where the first tree has a directory (or the reverse): not a tree
				continue
			}
			u2[p] = bl.next
			bl.next++
		}
		for p := range u2 { // and a deletion
			if r.Intn(4) == 0 && len(u2) > 2 {
				delete(u2, p)
				break
			}
		}
		cu1, err := c18Commit(mu, bl, u1, nil)
		if err != nil {
			return err
		}
		cu2, err := c18Commit(mu, bl, u2, []githash.Hash{cu1})
		if err != nil {
			return err
		}
		// ---- directives ----
		nd := 1 + r.Intn(2)
		dirs := []tuf.PropagationDirective{}
		dcoq, dh := []string{}, []string{}
		usedDown := []string{}
		for i := 0; i < nd; i++ {
			up := upPaths[r.Intn(len(upPaths))]
			var dp string
			for try := 0; try < 20; try++ {
				dp = downPaths[r.Intn(len(downPaths))]
				clash := false
				for _, q := range usedDown {
					a, b := strings.TrimSuffix(dp, "/")+"/", strings.TrimSuffix(q, "/")+"/"
					if strings.HasPrefix(a, b) || strings.HasPrefix(b, a) {
						clash = true
					}
				}
				if !clash {
					break
				}
				dp = ""
			}
			if dp == "" {
				continue
			}
			usedDown = append(usedDown, dp)
			upRef := refMain
			if r.Intn(3) == 0 || (i == 1 && r.Intn(2) == 0) {
				upRef = "refs/heads/other"
			}
			dirs = append(dirs, tufv01.NewPropagationDirective(fmt.Sprintf("dir%d", i), "https://example.com/upstream", upRef, up, refMain, dp))
			dcoq = append(dcoq, fmt.Sprintf("{| d_uprepo := %s; d_upref := %s; d_uppath := %s; d_downref := %s; d_downpath := %s |}",
				coqStr("https://example.com/upstream"), coqStr(upRef), coqStr(up), coqStr(refMain), coqStr(dp)))
			dh = append(dh, fmt.Sprintf("upstream %s path %q -> downstream path %q", upRef, up, dp))
		}
		// ---- downstream initial tree: content below the downstream paths and look-alike siblings ----
		must := []string{}
		for _, dp := range usedDown {
			t := strings.TrimSuffix(dp, "/")
			if r.Intn(2) == 0 {
				must = append(must, t)
			}
			must = append(must, t+"bar", t+" x")
		}
		d1 := c18Files(r, bl, must, 1+r.Intn(3))
		cd1, err := c18Commit(md, bl, d1, nil)
		if err != nil {
			return err
		}
		// ---- real repositories ----
		up, upDir, err := newRealRepo(c, fmt.Sprintf("c18-%d-up", ci), true)
		if err != nil {
			return err
		}
		down, downDir, err := newRealRepo(c, fmt.Sprintf("c18-%d-down", ci), true)
		if err != nil {
			return err
		}
		if err := exportObjects(mu, upDir); err != nil {
			return err
		}
		if err := exportObjects(md, downDir); err != nil {
			return err
		}
		shared := r.Intn(2) == 0 // downstream already holds the upstream objects (grafting path)
		if shared {
			if err := exportObjects(mu, downDir); err != nil {
				return err
			}
		}
		// upstream log
		type upEnt struct {
			tree    map[string]int
			skipped bool
			ref     string
		}
		upLog := []upEnt{}
		upIDs := map[string]int{}
		record := func(e rsl.Entry, ue upEnt) error {
			if err := e.Commit(up, false); err != nil {
				return err
			}
			tip, err := up.GetReference(rsl.Ref)
			if err != nil {
				return err
			}
			upLog = append(upLog, ue)
			upIDs[tip.String()] = len(upLog)
			return nil
		}
		other := "refs/heads/other"
		if err := record(rsl.NewReferenceEntry(other, cu1), upEnt{tree: u1, ref: other}); err != nil {
			return err
		}
		scenario := []string{"one", "updated", "skipped-latest", "all-skipped", "none"}[r.Intn(5)]
		upTip := func() githash.Hash { t, _ := up.GetReference(rsl.Ref); return t }
		switch scenario {
		case "one":
			err = record(rsl.NewReferenceEntry(refMain, cu1), upEnt{tree: u1, ref: refMain})
		case "updated":
			if err = record(rsl.NewReferenceEntry(refMain, cu1), upEnt{tree: u1, ref: refMain}); err == nil {
				err = record(rsl.NewReferenceEntry(refMain, cu2), upEnt{tree: u2, ref: refMain})
			}
		case "skipped-latest":
			if err = record(rsl.NewReferenceEntry(refMain, cu1), upEnt{tree: u1, ref: refMain}); err == nil {
				if err = record(rsl.NewReferenceEntry(refMain, cu2), upEnt{tree: u2, ref: refMain}); err == nil {
					bad := upTip()
					upLog[len(upLog)-1].skipped = true
					err = record(rsl.NewAnnotationEntry([]githash.Hash{bad}, true, "bad"), upEnt{ref: ""})
				}
			}
		case "all-skipped":
			if err = record(rsl.NewReferenceEntry(refMain, cu1), upEnt{tree: u1, ref: refMain}); err == nil {
				bad := upTip()
				upLog[len(upLog)-1].skipped = true
				err = record(rsl.NewAnnotationEntry([]githash.Hash{bad}, true, "bad"), upEnt{ref: ""})
			}
		}
		if err != nil {
			return err
		}
		// downstream ref and log
		if _, err := gitOut(downDir, "update-ref", refMain, cd1.String()); err != nil {
			return err
		}
		if err := rsl.NewReferenceEntry(refMain, cd1).Commit(down, false); err != nil {
			return err
		}
		// ---- run ----
		reps := 1 + r.Intn(3)
		if len(dirs) > 1 && reps == 1 {
			reps = 2
		}
		obs, hobs := []string{}, []string{}
		plainAll := true
		upsTerms := []string{}
		upSnapshot := func() string {
			ul := []string{}
			for i, ue := range upLog {
				ul = append(ul, fmt.Sprintf("(%d%%N, %s, %s, %s)", i+1, coqStr(ue.ref), coqFTree(ue.tree), coqBool(ue.skipped)))
			}
			return coqList(ul)
		}
		for k := 0; k < reps; k++ {
			if k > 0 && r.Intn(3) != 0 { // the upstream moves on between two propagations
				uref := []string{refMain, other}[r.Intn(2)]
				if err := record(rsl.NewReferenceEntry(uref, cu2), upEnt{tree: u2, ref: uref}); err != nil {
					return err
				}
			}
			upsTerms = append(upsTerms, upSnapshot())
			rsl.VerifResetCache()
			perr := propagation.PropagateChangesFromUpstreamRepository(down, up, dirs, false)
			tree, plain, err := readFlatTree(downDir, refMain, bl)
			if err != nil {
				return err
			}
			plainAll = plainAll && plain
			cnt, err := gitOut(downDir, "rev-list", "--count", refMain)
			if err != nil {
				return err
			}
			var ncommits int
			fmt.Sscanf(strings.TrimSpace(string(cnt)), "%d", &ncommits)
			tip, err := down.GetReference(rsl.Ref)
			if err != nil {
				return err
			}
			g, err := walkGraph(down, tip)
			if err != nil {
				return err
			}
			ents, hents := []string{}, []string{}
			for _, gc := range g[1:] {
				if gc.Entry == nil || gc.Entry.Kind != "prop" {
					ents = append(ents, fmt.Sprintf("(%s, [], [], 0%%N)", coqStr("?")))
					hents = append(hents, "non-propagation entry "+gc.Message)
					continue
				}
				et, _, err := readFlatTree(downDir, gc.Entry.Target.String(), bl)
				if err != nil {
					return err
				}
				ents = append(ents, fmt.Sprintf("(%s, %s, %s, %d%%N)", coqStr(gc.Entry.Ref), coqFTree(et), coqStr(gc.Entry.UpRepo), upIDs[gc.Entry.UpEntry.String()]))
				hents = append(hents, fmt.Sprintf("propagation entry ref=%s upstream=%s upstream-entry=#%d tree=%s", gc.Entry.Ref, gc.Entry.UpRepo, upIDs[gc.Entry.UpEntry.String()], c10TreeKey(et)))
			}
			obs = append(obs, fmt.Sprintf("(%s, %s, %d, %s)", coqBool(perr != nil), coqFTree(tree), ncommits-1, coqList(ents)))
			e := "ok"
			if perr != nil {
				e = "error: " + perr.Error()
			}
			hobs = append(hobs, fmt.Sprintf("run %d: %s; main tree=%s; commits made=%d; entries=%v", k+1, e, c10TreeKey(tree), ncommits-1, hents))
		}
		os.RemoveAll(filepath.Join(c.outDir, "repos", fmt.Sprintf("c18-%d-up", ci)))
		os.RemoveAll(filepath.Join(c.outDir, "repos", fmt.Sprintf("c18-%d-down", ci)))
		// ---- the case ----
		hul := []string{}
		for i, ue := range upLog {
			hul = append(hul, fmt.Sprintf("#%d ref=%q skipped=%v tree=%s", i+1, ue.ref, ue.skipped, c10TreeKey(ue.tree)))
		}
		term := fmt.Sprintf("(C18 %s [(%s, %s)] %s %s)", coqList(upsTerms), coqStr(refMain), coqFTree(d1), coqList(dcoq), coqList(obs))
		sort.Strings(must)
		c.add(term, sideCase{Class: scenario + fmt.Sprintf("/dirs=%d/shared=%v", len(dirs), shared), Nontrivial: scenario != "none" && scenario != "all-skipped" && len(dirs) > 0,
			Key: keyOf(term), Human: map[string]interface{}{"upstream_log": hul, "downstream_main": c10TreeKey(d1), "directives": dh, "downstream_holds_upstream_objects": shared,
				"runs": hobs, "only_regular_files": plainAll}})
	}
	return nil
}
