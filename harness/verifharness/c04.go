//go:build verif

package main

import (
	"fmt"
	"math/rand"
	"strings"

	"github.com/gittuf/gittuf/pkg/githash"
	"github.com/gittuf/gittuf/pkg/rsl"
)

func init() { props["C04"] = runC04 }

var c04Refs = []string{"refs/heads/main", "refs/heads/feature", "refs/gittuf/policy", "refs/gittuf/policy-staging", "refs/gittuf/attestations"}
var c04Repos = []string{"https://example.com/up-a", "git@host:up-b"}

func randHash(r *rand.Rand) githash.Hash {
	b := make([]byte, 20)
	r.Read(b)
	return githash.Hash(b)
}

type c04Log struct {
	m       *memStore
	entries []githash.Hash // commit ids in log order (valid or not)
	nums    []uint64
	corrupt string
}

// buildLog builds a log by raw appends: correct numbering by default, optional legacy unnumbered
// prefix, optional single-point corruption.
func buildLog(r *rand.Rand, n int, corrupt bool) *c04Log {
	l := &c04Log{m: newMemStore()}
	legacy := 0
	if n > 0 && r.Intn(4) == 0 {
		legacy = r.Intn(n)
	}
	corruptAt := -1
	kind := ""
	if corrupt && n > 0 {
		corruptAt = r.Intn(n)
		kind = []string{"extra-parent", "gap", "dup", "garbage", "unnumbered-on-numbered", "zero-after"}[r.Intn(6)]
		l.corrupt = fmt.Sprintf("%s@%d", kind, corruptAt)
	}
	var num uint64
	for i := 0; i < n; i++ {
		if i >= legacy {
			num++
		}
		thisNum := num
		var extra []githash.Hash
		if i == corruptAt {
			switch kind {
			case "gap":
				thisNum = num + 1 + uint64(r.Intn(2))
				num = thisNum
			case "dup":
				if num > 1 {
					thisNum = num - 1
					num = thisNum
				} else {
					thisNum = num + 2
					num = thisNum
				}
			case "unnumbered-on-numbered":
				thisNum = 0
				num = 0
			case "zero-after":
				thisNum = 0
			case "extra-parent":
				if len(l.entries) > 0 {
					extra = []githash.Hash{l.entries[r.Intn(len(l.entries))]}
				} else {
					tree, _ := l.m.EmptyTree()
					side, _ := l.m.createCommit(tree, nil, "side", nil)
					extra = []githash.Hash{side}
				}
			}
		}
		var e rsl.Entry
		switch k := r.Intn(10); {
		case k < 6 || len(l.entries) == 0:
			e = &rsl.ReferenceEntry{RefName: c04Refs[r.Intn(len(c04Refs))], TargetID: randHash(r), Number: thisNum}
		case k < 9:
			cnt := 1 + r.Intn(3)
			ts := []githash.Hash{}
			for j := 0; j < cnt; j++ {
				ts = append(ts, l.entries[r.Intn(len(l.entries))])
			}
			if r.Intn(8) == 0 {
				ts = append(ts, ts[0]) // duplicate target
			}
			msg := ""
			if r.Intn(3) == 0 {
				msg = "note"
			}
			e = &rsl.AnnotationEntry{RSLEntryIDs: ts, Skip: r.Intn(3) != 0, Message: msg, Number: thisNum}
		default:
			e = &rsl.PropagationEntry{RefName: c04Refs[r.Intn(2)], TargetID: randHash(r), UpstreamRepository: c04Repos[r.Intn(2)], UpstreamEntryID: randHash(r), Number: thisNum}
		}
		msg, _ := rsl.VerifCreateCommitMessage(e)
		if i == corruptAt && kind == "garbage" {
			msg = []string{"not an entry", "RSL Reference Entry\n\nref: x", "RSL Reference Entry\n\nref: refs/heads/main\ntargetID: zz", ""}[r.Intn(4)]
			if msg == "" {
				msg = "x"
			}
		}
		id, err := rawAppend(l.m, msg, extra)
		if err != nil {
			panic(err)
		}
		l.entries = append(l.entries, id)
		l.nums = append(l.nums, thisNum)
	}
	return l
}

func obs1(ids *idMap, e rsl.ReferenceUpdaterEntry, anns []*rsl.AnnotationEntry, err error) (string, string) {
	if err != nil {
		en := rerrEnum(err)
		return "(RErr " + en + ")", en
	}
	as := []string{}
	ah := []string{}
	for _, a := range anns {
		as = append(as, ids.coq(a.ID))
		ah = append(ah, fmt.Sprint(ids.of(a.ID)))
	}
	return fmt.Sprintf("(ROk (%s, %s))", ids.coq(e.GetID()), coqList(as)), fmt.Sprintf("entry %d anns [%s]", ids.of(e.GetID()), strings.Join(ah, ","))
}

func runC04(c *runCtx) error {
	c.coqImport = "C04Check"
	c.caseType = "c04case"
	c.checkFn = "c04_check"
	c.consts = append(c.consts,
		fmt.Sprintf("beq gittuf_prefix %s", coqStr("refs/gittuf/")),
		fmt.Sprintf("beq staging_ref %s", coqStr("refs/gittuf/policy-staging")))
	r := c.rng
	nLogs := c.n / 12
	if nLogs < 1 {
		nLogs = 1
	}
	maxLen := 12
	for li := 0; li < nLogs; li++ {
		n := r.Intn(maxLen + 1)
		if li%17 == 16 {
			n = 0
		}
		corrupt := r.Intn(4) == 0
		l := buildLog(r, n, corrupt)
		ids := newIDMap()
		tip, _ := l.m.GetReference(rsl.Ref)
		g, err := walkGraph(l.m, tip)
		if err != nil {
			return err
		}
		stDef := fmt.Sprintf("st%d", li)
		c.defs = append(c.defs, fmt.Sprintf("Definition %s : store := %s.", stDef, coqStore(g, ids)))
		tipTerm := "None"
		if !tip.IsZero() {
			tipTerm = "(Some " + ids.coq(tip) + ")"
		}
		hstore := humanStore(g, ids)
		rsl.VerifResetCache()
		pickEntry := func() githash.Hash {
			if len(l.entries) == 0 || r.Intn(10) == 0 {
				return randHash(r)
			}
			return l.entries[r.Intn(len(l.entries))]
		}
		pickNum := func() uint64 {
			if len(l.nums) == 0 || r.Intn(6) == 0 {
				return uint64(r.Intn(16))
			}
			return l.nums[r.Intn(len(l.nums))]
		}
		emit := func(q, hq, ho string, active int) {
			term := fmt.Sprintf("(C04 %s %s %s)", stDef, tipTerm, q)
			cls := "wellformed"
			if l.corrupt != "" {
				cls = "corrupt:" + strings.Split(l.corrupt, "@")[0]
			}
			c.add(term, sideCase{Class: strings.Split(hq, " ")[0] + "/" + cls, Nontrivial: active >= 2 || l.corrupt != "",
				Key: keyOf(fmt.Sprint(hstore) + q), Human: map[string]interface{}{"log": hstore, "corruption": l.corrupt, "query": hq, "observed": ho}})
		}
		// --- GetLatestReferenceUpdaterEntry
		for qi := 0; qi < 6; qi++ {
			opts := []rsl.GetLatestReferenceUpdaterEntryOption{}
			fields := []string{"[]", "None", "0%N", "None", "0%N", "false", "false", "false", "[]"}
			hq := []string{}
			active := 0
			if r.Intn(2) == 0 {
				ref := append(append([]string{}, c04Refs...), "refs/heads/none")[r.Intn(6)]
				opts = append(opts, rsl.ForReference(ref))
				fields[0] = coqStr(ref)
				hq = append(hq, "ref="+ref)
				active++
			}
			switch r.Intn(5) {
			case 0:
				h := pickEntry()
				opts = append(opts, rsl.BeforeEntryID(h))
				fields[1] = "(Some " + ids.coq(h) + ")"
				hq = append(hq, fmt.Sprintf("beforeID=%d", ids.of(h)))
				active++
			case 1:
				k := pickNum()
				opts = append(opts, rsl.BeforeEntryNumber(k))
				fields[2] = coqN(k)
				hq = append(hq, fmt.Sprintf("beforeNum=%d", k))
				active++
			case 2:
				if r.Intn(4) == 0 { // both: invalid
					h, k := pickEntry(), pickNum()
					opts = append(opts, rsl.BeforeEntryID(h), rsl.BeforeEntryNumber(k))
					fields[1], fields[2] = "(Some "+ids.coq(h)+")", coqN(k)
					hq = append(hq, fmt.Sprintf("beforeID=%d beforeNum=%d", ids.of(h), k))
					active += 2
				}
			}
			switch r.Intn(5) {
			case 0:
				h := pickEntry()
				if r.Intn(2) == 0 && len(l.entries) > 0 { // bias: an old entry, so that the bound is often the answer
					h = l.entries[r.Intn(1+len(l.entries)/3)]
				}
				opts = append(opts, rsl.UntilEntryID(h))
				fields[3] = "(Some " + ids.coq(h) + ")"
				hq = append(hq, fmt.Sprintf("untilID=%d", ids.of(h)))
				active++
			case 1:
				k := pickNum()
				opts = append(opts, rsl.UntilEntryNumber(k))
				fields[4] = coqN(k)
				hq = append(hq, fmt.Sprintf("untilNum=%d", k))
				active++
			case 2:
				if r.Intn(4) == 0 {
					h, k := pickEntry(), pickNum()
					opts = append(opts, rsl.UntilEntryID(h), rsl.UntilEntryNumber(k))
					fields[3], fields[4] = "(Some "+ids.coq(h)+")", coqN(k)
					hq = append(hq, fmt.Sprintf("untilID=%d untilNum=%d", ids.of(h), k))
					active += 2
				}
			}
			if r.Intn(3) == 0 {
				opts = append(opts, rsl.IsUnskipped())
				fields[5] = "true"
				hq = append(hq, "unskipped")
				active++
			}
			if r.Intn(4) == 0 {
				opts = append(opts, rsl.ForNonGittufReference())
				fields[6] = "true"
				hq = append(hq, "nongittuf")
				active++
			}
			if r.Intn(5) == 0 {
				opts = append(opts, rsl.IsReferenceEntry())
				fields[7] = "true"
				hq = append(hq, "isref")
				active++
			}
			if r.Intn(6) == 0 {
				repo := c04Repos[r.Intn(2)]
				opts = append(opts, rsl.IsPropagationEntryForRepository(repo))
				fields[8] = coqStr(repo)
				hq = append(hq, "prop="+repo)
				active++
			}
			o := fmt.Sprintf("{| o_ref := %s; o_before_id := %s; o_before_num := %s; o_until_id := %s; o_until_num := %s; o_unskipped := %s; o_nongittuf := %s; o_isref := %s; o_prop_repo := %s |}",
				fields[0], fields[1], fields[2], fields[3], fields[4], fields[5], fields[6], fields[7], fields[8])
			func() {
				defer func() {
					if rec := recover(); rec != nil {
						c.add("C04Panic", sideCase{Class: "panic", Nontrivial: true, Key: keyOf(fmt.Sprint(hstore, hq)), Human: map[string]interface{}{"log": hstore, "query": hq, "panic": fmt.Sprint(rec)}})
					}
				}()
				e, anns, err := rsl.GetLatestReferenceUpdaterEntry(l.m, opts...)
				ot, oh := obs1(ids, e, anns, err)
				emit(fmt.Sprintf("(QLatest %s %s)", o, ot), "latest "+strings.Join(hq, " "), oh, active)
			}()
		}
		// --- GetFirstReferenceUpdaterEntryForRef / GetFirstEntry
		for _, ref := range []string{"", c04Refs[r.Intn(len(c04Refs))]} {
			e, anns, err := rsl.GetFirstReferenceUpdaterEntryForRef(l.m, ref)
			if ref == "" {
				e, anns, err = rsl.GetFirstEntry(l.m)
			}
			ot, oh := obs1(ids, e, anns, err)
			emit(fmt.Sprintf("(QFirst %s %s)", coqStr(ref), ot), "first ref="+ref, oh, 1)
		}
		// --- GetReferenceUpdaterEntriesInRangeForRef
		for qi := 0; qi < 3; qi++ {
			a, b := pickEntry(), pickEntry()
			if len(l.entries) > 1 && r.Intn(5) != 0 {
				i, j := r.Intn(len(l.entries)), r.Intn(len(l.entries))
				if i > j {
					i, j = j, i
				}
				a, b = l.entries[i], l.entries[j]
			}
			ref := []string{"", c04Refs[0], c04Refs[1], c04Refs[2]}[r.Intn(4)]
			es, amap, err := rsl.GetReferenceUpdaterEntriesInRangeForRef(l.m, a, b, ref)
			var ot, oh string
			if err != nil {
				ot, oh = "(RErr "+rerrEnum(err)+")", rerrEnum(err)
			} else {
				el, ml, hh := []string{}, []string{}, []string{}
				for _, e := range es {
					el = append(el, ids.coq(e.GetID()))
					hh = append(hh, fmt.Sprint(ids.of(e.GetID())))
					if as, ok := amap[e.GetID().String()]; ok {
						al := []string{}
						for _, x := range as {
							al = append(al, ids.coq(x.ID))
						}
						ml = append(ml, fmt.Sprintf("(%s, %s)", ids.coq(e.GetID()), coqList(al)))
					}
				}
				extra := len(amap) - len(ml) // keys not among the returned entries would be a violation
				if extra != 0 {
					ml = append(ml, "(0%N, [])")
				}
				ot, oh = fmt.Sprintf("(ROk (%s, %s))", coqList(el), coqList(ml)), fmt.Sprintf("entries [%s] annotated %d", strings.Join(hh, ","), len(amap))
			}
			emit(fmt.Sprintf("(QRange %s %s %s %s)", ids.coq(a), ids.coq(b), coqStr(ref), ot),
				fmt.Sprintf("range first=%d last=%d ref=%s", ids.of(a), ids.of(b), ref), oh, 2)
		}
		// --- GetNonGittufParentReferenceUpdaterEntryForEntry
		if len(l.entries) > 0 {
			id := l.entries[r.Intn(len(l.entries))]
			if ent, err := rsl.GetEntry(l.m, id); err == nil {
				e, anns, err := rsl.GetNonGittufParentReferenceUpdaterEntryForEntry(l.m, ent)
				ot, oh := obs1(ids, e, anns, err)
				emit(fmt.Sprintf("(QNgp %s %s)", ids.coq(id), ot), fmt.Sprintf("nongittufparent of=%d", ids.of(id)), oh, 1)
			}
		}
	}
	return nil
}
