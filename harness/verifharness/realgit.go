//go:build verif

package main

import (
	"fmt"
	"os"
	"os/exec"
	"path/filepath"

	"github.com/gittuf/gittuf/pkg/gitinterface"
)

// newRealRepo creates a scratch git repository under the run's work directory.
func newRealRepo(c *runCtx, name string, bare bool) (*gitinterface.Repository, string, error) {
	dir := filepath.Join(c.outDir, "repos", name)
	if abs, err := filepath.Abs(dir); err == nil {
		dir = abs
	}
	if err := os.MkdirAll(dir, 0o755); err != nil {
		return nil, "", err
	}
	args := []string{"init", "-q", "-b", "main"}
	if bare {
		args = append(args, "--bare")
	}
	args = append(args, dir)
	if out, err := exec.Command("git", args...).CombinedOutput(); err != nil {
		return nil, "", fmt.Errorf("git init: %v %s", err, out)
	}
	for _, kv := range [][2]string{{"user.name", "Verif"}, {"user.email", "verif@example.com"}, {"commit.gpgsign", "false"}, {"core.quotePath", "true"}} {
		if out, err := exec.Command("git", "-C", dir, "config", kv[0], kv[1]).CombinedOutput(); err != nil {
			return nil, "", fmt.Errorf("git config: %v %s", err, out)
		}
	}
	r, err := gitinterface.LoadRepository(dir)
	return r, dir, err
}

func gitOut(dir string, args ...string) ([]byte, error) {
	cmd := exec.Command("git", append([]string{"-C", dir}, args...)...)
	cmd.Env = append(os.Environ(), "LC_ALL=C")
	return cmd.Output()
}
