//go:build verif

package main

import (
	"fmt"
	"math/rand"
	"strings"

	"github.com/gittuf/gittuf/pkg/githash"
	"github.com/gittuf/gittuf/pkg/gitstore"
	"github.com/gittuf/gittuf/pkg/rsl"
)

func init() { props["C03"] = runC03 }

// logOp is one recording operation in harness form.
type logOp struct {
	Kind     string // ref | ann | prop
	Ref      string
	Target   githash.Hash
	Targets  []githash.Hash
	Skip     bool
	Msg      string
	UpRepo   string
	UpEntry  githash.Hash
	Numbered bool
}

func (o *logOp) coq(ids *idMap) string {
	switch o.Kind {
	case "ref":
		return fmt.Sprintf("(WRef %s %s %s)", coqStr(o.Ref), ids.coq(o.Target), coqBool(o.Numbered))
	case "prop":
		return fmt.Sprintf("(WProp %s %s %s %s)", coqStr(o.Ref), ids.coq(o.Target), coqStr(o.UpRepo), ids.coq(o.UpEntry))
	}
	ts := []string{}
	for _, t := range o.Targets {
		ts = append(ts, ids.coq(t))
	}
	return fmt.Sprintf("(WAnn %s %s %s)", coqList(ts), coqBool(o.Skip), coqBool(o.Numbered))
}

func (o *logOp) human(ids *idMap) string {
	switch o.Kind {
	case "ref":
		return fmt.Sprintf("record %s numbered=%v", o.Ref, o.Numbered)
	case "prop":
		return fmt.Sprintf("propagate %s <- %s", o.Ref, o.UpRepo)
	}
	ts := []string{}
	for _, t := range o.Targets {
		ts = append(ts, fmt.Sprint(ids.of(t)))
	}
	return fmt.Sprintf("annotate [%s] skip=%v numbered=%v", strings.Join(ts, ","), o.Skip, o.Numbered)
}

// apply runs the operation through the real recording API.
func (o *logOp) apply(st gitstore.Storer) error {
	switch o.Kind {
	case "ref":
		e := rsl.NewReferenceEntry(o.Ref, o.Target)
		if o.Numbered {
			return e.Commit(st, false)
		}
		return e.CommitWithoutNumber(st)
	case "prop":
		return rsl.NewPropagationEntry(o.Ref, o.Target, o.UpRepo, o.UpEntry).Commit(st, false)
	}
	a := rsl.NewAnnotationEntry(o.Targets, o.Skip, o.Msg)
	if o.Numbered {
		return a.Commit(st, false)
	}
	return a.CommitWithoutNumber(st)
}

// fixedIDs gives non-log objects (targets, unknown ids) numbers from 1000 up, so that log commits
// are 1, 2, 3 ... in creation order exactly as the model allocates them.
type fixedIDs struct {
	*idMap
	other uint64
}

func newFixedIDs() *fixedIDs { return &fixedIDs{idMap: newIDMap(), other: 1000} }

func (f *fixedIDs) target(h githash.Hash) {
	if _, ok := f.ids[h.String()]; !ok {
		f.ids[h.String()] = f.other
		f.other++
	}
}

func genLogOp(r *rand.Rand, ids *fixedIDs, created []githash.Hash, numbered bool, garbage githash.Hash) *logOp {
	tgt := func() githash.Hash { h := randHash(r); ids.target(h); return h }
	switch k := r.Intn(10); {
	case k < 6 || len(created) == 0:
		return &logOp{Kind: "ref", Ref: c04Refs[r.Intn(len(c04Refs))], Target: tgt(), Numbered: numbered}
	case k < 9:
		cnt := 1 + r.Intn(3)
		ts := []githash.Hash{}
		for j := 0; j < cnt; j++ {
			switch r.Intn(12) {
			case 0: // unknown id: refused
				ts = append(ts, tgt())
			case 1: // a commit that is not an entry: refused
				if garbage != nil {
					ts = append(ts, garbage)
				} else {
					ts = append(ts, created[r.Intn(len(created))])
				}
			default:
				ts = append(ts, created[r.Intn(len(created))])
			}
		}
		msg := ""
		if r.Intn(3) == 0 {
			msg = "note " + fmt.Sprint(r.Intn(100))
		}
		return &logOp{Kind: "ann", Targets: ts, Skip: r.Intn(2) == 0, Msg: msg, Numbered: numbered}
	}
	if !numbered {
		return &logOp{Kind: "ref", Ref: c04Refs[r.Intn(len(c04Refs))], Target: tgt(), Numbered: false}
	}
	return &logOp{Kind: "prop", Ref: c04Refs[r.Intn(2)], Target: tgt(), UpRepo: c04Repos[r.Intn(2)], UpEntry: tgt(), Numbered: true}
}

func snapOf(m *memStore, ids *fixedIDs) (string, string, error) {
	tip, _ := m.GetReference(rsl.Ref)
	g, err := walkGraph(m, tip)
	if err != nil {
		return "", "", err
	}
	t := "None"
	if !tip.IsZero() {
		t = "(Some " + ids.coq(tip) + ")"
	}
	return fmt.Sprintf("(%s, %d)", t, len(g)), fmt.Sprintf("tip=%d commits=%d", ids.of(tip), len(g)), nil
}

func runC03(c *runCtx) error {
	c.coqImport = "C03Check"
	c.caseType = "c03case"
	c.checkFn = "c03_check"
	r := c.rng
	for ci := 0; ci < c.n; ci++ {
		m := newMemStore()
		ids := newFixedIDs()
		rsl.VerifResetCache()
		nOps := 1 + r.Intn(15)
		legacy := 0
		if r.Intn(3) == 0 {
			legacy = r.Intn(nOps)
		}
		ops, obs, snaps := []string{}, []string{}, []string{}
		hops := []string{}
		nFail := 0
		// commits that are not well-formed entries, for annotations to name (they must be refused): an ordinary
		// commit, and an entry text whose values cannot be decoded (right header and key order)
		var garbage githash.Hash
		if tree, err := m.EmptyTree(); err == nil {
			texts := []string{"just a commit\n", "RSL Reference Entry\n\nref: refs/heads/main\ntargetID: abc123\nnumber: 1",
				"RSL Reference Entry\n\nref: refs/heads/main\ntargetID: 0123456789012345678901234567890123456789\nnumber: 99999999999999999999",
				"RSL Annotation Entry\n\nentryID: zz\nskip: true\nnumber: 2"}
			if g, err := m.createCommit(tree, nil, texts[r.Intn(len(texts))], nil); err == nil {
				garbage = g
				ids.target(g)
				m.created = m.created[:len(m.created)-1] // not part of the log
			}
		}
		for k := 0; k < nOps; k++ {
			op := genLogOp(r, ids, m.created, k >= legacy, garbage)
			before := len(m.created)
			var err error
			func() {
				defer func() {
					if rec := recover(); rec != nil {
						err = fmt.Errorf("panic: %v", rec)
					}
				}()
				err = op.apply(m)
			}()
			for _, h := range m.created[before:] {
				ids.of(h) // number new commits in creation order
			}
			ops = append(ops, op.coq(ids.idMap))
			switch {
			case err != nil && strings.HasPrefix(err.Error(), "panic"):
				obs = append(obs, "OPanic")
			case err != nil:
				obs = append(obs, "OFail")
				nFail++
			default:
				tip, _ := m.GetReference(rsl.Ref)
				obs = append(obs, "(OOk "+ids.coq(tip)+")")
			}
			sn, hs, serr := snapOf(m, ids)
			if serr != nil {
				return serr
			}
			snaps = append(snaps, sn)
			hops = append(hops, fmt.Sprintf("%s => %v; %s", op.human(ids.idMap), err == nil, hs))
		}
		tip, _ := m.GetReference(rsl.Ref)
		g, err := walkGraph(m, tip)
		if err != nil {
			return err
		}
		tipTerm := "None"
		if !tip.IsZero() {
			tipTerm = "(Some " + ids.coq(tip) + ")"
		}
		term := fmt.Sprintf("(C03 %s %s %s %s %s)", coqList(ops), coqList(obs), coqList(snaps), coqStore(g, ids.idMap), tipTerm)
		cls := "numbered"
		if legacy > 0 {
			cls = "legacy-prefix"
		}
		if nFail > 0 {
			cls += "+refusals"
		}
		c.add(term, sideCase{Class: cls, Nontrivial: nOps >= 3 && (legacy > 0 || nFail > 0 || nOps >= 6), Key: keyOf(term),
			Human: map[string]interface{}{"ops": hops}})
	}
	// ---- APIs built on the recording operations, on logs over real commits ----
	for ci := 0; ci < 30+c.n/10; ci++ {
		m := newMemStore()
		ids := newFixedIDs()
		rsl.VerifResetCache()
		tree, _ := m.EmptyTree()
		tips := map[string]githash.Hash{}
		hops := []string{}
		push := func(ref string, rewrite bool) error {
			parents := []githash.Hash{}
			if cur, ok := tips[ref]; ok && !rewrite {
				parents = []githash.Hash{cur}
			}
			cid, err := m.createCommit(tree, parents, fmt.Sprintf("c %d", len(m.created)), nil)
			if err != nil {
				return err
			}
			ids.target(cid)
			tips[ref] = cid
			hops = append(hops, fmt.Sprintf("record %s (rewritten=%v)", ref, rewrite))
			return rsl.NewReferenceEntry(ref, cid).Commit(m, false)
		}
		n := 2 + r.Intn(6)
		for k := 0; k < n; k++ {
			if err := push(c04Refs[r.Intn(2)], k > 0 && r.Intn(3) == 0); err != nil {
				return err
			}
		}
		target := c04Refs[r.Intn(2)]
		if err := push(target, r.Intn(4) != 0); err != nil { // usually a rewrite of the target ref ...
			return err
		}
		for k := r.Intn(3); k > 0; k-- { // ... followed by entries for other refs
			if err := push(c04Refs[2], false); err != nil {
				return err
			}
		}
		tip0, _ := m.GetReference(rsl.Ref)
		g0, err := walkGraph(m, tip0)
		if err != nil {
			return err
		}
		before := coqStore(g0, ids.idMap)
		rsl.VerifResetCache()
		aerr := rsl.SkipAllInvalidReferenceEntriesForRef(m, target, false)
		rsl.VerifResetCache()
		// one more recording operation on top, so that numbering continues from whatever was written
		if err := push(c04Refs[2], false); err != nil {
			return err
		}
		tip1, _ := m.GetReference(rsl.Ref)
		g1, err := walkGraph(m, tip1)
		if err != nil {
			return err
		}
		term := fmt.Sprintf("(C03Api %s (Some %s) %s (Some %s) false)", before, ids.coq(tip0), coqStore(g1, ids.idMap), ids.coq(tip1))
		c.add(term, sideCase{Class: "api/skip-rewritten", Nontrivial: len(g1) > len(g0)+1, Key: keyOf(term),
			Human: map[string]interface{}{"ops": hops, "SkipAllInvalidReferenceEntriesForRef": fmt.Sprintf("%s => %v", target, aerr), "entries_before": len(g0), "entries_after": len(g1)}})
	}
	return nil
}
