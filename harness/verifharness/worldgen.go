//go:build verif

package main

import (
	"context"
	"fmt"
	"math/rand"
	"strings"

	"github.com/gittuf/gittuf/internal/policy"
)

func init() {
	props["C01"] = func(c *runCtx) error { return runWorldProp(c, "C01") }
	props["C07"] = func(c *runCtx) error { return runWorldProp(c, "C07") }
	props["C02"] = func(c *runCtx) error { return runWorldProp(c, "C02") }
	props["C11"] = func(c *runCtx) error { return runWorldProp(c, "C11") }
	props["C09"] = func(c *runCtx) error { return runWorldProp(c, "C09") }
}

const (
	refMain  = "refs/heads/main"
	refFeat  = "refs/heads/feature"
	refOther = "refs/heads/other"
)

// devs are persons 101..105 holding keys 4..8; admin keys are 1..3.
func devKey(pid int) int { return pid - 100 + 3 }

type genState struct {
	r       *rand.Rand
	w       *wWorld
	pol     *wPolicy          // last policy event's state
	tips    map[string]int    // ref -> current commit (per the log)
	invalid []int             // positions of pushes the generator believes violate policy
	refPos  map[string][]int  // positions of ref entries per ref
	profile string
}

func (g *genState) newCommit(parent int, reuseTree int) int {
	id := len(g.w.Commits) + 1
	tree := id
	if reuseTree > 0 {
		tree = reuseTree
	}
	ps := []int{}
	if parent > 0 {
		ps = []int{parent}
	}
	g.w.Commits = append(g.w.Commits, wCommit{ID: id, Tree: tree, Parents: ps})
	return id
}

func (g *genState) treeOf(c int) int { return g.w.Commits[c-1].Tree }

func clonePolicy(p *wPolicy) *wPolicy {
	q := *p
	q.RootKeys = append([]int{}, p.RootKeys...)
	q.TargetsKeys = append([]int{}, p.TargetsKeys...)
	q.RootSigners = append([]int{}, p.RootSigners...)
	q.Globals = append([]wGlobal{}, p.Globals...)
	q.Controllers = nil
	for _, ct := range p.Controllers {
		q.Controllers = append(q.Controllers, wController{Name: ct.Name, Globals: append([]wGlobal{}, ct.Globals...)})
	}
	q.Files = nil
	for _, f := range p.Files {
		nf := &wFile{Version: f.Version, Signers: append([]int{}, f.Signers...)}
		nf.Name = f.Name
		nf.Defs = map[int][]int{}
		for k, v := range f.Defs {
			nf.Defs[k] = append([]int{}, v...)
		}
		for _, r := range f.Rules {
			nr := r
			nr.Patterns = append([]string{}, r.Patterns...)
			nr.Pids = append([]int{}, r.Pids...)
			nf.Rules = append(nf.Rules, nr)
		}
		q.Files = append(q.Files, nf)
	}
	return &q
}

func basePolicy(r *rand.Rand, profile string) *wPolicy {
	p := &wPolicy{RootVersion: 1, RootKeys: []int{1}, RootThr: 1, TargetsKeys: []int{2}, TargetsThr: 1, HasTargetsRole: true, RootSigners: []int{1}}
	if r.Intn(3) == 0 {
		p.RootKeys, p.RootThr, p.RootSigners = []int{1, 3}, 1+r.Intn(2), []int{1, 3}
	}
	t := &wFile{Version: 1, Signers: []int{2}}
	t.Name = "targets"
	t.Defs = map[int][]int{}
	nd := 2 + r.Intn(3)
	devs := []int{}
	for i := 0; i < nd; i++ {
		t.Defs[101+i] = []int{devKey(101 + i)}
		devs = append(devs, 101+i)
	}
	pick := func(n int) []int {
		perm := r.Perm(len(devs))
		out := []int{}
		for _, i := range perm[:n] {
			out = append(out, devs[i])
		}
		return out
	}
	nmain := 1 + r.Intn(len(devs))
	thr := 1
	if nmain >= 2 && r.Intn(2) == 0 {
		thr = 2
	}
	if nmain >= 3 && r.Intn(4) == 0 {
		thr = 3
	}
	t.Rules = append(t.Rules, hRule{Name: "protect-main", Patterns: []string{"git:" + refMain}, Pids: pick(nmain), Thr: thr, Term: r.Intn(4) == 0})
	if r.Intn(2) == 0 {
		t.Rules = append(t.Rules, hRule{Name: "protect-feat", Patterns: []string{"git:refs/heads/feat*"}, Pids: pick(1 + r.Intn(len(devs))), Thr: 1})
	}
	if r.Intn(4) == 0 {
		t.Rules = append(t.Rules, hRule{Name: "all-heads", Patterns: []string{"git:refs/heads/*"}, Pids: pick(1), Thr: 1})
	}
	p.Files = []*wFile{t}
	if r.Intn(4) == 0 || (profile == "C02" && r.Intn(2) == 0) { // one delegated file under protect-main
		d := &wFile{Version: 1}
		d.Name = "protect-main"
		d.Defs = map[int][]int{}
		dp := 110
		d.Defs[dp] = []int{3 + len(devs) + 1}
		if 3+len(devs)+1 > 8 {
			d.Defs[dp] = []int{8}
		}
		d.Rules = []hRule{{Name: "sub-main", Patterns: []string{"git:" + refMain}, Pids: []int{dp}, Thr: 1}}
		// signed by enough principals of the delegating rule
		for _, pid := range t.Rules[0].Pids[:t.Rules[0].Thr] {
			d.Signers = append(d.Signers, devKey(pid))
		}
		p.Files = append(p.Files, d)
	}
	if profile == "C11" || r.Intn(5) == 0 {
		addGlobals(r, p)
	}
	return p
}

func genGlobals(r *rand.Rand, n int, prefix string) []wGlobal {
	out := []wGlobal{}
	for i := 0; i < n; i++ {
		pats := [][]string{{"git:" + refMain}, {"git:refs/heads/*"}, {"git:refs/tags/*"}, {"git:refs/heads/nomatch"}, {"git:*"}}[r.Intn(5)]
		if r.Intn(2) == 0 {
			out = append(out, wGlobal{Kind: "threshold", Name: fmt.Sprintf("%sg-thr-%d", prefix, i), Pats: pats, K: 1 + r.Intn(3)})
		} else {
			out = append(out, wGlobal{Kind: "blockforce", Name: fmt.Sprintf("%sg-bfp-%d", prefix, i), Pats: pats})
		}
	}
	return out
}

// addGlobals declares global rules: the repository's own and/or ones inherited through the copies of
// controller repositories' metadata in the policy tree.
func addGlobals(r *rand.Rand, p *wPolicy) {
	where := r.Intn(4) // 0,1: own; 2: own and inherited; 3: inherited only
	if where <= 2 {
		p.Globals = append(p.Globals, genGlobals(r, 1+r.Intn(2), "")...)
	}
	if where >= 2 {
		p.Controllers = nil
		for ci := 0; ci < 1+r.Intn(2); ci++ {
			name := fmt.Sprintf("ctl%d-aHR0cHM6Ly9leGFtcGxlLmNvbS9j", ci)
			p.Controllers = append(p.Controllers, wController{Name: name, Globals: genGlobals(r, r.Intn(3), fmt.Sprintf("c%d-", ci))})
		}
	}
}

// mutatePolicy returns a successor state: valid evolution or one of the forbidden ones.
func mutatePolicy(r *rand.Rand, cur *wPolicy, allowBad bool) (*wPolicy, string) {
	p := clonePolicy(cur)
	p.RootSigsLiftedFrom = nil
	if len(p.Files) == 0 {
		return p, "noop"
	}
	t := p.Files[0]
	kinds := []string{"bump-rule", "rotate-root", "raise-thr", "add-global", "drop-global", "noop"}
	if allowBad {
		kinds = append(kinds, "BAD-root-unsigned", "BAD-root-wrong-key", "BAD-targets-wrong-key", "BAD-root-rollback", "BAD-targets-rollback",
			"BAD-drop-delegated", "BAD-dangling", "BAD-delegated-wrong-key", "BAD-newroot-selfsigned", "BAD-replace-delegated", "BAD-root-lifted-sigs", "BAD-delegated-shadow-principal")
	}
	if allowBad && len(p.Files) > 1 { // with a delegated rule file present, its forbidden evolutions are tried more often
		kinds = append(kinds, "BAD-drop-delegated", "BAD-delegated-wrong-key", "BAD-replace-delegated", "BAD-delegated-shadow-principal", "BAD-delegated-shadow-principal")
	}
	k := kinds[r.Intn(len(kinds))]
	switch k {
	case "bump-rule":
		t.Version++
		rl := &t.Rules[0]
		devs := []int{}
		for d := range t.Defs {
			devs = append(devs, d)
		}
		perm := r.Perm(len(devs))
		n := 1 + r.Intn(len(devs))
		rl.Pids = nil
		for _, i := range perm[:n] {
			rl.Pids = append(rl.Pids, devs[i])
		}
		if rl.Thr > n {
			rl.Thr = n
		}
		// a delegated file under this rule keeps its old signatures: re-sign it by the new principals
		for _, f := range p.Files[1:] {
			if f.Name == rl.Name {
				f.Signers = nil
				for _, pid := range rl.Pids[:rl.Thr] {
					f.Signers = append(f.Signers, devKey(pid))
				}
			}
		}
	case "rotate-root":
		p.RootVersion++
		old := append([]int{}, p.RootKeys...)
		p.RootKeys = [][]int{{1}, {3}, {1, 3}}[r.Intn(3)]
		p.RootThr = 1 + r.Intn(len(p.RootKeys))
		p.RootSigners = append(append([]int{}, old...), p.RootKeys...)
	case "raise-thr":
		t.Version++
		if len(t.Rules[0].Pids) > t.Rules[0].Thr {
			t.Rules[0].Thr++
		}
	case "add-global":
		p.RootVersion++
		addGlobals(r, p)
	case "drop-global":
		p.RootVersion++
		p.Globals = nil
		p.Controllers = nil
	case "BAD-root-unsigned":
		p.RootVersion++
		p.RootSigners = nil
	case "BAD-root-wrong-key":
		p.RootVersion++
		p.RootSigners = []int{2}
	case "BAD-newroot-selfsigned":
		p.RootVersion++
		p.RootKeys, p.RootThr, p.RootSigners = []int{2}, 1, []int{2}
	case "BAD-targets-wrong-key":
		t.Version++
		t.Signers = []int{devKey(101)}
	case "BAD-root-rollback":
		if p.RootVersion > 1 {
			p.RootVersion--
		} else {
			p.RootVersion = 0
		}
	case "BAD-targets-rollback":
		if t.Version > 0 {
			t.Version--
		}
	case "BAD-drop-delegated":
		if len(p.Files) > 1 {
			p.Files = p.Files[:1]
		} else {
			p.Files = nil // drop the primary rule file
		}
	case "BAD-replace-delegated": // a delegated rule file disappears while another one appears
		if len(p.Files) > 1 {
			old := p.Files[1]
			t.Version++
			nm := "moved-" + old.Name
			rl := t.Rules[0]
			t.Rules = append(t.Rules, hRule{Name: nm, Patterns: []string{"git:refs/heads/moved"}, Pids: rl.Pids, Thr: rl.Thr})
			d := &wFile{Version: 1}
			d.Name = nm
			d.Defs = map[int][]int{121: {8}}
			d.Rules = []hRule{{Name: "sub-" + nm, Patterns: []string{"git:refs/heads/moved"}, Pids: []int{121}, Thr: 1}}
			for _, pid := range rl.Pids[:rl.Thr] {
				d.Signers = append(d.Signers, devKey(pid))
			}
			p.Files = []*wFile{t, d}
		} else {
			t.Version++
		}
	case "BAD-delegated-shadow-principal": // a delegated file re-declares the principal its delegating rule names, with an intruder's key, and is signed by it
		if len(p.Files) > 1 {
			d := p.Files[1]
			d.Version++
			for _, rl := range t.Rules {
				if rl.Name == d.Name {
					for _, pid := range rl.Pids {
						d.Defs[pid] = []int{8}
					}
				}
			}
			d.Signers = []int{8}
		} else {
			t.Version++
		}
	case "BAD-root-lifted-sigs": // a root naming an intruder's key, carrying the previous root's signature block
		p.RootVersion++
		p.RootKeys, p.RootThr, p.RootSigners = []int{2}, 1, []int{2} // later states are signed by the intruder
		p.RootSigsLiftedFrom = cur
	case "BAD-dangling":
		d := &wFile{Version: 1, Signers: []int{devKey(101)}}
		d.Name = "nobody-delegates-here"
		d.Defs = map[int][]int{120: {8}}
		p.Files = append(p.Files, d)
	case "BAD-delegated-wrong-key":
		if len(p.Files) > 1 {
			p.Files[1].Version++
			p.Files[1].Signers = []int{1}
		} else {
			t.Signers = nil
		}
	}
	return p, k
}

func (g *genState) authorizedKeysFor(ref string) (keys []int, thr int) {
	if g.pol == nil || len(g.pol.Files) == 0 {
		return nil, 0
	}
	for _, rl := range g.pol.Files[0].Rules {
		for _, pat := range rl.Patterns {
			if pat == "git:"+ref || (strings.HasSuffix(pat, "*") && strings.HasPrefix("git:"+ref, strings.TrimSuffix(pat, "*"))) {
				for _, pid := range rl.Pids {
					keys = append(keys, devKey(pid))
				}
				return keys, rl.Thr
			}
		}
	}
	return nil, 0
}

func (g *genState) addEvent(e wEvent) int {
	g.w.Events = append(g.w.Events, e)
	return len(g.w.Events) - 1
}

func (g *genState) push(ref string, commit int, signer int, believedInvalid bool) {
	pos := g.addEvent(wEvent{Kind: "ref", Ref: ref, Commit: commit, Signer: signer})
	g.tips[ref] = commit
	g.refPos[ref] = append(g.refPos[ref], pos)
	if believedInvalid {
		g.invalid = append(g.invalid, pos)
	}
}

// genIncidentWorld builds a history on main out of episodes: good pushes, policy changes that move
// the authority over main between two principals, and incidents (one or two invalid pushes, notes
// and skip annotations in either order, possibly a policy or attestation entry inside the window,
// then a "fix" whose tree is the last good one, an older good one or a new one, itself possibly
// annotated and revoked afterwards).
func genIncidentWorld(r *rand.Rand) *wWorld {
	g := &genState{r: r, w: &wWorld{}, tips: map[string]int{}, refPos: map[string][]int{}}
	g.newCommit(0, 0)
	auth := 101
	mk := func(version int, pid int) *wPolicy {
		t := &wFile{Version: version, Signers: []int{2}}
		t.Name = "targets"
		t.Defs = map[int][]int{101: {4}, 102: {5}, 103: {6}}
		t.Rules = []hRule{{Name: "protect-main", Patterns: []string{"git:" + refMain}, Pids: []int{pid}, Thr: 1}}
		return &wPolicy{RootVersion: 1, RootKeys: []int{1}, RootThr: 1, TargetsKeys: []int{2}, TargetsThr: 1, HasTargetsRole: true, RootSigners: []int{1}, Files: []*wFile{t}}
	}
	version := 1
	g.addEvent(wEvent{Kind: "policy", Pol: mk(version, auth), Signer: 1})
	switchAuth := func() {
		version++
		auth = 101 + (auth-100)%2
		g.addEvent(wEvent{Kind: "policy", Pol: mk(version, auth), Signer: 1})
	}
	goodTrees := []int{}
	goodCommits := []int{}
	good := func(signerPid int) {
		parent := g.tips[refMain]
		if parent == 0 {
			parent = 1
		}
		c := g.newCommit(parent, 0)
		g.push(refMain, c, devKey(signerPid), false)
		if signerPid == auth {
			goodTrees = append(goodTrees, g.treeOf(c))
			goodCommits = append(goodCommits, c)
		}
	}
	annotate := func(pos int, both bool, noteFirst bool) {
		if both && noteFirst {
			g.addEvent(wEvent{Kind: "ann", Targets: []int{pos}, Skip: false, Signer: 1})
		}
		g.addEvent(wEvent{Kind: "ann", Targets: []int{pos}, Skip: true, Signer: 1})
		if both && !noteFirst {
			g.addEvent(wEvent{Kind: "ann", Targets: []int{pos}, Skip: false, Signer: 1})
		}
	}
	good(auth)
	for ep := 0; ep < 1+r.Intn(3); ep++ {
		switch x := r.Intn(6); {
		case x == 0:
			good(auth)
		case x == 1:
			old := auth
			switchAuth()
			if r.Intn(3) == 0 { // somebody marks the policy entry itself as skipped: that must change nothing
				g.addEvent(wEvent{Kind: "ann", Targets: []int{len(g.w.Events) - 1}, Skip: true, Signer: 1})
			}
			if r.Intn(2) == 0 {
				good(old) // the de-authorised principal pushes again
			} else {
				good(auth)
			}
		default: // incident
			bad := []int{}
			for k := 0; k < 1+r.Intn(3); k++ {
				c := g.newCommit(g.tips[refMain], 0)
				g.push(refMain, c, []int{8, 6, 0}[r.Intn(3)], true)
				bad = append(bad, len(g.w.Events)-1)
			}
			for i, pos := range bad {
				_ = i
				if r.Intn(4) != 0 { // sometimes an invalid entry stays unrevoked
					annotate(pos, r.Intn(3) == 0, r.Intn(2) == 0)
				}
			}
			preAuth := auth
			switch r.Intn(5) {
			case 0:
				switchAuth()
			case 1:
				g.addEvent(wEvent{Kind: "attest", Auths: nil, Signer: 4})
			}
			if len(goodTrees) > 0 && r.Intn(8) != 0 {
				tree := goodTrees[len(goodTrees)-1]
				switch r.Intn(5) {
				case 0:
					tree = goodTrees[r.Intn(len(goodTrees))] // maybe an older good state
				case 1:
					tree = 0 // not a fix at all
				}
				c := g.newCommit(g.tips[refMain], tree)
				if tree == goodTrees[len(goodTrees)-1] && r.Intn(3) == 0 {
					c = goodCommits[len(goodCommits)-1] // the reference is reset to the very commit of the last good state
				}
				signer := devKey(auth)
				if r.Intn(4) == 0 {
					signer = 8
				}
				g.push(refMain, c, signer, false)
				if r.Intn(3) == 0 { // the fix itself is noted and revoked, then repaired again or not
					annotate(len(g.w.Events)-1, true, r.Intn(2) == 0)
					if r.Intn(2) == 0 {
						c2 := g.newCommit(g.tips[refMain], goodTrees[len(goodTrees)-1])
						g.push(refMain, c2, devKey(auth), false)
					}
				}
			}
			if r.Intn(2) == 0 {
				good([]int{auth, preAuth}[r.Intn(2)])
			}
		}
	}
	if r.Intn(2) == 0 {
		good(auth)
	}
	return g.w
}

func genWorld(r *rand.Rand, profile string) *wWorld {
	if (profile == "C01" || profile == "C07" || profile == "C08" || profile == "C02") && r.Intn(4) == 0 {
		return genIncidentWorld(r)
	}
	g := &genState{r: r, w: &wWorld{}, tips: map[string]int{}, refPos: map[string][]int{}, profile: profile}
	g.newCommit(0, 0)
	// sometimes history starts before any policy exists
	if r.Intn(8) == 0 {
		g.push(refMain, 1, 4, false)
	}
	if r.Intn(10) == 0 {
		g.addEvent(wEvent{Kind: "staging", Signer: 1})
	}
	g.pol = basePolicy(r, profile)
	g.addEvent(wEvent{Kind: "policy", Pol: g.pol, Signer: 1})
	n := 4 + r.Intn(18)
	refs := []string{refMain, refMain, refMain, refFeat, refOther}
	lastGood := map[string]int{} // ref -> commit of the last push believed valid
	for k := 0; k < n; k++ {
		x := r.Intn(100)
		switch {
		case x < 45: // push
			ref := refs[r.Intn(len(refs))]
			parent := g.tips[ref]
			if parent == 0 {
				parent = 1
			}
			if r.Intn(8) == 0 { // force push: branch off an older commit
				parent = 1 + r.Intn(len(g.w.Commits))
			}
			reuse := 0
			if r.Intn(10) == 0 {
				reuse = g.treeOf(1 + r.Intn(len(g.w.Commits)))
			}
			c := g.newCommit(parent, reuse)
			keys, thr := g.authorizedKeysFor(ref)
			signer := 0
			invalid := false
			switch y := r.Intn(10); {
			case len(keys) == 0:
				signer = []int{0, 4, 5, 1}[r.Intn(4)]
			case y < 6:
				signer = keys[r.Intn(len(keys))]
				invalid = thr > 1
			case y < 8:
				signer = 4 + r.Intn(5) // some developer key, maybe not authorized
				invalid = true
				for _, kk := range keys {
					if kk == signer && thr <= 1 {
						invalid = false
					}
				}
			case y < 9:
				signer = 1 + r.Intn(3) // an admin key: not a rule principal
				invalid = true
			default:
				signer = 0
				invalid = true
			}
			g.push(ref, c, signer, invalid)
			if !invalid {
				lastGood[ref] = c
			}
		case x < 57: // approvals then push
			ref := refMain
			keys, _ := g.authorizedKeysFor(ref)
			if len(keys) == 0 {
				continue
			}
			parent := g.tips[ref]
			if parent == 0 {
				parent = 1
			}
			c := g.newCommit(parent, 0)
			ns := r.Intn(len(keys) + 1)
			perm := r.Perm(len(keys))
			signers := []int{}
			for _, i := range perm[:ns] {
				signers = append(signers, keys[i])
			}
			if r.Intn(5) == 0 {
				signers = append(signers, 1+r.Intn(8)) // maybe a foreign key
			}
			a := wAuthz{Ref: ref, From: g.tips[ref], To: g.treeOf(c), PathRef: ref, PathFrom: g.tips[ref], PathTo: g.treeOf(c), Signers: signers}
			if g.profile == "C09" || r.Intn(6) == 0 {
				switch r.Intn(7) {
				case 0: // statement for another change stored at this change's path
					other := g.newCommit(parent, 0)
					a.To = g.treeOf(other)
				case 1:
					a.Ref = refFeat
				case 2:
					a.From = 1
				case 3: // stored elsewhere: not found for this change
					a.PathRef = refFeat
				case 4: // a statement for creating the branch (from nothing), stored at this change's path
					a.From = 0
				}
			}
			// keep earlier authorizations of the current attestation state
			auths := []wAuthz{a}
			for i := len(g.w.Events) - 1; i >= 0; i-- {
				if g.w.Events[i].Kind == "attest" {
					auths = append(auths, g.w.Events[i].Auths...)
					break
				}
			}
			g.addEvent(wEvent{Kind: "attest", Auths: auths, Signer: keys[0]})
			signer := keys[r.Intn(len(keys))]
			if r.Intn(6) == 0 {
				signer = 1
			}
			g.push(ref, c, signer, true) // validity depends on the approvals; treated as candidate for skipping
		case x < 69: // policy update
			np, kind := mutatePolicy(r, g.pol, g.profile == "C02" || r.Intn(3) == 0)
			g.pol = np
			g.addEvent(wEvent{Kind: "policy", Pol: np, Signer: 1})
			if strings.HasPrefix(kind, "BAD") && r.Intn(2) == 0 { // a forbidden state is usually followed by further, well-formed ones
				np2, _ := mutatePolicy(r, g.pol, false)
				g.pol = np2
				g.addEvent(wEvent{Kind: "policy", Pol: np2, Signer: 1})
			}
		case x < 82: // annotation
			if len(g.w.Events) < 2 {
				continue
			}
			ts := []int{}
			if len(g.invalid) > 0 && r.Intn(4) != 0 {
				ts = append(ts, g.invalid[r.Intn(len(g.invalid))])
				if r.Intn(3) == 0 && len(g.invalid) > 1 {
					ts = append(ts, g.invalid[r.Intn(len(g.invalid))])
				}
			} else {
				ts = append(ts, r.Intn(len(g.w.Events)))
			}
			g.addEvent(wEvent{Kind: "ann", Targets: dedupInts(ts), Skip: r.Intn(5) != 0, Signer: 1})
		case x < 92: // fix push: tree-same as the last good state of a ref
			ref := refMain
			if lg, ok := lastGood[ref]; ok {
				c := g.newCommit(g.tips[ref], g.treeOf(lg))
				keys, _ := g.authorizedKeysFor(ref)
				signer := 1 + r.Intn(8)
				if len(keys) > 0 && r.Intn(2) == 0 {
					signer = keys[0]
				}
				g.push(ref, c, signer, false)
			}
		case x < 96:
			g.addEvent(wEvent{Kind: "staging", Signer: 1})
		default:
			ref := []string{refMain, refFeat}[r.Intn(2)]
			c := g.newCommit(g.tips[ref], 0)
			g.addEvent(wEvent{Kind: "prop", Ref: ref, Commit: c, Signer: 0})
			g.tips[ref] = c
			g.refPos[ref] = append(g.refPos[ref], len(g.w.Events)-1)
		}
	}
	return g.w
}

func dedupInts(xs []int) []int {
	seen := map[int]bool{}
	out := []int{}
	for _, x := range xs {
		if !seen[x] {
			out = append(out, x)
		}
		seen[x] = true
	}
	return out
}

// runWorldProp generates worlds, runs the three verification modes on the implementation and emits
// one case per (world, ref, mode).
func runWorldProp(c *runCtx, prop string) error {
	c.coqImport = "WorldCheck"
	c.caseType = "wcase"
	c.checkFn = "wcase_check"
	c.consts = append(c.consts,
		fmt.Sprintf("beq PolicyRefB %s", coqStr(policy.PolicyRef)), fmt.Sprintf("beq StagingRefB %s", coqStr(policy.PolicyStagingRef)),
		fmt.Sprintf("beq AttestRefB %s", coqStr("refs/gittuf/attestations")), fmt.Sprintf("beq TargetsRole %s", coqStr(policy.TargetsRoleName)))
	r := c.rng
	wi := 0
	directed := directedWorlds(prop)
	for len(c.cases) < c.n {
		if prop == "C01" && wi >= len(directed) && r.Intn(5) == 0 { // a fifth of the C01 cases: tag references
			if err := genTagCase(c, r, wi); err != nil {
				return err
			}
			wi++
			continue
		}
		if prop == "C11" && wi >= len(directed) && r.Intn(6) == 0 { // a sixth of the C11 cases: tag references, with and without global rules
			if err := genTagCaseG(c, r, wi, true); err != nil {
				return err
			}
			wi++
			continue
		}
		if prop == "C11" && wi >= len(directed) && r.Intn(8) == 0 { // an eighth of the C11 cases: file rules, with and without global rules
			if err := c11FilesMono(c, r, wi); err != nil {
				return err
			}
			wi++
			continue
		}
		if prop == "C09" && wi >= len(directed) && r.Intn(3) == 0 { // a third of the C09 cases: code-review approvals
			if err := genReviewCase(c, r, wi); err != nil {
				return err
			}
			wi++
			continue
		}
		w := genWorld(r, prop)
		finding := 0
		if wi < len(directed) {
			w, finding = directed[wi].w, directed[wi].finding
		}
		b, err := buildWorld(w)
		if err != nil {
			return fmt.Errorf("building world: %w", err)
		}
		def := fmt.Sprintf("w%d", wi)
		wi++
		c.defs = append(c.defs, fmt.Sprintf("Definition %s : world := %s.", def, w.coq()))
		hw := w.human()
		nPol, nBadish := 0, 0
		for _, e := range w.Events {
			if e.Kind == "policy" {
				nPol++
			}
		}
		type q struct {
			ref  string
			mode string
			from int
		}
		qs := []q{{refMain, "full", 0}, {refMain, "latest", 0}, {refFeat, "full", 0}}
		// from-entry: a random earlier reference entry
		cand := []int{}
		for i, e := range w.Events {
			if e.Kind == "ref" || e.Kind == "policy" || e.Kind == "attest" {
				cand = append(cand, i)
			}
		}
		if len(cand) > 0 {
			qs = append(qs, q{refMain, "from", cand[r.Intn(len(cand))]})
		}
		for _, qq := range qs {
			if len(c.cases) >= c.n {
				break
			}
			v := policy.NewPolicyVerifier(b.m)
			var obs, oh string
			func() {
				defer func() {
					if rec := recover(); rec != nil {
						obs, oh = "VPanic", fmt.Sprint("panic: ", rec)
					}
				}()
				switch qq.mode {
				case "full":
					tip, err := v.VerifyRefFull(context.Background(), qq.ref)
					obs, oh = b.voutOf(tip, err)
				case "latest":
					tip, err := v.VerifyRef(context.Background(), qq.ref)
					obs, oh = b.voutOf(tip, err)
				default:
					tip, err := v.VerifyRefFromEntry(context.Background(), qq.ref, b.entryIDs[qq.from])
					obs, oh = b.voutOf(tip, err)
				}
			}()
			mode := map[string]string{"full": "MFull", "latest": "MLatest"}[qq.mode]
			if qq.mode == "from" {
				mode = fmt.Sprintf("(MFrom %d)", qq.from)
			}
			if strings.HasPrefix(obs, "(VFail") {
				nBadish++
			}
			term := fmt.Sprintf("(WCase %s %s %s %s)", def, coqStr(qq.ref), mode, obs)
			if finding != 0 && qq.mode == "full" && qq.ref == refMain {
				term = fmt.Sprintf("(WFindingCase %d %s %s %s %s)", finding, def, coqStr(qq.ref), mode, obs)
			}
			if prop == "C11" && qq.mode != "from" {
				// the same history under the policy without its global rules
				w2 := stripGlobals(w)
				b2, err := buildWorld(w2)
				if err != nil {
					return err
				}
				v2 := policy.NewPolicyVerifier(b2.m)
				var obs2 string
				func() {
					defer func() {
						if rec := recover(); rec != nil {
							obs2 = "VPanic"
						}
					}()
					if qq.mode == "full" {
						tip, err := v2.VerifyRefFull(context.Background(), qq.ref)
						obs2, _ = b2.voutOf(tip, err)
					} else {
						tip, err := v2.VerifyRef(context.Background(), qq.ref)
						obs2, _ = b2.voutOf(tip, err)
					}
				}()
				if ngDef := fmt.Sprintf("Definition %s_ng : world := %s.", def, w2.coq()); len(c.defs) == 0 || c.defs[len(c.defs)-1] != ngDef {
					c.defs = append(c.defs, ngDef)
				}
				term = fmt.Sprintf("(WCaseMono %s %s_ng %s %s %s %s)", def, def, coqStr(qq.ref), mode, obs, obs2)
			}
			c.add(term, sideCase{Class: prop + "/" + qq.mode + "/" + strings.Split(strings.Trim(obs, "()"), " ")[0], Nontrivial: nPol >= 2 || nBadish > 0,
				Key: keyOf(fmt.Sprint(hw) + term), Human: map[string]interface{}{"world": hw, "ref": qq.ref, "mode": qq.mode, "from": qq.from, "observed": oh}})
		}
	}
	return nil
}

type directedWorld struct {
	w       *wWorld
	finding int
}

func simplePolicy() *wPolicy {
	t := &wFile{Version: 1, Signers: []int{2}}
	t.Name = "targets"
	t.Defs = map[int][]int{101: {4}, 102: {5}}
	t.Rules = []hRule{{Name: "protect-main", Patterns: []string{"git:" + refMain}, Pids: []int{101}, Thr: 1}}
	return &wPolicy{RootVersion: 1, RootKeys: []int{1}, RootThr: 1, TargetsKeys: []int{2}, TargetsThr: 1, HasTargetsRole: true, RootSigners: []int{1}, Files: []*wFile{t}}
}

// directedWorlds replays the listed findings of the verifier family on every run.
func directedWorlds(prop string) []directedWorld {
	out := []directedWorld{}
	if prop == "C01" {
		// K1: a propagation entry on a protected branch is skipped unverified and its target becomes the tip
		out = append(out, directedWorld{finding: 1, w: &wWorld{
			Commits: []wCommit{{ID: 1, Tree: 1, Parents: nil}, {ID: 2, Tree: 2, Parents: []int{1}}, {ID: 3, Tree: 3, Parents: []int{2}}},
			Events: []wEvent{{Kind: "policy", Pol: simplePolicy(), Signer: 1}, {Kind: "ref", Ref: refMain, Commit: 2, Signer: 4},
				{Kind: "prop", Ref: refMain, Commit: 3}}}})
	}
	if prop == "C01" || prop == "C07" {
		// K5: the fix entry of a recovery is never checked against policy
		out = append(out, directedWorld{finding: 5, w: &wWorld{
			Commits: []wCommit{{ID: 1, Tree: 1, Parents: nil}, {ID: 2, Tree: 2, Parents: []int{1}}, {ID: 3, Tree: 3, Parents: []int{2}}, {ID: 4, Tree: 2, Parents: []int{3}}},
			Events: []wEvent{{Kind: "policy", Pol: simplePolicy(), Signer: 1}, {Kind: "ref", Ref: refMain, Commit: 2, Signer: 4},
				{Kind: "ref", Ref: refMain, Commit: 3, Signer: 8}, {Kind: "ann", Targets: []int{2}, Skip: true, Signer: 1},
				{Kind: "ref", Ref: refMain, Commit: 4, Signer: 8}}}})
	}
	return out
}

func stripGlobals(w *wWorld) *wWorld {
	w2 := &wWorld{Commits: w.Commits}
	for _, e := range w.Events {
		e2 := e
		if e.Pol != nil {
			e2.Pol = clonePolicy(e.Pol)
			e2.Pol.Globals = nil
			e2.Pol.Controllers = nil
		}
		w2.Events = append(w2.Events, e2)
	}
	return w2
}
