//go:build verif

package main

import (
	"bytes"
	"crypto/sha1"
	"encoding/hex"
	"encoding/pem"
	"errors"
	"fmt"
	"math/rand"
	"strconv"
	"strings"

	"github.com/gittuf/gittuf/pkg/githash"
	"github.com/gittuf/gittuf/pkg/rsl"
)

func init() { props["C14"] = runC14 }

// ---- Coq printing of entries ------------------------------------------------------------

func coqEntry(e rsl.Entry) string {
	switch v := e.(type) {
	case *rsl.ReferenceEntry:
		return fmt.Sprintf("(ERef %s %s %s)", coqStr(v.RefName), coqBytes(v.TargetID), coqN(v.Number))
	case *rsl.AnnotationEntry:
		ids := []string{}
		for _, id := range v.RSLEntryIDs {
			ids = append(ids, coqBytes(id))
		}
		return fmt.Sprintf("(EAnn %s %s %s %s)", coqList(ids), coqBool(v.Skip), coqStr(v.Message), coqN(v.Number))
	case *rsl.PropagationEntry:
		return fmt.Sprintf("(EProp %s %s %s %s %s)", coqStr(v.RefName), coqBytes(v.TargetID), coqStr(v.UpstreamRepository), coqBytes(v.UpstreamEntryID), coqN(v.Number))
	}
	return "(ERef [] [] 0%N)"
}

func humanEntry(e rsl.Entry) string {
	switch v := e.(type) {
	case *rsl.ReferenceEntry:
		return fmt.Sprintf("ref{%q %x #%d}", v.RefName, []byte(v.TargetID), v.Number)
	case *rsl.AnnotationEntry:
		return fmt.Sprintf("ann{%d ids skip=%v msg=%q #%d}", len(v.RSLEntryIDs), v.Skip, v.Message, v.Number)
	case *rsl.PropagationEntry:
		return fmt.Sprintf("prop{%q %x %q %x #%d}", v.RefName, []byte(v.TargetID), v.UpstreamRepository, []byte(v.UpstreamEntryID), v.Number)
	}
	return "?"
}

func errEnum(err error) string {
	var ne *strconv.NumError
	switch {
	case errors.Is(err, rsl.ErrInvalidRSLEntry):
		return "EInvalid"
	case errors.Is(err, githash.ErrInvalidHashLength):
		return "EHashLen"
	case errors.Is(err, githash.ErrInvalidHashEncoding):
		return "EHashEnc"
	case errors.As(err, &ne):
		return "ENumber"
	}
	return "EOther"
}

// goParse runs ParseEntryText under recover and renders the result as a Coq [gores].
func goParse(text string) (term string, entry rsl.Entry, human string) {
	defer func() {
		if r := recover(); r != nil {
			term, entry, human = "GPanic", nil, fmt.Sprintf("panic: %v", r)
		}
	}()
	e, err := rsl.ParseEntryText(githash.ZeroHash, text)
	if err != nil {
		en := errEnum(err)
		if en == "EOther" {
			return "GOther", nil, "error(other): " + err.Error()
		}
		return "(GRes (Err " + en + "))", nil, "error: " + en
	}
	return "(GRes (Ok " + coqEntry(e) + "))", e, humanEntry(e)
}

func pemOracle(text string) string {
	blk, _ := pem.Decode([]byte(text))
	if blk == nil {
		return "None"
	}
	return "(Some " + coqBytes(blk.Bytes) + ")"
}

// ---- generators ---------------------------------------------------------------------------

var unicodeSpaces = []string{"\u0085", "\u00a0", "\u1680", "\u2000", "\u2003", "\u200a", "\u2028", "\u2029", "\u202f", "\u205f", "\u3000"}
var asciiSpaces = []string{" ", "\t", "\r", "\v", "\f"}

func pick(r *rand.Rand, xs []string) string { return xs[r.Intn(len(xs))] }

func genRefName(r *rand.Rand) (string, bool) {
	base := []string{"refs/heads/main", "refs/heads/feature", "refs/tags/v1", "refs/gittuf/policy", "refs/gittuf/policy-staging",
		"refs/heads/a:b", "refs/heads/with space", "refs/heads/é", "refs/heads/x\u00a0y", "r", "", "refs/heads/ref: x", "number: 3", "refs/heads/-----BEGIN MESSAGE-----",
		"refs/heads/\xff\xfe", "refs/heads/tab\there", "\xe2\x80", "a\xe2\x80\x80b"}
	s := pick(r, base)
	adv := s != "refs/heads/main" && s != "refs/heads/feature" && s != "refs/tags/v1"
	switch r.Intn(12) {
	case 0:
		s = pick(r, asciiSpaces) + s // not trim-stable
		adv = true
	case 1:
		s = s + pick(r, unicodeSpaces)
		adv = true
	case 2:
		s = s + "\n" + "targetID: " + strings.Repeat("0", 40)
		adv = true
	case 3:
		b := make([]byte, 1+r.Intn(6))
		r.Read(b)
		s = s + string(b)
		adv = true
	}
	return s, adv
}

func genHash(r *rand.Rand) (githash.Hash, bool) {
	n := 20
	adv := false
	switch r.Intn(10) {
	case 0:
		n = 32
	case 1:
		n = []int{0, 1, 19, 21, 31, 33}[r.Intn(6)]
		adv = true
	}
	b := make([]byte, n)
	r.Read(b)
	if r.Intn(8) == 0 {
		for i := range b {
			b[i] = 0
		}
	}
	if n == 0 {
		return githash.Hash(nil), adv
	}
	return githash.Hash(b), adv
}

func genNumber(r *rand.Rand) uint64 {
	switch r.Intn(8) {
	case 0:
		return 0
	case 1:
		return 1
	case 2:
		return ^uint64(0)
	case 3:
		return 1 << 63
	case 4:
		return r.Uint64()
	}
	return uint64(r.Intn(200))
}

func genMessage(r *rand.Rand) string {
	switch r.Intn(10) {
	case 0, 1, 2:
		return ""
	case 3:
		return "a note"
	case 4:
		return "-----BEGIN MESSAGE-----\nAAAA\n-----END MESSAGE-----"
	case 5:
		return "line1\r\nline2\n\nskip: true\nnumber: 7"
	case 6:
		b := make([]byte, 40+r.Intn(120))
		r.Read(b)
		return string(b)
	case 7:
		return strings.Repeat("x", 47+r.Intn(4))
	case 8:
		return " \n"
	}
	b := make([]byte, 1+r.Intn(5))
	r.Read(b)
	return string(b)
}

func genEntry(r *rand.Rand) (rsl.Entry, bool) {
	switch r.Intn(3) {
	case 0:
		ref, a1 := genRefName(r)
		h, a2 := genHash(r)
		n := genNumber(r)
		return &rsl.ReferenceEntry{RefName: ref, TargetID: h, Number: n}, a1 || a2 || n > 1<<32
	case 1:
		k := 1 + r.Intn(3)
		if r.Intn(15) == 0 {
			k = 0
		}
		ids := []githash.Hash{}
		adv := k != 1
		for i := 0; i < k; i++ {
			h, a := genHash(r)
			ids = append(ids, h)
			adv = adv || a
		}
		m := genMessage(r)
		n := genNumber(r)
		return &rsl.AnnotationEntry{RSLEntryIDs: ids, Skip: r.Intn(2) == 0, Message: m, Number: n}, adv || m != "" || n > 1<<32
	}
	ref, a1 := genRefName(r)
	h, a2 := genHash(r)
	up := pick(r, []string{"https://example.com/repo", "git@host:org/repo.git", "http://h:8080/p?q=1", "", "loc with space", "a: b: c", "ssh://h/é"})
	if r.Intn(10) == 0 {
		up = up + pick(r, unicodeSpaces)
	}
	ue, a3 := genHash(r)
	n := genNumber(r)
	return &rsl.PropagationEntry{RefName: ref, TargetID: h, UpstreamRepository: up, UpstreamEntryID: ue, Number: n}, a1 || a2 || a3 || strings.Contains(up, ":") || n > 1<<32
}

// mutate applies one structured mutation to a canonical text.
func mutate(r *rand.Rand, text string) (string, string) {
	lines := strings.Split(text, "\n")
	kind := r.Intn(22)
	ins := func(i int, l string) {
		lines = append(lines[:i], append([]string{l}, lines[i:]...)...)
	}
	bodyIdx := func() int {
		if len(lines) <= 2 {
			return len(lines)
		}
		return 2 + r.Intn(len(lines)-2)
	}
	switch kind {
	case 0:
		if len(lines) > 3 {
			i, j := bodyIdx(), bodyIdx()
			lines[i], lines[j] = lines[j], lines[i]
		}
		return strings.Join(lines, "\n"), "swap"
	case 1:
		i := bodyIdx()
		if i < len(lines) {
			ins(i, lines[i])
		}
		return strings.Join(lines, "\n"), "dup"
	case 2:
		i := bodyIdx()
		if i < len(lines) {
			lines = append(lines[:i], lines[i+1:]...)
		}
		return strings.Join(lines, "\n"), "drop"
	case 3:
		ins(bodyIdx(), pick(r, []string{"foo: bar", "Ref: refs/heads/x", "REF: y", "refs: z", "x:", ":", ": v", "number : 5", " skip : true "}))
		return strings.Join(lines, "\n"), "foreign-key"
	case 4:
		ins(bodyIdx(), pick(r, []string{"no colon here", "", "   ", "\t"}))
		return strings.Join(lines, "\n"), "no-colon"
	case 5:
		return text + pick(r, []string{"\n", "\n\n", " ", "\ngarbage", "\nnumber: 9", "\nref: refs/heads/evil", "\nskip: true", "\r\n"}), "trailing"
	case 6:
		lines[0] = lines[0] + pick(r, []string{" ", "s", "\r", " v2", ":"})
		return strings.Join(lines, "\n"), "header-variant"
	case 7:
		if len(lines) > 1 {
			lines[1] = pick(r, []string{" ", "\t\r", "\u00a0", "x", "\u2003 "})
		}
		return strings.Join(lines, "\n"), "blank-variant"
	case 8:
		return strings.ToUpper(text[:0]) + upperHex(text), "upper-hex"
	case 9:
		for i := range lines {
			if strings.HasPrefix(lines[i], "number: ") {
				lines[i] = "number: " + pick(r, []string{"007", "18446744073709551616", "18446744073709551615", "+5", "-1", "1_0", "0x10", "", " 12 ", "1e3", "99999999999999999999999", "\uff10"})
			}
		}
		return strings.Join(lines, "\n"), "number-variant"
	case 10:
		i := bodyIdx()
		if i < len(lines) {
			sp := pick(r, append(asciiSpaces, unicodeSpaces...))
			k, v, ok := strings.Cut(lines[i], ":")
			if ok {
				lines[i] = sp + k + sp + ":" + sp + v + sp
			}
		}
		return strings.Join(lines, "\n"), "space-variant"
	case 11:
		return strings.ReplaceAll(text, "\n", "\r\n"), "crlf"
	case 12:
		ins(bodyIdx(), pick(r, []string{"-----BEGIN MESSAGE-----", " -----BEGIN MESSAGE----- ", "-----BEGIN MESSAGE-----x", "x-----BEGIN MESSAGE-----"}))
		return strings.Join(lines, "\n"), "begin-marker"
	case 13:
		blk := "-----BEGIN FOO-----\nQUJD\n-----END FOO-----"
		ins(bodyIdx(), blk)
		return strings.Join(lines, "\n") + pick(r, []string{"", "\n-----BEGIN MESSAGE-----\nREVG\n-----END MESSAGE-----"}), "foreign-pem"
	case 14:
		i := bodyIdx()
		if i < len(lines) {
			k, _, ok := strings.Cut(lines[i], ":")
			if ok {
				lines[i] = k + ": " + pick(r, []string{"", "true", "false", "TRUE", "yes", strings.Repeat("a", 40), strings.Repeat("g", 40), strings.Repeat("A", 64), strings.Repeat("0", 41), "refs/heads/main"})
			}
		}
		return strings.Join(lines, "\n"), "value-swap"
	case 15:
		return strings.Join(lines[:1+r.Intn(len(lines))], "\n"), "truncate-lines"
	case 16:
		if len(text) > 0 {
			return text[:r.Intn(len(text))], "truncate-bytes"
		}
		return text, "truncate-bytes"
	case 17:
		b := []byte(text)
		if len(b) > 0 {
			for k := 0; k < 1+r.Intn(3); k++ {
				b[r.Intn(len(b))] = byte(r.Intn(256))
			}
		}
		return string(b), "byte-flip"
	case 18:
		return strings.Replace(text, ": ", ":", 1+r.Intn(3)), "no-space-after-colon"
	case 19:
		return strings.Replace(text, "\n", "\n\n", 1+r.Intn(4)), "extra-blank"
	case 20:
		// change the entry kind header but keep the body
		hs := []string{rsl.ReferenceEntryHeader, rsl.AnnotationEntryHeader, rsl.PropagationEntryHeader}
		lines[0] = pick(r, hs)
		return strings.Join(lines, "\n"), "header-kind"
	}
	ins(bodyIdx(), "entryID: "+strings.Repeat("ab", 20))
	return strings.Join(lines, "\n"), "extra-entryid"
}

func upperHex(text string) string {
	lines := strings.Split(text, "\n")
	for i, l := range lines {
		for _, k := range []string{"targetID: ", "entryID: ", "upstreamEntryID: "} {
			if strings.HasPrefix(l, k) {
				lines[i] = k + strings.ToUpper(l[len(k):])
			}
		}
	}
	return strings.Join(lines, "\n")
}

func genFuzz(r *rand.Rand) string {
	n := r.Intn(80)
	b := make([]byte, n)
	switch r.Intn(3) {
	case 0:
		r.Read(b)
	case 1:
		alphabet := []byte("ref:targetIDnumber skipentryID\n\n \t:0123456789abcdef-BEGIN MESSAGE")
		for i := range b {
			b[i] = alphabet[r.Intn(len(alphabet))]
		}
	default:
		alphabet := []byte("\n: a1\xc2\x85\xa0\xe2\x80")
		for i := range b {
			b[i] = alphabet[r.Intn(len(alphabet))]
		}
	}
	s := string(b)
	if r.Intn(3) != 0 {
		hs := []string{rsl.ReferenceEntryHeader, rsl.AnnotationEntryHeader, rsl.PropagationEntryHeader}
		s = pick(r, hs) + pick(r, []string{"\n\n", "\n", "\n \n", ""}) + s
	}
	return s
}

func keyOf(s string) string {
	h := sha1.Sum([]byte(s))
	return hex.EncodeToString(h[:8])
}

// addRound emits a CRound case: impl serialises e, parses the text back.
func addRound(c *runCtx, e rsl.Entry, fromParse bool, adv bool, class string) {
	text, err := rsl.VerifCreateCommitMessage(e)
	if err != nil {
		return
	}
	r2, _, h2 := goParse(text)
	term := fmt.Sprintf("(CRound %s %s %s %s %s)", coqBool(fromParse), coqEntry(e), coqStr(text), pemOracle(text), r2)
	c.add(term, sideCase{Class: class, Nontrivial: adv, Key: keyOf(term),
		Human: map[string]interface{}{"entry": humanEntry(e), "text": text, "reparsed": h2}})
}

func addParse(c *runCtx, text string, class string) {
	r, e, h := goParse(text)
	term := fmt.Sprintf("(CParse %s %s %s)", coqStr(text), pemOracle(text), r)
	c.add(term, sideCase{Class: class, Nontrivial: true, Key: keyOf(term),
		Human: map[string]interface{}{"text": text, "result": h}})
	if e != nil {
		addRound(c, e, true, true, class+"/reser")
	}
}

func runC14(c *runCtx) error {
	c.coqImport = "C14Check"
	c.caseType = "c14case"
	c.checkFn = "c14_check"
	// constants the model depends on
	cs := [][2]string{
		{"ReferenceEntryHeader", rsl.ReferenceEntryHeader}, {"AnnotationEntryHeader", rsl.AnnotationEntryHeader},
		{"PropagationEntryHeader", rsl.PropagationEntryHeader}, {"RefKey", rsl.RefKey}, {"TargetIDKey", rsl.TargetIDKey},
		{"NumberKey", rsl.NumberKey}, {"EntryIDKey", rsl.EntryIDKey}, {"SkipKey", rsl.SkipKey},
		{"UpstreamRepositoryKey", rsl.UpstreamRepositoryKey}, {"UpstreamEntryIDKey", rsl.UpstreamEntryIDKey},
		{"BeginMessage", rsl.BeginMessage}, {"EndMessage", rsl.EndMessage},
	}
	for _, kv := range cs {
		c.consts = append(c.consts, fmt.Sprintf("beq %s %s", kv[0], coqStr(kv[1])))
	}
	// corpus first
	for _, t := range loadCorpusTexts(c.corpus) {
		addParse(c, t, "corpus")
	}
	r := c.rng
	nRound := c.n * 4 / 10
	for i := 0; i < nRound; i++ {
		e, adv := genEntry(r)
		addRound(c, e, false, adv, "round")
	}
	nMut := c.n * 4 / 10
	for i := 0; i < nMut; i++ {
		e, _ := genEntry(r)
		text, err := rsl.VerifCreateCommitMessage(e)
		if err != nil {
			continue
		}
		kinds := []string{}
		for k := 0; k < 1+r.Intn(2); k++ {
			var kind string
			text, kind = mutate(r, text)
			kinds = append(kinds, kind)
		}
		addParse(c, text, "mut:"+strings.Join(kinds, "+"))
	}
	for i := 0; i < c.n-nRound-nMut; i++ {
		addParse(c, genFuzz(r), "fuzz")
	}
	return nil
}

func loadCorpusTexts(dir string) []string {
	out := []string{}
	if dir == "" {
		return out
	}
	ents, err := readDirSorted(dir)
	if err != nil {
		return out
	}
	for _, p := range ents {
		b, err := readFile(p)
		if err == nil && !bytes.HasSuffix([]byte(p), []byte(".json")) {
			out = append(out, string(b))
		}
	}
	return out
}
