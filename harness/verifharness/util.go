//go:build verif

package main

import (
	"os"
	"path/filepath"
	"sort"
)

func readDirSorted(dir string) ([]string, error) {
	ents, err := os.ReadDir(dir)
	if err != nil {
		return nil, err
	}
	out := []string{}
	for _, e := range ents {
		if !e.IsDir() {
			out = append(out, filepath.Join(dir, e.Name()))
		}
	}
	sort.Strings(out)
	return out, nil
}

func readFile(p string) ([]byte, error) { return os.ReadFile(p) }
