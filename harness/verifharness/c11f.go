//go:build verif

package main

// C11 with file rules: a history of pushes to main under a policy with a branch rule and a file rule,
// verified as it is and under the same policy plus 1-2 global rules.  Declaring a global rule must
// never turn a rejected history into an accepted one.

import (
	"context"
	"fmt"
	"math/rand"
	"strings"

	"github.com/gittuf/gittuf/internal/policy"
)

func c11FilesMono(c *runCtx, r *rand.Rand, wi int) error {
	m := 1 + r.Intn(3)
	pids := []int{}
	for _, i := range r.Perm(4)[:m] {
		pids = append(pids, 101+i)
	}
	fm := 1 + r.Intn(2)
	fpids := []int{}
	for _, i := range r.Perm(4)[:fm] {
		fpids = append(fpids, 101+i)
	}
	fpat := []string{"file:src/*", "file:1", "file:src/a b", "file:zz"}[r.Intn(4)]
	t := &wFile{Version: 1, Signers: []int{2}}
	t.Name = "targets"
	t.Defs = map[int][]int{101: {4}, 102: {5}, 103: {6}, 104: {7}}
	t.Rules = []hRule{{Name: "protect-main", Patterns: []string{"git:" + refMain}, Pids: pids, Thr: 1},
		{Name: "files", Patterns: []string{fpat}, Pids: fpids, Thr: 1}}
	pol := &wPolicy{RootVersion: 1, RootKeys: []int{1}, RootThr: 1, TargetsKeys: []int{2}, TargetsThr: 1, HasTargetsRole: true, RootSigners: []int{1}, Files: []*wFile{t}}
	fileKey := devKey(fpids[0])
	pusher := devKey(pids[0])
	w := &wWorld{}
	nextBlob := 1
	trees := map[string]int{}
	add := func(files map[string]int, parents []int, signer int) int {
		id := len(w.Commits) + 1
		key := c10TreeKey(files)
		if _, ok := trees[key]; !ok {
			trees[key] = len(trees) + 1
		}
		cp := map[string]int{}
		for k, v := range files {
			cp[k] = v
		}
		w.Commits = append(w.Commits, wCommit{ID: id, Tree: trees[key], Parents: parents, Files: cp, Signer: signer})
		return id
	}
	files := map[string]int{"README": nextBlob}
	nextBlob++
	tip := add(files, nil, fileKey)
	w.Events = append(w.Events, wEvent{Kind: "policy", Pol: pol, Signer: 1})
	w.Events = append(w.Events, wEvent{Kind: "ref", Ref: refMain, Commit: tip, Signer: pusher})
	for k := 0; k < 1+r.Intn(3); k++ {
		// each commit changes one or two paths: unprotected ones sort before and after the protected ones
		for e := 0; e < 1+r.Intn(2); e++ {
			p := []string{"0", "1", "README", "docs/x", "src/a b", "src/new", "zz", "zzz"}[r.Intn(8)]
			files[p] = nextBlob
			nextBlob++
		}
		signer := []int{fileKey, 4 + r.Intn(4), 8, 8, 0}[r.Intn(5)]
		tip = add(files, []int{tip}, signer)
		if r.Intn(3) != 0 || k == 0 {
			w.Events = append(w.Events, wEvent{Kind: "ref", Ref: refMain, Commit: tip, Signer: pusher})
		}
	}
	if r.Intn(2) == 0 {
		// one commit by somebody the file rule does not trust, changing an unprotected path that sorts first
		// and a protected one (verification goes through a commit's paths in order)
		prot := map[string]string{"file:src/*": "src/new", "file:1": "1", "file:src/a b": "src/a b", "file:zz": "zz"}[fpat]
		files["0"] = nextBlob
		files[prot] = nextBlob + 1
		nextBlob += 2
		tip = add(files, []int{tip}, []int{8, 0, 8}[r.Intn(3)])
	}
	if last := w.Events[len(w.Events)-1]; last.Commit != tip {
		w.Events = append(w.Events, wEvent{Kind: "ref", Ref: refMain, Commit: tip, Signer: pusher})
	}
	run := func(ww *wWorld) (string, string, error) {
		b, err := buildWorld(ww)
		if err != nil {
			return "", "", err
		}
		var obs, oh string
		func() {
			defer func() {
				if rec := recover(); rec != nil {
					obs, oh = "VPanic", fmt.Sprint("panic: ", rec)
				}
			}()
			tipID, err := policy.NewPolicyVerifier(b.m).VerifyRefFull(context.Background(), refMain)
			obs, oh = b.voutOf(tipID, err)
		}()
		return obs, oh, nil
	}
	obs, oh, err := run(w)
	if err != nil {
		return err
	}
	wg := &wWorld{Commits: w.Commits}
	for _, e := range w.Events {
		e2 := e
		if e.Pol != nil {
			e2.Pol = clonePolicy(e.Pol)
			e2.Pol.Globals = genGlobals(r, 1+r.Intn(2), "")
		}
		wg.Events = append(wg.Events, e2)
	}
	obsG, ohG, err := run(wg)
	if err != nil {
		return err
	}
	g, hc := []string{}, []string{}
	for _, cm := range w.Commits {
		g = append(g, fmt.Sprintf("(%d%%N, {| fc_tree := %s; fc_parents := %s; fc_signer := %d%%N |})", cm.ID, coqFTree(cm.Files), coqKeys(cm.Parents), cm.Signer))
		hc = append(hc, fmt.Sprintf("c%d parents=%v signer=%d tree=%s", cm.ID, cm.Parents, cm.Signer, c10TreeKey(cm.Files)))
	}
	def := fmt.Sprintf("fw%d", wi)
	c.defs = append(c.defs, fmt.Sprintf("Definition %s : fworld := {| fw_world := %s; fw_graph := %s |}.", def, w.coq(), coqList(g)))
	term := fmt.Sprintf("(WFilesMono %s %s %s %s)", def, coqStr(refMain), obsG, obs)
	c.add(term, sideCase{Class: "C11/files/" + strings.Split(strings.Trim(obsG, "()"), " ")[0] + "-vs-" + strings.Split(strings.Trim(obs, "()"), " ")[0], Nontrivial: true, Key: keyOf(fmt.Sprint(wg.human()) + term),
		Human: map[string]interface{}{"world": w.human(), "commits": hc, "rules": fmt.Sprintf("protect-main pids=%v; files %s pids=%v", pids, fpat, fpids),
			"global_rules_added": fmt.Sprint(wg.Events[0].Pol.Globals), "observed_with_global_rules": ohG, "observed_without": oh}})
	return nil
}
