//go:build verif

// Command verifharness runs the gittuf implementation on generated inputs and writes the
// observed behaviour as Coq terms (cases_*.v) plus a JSON sidecar.  It is compiled into /repo by
// a Go build overlay, so it sees the working tree as it is now.
package main

import (
	"encoding/json"
	"flag"
	"fmt"
	"math/rand"
	"os"
	"path/filepath"
	"sort"
)

type sideCase struct {
	Idx        int                    `json:"idx"`
	Class      string                 `json:"class"`
	Nontrivial bool                   `json:"nontrivial"`
	Key        string                 `json:"key"`
	Human      map[string]interface{} `json:"human"`
}

type runCtx struct {
	prop   string
	seed   int64
	n      int
	tier   string
	outDir string
	corpus string
	rng    *rand.Rand

	coqImport string
	caseType  string
	checkFn   string
	cases     []string // Coq terms
	defs      []string // Coq definitions every shard needs (emitted before the cases)
	side      []sideCase
	consts    []string // Coq boolean assertions on constants
	extra     map[string]interface{}
}

func (c *runCtx) add(term string, sc sideCase) {
	sc.Idx = len(c.cases)
	c.cases = append(c.cases, term)
	c.side = append(c.side, sc)
}

const shardSize = 400

func (c *runCtx) flush() error {
	if err := os.MkdirAll(c.outDir, 0o755); err != nil {
		return err
	}
	nsh := 0
	for start := 0; start < len(c.cases) || (start == 0 && nsh == 0); start += shardSize {
		end := start + shardSize
		if end > len(c.cases) {
			end = len(c.cases)
		}
		f, err := os.Create(filepath.Join(c.outDir, fmt.Sprintf("cases_%s_%d.v", c.prop, nsh)))
		if err != nil {
			return err
		}
		fmt.Fprintf(f, "From GV Require Import %s.\n", c.coqImport)
		if nsh == 0 {
			for i, a := range c.consts {
				fmt.Fprintf(f, "Definition const_%d : bool := Eval vm_compute in (%s).\nPrint const_%d.\n", i, a, i)
			}
		}
		for _, d := range c.defs {
			fmt.Fprintln(f, d)
		}
		for i := start; i < end; i++ {
			fmt.Fprintf(f, "Definition c%d : %s := %s.\n", i, c.caseType, c.cases[i])
		}
		fmt.Fprintf(f, "Definition rs := Eval vm_compute in [")
		for i := start; i < end; i++ {
			if i > start {
				fmt.Fprint(f, "; ")
			}
			fmt.Fprintf(f, "%s c%d", c.checkFn, i)
		}
		fmt.Fprintf(f, "].\nPrint rs.\n")
		f.Close()
		nsh++
		if end >= len(c.cases) {
			break
		}
	}
	dist := map[string]int{}
	keys := map[string]bool{}
	nontriv := map[string]bool{}
	for _, s := range c.side {
		dist[s.Class]++
		keys[s.Key] = true
		if s.Nontrivial {
			nontriv[s.Key] = true
		}
	}
	classes := make([]string, 0, len(dist))
	for k := range dist {
		classes = append(classes, k)
	}
	sort.Strings(classes)
	out := map[string]interface{}{
		"property": c.prop, "seed": c.seed, "tier": c.tier, "shards": nsh, "shard_size": shardSize,
		"n_cases": len(c.cases), "n_consts": len(c.consts), "distribution": dist, "distinct": len(keys),
		"distinct_nontrivial": len(nontriv), "cases": c.side, "extra": c.extra,
	}
	b, _ := json.MarshalIndent(out, "", " ")
	return os.WriteFile(filepath.Join(c.outDir, fmt.Sprintf("cases_%s.json", c.prop)), b, 0o644)
}

var props = map[string]func(*runCtx) error{}

func main() {
	prop := flag.String("prop", "", "property id")
	seed := flag.Int64("seed", 1, "PRNG seed")
	n := flag.Int("n", 300, "number of generated cases")
	tier := flag.String("tier", "quick", "quick|thorough")
	out := flag.String("out", "", "output directory")
	corpus := flag.String("corpus", "", "corpus directory")
	flag.Parse()
	fn, ok := props[*prop]
	if !ok {
		fmt.Fprintf(os.Stderr, "unknown property %q\n", *prop)
		os.Exit(2)
	}
	c := &runCtx{prop: *prop, seed: *seed, n: *n, tier: *tier, outDir: *out, corpus: *corpus,
		rng: rand.New(rand.NewSource(*seed)), extra: map[string]interface{}{}}
	if err := fn(c); err != nil {
		fmt.Fprintf(os.Stderr, "harness error: %v\n", err)
		os.Exit(3)
	}
	if err := c.flush(); err != nil {
		fmt.Fprintf(os.Stderr, "harness error: %v\n", err)
		os.Exit(3)
	}
}
