//go:build verif

package main

// Shared helpers for the RSL properties: an id numbering (hash -> N in creation order), raw
// appends to the log (bypassing the recording API, so corrupt logs can be built), an independent
// reader of the commit graph that does not use pkg/rsl, and the Go -> Coq printer of a log.

import (
	"errors"
	"fmt"
	"strconv"
	"strings"

	"github.com/gittuf/gittuf/pkg/githash"
	"github.com/gittuf/gittuf/pkg/gitstore"
	"github.com/gittuf/gittuf/pkg/rsl"
)

type idMap struct {
	ids  map[string]uint64
	next uint64
}

func newIDMap() *idMap { return &idMap{ids: map[string]uint64{}, next: 1} }

func (m *idMap) of(h githash.Hash) uint64 {
	if h.IsZero() {
		return 0
	}
	k := h.String()
	if v, ok := m.ids[k]; ok {
		return v
	}
	m.ids[k] = m.next
	m.next++
	return m.ids[k]
}

func (m *idMap) coq(h githash.Hash) string { return coqN(m.of(h)) }

// lentry is the harness-side, independent view of one RSL entry.
type lentry struct {
	Kind     string // "ref" | "ann" | "prop"
	Ref      string
	Target   githash.Hash
	Targets  []githash.Hash
	Skip     bool
	UpRepo   string
	UpEntry  githash.Hash
	Number   uint64
	HasMsg   bool
}

// indepParse is a deliberately small, independent parser for *canonical* entry texts (what
// createCommitMessage writes).  Anything else is reported as not-an-entry.
func indepParse(text string) (*lentry, bool) {
	lines := strings.Split(text, "\n")
	if len(lines) < 3 || lines[1] != "" {
		return nil, false
	}
	kv := func(l, key string) (string, bool) {
		p := key + ": "
		if strings.HasPrefix(l, p) {
			return l[len(p):], true
		}
		if l == key+":" {
			return "", true
		}
		return "", false
	}
	hash := func(v string) (githash.Hash, bool) {
		if len(v) != 40 && len(v) != 64 {
			return nil, false
		}
		h, err := githash.NewHash(strings.ToLower(v))
		if err != nil || v != strings.ToLower(v) {
			return nil, false
		}
		return h, true
	}
	num := func(rest []string) (uint64, bool) {
		if len(rest) == 0 {
			return 0, true
		}
		if len(rest) != 1 {
			return 0, false
		}
		v, ok := kv(rest[0], "number")
		if !ok {
			return 0, false
		}
		n, err := strconv.ParseUint(v, 10, 64)
		if err != nil || n == 0 || strconv.FormatUint(n, 10) != v {
			return 0, false
		}
		return n, true
	}
	body := lines[2:]
	switch lines[0] {
	case "RSL Reference Entry":
		if len(body) < 2 {
			return nil, false
		}
		r, ok1 := kv(body[0], "ref")
		t, ok2 := kv(body[1], "targetID")
		h, ok3 := hash(t)
		n, ok4 := num(body[2:])
		if !(ok1 && ok2 && ok3 && ok4) || strings.TrimSpace(r) != r {
			return nil, false
		}
		return &lentry{Kind: "ref", Ref: r, Target: h, Number: n}, true
	case "RSL Propagation Entry":
		if len(body) < 4 {
			return nil, false
		}
		r, ok1 := kv(body[0], "ref")
		t, ok2 := kv(body[1], "targetID")
		ur, ok3 := kv(body[2], "upstreamRepository")
		ue, ok4 := kv(body[3], "upstreamEntryID")
		h, ok5 := hash(t)
		h2, ok6 := hash(ue)
		n, ok7 := num(body[4:])
		if !(ok1 && ok2 && ok3 && ok4 && ok5 && ok6 && ok7) || strings.TrimSpace(r) != r || strings.TrimSpace(ur) != ur {
			return nil, false
		}
		return &lentry{Kind: "prop", Ref: r, Target: h, UpRepo: ur, UpEntry: h2, Number: n}, true
	case "RSL Annotation Entry":
		e := &lentry{Kind: "ann"}
		i := 0
		for ; i < len(body); i++ {
			v, ok := kv(body[i], "entryID")
			if !ok {
				break
			}
			h, ok := hash(v)
			if !ok {
				return nil, false
			}
			e.Targets = append(e.Targets, h)
		}
		if len(e.Targets) == 0 || i >= len(body) {
			return nil, false
		}
		sv, ok := kv(body[i], "skip")
		if !ok || (sv != "true" && sv != "false") {
			return nil, false
		}
		e.Skip = sv == "true"
		i++
		rest := body[i:]
		for j, l := range rest {
			if l == "-----BEGIN MESSAGE-----" {
				e.HasMsg = true
				rest = rest[:j]
				break
			}
		}
		n, ok := num(rest)
		if !ok {
			return nil, false
		}
		e.Number = n
		return e, true
	}
	return nil, false
}

func (e *lentry) coq(ids *idMap) string {
	switch e.Kind {
	case "ref":
		return fmt.Sprintf("(LRef %s %s %s)", coqStr(e.Ref), ids.coq(e.Target), coqN(e.Number))
	case "prop":
		return fmt.Sprintf("(LProp %s %s %s %s %s)", coqStr(e.Ref), ids.coq(e.Target), coqStr(e.UpRepo), ids.coq(e.UpEntry), coqN(e.Number))
	}
	ts := []string{}
	for _, t := range e.Targets {
		ts = append(ts, ids.coq(t))
	}
	return fmt.Sprintf("(LAnn %s %s %s)", coqList(ts), coqBool(e.Skip), coqN(e.Number))
}

func (e *lentry) human() string {
	switch e.Kind {
	case "ref":
		return fmt.Sprintf("ref %s #%d", e.Ref, e.Number)
	case "prop":
		return fmt.Sprintf("prop %s <-%s #%d", e.Ref, e.UpRepo, e.Number)
	}
	return fmt.Sprintf("ann x%d skip=%v #%d", len(e.Targets), e.Skip, e.Number)
}

// walkGraph reads every commit reachable from tip (all parents) straight from the store, oldest
// commits numbered first.  It does not use pkg/rsl.
type graphCommit struct {
	ID      githash.Hash
	Parents []githash.Hash
	Entry   *lentry // nil: not a canonical entry
	Message string
}

func walkGraph(st gitstore.Storer, tip githash.Hash) ([]*graphCommit, error) {
	seen := map[string]bool{}
	order := []*graphCommit{}
	var visit func(id githash.Hash) error
	visit = func(id githash.Hash) error {
		if seen[id.String()] {
			return nil
		}
		seen[id.String()] = true
		parents, err := st.GetCommitParentIDs(id)
		if err != nil {
			return err
		}
		for _, p := range parents {
			if err := visit(p); err != nil {
				return err
			}
		}
		msg, err := st.GetCommitMessage(id)
		if err != nil {
			return err
		}
		gc := &graphCommit{ID: id, Parents: parents, Message: msg}
		if e, ok := indepParse(msg); ok {
			gc.Entry = e
		}
		order = append(order, gc)
		return nil
	}
	if tip.IsZero() {
		return order, nil
	}
	return order, visit(tip)
}

// coqStore prints the graph as a Coq [store] (newest first, so lookups of recent entries are cheap).
func coqStore(g []*graphCommit, ids *idMap) string {
	for _, c := range g { // number in creation order first
		ids.of(c.ID)
	}
	items := []string{}
	for i := len(g) - 1; i >= 0; i-- {
		c := g[i]
		ps := []string{}
		for _, p := range c.Parents {
			ps = append(ps, ids.coq(p))
		}
		ent := "None"
		if c.Entry != nil {
			ent = "(Some " + c.Entry.coq(ids) + ")"
		}
		items = append(items, fmt.Sprintf("(%s, {| c_parents := %s; c_entry := %s |})", ids.coq(c.ID), coqList(ps), ent))
	}
	return coqList(items)
}

func humanStore(g []*graphCommit, ids *idMap) []string {
	out := []string{}
	for _, c := range g {
		ps := []string{}
		for _, p := range c.Parents {
			ps = append(ps, fmt.Sprint(ids.of(p)))
		}
		d := "<not an entry>"
		if c.Entry != nil {
			d = c.Entry.human()
		}
		out = append(out, fmt.Sprintf("%d <- [%s] %s", ids.of(c.ID), strings.Join(ps, ","), d))
	}
	return out
}

// rawAppend writes a commit with the given message on top of the log (plus extra parents) without
// going through the recording API.
func rawAppend(m *memStore, message string, extraParents []githash.Hash) (githash.Hash, error) {
	tree, _ := m.EmptyTree()
	cur, err := m.GetReference(rsl.Ref)
	if err != nil && !errors.Is(err, gitstore.ErrReferenceNotFound) {
		return nil, err
	}
	parents := []githash.Hash{}
	if !cur.IsZero() {
		parents = append(parents, cur)
	}
	parents = append(parents, extraParents...)
	id, err := m.createCommit(tree, parents, message, nil)
	if err != nil {
		return nil, err
	}
	return id, m.SetReference(rsl.Ref, id)
}

func rerrEnum(err error) string {
	switch {
	case errors.Is(err, rsl.ErrRSLBranchDetected):
		return "RBranch"
	case errors.Is(err, rsl.ErrInvalidGetLatestReferenceUpdaterEntryOptions):
		return "RBadOpts"
	case errors.Is(err, rsl.ErrCannotUseEntryNumberFilter):
		return "RNoNumbers"
	case errors.Is(err, rsl.ErrInvalidUntilEntryNumberCondition):
		return "RUntilNum"
	case errors.Is(err, rsl.ErrNoRecordOfCommit):
		return "RNoRecord"
	case errors.Is(err, rsl.ErrRSLEntryNotFound):
		return "RNotFound"
	case errors.Is(err, rsl.ErrInvalidRSLEntry), errors.Is(err, githash.ErrInvalidHashLength), errors.Is(err, githash.ErrInvalidHashEncoding):
		return "RInvalid"
	}
	var ne *strconv.NumError
	if errors.As(err, &ne) {
		return "RInvalid"
	}
	return "ROther"
}
