//go:build verif

package main

import (
	"fmt"
	"strings"
)

// coqBytes prints a byte string as a Coq [list byte] literal.
func coqBytes(b []byte) string {
	if len(b) == 0 {
		return "[]"
	}
	var sb strings.Builder
	sb.Grow(len(b)*4 + 2)
	sb.WriteByte('[')
	for i, c := range b {
		if i > 0 {
			sb.WriteByte(';')
		}
		fmt.Fprintf(&sb, "x%02x", c)
	}
	sb.WriteByte(']')
	return sb.String()
}

func coqStr(s string) string { return coqBytes([]byte(s)) }

func coqN(n uint64) string { return fmt.Sprintf("%d%%N", n) }

func coqBool(b bool) string {
	if b {
		return "true"
	}
	return "false"
}

func coqList(items []string) string { return "[" + strings.Join(items, "; ") + "]" }

func coqOpt(some bool, term string) string {
	if !some {
		return "None"
	}
	return "(Some " + term + ")"
}

// printable renders bytes for the JSON sidecar.
func printable(b []byte) string { return fmt.Sprintf("%q", string(b)) }
