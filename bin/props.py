"""Per-property configuration of bin/check."""

COMMON_TRUSTED = [
    "Coq 8.16.1 kernel and vm_compute (no native_compute); coqchk re-check in the thorough tier",
    "hand-written Gallina model of the anchored Go code; tied to /repo by the correspondence run of this check "
    "(agreement established on the generated inputs only)",
    "Go harness built into /repo by `go build -tags verif -overlay` (export shims, generators, Go->Coq term printer)",
]

PROPS = {
    "C14": {
        "propfile": "PropC14.v",
        "n": {"quick": 900, "thorough": 30000},
        "corr": "rsl.ParseEntryText / createCommitMessage vs parse / ser",
        "rule": "40% generated entries (adversarial fields: colons, spaces, Unicode spaces, PEM markers, odd hash "
                "lengths, 64-bit numbers) serialised by createCommitMessage and re-parsed; 40% structured mutations "
                "of canonical texts (22 mutation kinds, 1-2 per text); 20% raw/alphabet fuzz. distinct = distinct Coq "
                "case terms; non-trivial = entry with at least one adversarial field, or any mutated/fuzzed text",
        "theorems": ["C14_roundtrip", "C14_idempotent", "C14_unambiguous"],
        "trusted": [
            "encoding/pem: pem.Decode enters the model as a Section variable with two hypotheses (canonical annotation "
            "text decodes to its message; a canonical text without message has no block); in case files it is the "
            "result Go's pem.Decode returned for that text. pem.Encode is modelled concretely (Pem.v) and diffed.",
            "strings.TrimSpace / Split / Cut / HasPrefix, strconv.ParseUint, hex: modelled in Bytes.v, diffed through the parser",
            "absence of Go panics is observed by the harness (recover), not proved",
        ],
        "assumptions": ["Print Assumptions: see coverage.print_assumptions"],
    },
}
