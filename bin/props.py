"""Per-property configuration of bin/check."""

COMMON_TRUSTED = [
    "Coq 8.16.1 kernel and vm_compute (no native_compute); coqchk re-check in the thorough tier",
    "hand-written Gallina model of the anchored Go code; tied to /repo by the correspondence run of this check "
    "(agreement established on the generated inputs only)",
    "Go harness built into /repo by `go build -tags verif -overlay` (export shims, generators, Go->Coq term printer)",
]

PROPS = {
    "C14": {
        "propfile": "PropC14.v",
        "n": {"quick": 900, "thorough": 30000},
        "corr": "rsl.ParseEntryText / createCommitMessage vs parse / ser",
        "rule": "40% generated entries (adversarial fields: colons, spaces, Unicode spaces, PEM markers, odd hash "
                "lengths, 64-bit numbers) serialised by createCommitMessage and re-parsed; 40% structured mutations "
                "of canonical texts (22 mutation kinds, 1-2 per text); 20% raw/alphabet fuzz. distinct = distinct Coq "
                "case terms; non-trivial = entry with at least one adversarial field, or any mutated/fuzzed text",
        "theorems": ["C14_roundtrip", "C14_idempotent", "C14_unambiguous"],
        "trusted": [
            "encoding/pem: pem.Decode enters the model as a Section variable with two hypotheses (canonical annotation "
            "text decodes to its message; a canonical text without message has no block); in case files it is the "
            "result Go's pem.Decode returned for that text. pem.Encode is modelled concretely (Pem.v) and diffed.",
            "strings.TrimSpace / Split / Cut / HasPrefix, strconv.ParseUint, hex: modelled in Bytes.v, diffed through the parser",
            "absence of Go panics is observed by the harness (recover), not proved",
        ],
        "assumptions": ["Print Assumptions: see coverage.print_assumptions"],
    },
    "C04": {
        "propfile": "PropC04.v",
        "n": {"quick": 1200, "thorough": 24000},
        "corr": "rsl.GetLatestReferenceUpdaterEntry / GetFirst* / GetReferenceUpdaterEntriesInRangeForRef / "
                "GetNonGittufParentReferenceUpdaterEntryForEntry vs get_latest / get_first_for_ref / get_range / get_nongittuf_parent",
        "rule": "logs of 0-12 entries over 5 refs (3 in refs/gittuf/), all entry kinds, annotations with 1-4 targets incl. "
                "duplicates, optional legacy unnumbered prefix; 25% with one corruption (extra parent, number gap/dup, garbage, "
                "unnumbered-on-numbered); per log 6 option combinations for the latest reader (bounds drawn from the log's own ids "
                "and numbers, invalid combinations included), 2 first-entry queries, 3 ranges, 1 non-gittuf-parent query, all in one "
                "process so the rsl cache is shared. distinct = distinct (log, query); non-trivial = query with >=2 active "
                "conditions or a corrupted log",
        "theorems": ["C04_latest", "C04_first", "C04_range", "C04_fuel", "C04_chain_linked", "C04_fail_closed", "C04_first_match"],
        "trusted": [
            "the in-memory gitstore.Storer of the harness (genuine git object encodings via go-git; mirrors gitinterface conventions)",
            "the harness's independent reader of the commit graph (does not use pkg/rsl) that prints the store as a Coq term",
            "GetNonGittufParentReferenceUpdaterEntryForEntry is modelled and tied by correspondence only (no scan theorem yet); "
            "GetFirstReferenceUpdaterEntryForCommit is not modelled",
        ],
        "assumptions": ["ids are numbered in creation order, so parents_older holds and fuel = |store|+1 suffices (C04_fuel)"],
    },
    "C03": {
        "propfile": "PropC03.v",
        "n": {"quick": 300, "thorough": 6000},
        "corr": "rsl.(Reference|Annotation|Propagation)Entry.Commit / CommitWithoutNumber vs run_ops",
        "rule": "sequences of 1-15 recording operations through the real pkg/rsl API on an in-memory Storer: reference entries over 5 refs "
                "(3 in refs/gittuf/, i.e. what policy staging/apply and attestation commits record), annotations with 1-3 targets "
                "(valid entries, unknown ids, ...), propagation entries; one third start with a legacy unnumbered prefix that "
                "transitions to numbering. After every operation an independent walker (raw commits, not pkg/rsl) exports tip and "
                "graph. distinct = distinct Coq case terms; non-trivial = >=3 ops and (legacy prefix or a refused op or >=6 ops)",
        "theorems": ["C03_step", "C03_sequences", "C03_log_ok"],
        "trusted": [
            "the in-memory gitstore.Storer of the harness and its independent graph reader",
            "policy staging/apply and attestation commits are represented by the reference entries they record (their own "
            "ref handling is C12/C16); SkipAllInvalidReferenceEntriesForRef is observed for the shape of the log only (C03Api cases)",
        ],
        "assumptions": ["single writer, no storage faults (C17, C16 cover those)"],
    },
    "C17": {
        "propfile": "PropC17.v",
        "n": {"quick": 400, "thorough": 40000},
        "corr": "concurrent rsl recording operations under a scheduling Storer wrapper vs exec (LogOps.v)",
        "rule": "2 writers: ALL interleavings of their semantic storage steps (numbering read, Commit's tip read, object creation, "
                "compare-and-set; 35-70 per scenario) for several scenarios (quick 3, thorough 12); 3 writers: all 34650 interleavings "
                "of one scenario in the thorough tier; then random interleavings of 2-3 writers. Writers are goroutines running the real "
                "pkg/rsl code against one in-memory Storer, serialised by a scheduler at those yield points. Scenarios vary start "
                "state (empty, numbered, legacy unnumbered) and operation mix (reference, annotation, propagation, unnumbered). "
                "non-trivial = >=2 writers of which >=1 succeeded",
        "theorems": ["C17_chain_safe", "C17_start_states", "C17_numbering_refuted"],
        "trusted": [
            "the scheduling wrapper: yield points are the numbering read of the log tip and the three sub-steps of Commit as "
            "implemented by the harness's in-memory Storer (read, create, compare-and-set) - the same structure as "
            "gitinterface.Repository.Commit, which itself is NOT exercised under interleaving by this check (partial)",
            "real-process randomness, file-system atomicity of git update-ref: outside the model",
        ],
        "assumptions": ["annotation targets are entries that exist before the writers start"],
    },
    "C05": {
        "propfile": "PropC05.v",
        "n": {"quick": 800, "thorough": 20000},
        "corr": "policy.SignatureVerifier.Verify (+ dsse.VerifyEnvelope, gitobject.Verify) vs verify (Sig.v)",
        "rule": "rules over 0-4 principals (single keys and multi-key persons, 1-2 of 6 real ed25519 keys each; one third with "
                "shared keys; occasionally duplicate principal ids), thresholds -1..5, exhaustive flag, Git object in {none, signed by "
                "pool key, unsigned, signature lifted from other content}, envelope absent or with 0-4 real DSSE signatures "
                "(trusted/foreign signer, over this or another payload, key-id hint correct/empty/wrong, garbage, repeated). "
                "SignatureVerifier built through an export shim with the principals in a chosen order. non-trivial = >=2 valid "
                "signatures or a shared key",
        "theorems": ["C05_sound", "C05_degenerate", "C05_exact_for_single_key_principals", "C05_object_signature_adds_its_holder"],
        "trusted": [
            "symbolic cryptography: a signature verifies iff made by that key over exactly that content (unforgeability, ssh/sshsig "
            "libraries assumed)",
            "provider key ids within one principal are distinct (the removeIndex aliasing of the vendored dsse verifier is not modelled)",
            "exactness for disjoint keys is evaluated by the check (must_accept) but not yet proved",
            "Go map iteration order: the harness fixes the principal order; Person.Keys() order is irrelevant for distinct keys",
        ],
        "assumptions": ["ssh keys only (gpg / sigstore verification paths are not exercised)"],
    },
    "C06": {
        "propfile": "PropC06.v",
        "n": {"quick": 1200, "thorough": 30000},
        "corr": "policy.State.FindVerifiersForPath (and tuf Delegation.Matches / fnmatch) vs find_verifiers (Walk.v)",
        "rule": "delegation graphs of 1-4 rule files with 0-3 rules each plus the allow rule; 16 pattern forms (literal, prefix glob, "
                "catch-all, '?', escapes, empty) over git:/file:; any terminating flags; person principals with 1-2 of 6 real keys; one "
                "quarter 'oddities': rules named like files (cycles, incl. 'targets'), duplicate rule names (diamonds), principal ids "
                "redefined by another file, files without allow rule, no top-level file; one directed K7 case. Each policy is queried "
                "with 8 covering paths. State objects are hand-built (metadata JSON in DSSE envelopes). non-trivial = >=2 rule files",
        "theorems": ["C06_terminates", "C06_sound", "C06_own_principals_refuted", "C06_top_level_match_is_protected", "C06_complete_without_terminating_rules", "C06_reachable_match_is_protected"],
        "trusted": [
            "fnmatch is modelled for ASCII patterns without '[' (flags 0); bracket expressions are outside the model (the library "
            "panics on some of them, e.g. '[\u00e9' - observation)",
            "completeness (reached => consulted) is proved for policies without terminating rules "
            "(C06_complete_without_terminating_rules); with terminating rules the set equality consulted = reached is "
            "evaluated on every case by an independent recursive descent, not proved",
            "ListRules is not exercised yet (needs a loaded policy state)",
        ],
        "assumptions": ["Go map iteration order is irrelevant to the observables compared (principal lists are sorted)"],
    },
    "C13": {
        "propfile": "PropC13.v",
        "n": {"quick": 600, "thorough": 20000},
        "corr": "tufv02 (and tufv01) TargetsMetadata / RootMetadata mutators vs tstep / rstep (Meta.v)",
        "rule": "one eighth: a policy state with 1-3 rule files (primary + delegated, names mostly fresh, sometimes repeated across files) is "
                "recorded and loaded (LoadCurrentState); loading must refuse exactly the states with a repeated rule name and State.HasRuleName "
                "(what AddDelegation consults) must answer exactly; five eighths rule-file cases (half of them mostly valid: a prelude defines "
                "principals and several live rules, removals frequent): 1-14 edits from {AddPrincipal, AddRule, UpdateRule, RemoveRule, ReorderRules, RemovePrincipal, "
                "UpdatePrincipal} with arbitrary arguments (reserved and empty names, undefined/empty/duplicate principal ids, thresholds "
                "-1..3, permutations/extra/missing names for reorder); one quarter root cases: 1-12 edits from {Add/Delete root and "
                "primary-rule-file principals, threshold updates}. Each edit runs on a v02 and a v01 object; after every edit the v02 object "
                "is dumped through the query interface. At the end both objects are serialised+reloaded and the v01 object migrated; "
                "dumps and rule matching must be identical. non-trivial = >=3 edits",
        "theorems": ["C13_rule_file_step", "C13_rule_file_sequences", "C13_root_step", "C13_root_sequences"],
        "trusted": [
            "encoding/json text layer; principals are abstracted to their ids (keys, identities and custom data are not modelled)",
            "global-rule, propagation, controller/network, hook and GitHub-app mutators and API-level rule-name uniqueness are not modelled",
        ],
        "assumptions": [],
    },
    "C01": {
        "propfile": "PropC01.v",
        "n": {"quick": 480, "thorough": 12000},
        "corr": "policy.PolicyVerifier.VerifyRefFull / VerifyRef / VerifyRefFromEntry vs verify_full / verify_latest / verify_from (World.v); VerifyRefFull of tag references vs Tags.verify_full_tags",
        "rule": 'a fifth of the cases: a tag reference with 1-3 recorded entries (annotated tag objects, or commits for lightweight tags; signed by an authorised principal, another developer or nobody), a rule over refs/tags/* or the tag with threshold 1-3, approvals for tags by subsets of the principals (half of the cases well formed except possibly the last entry), the tag reference moved or not, verified in full. A quarter of the rest: the incident grammar (good pushes, changes of authority, incidents with notes and skip annotations in either order, policy or attestation entries inside the window, fixes to the last / an older / no good state, revoked fixes). The rest: profile C01 (general histories) + directed replays of K1 and K5. generated worlds in an in-memory Storer with real ed25519 signatures: an initial policy (root key(s), primary rule file with 2-4 developers, 1-3 rules incl. thresholds 1-3, optionally one delegated rule file, optionally global rules), then 4-21 events from: pushes to main/feature/other signed by authorised / unauthorised / admin / no key (12% force pushes, 10% tree-reusing commits), approvals (reference authorizations signed by subsets of developers, some for other changes or stored at other paths) followed by the push, policy updates (valid evolutions: rule changes, root rotation, threshold raises, global rules added/dropped; one third forbidden ones: unsigned / wrongly signed root, forged or rolled-back rule files, dropped or dangling delegated files, self-signed replacement root), skip annotations (mostly on violating pushes), fix pushes (tree-same as the last good state), staging and propagation entries. Each world is verified in full for main and feature, latest-only for main and from a random earlier entry. non-trivial = >=2 policy states or a rejected verification',
        "theorems": ['C01_sound', 'C01_K1_propagation_entries_unverified', 'C01_K5_fix_entry_unverified', 'C01_tag_entries_all_verified', 'C01_tag_entry_meaning'],
        "trusted": ["symbolic cryptography; developers' keys are disjoint from root/primary-rule-file keys and from each other in generated worlds (shared keys make the Go map iteration order observable)", 'the harness world builder writes policy and attestation commits directly (bypassing Apply, which would refuse the forbidden states) and the in-memory Storer', 'tag references are modelled for histories of one policy state without global rules (Tags.v); not modelled here: file rules (C10), code-review approvals (C09), controller repositories, the persistent cache (C08), hooks', 'error kinds are compared for correspondence; the property is decided on accept/reject and the tip'],
        "assumptions": [],
    },
    "C02": {
        "propfile": "PropC02.v",
        "n": {"quick": 800, "thorough": 12000},
        "corr": "policy.PolicyVerifier.VerifyRefFull / VerifyRef / VerifyRefFromEntry vs verify_full / verify_latest / verify_from (World.v)",
        "rule": 'profile C02 (every policy update may be one of the 9 forbidden mutations). generated worlds in an in-memory Storer with real ed25519 signatures: an initial policy (root key(s), primary rule file with 2-4 developers, 1-3 rules incl. thresholds 1-3, optionally one delegated rule file, optionally global rules), then 4-21 events from: pushes to main/feature/other signed by authorised / unauthorised / admin / no key (12% force pushes, 10% tree-reusing commits), approvals (reference authorizations signed by subsets of developers, some for other changes or stored at other paths) followed by the push, policy updates (valid evolutions: rule changes, root rotation, threshold raises, global rules added/dropped; one third forbidden ones: unsigned / wrongly signed root, forged or rolled-back rule files, dropped or dangling delegated files, self-signed replacement root), skip annotations (mostly on violating pushes), fix pushes (tree-same as the last good state), staging and propagation entries. Each world is verified in full for main and feature, latest-only for main and from a random earlier entry. non-trivial = >=2 policy states or a rejected verification',
        "theorems": ['C02_load_state_chain', 'C02_link', 'C02_initial_policy', 'C02_modes_share_the_loop'],
        "trusted": ["symbolic cryptography; developers' keys are disjoint from root/primary-rule-file keys and from each other in generated worlds (shared keys make the Go map iteration order observable)", 'the harness world builder writes policy and attestation commits directly (bypassing Apply, which would refuse the forbidden states) and the in-memory Storer', 'not modelled: tags, file rules (C10), code-review approvals, the verification of declared controller repositories (inherited global rules are modelled from the controller metadata copies in the policy tree), the persistent cache (C08), hooks', 'error kinds are compared for correspondence; the property is decided on accept/reject and the tip'],
        "assumptions": [],
    },
    "C07": {
        "propfile": "PropC07.v",
        "n": {"quick": 400, "thorough": 10000},
        "corr": "policy.PolicyVerifier.VerifyRefFull / VerifyRef / VerifyRefFromEntry vs verify_full / verify_latest / verify_from (World.v)",
        "rule": 'profile C07 + directed replay of K5. generated worlds in an in-memory Storer with real ed25519 signatures: an initial policy (root key(s), primary rule file with 2-4 developers, 1-3 rules incl. thresholds 1-3, optionally one delegated rule file, optionally global rules), then 4-21 events from: pushes to main/feature/other signed by authorised / unauthorised / admin / no key (12% force pushes, 10% tree-reusing commits), approvals (reference authorizations signed by subsets of developers, some for other changes or stored at other paths) followed by the push, policy updates (valid evolutions: rule changes, root rotation, threshold raises, global rules added/dropped; one third forbidden ones: unsigned / wrongly signed root, forged or rolled-back rule files, dropped or dangling delegated files, self-signed replacement root), skip annotations (mostly on violating pushes), fix pushes (tree-same as the last good state), staging and propagation entries. Each world is verified in full for main and feature, latest-only for main and from a random earlier entry. non-trivial = >=2 policy states or a rejected verification',
        "theorems": ['C07_tolerated_only_if_recovered', 'C07_fix_search'],
        "trusted": ["symbolic cryptography; developers' keys are disjoint from root/primary-rule-file keys and from each other in generated worlds (shared keys make the Go map iteration order observable)", 'the harness world builder writes policy and attestation commits directly (bypassing Apply, which would refuse the forbidden states) and the in-memory Storer', 'not modelled: tags, file rules (C10), code-review approvals, the verification of declared controller repositories (inherited global rules are modelled from the controller metadata copies in the policy tree), the persistent cache (C08), hooks', 'error kinds are compared for correspondence; the property is decided on accept/reject and the tip'],
        "assumptions": [],
    },
    "C09": {
        "propfile": "PropC09.v",
        "n": {"quick": 1200, "thorough": 12000},
        "corr": "policy.PolicyVerifier.VerifyRefFull / VerifyRef / VerifyRefFromEntry vs verify_full / verify_latest / verify_from (World.v); "
                "VerifyRef on histories with code-review approval attestations vs Reviews.verify_latest_r, and accepted => justified by approvals "
                "that are exactly about the change (Reviews.latest_justified)",
        "rule": 'one third of the cases: a thr 1-3 branch rule over 1-4 persons who registered identities for one or two code-review apps (trusted or not), an optional reference authorization, one approval attestation per app listing 1-3 identities (registered, unregistered, claimed by several persons - though never by two persons of the rule under test, where the pick of the implementation follows the map order of Go), two thirds of them well formed, the others naming another tree / prior state / ref, stored under another change, signed by a developer, by the other app or by nobody; the push signed by a person, a stranger or nobody; verified latest-only. The rest: profile C09 (every approval may be misbound: other tree, other ref, other prior state, other path). generated worlds in an in-memory Storer with real ed25519 signatures: an initial policy (root key(s), primary rule file with 2-4 developers, 1-3 rules incl. thresholds 1-3, optionally one delegated rule file, optionally global rules), then 4-21 events from: pushes to main/feature/other signed by authorised / unauthorised / admin / no key (12% force pushes, 10% tree-reusing commits), approvals (reference authorizations signed by subsets of developers, some for other changes or stored at other paths) followed by the push, policy updates (valid evolutions: rule changes, root rotation, threshold raises, global rules added/dropped; one third forbidden ones: unsigned / wrongly signed root, forged or rolled-back rule files, dropped or dangling delegated files, self-signed replacement root), skip annotations (mostly on violating pushes), fix pushes (tree-same as the last good state), staging and propagation entries. Each world is verified in full for main and feature, latest-only for main and from a random earlier entry. non-trivial = >=2 policy states or a rejected verification',
        "theorems": ['C09_bound_to_exact_change', 'C09_misplaced_statement_rejected', 'C09_counted_once', 'C09_review_bound_to_exact_change', 'C09_review_credit_justified', 'C09_review_credit_once', 'C09_accepted_with_reviews'],
        "trusted": ["symbolic cryptography; developers' keys are disjoint from root/primary-rule-file keys and from each other in generated worlds (shared keys make the Go map iteration order observable)", 'the harness world builder writes policy and attestation commits directly (bypassing Apply, which would refuse the forbidden states) and the in-memory Storer', 'not modelled: tags, file rules (C10), dismissed approvers, controller repositories, the persistent cache (C08), hooks; code-review approvals are modelled for latest-only verification under policies without global rules (Reviews.v)', 'error kinds are compared for correspondence; the property is decided on accept/reject and the tip'],
        "assumptions": [],
    },
    "C11": {
        "propfile": "PropC11.v",
        "n": {"quick": 300, "thorough": 8000},
        "corr": "policy.PolicyVerifier.VerifyRefFull / VerifyRef / VerifyRefFromEntry vs verify_full / verify_latest / verify_from (World.v)",
        "rule": 'profile C11 (every policy carries global rules: 1-2 of its own and/or 0-2 per controller for 1-2 controller repositories whose metadata copies sit in the policy tree; threshold 1-3 / block-force-push over matching and non-matching patterns); every history is verified under P and under P minus its global rules and the pair is checked for monotonicity; a sixth of the cases are tag-reference histories (as in C01) verified as they are and under their policy plus 1-2 global rules, half of them ending in a fully approved entry for a tag object that nobody trusted signed; an eighth are histories of pushes under a branch rule plus a file rule (as in C10, in memory), again verified with and without added global rules. generated worlds in an in-memory Storer with real ed25519 signatures: an initial policy (root key(s), primary rule file with 2-4 developers, 1-3 rules incl. thresholds 1-3, optionally one delegated rule file, optionally global rules), then 4-21 events from: pushes to main/feature/other signed by authorised / unauthorised / admin / no key (12% force pushes, 10% tree-reusing commits), approvals (reference authorizations signed by subsets of developers, some for other changes or stored at other paths) followed by the push, policy updates (valid evolutions: rule changes, root rotation, threshold raises, global rules added/dropped; one third forbidden ones: unsigned / wrongly signed root, forged or rolled-back rule files, dropped or dangling delegated files, self-signed replacement root), skip annotations (mostly on violating pushes), fix pushes (tree-same as the last good state), staging and propagation entries. Each world is verified in full for main and feature, latest-only for main and from a random earlier entry. non-trivial = >=2 policy states or a rejected verification',
        "theorems": ['C11_globals_only_restrict', 'C11_inherited_globals_only_restrict', 'C11_history_level_refuted_K14'],
        "trusted": ["symbolic cryptography; developers' keys are disjoint from root/primary-rule-file keys and from each other in generated worlds (shared keys make the Go map iteration order observable)", 'the harness world builder writes policy and attestation commits directly (bypassing Apply, which would refuse the forbidden states) and the in-memory Storer', 'not modelled: tags, file rules (C10), code-review approvals, the verification of declared controller repositories (inherited global rules are modelled from the controller metadata copies in the policy tree), the persistent cache (C08), hooks', 'error kinds are compared for correspondence; the property is decided on accept/reject and the tip'],
        "assumptions": [],
    },
    "C16": {
        "propfile": "PropC16.v",
        "n": {"quick": 1, "thorough": 1},
        "corr": "mutating operations under a faulting gitstore.Storer wrapper vs fault_actions / crash_actions (StoreOps.v)",
        "rule": "EXHAUSTIVE over the storage-interface calls of 11 (operation, start state) pairs: record reference entry / annotation, "
                "State.Commit of staged policy (empty, established, staged-ahead), Attestations.Commit (empty, established, second), "
                "policy.Apply (first-ever, established), ReconcileStaging (policy ahead of staging); for every call index k the k-th call "
                "returns an error (fault) and, separately, the operation is abandoned right after it (crash). Afterwards refs and log are "
                "inspected through an independent walker, the operation is repeated without fault, and the sequence of mutating calls is "
                "compared with the model's prediction. A fault the operation absorbs with the complete result (optional reads such as "
                "loading the cache) is not judged. non-trivial: every case",
        "theorems": ["C16_fault", "C16_rerun", "C16_crash"],
        "trusted": [
            "fault points are storage-INTERFACE calls on the harness's in-memory Storer; points inside gitinterface.Repository methods "
            "(between git subprocesses) are not enumerated",
            "ReconcileStaging is enumerated for policy strictly ahead of staging and for diverged refs (no controller metadata in either); hooks and the experimental/gittuf API wrappers are not enumerated",
        ],
        "assumptions": ["a single failure per operation; the compensation itself does not fail"],
    },
    "C12": {
        "propfile": "PropC12.v",
        "n": {"quick": 400, "thorough": 8000},
        "corr": "policy.State.Commit (staging) / policy.Apply / policy.Discard / direct ref tampering vs astep (ApplyModel.v); gittuf.Repository root mutators + Apply vs api_step (RootApi.v)",
        "rule": "sequences of 2-10 operations on an in-memory Storer: stage a policy state (valid successor, or one of the forbidden "
                "ones: self-signed replacement root, unsigned/wrongly signed root, forged or rolled-back rule file, dropped/dangling "
                "delegated file; one staging in six carries metadata of a declared controller repository that cannot be verified - "
                "nothing at its location, or a real controller repository that no propagation entry vouches for), Apply, Discard, set refs/gittuf/policy or policy-staging directly to an earlier staged commit. After "
                "every operation: error, both refs, the policy/staging entries of the log (independent walker) and whether "
                "LoadCurrentState(policy) succeeds. non-trivial = >=4 operations. One case in forty (at least 8) is an API sequence on a real "
                "repository: 4-9 calls of AddRootKey / RemoveRootKey / UpdateRootThreshold(0..3) / SignRoot by keys 1,3,5 (root candidates) or 6 "
                "(never a root key), interleaved with Apply; after every call the staged root (role keys, threshold, version, signature key ids), "
                "policy==staging and LoadCurrentState(policy) are read back; one API case in three ends with InitializeRoot (real ssh-keygen signer) by a root key "
                "or an outsider, half of the time after the staging reference was deleted",
        "theorems": ["C12_apply", "C12_refused", "C12_discard", "C12_published_always_loadable", "C12_api_edit_needs_root_signer",
                     "C12_api_outsider_refused", "C12_api_reinit_refused", "C12_api_published_always_loadable"],
        "trusted": [
            "sequences in which staging diverges from policy (ReconcileStaging rewrites history) are skipped and counted",
            "the experimental/gittuf API guard is exercised for the root-role mutators only (rule-file, hook, app, global-rule mutators are not called)",
            "the controller part of State.Verify is an input flag of the model (pc_ctl_ok); only its failing outcomes are generated",
        ],
        "assumptions": [],
    },
    "C08": {
        "propfile": "PropC08.v",
        "n": {"quick": 160, "thorough": 3000},
        "corr": "verdict equality of VerifyRefFull / VerifyRef across persistent-cache configurations (metamorphic) ; cache index lookups vs scans (Cache.v)",
        "rule": "histories as in C01 (principals share no keys), each verified (main full, main latest-only, feature full) with: no cache; "
                "cache freshly populated (PopulatePersistentCache) - first run; repeated and reordered runs on the advanced cache / "
                "checkpoints; no cache, repeated; cache populated at two random earlier lengths k of the log. All verdicts and tips are "
                "compared with the no-cache ones, and the full ref listing except the cache ref before/after. non-trivial = a rejecting "
                "verdict or a history longer than 8 entries",
        "theorems": ["C08_index_is_sorted_set", "C08_complete_cache_equiv", "C08_lookup_is_scan"],
        "trusted": [
            "the equivalence for whole verifications is a metamorphic check on the implementation, not a theorem (partial)",
            "VerifyRefFromEntry / VerifyMergeable are not run under cache configurations",
        ],
        "assumptions": [],
    },
    "C19": {
        "propfile": "PropC19.v",
        "n": {"quick": 120, "thorough": 2000},
        "corr": "(needs-signature, error) of PolicyVerifier.VerifyMergeable vs Mergeable.verify_mergeable; VerifyRefFull after the merge is recorded "
                "by each candidate recorder vs World.verify_full; and, on the implementation's own answers, the three-way agreement clause of the property",
        "rule": "policy: rule protect-main over a random subset of 4 single-key principals with threshold 1..3, in a quarter of the cases a global "
                "threshold rule (k 1..3; pattern main, nomatch or *); history: main pushed under a first policy, then the policy under test, a feature "
                "branch of 1-3 commits on main's tip; approvals: an authorization for (main, from=main's tip, to=tree of the merge) signed by 0-3 of "
                "{4 rule/other principal keys, root key}, sometimes for a different tree, sometimes absent; the merge is recorded as the feature tip "
                "(fast-forward) or as a merge commit carrying the predicted tree, by each of 6 recorders (keys 4..7, root key, unsigned) on a fresh "
                "copy of the history. A quarter of the cases add a file rule (src/*, *, or an odd-named path) and feature commits that touch "
                "protected and unprotected paths and are signed by authorised, unauthorised, unknown keys or nobody. Every case is non-trivial "
                "(each runs VerifyMergeable and 6 verifications)",
        "theorems": ["C19_prediction_meaning", "C19_outsider_changes_nothing", "C19_unsigned_is_outsider", "C19_unauthorised_is_outsider",
                     "C19_refuted_no_approvals_never_possible", "C19_refuted_threshold_one_verifies", "C19_refuted_K6", "C19_refuted_K9",
                     "C19_refuted_shared_keys", "C19_uncounted_authorised_recorder_verifies", "C19_counted_recorder_gains_nothing",
                     "C19_approvals_alone"],
        "trusted": [
            "partial: the 'signature needed' clause is proved at the verifier for principals holding one key each (shared keys: refuted); the lift "
            "of the verifier-level theorems through the verification loop and the global-rule reduction are evaluated per case on the "
            "implementation's answers (c19_check), not proved",
            "file rules are generated in a quarter of the cases (one policy state, no global rules: FileRules.verify_full_files); code-review approvals, "
            "non-fast-forward three-way merges (GetMergeTree on diverged branches) and experimental/gittuf's Repository.VerifyMergeable wrapper "
            "(WithBypassRSLForFeatureRef) are not exercised",
            "principals sharing keys are excluded from the histories (State.allPrincipals lists principals in map order); the shared-key refutation is a verifier-level theorem tied by the C05 correspondence",
        ],
        "assumptions": ["the branch's previous entry is unskipped and no policy or attestation entry is recorded between prediction and merge (as the property states)"],
    },
    "C10": {
        "propfile": "PropC10.v",
        "n": {"quick": 30, "thorough": 300},
        "corr": "pkg/gitinterface GetFilePathsChangedByCommit / GetAllFilesInTree / GetEntriesInTree / TreeBuilder.WriteTreeFromEntries on real "
                "repositories (git binary) vs the trees as written, raw `git ls-tree -z` output vs GitFormat.print_lstree_z, GitFormat.parse_lstree_z "
                "on that raw output vs what gitinterface returned; VerifyRefFull (path and commit enumeration through the real gitinterface) vs "
                "FileRules.verify_full_files; and, on the implementation's answers, that an accepted history has every protected changed path covered",
        "rule": "3-7 commits (root commits, single-parent, merges incl. merges identical to their last parent) whose trees hold 1-3-component paths "
                "over 28 components incl. space, leading/trailing blank, tab, CR, double quote, backslash, 0x01, 0x7f, 2- and 3-byte UTF-8, * ? [ ] { } "
                "# ~ ' :; commits signed by 4 authorised keys, an unknown key or unsigned; policy: 1-3 file rules (exact odd path, dir/*, *, *suffix; "
                "1-3 principals, threshold 1-2, sometimes terminating) next to a permissive branch rule; 1-3 pushes to main with distinct trees, a "
                "third preceded by approvals. Objects are written by the harness as loose objects into a real bare repository. non-trivial = the "
                "history contains at least one odd path (blank, quote, backslash, control, non-ASCII or glob metacharacter)",
        "theorems": ["C10_names_verbatim", "C10_tree_listing_verbatim", "C10_tree_rewrite_verbatim", "C10_changed_paths_complete",
                     "C10_accepted_entry_covers_every_path"],
        "trusted": [
            "git's -z output format and mktree -z input format are modelled (GitFormat.v); each run compares the print model with raw git output and re-reads rewritten trees",
            "paths containing newline or NUL, non-UTF-8 path bytes in rule patterns, submodule/symlink/executable entries and global rules over file paths are not generated",
            "verify_full_files composes World.verify_full with the per-entry file check for histories of the generated shape (one policy, no annotations, distinct trees per ref)",
            "Covered speaks of verifier names (the already-verified shortcut); uniqueness of rule names in a loaded policy is the loader's check, not proved here",
        ],
        "assumptions": ["the git binary on PATH implements ls-tree/diff-tree/mktree -z as documented"],
    },
    "C18": {
        "propfile": "PropC18.v",
        "n": {"quick": 30, "thorough": 300},
        "corr": "internal/propagation.PropagateChangesFromUpstreamRepository on pairs of real repositories, repeated 1-3 times, vs "
                "Propagate.repeat_propagate: error/ok, the downstream tree (read with `git ls-tree -r -z`, parsed by the harness), commits made, "
                "propagation entries (ref, tree of the commit named, upstream location, upstream entry); and, on the implementation's answers, the "
                "clauses of the property (outside paths unchanged, path = upstream subtree, entry names, repetitions change nothing)",
        "rule": "upstream: two commits with nested odd-named paths incl. metadata/ and 'sub dir/'; upstream log in one of 5 states (one entry, updated, "
                "latest skipped, all skipped, none for the ref); 1-2 directives with upstream path in {'', metadata, 'sub dir', 'sub dir/', missing} "
                "and downstream path in {d, d/, 'a b/c', e-acute, 'vendor/up stream', q\"x, foo} (not prefixes of one another); downstream tree with "
                "content below the path (or a regular file at it) and look-alike siblings '<path>bar/', '<path> x/'; downstream already holding "
                "the upstream objects or not (graft vs rebuild). non-trivial = some directive finds an upstream entry",
        "theorems": ["C18_path_holds_upstream_subtree", "C18_subtree_is_exactly_upstream", "C18_other_paths_unchanged", "C18_step_effect",
                     "C18_idempotent", "C18_any_number_of_repetitions"],
        "trusted": [
            "trees are modelled flat (full path -> blob, regular files); file modes (the rebuild writes 100644), symlinks, submodules and empty upstream trees are not generated",
            "idempotence is proved per directive; several directives whose downstream paths are prefixes of one another are not generated",
            "upstream and downstream gittuf refs are assumed synced, as PropagateChangesFromUpstreamRepository itself assumes",
        ],
        "assumptions": ["equal git tree ids are taken to mean equal flat contents (canonical trees of regular files)"],
    },
    "C15": {
        "propfile": "PropC15.v",
        "n": {"quick": 24, "thorough": 200},
        "corr": "experimental/gittuf ReconcileLocalRSLWithRemote and sync on pairs of real repositories (local with remote 'origin') vs "
                "Reconcile.reconcile / Reconcile.sync: error kind, the local log afterwards (independent walker; annotations as positions), local "
                "and remote refs, the remote log, the diverged-refs list; and, on the implementation's answers, the clauses of the property",
        "rule": "a shared recorded prefix of 2-4 entries, then a shape in {diverged on disjoint refs (x2), diverged on overlapping refs, remote "
                "ahead, local ahead, equal}; suffixes of 1-4 entries: reference entries (3 branches, new commits), propagation entries, annotations "
                "(skip 3 in 4) of own-side-only or shared entries, 1-2 references each; for sync with an unchanged local log the local branches are "
                "put behind / at / ahead of / diverged from the remote tip or deleted, overwrite flag 1 in 3. non-trivial = shape is not 'equal'",
        "theorems": ["C15_reconcile_extends_remote_keeps_local", "C15_revocations_follow_rerecorded_entries", "C15_shared_revocations_merged",
                     "C15_conflict_iff_same_reference", "C15_sync_moves_only_to_recorded_state", "C15_sync_divergence_changes_nothing",
                     "C15_sync_publishes_refs_with_entries"],
        "trusted": [
            "logs are modelled positionally (an entry is its position, annotations name positions); entry ids, numbering and signatures are those of C03/C04/C14",
            "git fetch/push (fast-forward-only refspecs) are observed, not modelled: pushes that git would reject (non-fast-forward remote refs) are not generated",
            "Sync's propagation step (needs a policy) is not run: the check calls sync, the part of Sync that touches the log and refs; tags and gittuf:// transports are not generated",
        ],
        "assumptions": ["annotations refer only to earlier entries of their own log (targets_below), as entry ids being commit hashes guarantees"],
    },
    "C20": {
        "propfile": "PropC20.v",
        "n": {"quick": 1, "thorough": 1},
        "corr": "the live sandbox's environment graph, walked from Go through tables, keys, metatables, __index chains, function environments, upvalues, "
                "constants, userdata and the string metatable, every Go function named by its symbol, is regenerated on every run and checked by "
                "Sandbox.sandbox_ok; escape-attempt, library-write, non-termination and exit-code scripts run in the real sandbox; "
                "InvokeHooksForStage on real repositories vs Sandbox.select_hooks",
        "rule": "1 graph case (about 100 nodes); escape attempts: 12 accessors (global name, getfenv at 6 places, environment of a fresh function, "
                "string method / member, setfenv) x 5 wrappers (plain, pcall, xpcall, coroutine.wrap, coroutine.resume) x 17 forbidden names (3 for "
                "string members): each reports whether it obtained a non-nil value; 30 attempts to modify a library table (5 members x 6 routes); "
                "11 non-terminating scripts under a 1 s timeout (bound: timeout + 8 s); 13 exit-code scripts; 12 policies with 1-4 pre-commit hooks over "
                "4 principals (and an undefined one), run through InvokeHooksForStage on a real repository for a random signer (4 principals' keys, a "
                "root key, an unknown key): which hooks ran, with which exit codes. Every case non-trivial",
        "theorems": ["C20_confinement", "C20_closure_contains_every_path", "C20_sandbox_confines_every_program", "C20_library_tables_out_of_reach",
                     "C20_timeout_partial", "C20_timeout_refuted", "C20_non_number_is_failure", "C20_selected_hooks_are_assigned"],
        "trusted": [
            "the edge relation (what a script can obtain from a held value) is a reading of gopher-lua: fields, __index chains, environments, upvalues and constants over-approximated as obtainable; results of allow-listed functions are assumed to be data, fresh objects or values reachable from their arguments - validated only by the escape scripts",
            "the allow-list names gopher-lua and gittuf API functions by Go symbol (API closures by '.api<Name>.func'); a renamed function is reported as not allow-listed",
            "timeouts: partial - the model has atomic steps; the unconditional bound is refuted (K4). Wall-clock measurement with 8 s slack",
            "hook selection: principals share no keys in the generated policies (State.GetAllPrincipals is a map, the last principal holding the key wins)",
        ],
        "assumptions": ["a fresh LuaEnvironment is created per script (as InvokeHooksForStage does)"],
        "exhaustive": True,
    },
}
